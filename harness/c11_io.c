/* C10/C11 correspondence harness.  Reads one module-set description per input line, builds it
   through the public MIR API of the CURRENT /repo tree and observes the two writers/readers:

     T0  = MIR_output text of the freshly built context
     W1  = bytes of MIR_write_with_func, W2 = bytes of a second MIR_write_with_func (the stack is
           filled with a different pattern before each call, so that serialised uninitialised
           memory shows up as a difference)
     RB  = MIR_read_with_func (W1) into a fresh context; T1 = its MIR_output text; RW = bytes of
           MIR_write_with_func of that context ('=' when equal to W1)
     WF  = '=' when MIR_write (FILE*) gives the bytes W1; RM/TM = every module written on its own with
           MIR_write_module and read with MIR_read (FILE*) into one context: ok / its text ('=' when T0)
     SC  = MIR_scan_string (T0) into a fresh context; T2 = its MIR_output text
     SC2 = MIR_scan_string (T2) into a fresh context; T3 = its MIR_output text
     X0/X1/X2 = result of loading + linking (interpreter interface) each of the three contexts
           and interpreting function "main" (no args, one i64 result) when the case asks for it

   Every case runs in a forked child so a crash of the library is reported, not fatal.  The MIR
   error function longjmps, so a rejected round trip is a reported outcome.
   Compile with -DMIR_NO_BIN_COMPRESSION (together with the library) to see the raw token bytes.

   Description language (statements separated by " ; ", fields by blanks; '-' = absent):
     module N | endmodule | import N | export N | forward N | bss N|- LEN
     data N|- TYPE V...         (ints decimal, f: x%08x, d: x%016x, ld: x%020x (80 bit))
     ref N|- ITEM DISP | lref N|- LAB LAB2|- DISP | expr N|- FUNC
     proto N VARARG T... T:ARG... T:ARG:SIZE...     func  (same) | endfunc
     local T N | global T N HARDREG | mklabels K | label N
     insn OPCODE OP...   OP = r:N i:DEC u:DEC f:HEX8 d:HEX16 ld:HEX20 l:N ref:N s:HEX
                              m:TYPE:DISP:BASE|-:INDEX|-:SCALE:ALIAS|-:NONALIAS|-
     exec                (ask for execution of "main")
     newctx              (between modules: the modules described so far are written with
                          MIR_write_with_func and a fresh context is started whose labels are numbered from 1
                          again; at the end every such segment is read into ONE context, which is then the
                          context under test - the way separately produced .bmir files are combined, and the
                          only way through the API to get modules with overlapping label numbers)
     an item name of the form .lc<N> (N = 1..2000, canonical decimal) is a reserved temporary item
     name: the harness obtains it the way c2m does, by calling _MIR_get_temp_item_name until the
     module's counter has reached N
   Additional observations:
     TN1/TR1, TN2/TR2 = module->last_temp_item_num of every module / func->last_temp_num of every
           function right after the binary read / the scan
     FR0/FR1/FR2 = at the very end: the next _MIR_get_temp_item_name of every module is not the name of
           an item of that module and _MIR_new_temp_reg works in every function (ok | clash:<name>)
     table               (print the insn table of the tree instead: code name nops modes)
   A line "rawscan HEX" instead of a description: MIR_scan_string on that text (RS = ok | ERR:...) */
#include <stdio.h>
#include <stdlib.h>
#include <string.h>
#include <stdint.h>
#include <stdarg.h>
#include <setjmp.h>
#include <unistd.h>
#include <signal.h>
#include <sys/wait.h>
#include <sys/resource.h>
#include "mir.h"

static jmp_buf err_jmp;
static char err_msg[400];
static const char *stage = "init";
/* every stage announces itself in the output (field @): after a crash the parent knows where it happened */
#define STAGE(s) do { stage = (s); fprintf (out, "|@=%s", stage); fflush (out); } while (0)

static void MIR_NO_RETURN err_func (MIR_error_type_t et, const char *format, ...) {
  va_list ap;
  char tmp[300];
  va_start (ap, format);
  vsnprintf (tmp, sizeof (tmp), format, ap);
  va_end (ap);
  for (char *p = tmp; *p; p++)
    if (*p == '\n' || *p == '|' || *p == '\r') *p = ' ';
  snprintf (err_msg, sizeof (err_msg), "e%d:%s", (int) et, tmp);
  longjmp (err_jmp, 1);
}

/* ---------------------------------------------------------------- small utilities */
typedef struct { uint8_t *p; size_t n, cap; } buf_t;
static void buf_push (buf_t *b, uint8_t c) {
  if (b->n == b->cap) { b->cap = b->cap ? b->cap * 2 : 4096; b->p = realloc (b->p, b->cap); }
  b->p[b->n++] = c;
}
static void put_hex (FILE *f, const uint8_t *p, size_t n) {
  static const char d[] = "0123456789abcdef";
  for (size_t i = 0; i < n; i++) { fputc (d[p[i] >> 4], f); fputc (d[p[i] & 15], f); }
}
static int hexval (int c) { return c <= '9' ? c - '0' : (c | 32) - 'a' + 10; }

static buf_t wbuf;           /* writer target */
static buf_t *rbuf;          /* reader source */
static size_t rpos;
static int writer (MIR_context_t ctx, uint8_t b) { buf_push (&wbuf, b); return 1; }
static int reader (MIR_context_t ctx) { return rpos < rbuf->n ? rbuf->p[rpos++] : EOF; }

/* fill a large part of the stack below the caller with a pattern */
static void __attribute__ ((noinline)) dirty_stack (int pat) {
  volatile uint8_t a[48 * 1024];
  for (size_t i = 0; i < sizeof (a); i++) a[i] = (uint8_t) pat;
  __asm__ volatile ("" ::"r"(a) : "memory");
}

static char *text_of (MIR_context_t ctx, size_t *len) {
  char *p = NULL;
  FILE *f = open_memstream (&p, len);
  MIR_output (ctx, f);
  fclose (f);
  return p;
}

/* ---------------------------------------------------------------- structural dump through the API
   What a context IS (not how it prints): every item, signature, variable, insn and operand field read from the
   public structures, one element per line.  Not shown: what no writer can carry (scale of an index-less memory
   operand, size of a non-block argument), link-time and internal fields.  Numbers are hex without leading zeros
   (int64 as their 64-bit pattern). */
static const char *tname (MIR_type_t t) {
  static const char *nm[] = {"i8", "u8", "i16", "u16", "i32", "u32", "i64", "u64", "f", "d", "ld", "p"};
  static char buf[32];
  if (t >= MIR_T_I8 && t <= MIR_T_P) return nm[t - MIR_T_I8];
  if (t == MIR_T_RBLK) return "rblk";
  if (t == MIR_T_UNDEF) return "undef";
  if (t >= MIR_T_BLK && t < MIR_T_BLK + MIR_BLK_NUM) { snprintf (buf, sizeof (buf), "blk%d", (int) (t - MIR_T_BLK)); return buf; }
  snprintf (buf, sizeof (buf), "type%d", (int) t);
  return buf;
}
static int blk_like (MIR_type_t t) { return t == MIR_T_RBLK || (t >= MIR_T_BLK && t < MIR_T_BLK + MIR_BLK_NUM); }
static const char *nm_or_dash (const char *s) { return s == NULL ? "-" : s; }
static void put_ld_hex (FILE *f, const void *p) { /* the 80 significant bits of an x87 long double */
  uint64_t lo;
  uint16_t hi;
  memcpy (&lo, p, 8);
  memcpy (&hi, (const char *) p + 8, 2);
  if (hi != 0) fprintf (f, "%x%016llx", (unsigned) hi, (unsigned long long) lo);
  else fprintf (f, "%llx", (unsigned long long) lo);
}
static void dump_sig (FILE *f, MIR_context_t ctx, uint32_t nres, MIR_type_t *res, VARR (MIR_var_t) * vars, size_t nargs) {
  for (uint32_t i = 0; i < nres; i++) fprintf (f, " %s", tname (res[i]));
  for (size_t i = 0; i < nargs; i++) {
    MIR_var_t v = VARR_GET (MIR_var_t, vars, i);
    fprintf (f, " %s:%s", tname (v.type), nm_or_dash (v.name));
    if (blk_like (v.type)) fprintf (f, ":%llx", (unsigned long long) v.size);
  }
}
static void dump_op (FILE *f, MIR_context_t ctx, MIR_func_t func, MIR_op_t op) {
  switch (op.mode) {
  case MIR_OP_REG: fprintf (f, " r:%s", MIR_reg_name (ctx, op.u.reg, func)); break;
  case MIR_OP_INT: fprintf (f, " i:%llx", (unsigned long long) op.u.i); break;
  case MIR_OP_UINT: fprintf (f, " u:%llx", (unsigned long long) op.u.u); break;
  case MIR_OP_FLOAT: { uint32_t u; memcpy (&u, &op.u.f, 4); fprintf (f, " f:%x", (unsigned) u); break; }
  case MIR_OP_DOUBLE: { uint64_t u; memcpy (&u, &op.u.d, 8); fprintf (f, " d:%llx", (unsigned long long) u); break; }
  case MIR_OP_LDOUBLE: fprintf (f, " ld:"); put_ld_hex (f, &op.u.ld); break;
  case MIR_OP_REF: fprintf (f, " ref:%s", nm_or_dash (MIR_item_name (ctx, op.u.ref))); break;
  case MIR_OP_STR: fprintf (f, " s:"); put_hex (f, (const uint8_t *) op.u.str.s, op.u.str.len); break;
  case MIR_OP_LABEL: fprintf (f, " l:%lld", (long long) op.u.label->ops[0].u.i); break;
  case MIR_OP_MEM:
    fprintf (f, " m:%s:%llx:%s:%s:", tname (op.u.mem.type), (unsigned long long) op.u.mem.disp,
             op.u.mem.base != 0 ? MIR_reg_name (ctx, op.u.mem.base, func) : "-",
             op.u.mem.index != 0 ? MIR_reg_name (ctx, op.u.mem.index, func) : "-");
    if (op.u.mem.index != 0) fprintf (f, "%u", (unsigned) op.u.mem.scale); else fprintf (f, "-");
    fprintf (f, ":%s", op.u.mem.alias != 0 ? MIR_alias_name (ctx, op.u.mem.alias) : "-");
    fprintf (f, ":%s", op.u.mem.nonalias != 0 ? MIR_alias_name (ctx, op.u.mem.nonalias) : "-");
    break;
  default: fprintf (f, " mode%d", (int) op.mode); break;
  }
}
static char *struct_of (MIR_context_t ctx, size_t *len) {
  char *p = NULL;
  FILE *f = open_memstream (&p, len);
  for (MIR_module_t m = DLIST_HEAD (MIR_module_t, *MIR_get_module_list (ctx)); m != NULL; m = DLIST_NEXT (MIR_module_t, m)) {
    fprintf (f, "module %s\n", m->name);
    for (MIR_item_t it = DLIST_HEAD (MIR_item_t, m->items); it != NULL; it = DLIST_NEXT (MIR_item_t, it)) {
      switch (it->item_type) {
      case MIR_import_item: fprintf (f, "import %s\n", it->u.import_id); break;
      case MIR_export_item: fprintf (f, "export %s\n", it->u.export_id); break;
      case MIR_forward_item: fprintf (f, "forward %s\n", it->u.forward_id); break;
      case MIR_bss_item: fprintf (f, "bss %s %llx\n", nm_or_dash (it->u.bss->name), (unsigned long long) it->u.bss->len); break;
      case MIR_data_item: {
        MIR_data_t d = it->u.data;
        size_t sz = _MIR_type_size (ctx, d->el_type);
        fprintf (f, "data %s %s", nm_or_dash (d->name), tname (d->el_type));
        for (size_t i = 0; i < d->nel; i++) {
          fputc (' ', f);
          if (d->el_type == MIR_T_LD) {
            put_ld_hex (f, d->u.els + i * sz);
          } else {
            uint64_t u = 0;
            memcpy (&u, d->u.els + i * sz, sz > 8 ? 8 : sz);
            fprintf (f, "%llx", (unsigned long long) u);
          }
        }
        fputc ('\n', f);
        break;
      }
      case MIR_ref_data_item:
        fprintf (f, "ref %s %s %llx\n", nm_or_dash (it->u.ref_data->name), nm_or_dash (MIR_item_name (ctx, it->u.ref_data->ref_item)),
                 (unsigned long long) it->u.ref_data->disp);
        break;
      case MIR_lref_data_item: {
        MIR_lref_data_t l = it->u.lref_data;
        fprintf (f, "lref %s l:%lld ", nm_or_dash (l->name), (long long) l->label->ops[0].u.i);
        if (l->label2 != NULL) fprintf (f, "l:%lld", (long long) l->label2->ops[0].u.i); else fprintf (f, "-");
        fprintf (f, " %llx\n", (unsigned long long) l->disp);
        break;
      }
      case MIR_expr_data_item:
        fprintf (f, "expr %s %s\n", nm_or_dash (it->u.expr_data->name), nm_or_dash (MIR_item_name (ctx, it->u.expr_data->expr_item)));
        break;
      case MIR_proto_item: {
        MIR_proto_t pr = it->u.proto;
        fprintf (f, "proto %s %d", pr->name, pr->vararg_p != 0);
        dump_sig (f, ctx, pr->nres, pr->res_types, pr->args, VARR_LENGTH (MIR_var_t, pr->args));
        fputc ('\n', f);
        break;
      }
      case MIR_func_item: {
        MIR_func_t fn = it->u.func;
        fprintf (f, "func %s %d", fn->name, fn->vararg_p != 0);
        dump_sig (f, ctx, fn->nres, fn->res_types, fn->vars, fn->nargs);
        fputc ('\n', f);
        for (size_t i = fn->nargs; i < VARR_LENGTH (MIR_var_t, fn->vars); i++) {
          MIR_var_t v = VARR_GET (MIR_var_t, fn->vars, i);
          fprintf (f, "local %s %s\n", tname (v.type), v.name);
        }
        if (fn->global_vars != NULL)
          for (size_t i = 0; i < VARR_LENGTH (MIR_var_t, fn->global_vars); i++) {
            MIR_var_t v = VARR_GET (MIR_var_t, fn->global_vars, i);
            fprintf (f, "global %s %s %s\n", tname (v.type), v.name,
                     nm_or_dash (MIR_reg_hard_reg_name (ctx, MIR_reg (ctx, v.name, fn), fn)));
          }
        for (MIR_insn_t insn = DLIST_HEAD (MIR_insn_t, fn->insns); insn != NULL; insn = DLIST_NEXT (MIR_insn_t, insn)) {
          if (insn->code == MIR_LABEL) {
            fprintf (f, "label l:%lld\n", (long long) insn->ops[0].u.i);
            continue;
          }
          fprintf (f, "insn %s %u", MIR_insn_name (ctx, insn->code), (unsigned) insn->nops);
          for (size_t i = 0; i < insn->nops; i++) dump_op (f, ctx, fn, insn->ops[i]);
          fputc ('\n', f);
        }
        fprintf (f, "endfunc\n");
        break;
      }
      default: fprintf (f, "item%d\n", (int) it->item_type); break;
      }
    }
    fprintf (f, "endmodule\n");
  }
  fclose (f);
  return p;
}

/* label identity: every label a module refers to - label operands of insns (branches, switch, laddr, ...) and the
   labels of lref items - is an insn of the insn list of a function of that module (operands: of the function holding
   the insn; the two labels of an lref: of one function), and no two label insns of a function carry the same number.
   The text and the bytes name labels by number; loading, linking, interpreting and generating code use the object. */
static int label_identity (FILE *out, const char *tag, MIR_context_t ctx) {
  char msg[300];
  msg[0] = 0;
  for (MIR_module_t m = DLIST_HEAD (MIR_module_t, *MIR_get_module_list (ctx)); m != NULL && !msg[0]; m = DLIST_NEXT (MIR_module_t, m)) {
    size_t nl = 0, cap = 64;
    struct lab_own { MIR_insn_t lab; MIR_func_t fn; } *own = malloc (cap * sizeof (*own));
    for (MIR_item_t it = DLIST_HEAD (MIR_item_t, m->items); it != NULL; it = DLIST_NEXT (MIR_item_t, it)) {
      if (it->item_type != MIR_func_item) continue;
      size_t first = nl;
      for (MIR_insn_t insn = DLIST_HEAD (MIR_insn_t, it->u.func->insns); insn != NULL; insn = DLIST_NEXT (MIR_insn_t, insn)) {
        if (insn->code != MIR_LABEL) continue;
        for (size_t k = first; k < nl && !msg[0]; k++)
          if (own[k].lab->ops[0].u.i == insn->ops[0].u.i)
            snprintf (msg, sizeof (msg), "module %s func %s: two label insns with number %lld", m->name, it->u.func->name,
                      (long long) insn->ops[0].u.i);
        if (nl == cap) own = realloc (own, (cap *= 2) * sizeof (*own));
        own[nl].lab = insn;
        own[nl++].fn = it->u.func;
      }
    }
    for (MIR_item_t it = DLIST_HEAD (MIR_item_t, m->items); it != NULL && !msg[0]; it = DLIST_NEXT (MIR_item_t, it)) {
      if (it->item_type == MIR_lref_data_item) {
        MIR_lref_data_t l = it->u.lref_data;
        MIR_func_t f1 = NULL, f2 = NULL;
        for (size_t k = 0; k < nl; k++) {
          if (own[k].lab == l->label) f1 = own[k].fn;
          if (l->label2 != NULL && own[k].lab == l->label2) f2 = own[k].fn;
        }
        if (f1 == NULL || (l->label2 != NULL && f2 == NULL))
          snprintf (msg, sizeof (msg), "module %s lref %s: label l:%lld is not an insn of any function of the module", m->name,
                    nm_or_dash (l->name), (long long) (f1 == NULL ? l->label : l->label2)->ops[0].u.i);
        else if (l->label2 != NULL && f1 != f2)
          snprintf (msg, sizeof (msg), "module %s lref %s: labels of two functions", m->name, nm_or_dash (l->name));
      } else if (it->item_type == MIR_func_item) {
        size_t nth = 0;
        for (MIR_insn_t insn = DLIST_HEAD (MIR_insn_t, it->u.func->insns); insn != NULL && !msg[0]; insn = DLIST_NEXT (MIR_insn_t, insn), nth++) {
          if (insn->code == MIR_LABEL) continue;
          for (size_t i = 0; i < insn->nops && !msg[0]; i++) {
            if (insn->ops[i].mode != MIR_OP_LABEL) continue;
            int found = 0;
            for (size_t k = 0; k < nl && !found; k++) found = own[k].lab == insn->ops[i].u.label && own[k].fn == it->u.func;
            if (!found)
              snprintf (msg, sizeof (msg), "module %s func %s insn %lu (%s) operand %lu: label l:%lld is not an insn of the function",
                        m->name, it->u.func->name, (unsigned long) nth, MIR_insn_name (ctx, insn->code), (unsigned long) i,
                        (long long) insn->ops[i].u.label->ops[0].u.i);
          }
        }
      }
    }
    free (own);
  }
  for (char *q = msg; *q; q++) if (*q == '|' || *q == '\n') *q = '/';
  if (out != NULL) fprintf (out, "|LI%s=%s", tag, msg[0] ? msg : "ok");
  return msg[0] == 0;
}

/* ---------------------------------------------------------------- building from a description */
#define MAXTOK 4096
#define MAXLAB 100000
static MIR_label_t *labels;
static size_t nlabels;

static MIR_type_t parse_type (const char *s) {
  static const char *nm[] = {"i8", "u8", "i16", "u16", "i32", "u32", "i64", "u64", "f", "d", "ld", "p"};
  for (int i = 0; i < 12; i++)
    if (!strcmp (s, nm[i])) return (MIR_type_t) (MIR_T_I8 + i);
  if (!strncmp (s, "blk", 3)) return (MIR_type_t) (MIR_T_BLK + atoi (s + 3));
  if (!strcmp (s, "rblk")) return MIR_T_RBLK;
  if (!strcmp (s, "undef")) return MIR_T_UNDEF;
  fprintf (stderr, "harness: bad type %s\n", s);
  exit (3);
}

static MIR_insn_code_t parse_code (MIR_context_t ctx, const char *s) {
  for (int c = 0; c < MIR_INSN_BOUND; c++)
    if (!strcmp (MIR_insn_name (ctx, c), s)) return (MIR_insn_code_t) c;
  fprintf (stderr, "harness: bad opcode %s\n", s);
  exit (3);
}

static const char *opt_name (const char *s) { return strcmp (s, "-") == 0 ? NULL : s; }

static MIR_label_t get_label (long n) {
  if (n < 1 || (size_t) n > nlabels || labels[n - 1] == NULL) {
    fprintf (stderr, "harness: label %ld not made\n", n);
    exit (3);
  }
  return labels[n - 1];
}

static MIR_item_t find_item (MIR_context_t ctx, MIR_module_t m, const char *name) {
  MIR_item_t res = NULL;
  for (MIR_item_t it = DLIST_HEAD (MIR_item_t, m->items); it != NULL; it = DLIST_NEXT (MIR_item_t, it)) {
    const char *n = MIR_item_name (ctx, it);
    if (n != NULL && strcmp (n, name) == 0) {
      /* prefer the definition over export/forward, as item_tab_find does after replacement */
      if (res == NULL || res->item_type == MIR_export_item || res->item_type == MIR_forward_item
          || res->item_type == MIR_import_item)
        res = it;
    }
  }
  return res;
}

static long double ld_of_hex (const char *h) { /* 20 hex digits, most significant first */
  union { long double ld; uint8_t b[16]; } u;
  memset (&u, 0, sizeof (u));
  size_t n = strlen (h);
  for (size_t i = 0; i < 10 && 2 * i + 1 < n + 0; i++) {
    size_t pos = n - 2 * (i + 1);
    u.b[i] = (uint8_t) (hexval (h[pos]) * 16 + hexval (h[pos + 1]));
  }
  return u.ld;
}

static MIR_op_t parse_op (MIR_context_t ctx, MIR_module_t m, MIR_func_t func, char *s) {
  char *c = strchr (s, ':');
  if (c == NULL) { fprintf (stderr, "harness: bad op %s\n", s); exit (3); }
  *c++ = 0;
  if (!strcmp (s, "r")) return MIR_new_reg_op (ctx, MIR_reg (ctx, c, func));
  if (!strcmp (s, "i")) return MIR_new_int_op (ctx, (int64_t) strtoull (c, NULL, 10));
  if (!strcmp (s, "u")) return MIR_new_uint_op (ctx, strtoull (c, NULL, 10));
  if (!strcmp (s, "f")) {
    union { uint32_t u; float f; } u;
    u.u = (uint32_t) strtoul (c, NULL, 16);
    return MIR_new_float_op (ctx, u.f);
  }
  if (!strcmp (s, "d")) {
    union { uint64_t u; double d; } u;
    u.u = strtoull (c, NULL, 16);
    return MIR_new_double_op (ctx, u.d);
  }
  if (!strcmp (s, "ld")) return MIR_new_ldouble_op (ctx, ld_of_hex (c));
  if (!strcmp (s, "l")) return MIR_new_label_op (ctx, get_label (atol (c)));
  if (!strcmp (s, "ref")) {
    MIR_item_t it = find_item (ctx, m, c);
    if (it == NULL) { snprintf (err_msg, sizeof (err_msg), "harness:no item %s", c); longjmp (err_jmp, 1); }
    return MIR_new_ref_op (ctx, it);
  }
  if (!strcmp (s, "s")) {
    size_t n = strlen (c) / 2;
    char *p = malloc (n + 1);
    for (size_t i = 0; i < n; i++) p[i] = (char) (hexval (c[2 * i]) * 16 + hexval (c[2 * i + 1]));
    return MIR_new_str_op (ctx, (MIR_str_t){n, p});
  }
  if (!strcmp (s, "m")) {
    char *f[7];
    int k = 0;
    for (char *t = c; k < 7; k++) {
      f[k] = t;
      char *e = strchr (t, ':');
      if (e == NULL) { k++; break; }
      *e = 0;
      t = e + 1;
    }
    if (k != 7) { fprintf (stderr, "harness: bad mem op\n"); exit (3); }
    MIR_reg_t base = strcmp (f[2], "-") ? MIR_reg (ctx, f[2], func) : 0;
    MIR_reg_t index = strcmp (f[3], "-") ? MIR_reg (ctx, f[3], func) : 0;
    MIR_op_t op = MIR_new_mem_op (ctx, parse_type (f[0]), (MIR_disp_t) strtoull (f[1], NULL, 10), base, index,
                                  (MIR_scale_t) atoi (f[4]));
    if (strcmp (f[5], "-")) op.u.mem.alias = MIR_alias (ctx, f[5]);
    if (strcmp (f[6], "-")) op.u.mem.nonalias = MIR_alias (ctx, f[6]);
    return op;
  }
  fprintf (stderr, "harness: bad op kind %s\n", s);
  exit (3);
}


/* ---------------------------------------------------------------- segments (newctx) and reserved names */
#define MAXSEG 16
static buf_t segs[MAXSEG];
static int nsegs;
static const char *seg_stage; /* non-NULL while a segment is written / read: an error there is not an API rejection */

static void note_item_name (MIR_context_t ctx, MIR_module_t m, const char *name) {
  char buf[64];
  if (name == NULL || m == NULL || strncmp (name, ".lc", 3) != 0) return;
  const char *d = name + 3;
  size_t len = strlen (d);
  if (len == 0 || len > 4 || d[0] == '0') return;
  for (size_t i = 0; i < len; i++)
    if (d[i] < '0' || d[i] > '9') return;
  unsigned long n = strtoul (d, NULL, 10);
  if (n > 2000) return;
  while (m->last_temp_item_num < n) _MIR_get_temp_item_name (ctx, m, buf, sizeof (buf));
}

static void emit_counters (FILE *out, const char *tag, MIR_context_t ctx) {
  fprintf (out, "|TN%s=", tag);
  for (MIR_module_t m = DLIST_HEAD (MIR_module_t, *MIR_get_module_list (ctx)); m != NULL; m = DLIST_NEXT (MIR_module_t, m))
    fprintf (out, "%u,", (unsigned) m->last_temp_item_num);
  fprintf (out, "|TR%s=", tag);
  for (MIR_module_t m = DLIST_HEAD (MIR_module_t, *MIR_get_module_list (ctx)); m != NULL; m = DLIST_NEXT (MIR_module_t, m))
    for (MIR_item_t it = DLIST_HEAD (MIR_item_t, m->items); it != NULL; it = DLIST_NEXT (MIR_item_t, it))
      if (it->item_type == MIR_func_item) fprintf (out, "%u,", (unsigned) it->u.func->last_temp_num);
}

/* the next temporary names of the context are unused */
static void probe_fresh (FILE *out, const char *tag, MIR_context_t ctx) {
  char buf[64];
  if (setjmp (err_jmp)) {
    fprintf (out, "|FR%s=clash:%s", tag, err_msg);
    return;
  }
  for (MIR_module_t m = DLIST_HEAD (MIR_module_t, *MIR_get_module_list (ctx)); m != NULL; m = DLIST_NEXT (MIR_module_t, m)) {
    _MIR_get_temp_item_name (ctx, m, buf, sizeof (buf));
    for (MIR_item_t it = DLIST_HEAD (MIR_item_t, m->items); it != NULL; it = DLIST_NEXT (MIR_item_t, it)) {
      const char *n = MIR_item_name (ctx, it);
      if (n != NULL && strcmp (n, buf) == 0) {
        fprintf (out, "|FR%s=clash:%s", tag, buf);
        return;
      }
      if (it->item_type == MIR_func_item) {
        /* a clash with an existing register is a "Repeated reg declaration" error (caught above) */
        (void) _MIR_new_temp_reg (ctx, MIR_T_I64, it->u.func);
      }
    }
  }
  fprintf (out, "|FR%s=ok", tag);
}

/* what the separately built contexts print / are: the context that combines them must print / be the same */
static buf_t seg_text, seg_struct;
static void buf_add (buf_t *b, const char *p, size_t n) {
  for (size_t i = 0; i < n; i++) buf_push (b, (uint8_t) p[i]);
}

static int seg_li_bad; /* a separately built context (before it was written) has a label reference without its label insn */
static void seg_flush (MIR_context_t ctx) {
  if (nsegs >= MAXSEG) { fprintf (stderr, "harness: too many segments\n"); exit (3); }
  seg_stage = "segment-output";
  {
    size_t n;
    if (!label_identity (NULL, "", ctx)) seg_li_bad = 1;
    char *t = text_of (ctx, &n);
    buf_add (&seg_text, t, n);
    free (t);
    t = struct_of (ctx, &n);
    buf_add (&seg_struct, t, n);
    free (t);
  }
  seg_stage = "segment-write";
  memset (&wbuf, 0, sizeof (wbuf));
  MIR_write_with_func (ctx, writer);
  segs[nsegs++] = wbuf;
  memset (&wbuf, 0, sizeof (wbuf));
  seg_stage = NULL;
}

static int want_exec;

static MIR_context_t build (MIR_context_t ctx, char *desc) {
  MIR_module_t m = NULL;
  MIR_item_t func = NULL;
  char *stmt, *save1;
  /* split on ';' */
  for (stmt = strtok_r (desc, ";", &save1); stmt != NULL; stmt = strtok_r (NULL, ";", &save1)) {
    /* the token array grows with the statement (a data item may have several hundred thousand elements; a fixed
       array of MAXTOK entries used to cut such statements short without a word) */
    static char **tok = NULL;
    static size_t tok_cap = 0;
    int nt = 0;
    char *save2;
    for (char *t = strtok_r (stmt, " \t\r\n", &save2); t != NULL; t = strtok_r (NULL, " \t\r\n", &save2)) {
      if ((size_t) nt + 1 >= tok_cap) {
        tok_cap = tok_cap == 0 ? MAXTOK : tok_cap * 2;
        tok = realloc (tok, tok_cap * sizeof (char *));
        if (tok == NULL) exit (3);
      }
      tok[nt++] = t;
    }
    if (nt == 0) continue;
    const char *k = tok[0];
    if (!strcmp (k, "newctx")) {
      seg_flush (ctx);
      ctx = MIR_init ();
      MIR_set_error_func (ctx, err_func);
      memset (labels, 0, MAXLAB * sizeof (MIR_label_t));
      nlabels = 0;
    } else if (!strcmp (k, "module")) {
      m = MIR_new_module (ctx, tok[1]);
    } else if (!strcmp (k, "endmodule")) {
      MIR_finish_module (ctx);
      m = NULL;
    } else if (!strcmp (k, "import")) {
      note_item_name (ctx, m, tok[1]);
      MIR_new_import (ctx, tok[1]);
    } else if (!strcmp (k, "export")) {
      note_item_name (ctx, m, tok[1]);
      MIR_new_export (ctx, tok[1]);
    } else if (!strcmp (k, "forward")) {
      note_item_name (ctx, m, tok[1]);
      MIR_new_forward (ctx, tok[1]);
    } else if (!strcmp (k, "bss")) {
      note_item_name (ctx, m, opt_name (tok[1]));
      MIR_new_bss (ctx, opt_name (tok[1]), strtoull (tok[2], NULL, 10));
    } else if (!strcmp (k, "data")) {
      MIR_type_t t = parse_type (tok[2]);
      size_t nel = (size_t) nt - 3, sz = _MIR_type_size (ctx, t);
      uint8_t *els = calloc (nel ? nel : 1, 16);
      for (size_t i = 0; i < nel; i++) {
        const char *v = tok[3 + i];
        if (t == MIR_T_F) {
          uint32_t u = (uint32_t) strtoul (v + 1, NULL, 16);
          memcpy (els + i * sz, &u, 4);
        } else if (t == MIR_T_D) {
          uint64_t u = strtoull (v + 1, NULL, 16);
          memcpy (els + i * sz, &u, 8);
        } else if (t == MIR_T_LD) {
          long double ld = ld_of_hex (v + 1);
          memcpy (els + i * sz, &ld, 10); /* padding stays zero */
        } else {
          uint64_t u = strtoull (v, NULL, 10); /* strtoull accepts '-' and wraps */
          memcpy (els + i * sz, &u, sz);       /* little endian */
        }
      }
      note_item_name (ctx, m, opt_name (tok[1]));
      MIR_new_data (ctx, opt_name (tok[1]), t, nel, els);
      free (els);
    } else if (!strcmp (k, "ref")) {
      MIR_item_t it = find_item (ctx, m, tok[2]);
      if (it == NULL) { snprintf (err_msg, sizeof (err_msg), "harness:no item %s", tok[2]); longjmp (err_jmp, 1); }
      note_item_name (ctx, m, opt_name (tok[1]));
      MIR_new_ref_data (ctx, opt_name (tok[1]), it, (int64_t) strtoull (tok[3], NULL, 10));
    } else if (!strcmp (k, "lref")) {
      note_item_name (ctx, m, opt_name (tok[1]));
      MIR_new_lref_data (ctx, opt_name (tok[1]), get_label (atol (tok[2])),
                         strcmp (tok[3], "-") ? get_label (atol (tok[3])) : NULL, (int64_t) strtoull (tok[4], NULL, 10));
    } else if (!strcmp (k, "expr")) {
      MIR_item_t it = find_item (ctx, m, tok[2]);
      if (it == NULL) { snprintf (err_msg, sizeof (err_msg), "harness:no item %s", tok[2]); longjmp (err_jmp, 1); }
      note_item_name (ctx, m, opt_name (tok[1]));
      MIR_new_expr_data (ctx, opt_name (tok[1]), it);
    } else if (!strcmp (k, "proto") || !strcmp (k, "func")) {
      MIR_type_t res[64];
      MIR_var_t args[256];
      size_t nres = 0, nargs = 0;
      int vararg = atoi (tok[2]);
      for (int i = 3; i < nt; i++) {
        char *c = strchr (tok[i], ':');
        if (c == NULL) {
          res[nres++] = parse_type (tok[i]);
        } else {
          *c++ = 0;
          char *c2 = strchr (c, ':');
          args[nargs].size = 0;
          if (c2 != NULL) { *c2++ = 0; args[nargs].size = strtoull (c2, NULL, 10); }
          args[nargs].type = parse_type (tok[i]);
          args[nargs].name = c;
          nargs++;
        }
      }
      note_item_name (ctx, m, tok[1]);
      if (!strcmp (k, "proto")) {
        if (vararg) MIR_new_vararg_proto_arr (ctx, tok[1], nres, res, nargs, args);
        else MIR_new_proto_arr (ctx, tok[1], nres, res, nargs, args);
      } else {
        func = vararg ? MIR_new_vararg_func_arr (ctx, tok[1], nres, res, nargs, args)
                      : MIR_new_func_arr (ctx, tok[1], nres, res, nargs, args);
      }
    } else if (!strcmp (k, "endfunc")) {
      MIR_finish_func (ctx);
      func = NULL;
    } else if (!strcmp (k, "local")) {
      MIR_new_func_reg (ctx, func->u.func, parse_type (tok[1]), tok[2]);
    } else if (!strcmp (k, "global")) {
      MIR_new_global_func_reg (ctx, func->u.func, parse_type (tok[1]), tok[2], tok[3]);
    } else if (!strcmp (k, "mklabels")) {
      long n = atol (tok[1]);
      for (long i = 0; i < n; i++) {
        MIR_label_t l = MIR_new_label (ctx);
        if ((size_t) l->ops[0].u.i != nlabels + 1 || nlabels >= MAXLAB) {
          fprintf (stderr, "harness: label numbering assumption broken (%ld)\n", (long) l->ops[0].u.i);
          exit (3);
        }
        labels[nlabels++] = l;
      }
    } else if (!strcmp (k, "label")) {
      MIR_append_insn (ctx, func, get_label (atol (tok[1])));
    } else if (!strcmp (k, "insn")) {
      MIR_op_t *ops = malloc (sizeof (MIR_op_t) * (size_t) (nt + 1));
      MIR_insn_code_t code = parse_code (ctx, tok[1]);
      for (int i = 2; i < nt; i++) ops[i - 2] = parse_op (ctx, m, func->u.func, tok[i]);
      MIR_append_insn (ctx, func, MIR_new_insn_arr (ctx, code, (size_t) nt - 2, ops));
      free (ops);
    } else if (!strcmp (k, "exec")) {
      want_exec = 1;
    } else {
      fprintf (stderr, "harness: bad statement %s\n", k);
      exit (3);
    }
  }
  if (nsegs > 0) {
    seg_flush (ctx);
    ctx = MIR_init ();
    MIR_set_error_func (ctx, err_func);
    seg_stage = "segment-read";
    for (int i = 0; i < nsegs; i++) {
      rbuf = &segs[i];
      rpos = 0;
      MIR_read_with_func (ctx, reader);
    }
    seg_stage = NULL;
  }
  return ctx;
}

/* ---------------------------------------------------------------- execution */
static int64_t ext_mix (int64_t a, int64_t b) { return a * 1000003 + (b ^ (b >> 7)); }

static void exec_ctx (FILE *out, const char *tag, MIR_context_t ctx) {
  MIR_item_t main_item = NULL;
  if (setjmp (err_jmp)) {
    fprintf (out, "|%s=ERR:%s", tag, err_msg);
    return;
  }
  MIR_load_external (ctx, "ext_mix", ext_mix);
  for (MIR_module_t m = DLIST_HEAD (MIR_module_t, *MIR_get_module_list (ctx)); m != NULL;
       m = DLIST_NEXT (MIR_module_t, m)) {
    for (MIR_item_t it = DLIST_HEAD (MIR_item_t, m->items); it != NULL; it = DLIST_NEXT (MIR_item_t, it))
      if (it->item_type == MIR_func_item && strcmp (it->u.func->name, "main") == 0) main_item = it;
    MIR_load_module (ctx, m);
  }
  MIR_link (ctx, MIR_set_interp_interface, NULL);
  if (main_item == NULL) {
    fprintf (out, "|%s=linked", tag);
    return;
  }
  MIR_val_t v;
  v.i = 0;
  MIR_interp (ctx, main_item, &v, 0);
  fprintf (out, "|%s=%lld", tag, (long long) v.i);
}

/* ---------------------------------------------------------------- one case */
static void emit_text (FILE *out, const char *tag, const char *t, size_t n, const char *ref, size_t refn) {
  if (ref != NULL && n == refn && memcmp (t, ref, n) == 0) {
    fprintf (out, "|%s==", tag);
  } else {
    fprintf (out, "|%s=", tag);
    put_hex (out, (const uint8_t *) t, n);
  }
}

/* statics: they are live across setjmp/longjmp */
static MIR_context_t a, b, c, d;
static char *t0, *t1, *t2, *t3, *s0, *s1, *s2;
static size_t n0, n1, n2, n3, ns0, ns1, ns2;
static buf_t w1, w2, pw;
static int have_w1, rb_ok, sc_ok, have_pw;
static size_t nmods;
static MIR_module_t last_mod;
#define MAXMOD 16
static buf_t mod_img[MAXMOD];
static int buf_eq (const buf_t *x, const buf_t *y) { return x->n == y->n && (x->n == 0 || memcmp (x->p, y->p, x->n) == 0); }

/* ---------------------------------------------------------------- reads into USED contexts (round 3, seeded C11-u2)
   The round trip under test, MIR_read_with_func (W1), performed on ONE context that already has a history mixing the
   operations of the library in every order: s = MIR_scan_string (T0), S = MIR_scan_string of a fixed text whose items leave
   elements / strings / labels in the context-wide scratch areas, b = a module built through the API, r = MIR_read_with_func (W1),
   w = MIR_write_with_func (bytes dropped), o = MIR_output.  The modules the final read appends must print exactly as the
   context under test prints (T0); then the context is finished.  UR=ok | <history>:ERR:<msg> | <history>:<hex of the text>. */
static MIR_context_t u;
static const char *hist_text
  = "hs: module\nexport hf\nhp: proto i64, i64:a\nhb: bss 16\nhx: i32 100, 200\nhy: d 1.5, 2.5\nhf: func i64, i64:a\n"
    "local i64:r\nL1:\nadd r, a, 1\nbgt L1, r, 1000\nret r\nendfunc\nhz: u8 1, 2, 3, 4, 5\nendmodule\n";
static int dropper (MIR_context_t ctx, uint8_t b) { return 1; }
static void hist_op (int op) {
  switch (op) {
  case 's': MIR_scan_string (u, t0); break;
  case 'S': MIR_scan_string (u, hist_text); break;
  case 'r': rbuf = &w1; rpos = 0; MIR_read_with_func (u, reader); break;
  case 'w': MIR_write_with_func (u, dropper); break;
  case 'o': { size_t n; free (text_of (u, &n)); break; }
  case 'b': {
    int16_t v[3] = {-7, 8, 9};
    MIR_type_t rt = MIR_T_I64;
    MIR_item_t fi;
    MIR_new_module (u, "hbm");
    MIR_new_data (u, "q", MIR_T_I16, 3, v);
    MIR_new_string_data (u, "qs", (MIR_str_t){6, "hello"});
    MIR_new_bss (u, "qb", 24);
    fi = MIR_new_func (u, "hg", 1, &rt, 0);
    MIR_append_insn (u, fi, MIR_new_ret_insn (u, 1, MIR_new_int_op (u, 7)));
    MIR_finish_func (u);
    MIR_finish_module (u);
    break;
  }
  }
}
static char *text_of_last (MIR_context_t ctx, size_t k, size_t *len) {
  char *p = NULL;
  FILE *f = open_memstream (&p, len);
  DLIST (MIR_module_t) *l = MIR_get_module_list (ctx);
  size_t n = DLIST_LENGTH (MIR_module_t, *l), i = 0;
  for (MIR_module_t m = DLIST_HEAD (MIR_module_t, *l); m != NULL; m = DLIST_NEXT (MIR_module_t, m), i++)
    if (i + k >= n) MIR_output_module (ctx, f, m);
  fclose (f);
  return p;
}
/* labels L<n> renamed by first occurrence (the numbers depend on what the context did before) */
static char *canon_labels (const char *t, size_t n, size_t *len) {
  char *o = malloc (n * 2 + 16);
  static long seen[4096];
  size_t ns = 0, j = 0;
  for (size_t i = 0; i < n;) {
    if (t[i] == 'L' && i + 1 < n && t[i + 1] >= '0' && t[i + 1] <= '9'
        && (i == 0 || t[i - 1] == '\n' || t[i - 1] == '\t' || t[i - 1] == ' ' || t[i - 1] == ',')) {
      size_t e = i + 1, k;
      long v = 0;
      while (e < n && t[e] >= '0' && t[e] <= '9') v = v * 10 + (t[e++] - '0');
      if (e < n && (t[e] == '_' || (t[e] >= 'a' && t[e] <= 'z') || (t[e] >= 'A' && t[e] <= 'Z'))) {
        while (i < e) o[j++] = t[i++];
        continue;
      }
      for (k = 0; k < ns && seen[k] != v; k++)
        ;
      if (k == ns && ns < 4096) seen[ns++] = v;
      j += sprintf (o + j, "L#%zu", k + 1);
      i = e;
    } else
      o[j++] = t[i++];
  }
  *len = j;
  return o;
}
static const char *volatile hist_cur;
static volatile int hist_final, hist_run;
static char hist_hash[8];
static void used_read (FILE *out, const char *desc) {
  static const char *hists[] = {"S", "s", "b", "Sr", "rS", "bS", "Sb", "sw", "Swb", "rbS", "SoS", "bws", "Srw", hist_hash, NULL};
  static volatile int hi;
  static int bad, us_bad, big;
  uint32_t h = 2166136261u;
  size_t k = DLIST_LENGTH (MIR_module_t, *MIR_get_module_list (a));
  for (const char *p = desc; *p; p++) h = (h ^ (uint8_t) *p) * 16777619u;
  for (int i = 0, n = 3 + h % 4; i < n; i++, h /= 7) hist_hash[i] = "sSbrwo"[(h >> 3) % 6], hist_hash[i + 1] = 0;
  bad = us_bad = 0;
  hist_run = 0;
  big = strlen (desc) > 40000;
  for (hi = 0; hists[hi] != NULL && !bad; hi++) {
    if (big && hi >= 2 && hists[hi] != hist_hash) continue; /* a description of megabytes (buffer-size cases): three histories */
    hist_cur = hists[hi];
    hist_final = 0;
    u = MIR_init ();
    MIR_set_error_func (u, err_func);
    if (setjmp (err_jmp)) {
      if (!hist_final) continue; /* an operation of the history itself is refused (text the scanner rejects): not this check */
      if (hist_final == 2) {
        if (!us_bad) fprintf (out, "|US=%s:ERR:%s", hist_cur, err_msg);
        us_bad = 1;
        continue;
      }
      fprintf (out, "|UR=%s:ERR:%s", hist_cur, err_msg);
      bad = 1;
      continue;
    }
    for (const char *p = hist_cur; *p; p++) hist_op (*p);
    hist_final = 1;
    hist_op ('r');
    hist_run++;
    {
      size_t n;
      char *t = text_of_last (u, k, &n);
      if (n != n0 || memcmp (t, t0, n0) != 0) {
        fprintf (out, "|UR=%s:", hist_cur);
        put_hex (out, (const uint8_t *) t, n < 6000 ? n : 6000);
        bad = 1;
      }
      free (t);
    }
    if (!bad) {
      /* the modules just read, written one by one FROM the used context and read into a fresh one: T0 again */
      static MIR_context_t v;
      static buf_t img;
      DLIST (MIR_module_t) *l = MIR_get_module_list (u);
      size_t nm = DLIST_LENGTH (MIR_module_t, *l), i = 0, n;
      char *t;
      v = MIR_init ();
      MIR_set_error_func (v, err_func);
      for (MIR_module_t m = DLIST_HEAD (MIR_module_t, *l); m != NULL; m = DLIST_NEXT (MIR_module_t, m), i++)
        if (i + k >= nm) {
          memset (&wbuf, 0, sizeof (wbuf));
          MIR_write_module_with_func (u, writer, m);
          img = wbuf;
          rbuf = &img;
          rpos = 0;
          MIR_read_with_func (v, reader);
          free (img.p);
        }
      memset (&wbuf, 0, sizeof (wbuf));
      t = text_of (v, &n);
      if (n != n0 || memcmp (t, t0, n0) != 0) {
        fprintf (out, "|UR=%s+write:", hist_cur);
        put_hex (out, (const uint8_t *) t, n < 6000 ? n : 6000);
        bad = 1;
      }
      free (t);
      MIR_finish (v);
    }
    if (!bad && sc_ok && !us_bad) {
      /* the text round trip into the same used context (C10): the scanned modules print as the modules scanned into a
         fresh context do, up to the numbers the context gives to labels */
      size_t n, nc, nc2;
      char *t, *tc, *tc2;
      hist_final = 2;
      MIR_scan_string (u, t0);
      t = text_of_last (u, k, &n);
      tc = canon_labels (t, n, &nc);
      tc2 = canon_labels (t2, n2, &nc2);
      if (nc != nc2 || memcmp (tc, tc2, nc) != 0) {
        fprintf (out, "|US=%s:", hist_cur);
        put_hex (out, (const uint8_t *) t, n < 6000 ? n : 6000);
        us_bad = 1;
      }
      free (t), free (tc), free (tc2);
      hist_final = 1;
    }
    MIR_finish (u);
  }
  if (!bad) fprintf (out, "|UR=ok");
  if (sc_ok && !us_bad) fprintf (out, "|US=ok");
  fprintf (out, "|URN=%d", (int) hist_run);
}

/* "rawscan HEX": MIR_scan_string on arbitrary (possibly erroneous) text: an error list is fine, a crash is not */
static void run_rawscan (FILE *out, const char *hex) {
  size_t n = strlen (hex) / 2;
  char *text = malloc (n + 1);
  for (size_t i = 0; i < n; i++) text[i] = (char) (hexval (hex[2 * i]) * 16 + hexval (hex[2 * i + 1]));
  text[n] = 0;
  STAGE ("rawscan");
  c = MIR_init ();
  MIR_set_error_func (c, err_func);
  if (setjmp (err_jmp)) {
    fprintf (out, "|RS=ERR:%s", err_msg);
  } else {
    MIR_scan_string (c, text);
    fprintf (out, "|RS=ok");
    STAGE ("output-after-rawscan");
    t2 = text_of (c, &n2);
    emit_text (out, "T2", t2, n2, NULL, 0);
  }
  STAGE ("done");
}

static void run_case (FILE *out, char *desc) {
  if (strncmp (desc, "rawscan ", 8) == 0) {
    run_rawscan (out, desc + 8);
    return;
  }
  static char *desc_copy; /* build () cuts the description up */
  desc_copy = strdup (desc);
  t0 = t2 = s0 = NULL;
  n0 = n2 = ns0 = 0;
  have_w1 = rb_ok = sc_ok = 0;
  memset (&seg_text, 0, sizeof (seg_text));
  memset (&seg_struct, 0, sizeof (seg_struct));

  labels = calloc (MAXLAB, sizeof (MIR_label_t));
  nlabels = 0;
  want_exec = 0;
  stage = "build";
  a = MIR_init ();
  MIR_set_error_func (a, err_func);
  nsegs = 0;
  seg_li_bad = 0;
  seg_stage = NULL;
  if (setjmp (err_jmp)) {
    if (seg_stage != NULL)
      fprintf (out, "build=SEGERR:%s:%s", seg_stage, err_msg);
    else
      fprintf (out, "build=REJECT:%s", err_msg);
    return;
  }
  a = build (a, desc);
  fprintf (out, "build=ok");
  fflush (out);

  STAGE ("output");
  if (setjmp (err_jmp)) {
    fprintf (out, "|T0=ERR:%s", err_msg);
  } else {
    t0 = text_of (a, &n0);
    emit_text (out, "T0", t0, n0, NULL, 0);
    s0 = struct_of (a, &ns0);
    emit_text (out, "S0", s0, ns0, NULL, 0);
    label_identity (out, "0", a);
    if (nsegs > 0 && seg_li_bad) fprintf (out, "|LIS=described");
    if (nsegs > 0) {
      /* the context under test was put together by the binary reader from separately written modules */
      emit_text (out, "TS", (char *) seg_text.p, seg_text.n, t0, n0);
      emit_text (out, "SS", (char *) seg_struct.p, seg_struct.n, s0, ns0);
    }
  }
  fflush (out);

  /* one module written on its own BEFORE anything else is written from this context: the same module written again
     after other writes (stage file-io) must give these bytes */
  nmods = 0;
  last_mod = NULL;
  for (MIR_module_t m = DLIST_HEAD (MIR_module_t, *MIR_get_module_list (a)); m != NULL; m = DLIST_NEXT (MIR_module_t, m)) {
    nmods++;
    last_mod = m;
  }
  have_pw = 0;
  if (last_mod != NULL) {
    STAGE ("write-module-first");
    if (setjmp (err_jmp)) {
      fprintf (out, "|P1=ERR:%s", err_msg);
    } else {
      memset (&wbuf, 0, sizeof (wbuf));
      MIR_write_module_with_func (a, writer, last_mod);
      pw = wbuf;
      have_pw = 1;
    }
  }

  STAGE ("write");
  if (setjmp (err_jmp)) {
    fprintf (out, "|W1=ERR:%s", err_msg);
  } else {
    memset (&wbuf, 0, sizeof (wbuf));
    dirty_stack (0x00);
    MIR_write_with_func (a, writer);
    w1 = wbuf;
    have_w1 = 1;
    fprintf (out, "|W1=");
    put_hex (out, w1.p, w1.n);
    fflush (out);
    STAGE ("write2");
    memset (&wbuf, 0, sizeof (wbuf));
    dirty_stack (0xa5);
    MIR_write_with_func (a, writer);
    w2 = wbuf;
    if (w1.n == w2.n && memcmp (w1.p, w2.p, w1.n) == 0) {
      fprintf (out, "|W2==");
    } else {
      fprintf (out, "|W2=");
      put_hex (out, w2.p, w2.n);
    }
  }
  fflush (out);

  if (have_w1) {
    STAGE ("read");
    b = MIR_init ();
    MIR_set_error_func (b, err_func);
    if (setjmp (err_jmp)) {
      fprintf (out, "|RB=ERR:%s", err_msg);
    } else {
      rbuf = &w1;
      rpos = 0;
      MIR_read_with_func (b, reader);
      fprintf (out, "|RB=ok");
      rb_ok = 1;
      STAGE ("output-after-read");
      t1 = text_of (b, &n1);
      emit_text (out, "T1", t1, n1, t0, n0);
      s1 = struct_of (b, &ns1);
      emit_text (out, "S1", s1, ns1, s0, ns0);
      emit_counters (out, "1", b);
      label_identity (out, "1", b);
      /* what was read, written again: the bytes must be the bytes it was read from (every immediate bit for
         bit, also where the text does not show it: NaN payloads, sizes the text abbreviates) */
      STAGE ("rewrite");
      memset (&wbuf, 0, sizeof (wbuf));
      MIR_write_with_func (b, writer);
      if (wbuf.n == w1.n && memcmp (wbuf.p, w1.p, w1.n) == 0) {
        fprintf (out, "|RW==");
      } else {
        fprintf (out, "|RW=");
        put_hex (out, wbuf.p, wbuf.n < 4000 ? wbuf.n : 4000);
      }
    }
    fflush (out);
  }

  if (have_w1) {
    /* the FILE* entry points (MIR_write / MIR_read) and the per-module writer (MIR_write_module): the file
       holds the bytes the callback writer got; every module written on its own and all of them read into one
       context give the same text */
    static MIR_context_t g;
    static char *fp_buf, *tg;
    static size_t fp_n, ng;
    STAGE ("file-io");
    if (setjmp (err_jmp)) {
      fprintf (out, "|WF=ERR:%s", err_msg);
    } else {
      FILE *mf = open_memstream (&fp_buf, &fp_n);
      MIR_write (a, mf);
      fclose (mf);
      if (fp_n == w1.n && memcmp (fp_buf, w1.p, w1.n) == 0) fprintf (out, "|WF==");
      else fprintf (out, "|WF=differs:%zu/%zu", fp_n, w1.n);
      g = MIR_init ();
      MIR_set_error_func (g, err_func);
      /* write history: the bytes of a module set do not depend on what the context wrote before.  Every module on
         its own through both entry points (FILE* and callback), in order, then in reverse order, then everything
         again; WH = '=' or the first difference */
      char wh[200] = "=";
      size_t k = 0;
      for (MIR_module_t m = DLIST_HEAD (MIR_module_t, *MIR_get_module_list (a)); m != NULL; m = DLIST_NEXT (MIR_module_t, m), k++) {
        char *mb = NULL;
        size_t mn = 0;
        mf = open_memstream (&mb, &mn);
        MIR_write_module (a, mf, m);
        fclose (mf);
        if (k < MAXMOD) {
          memset (&wbuf, 0, sizeof (wbuf));
          MIR_write_module_with_func (a, writer, m);
          mod_img[k] = wbuf;
          if ((wbuf.n != mn || memcmp (wbuf.p, mb, mn) != 0) && wh[0] == '=')
            snprintf (wh, sizeof (wh), "module %zu of %zu: MIR_write_module gives %zu bytes, MIR_write_module_with_func %zu bytes or other bytes",
                      k + 1, nmods, mn, wbuf.n);
        }
        mf = fmemopen (mb, mn > 0 ? mn : 1, "rb");
        MIR_read (g, mf);
        fclose (mf);
      }
      if (have_pw && nmods <= MAXMOD && !buf_eq (&pw, &mod_img[nmods - 1]) && wh[0] == '=')
        snprintf (wh, sizeof (wh), "module %zu of %zu written twice: %zu bytes as the first write of the context, %zu bytes or other "
                  "bytes after other writes", nmods, nmods, pw.n, mod_img[nmods - 1].n);
      if (nmods == 1 && !buf_eq (&mod_img[0], &w1) && wh[0] == '=')
        snprintf (wh, sizeof (wh), "the only module: MIR_write_module_with_func gives %zu bytes, MIR_write_with_func %zu bytes or other bytes",
                  mod_img[0].n, w1.n);
      {
        MIR_module_t rev[MAXMOD];
        size_t nr = 0;
        for (MIR_module_t m = DLIST_HEAD (MIR_module_t, *MIR_get_module_list (a)); m != NULL && nr < MAXMOD; m = DLIST_NEXT (MIR_module_t, m))
          rev[nr++] = m;
        for (size_t i = nr; i-- > 0;) {
          memset (&wbuf, 0, sizeof (wbuf));
          MIR_write_module_with_func (a, writer, rev[i]);
          if (!buf_eq (&wbuf, &mod_img[i]) && wh[0] == '=')
            snprintf (wh, sizeof (wh), "module %zu of %zu written twice with other writes in between: %zu bytes, then %zu bytes or other bytes",
                      i + 1, nmods, mod_img[i].n, wbuf.n);
          free (wbuf.p);
        }
        memset (&wbuf, 0, sizeof (wbuf));
        MIR_write_with_func (a, writer);
        if (!buf_eq (&wbuf, &w1) && wh[0] == '=')
          snprintf (wh, sizeof (wh), "all modules written again after the single-module writes: %zu bytes, first %zu bytes or other bytes",
                    wbuf.n, w1.n);
        free (wbuf.p);
        memset (&wbuf, 0, sizeof (wbuf));
      }
      fprintf (out, "|WH=%s", wh);
#ifdef MIR_NO_BIN_COMPRESSION
      if (nmods > 1 && nmods <= MAXMOD) { /* raw single-module images for the comparison with the model writer */
        fprintf (out, "|MW=");
        for (size_t i = 0; i < nmods; i++) {
          put_hex (out, mod_img[i].p, mod_img[i].n);
          fputc (',', out);
        }
      }
#endif
      fprintf (out, "|RM=ok");
      tg = text_of (g, &ng);
      emit_text (out, "TM", tg, ng, t0, n0);
      label_identity (out, "M", g);
    }
    fflush (out);
  }
  if (want_exec) {
    STAGE ("exec-original");
    exec_ctx (out, "X0", a);
    fflush (out);
    if (rb_ok) {
      STAGE ("exec-after-read");
      exec_ctx (out, "X1", b);
      fflush (out);
    }
  }
  if (t0 != NULL) {
    STAGE ("scan");
    c = MIR_init ();
    MIR_set_error_func (c, err_func);
    if (setjmp (err_jmp)) {
      fprintf (out, "|SC=ERR:%s", err_msg);
    } else {
      MIR_scan_string (c, t0);
      fprintf (out, "|SC=ok");
      sc_ok = 1;
      STAGE ("output-after-scan");
      t2 = text_of (c, &n2);
      emit_text (out, "T2", t2, n2, t0, n0);
      s2 = struct_of (c, &ns2);
      emit_text (out, "S2", s2, ns2, s0, ns0);
      emit_counters (out, "2", c);
      label_identity (out, "2", c);
    }
    fflush (out);
    if (sc_ok) {
      STAGE ("scan2");
      d = MIR_init ();
      MIR_set_error_func (d, err_func);
      if (setjmp (err_jmp)) {
        fprintf (out, "|SC2=ERR:%s", err_msg);
      } else {
        MIR_scan_string (d, t2);
        fprintf (out, "|SC2=ok");
        STAGE ("output-after-scan2");
        t3 = text_of (d, &n3);
        emit_text (out, "T3", t3, n3, t2, n2);
      }
      fflush (out);
    }
  }
  if (rb_ok && t0 != NULL) {
    STAGE ("used-read");
    used_read (out, desc_copy);
    fflush (out);
  }
  if (want_exec && sc_ok) {
    STAGE ("exec-after-scan");
    exec_ctx (out, "X2", c);
    fflush (out);
  }
  if (want_exec && getenv ("C11_POSTLOAD") != NULL) {
    /* the loaded (simplified, label-renumbered, linked) context once more through both writers/readers */
    static char *pt0, *pt1, *pt2;
    static size_t pn0, pn1, pn2;
    static buf_t pw;
    static MIR_context_t e, f;
    STAGE ("postload-write");
    if (setjmp (err_jmp)) {
      fprintf (out, "|PW=ERR:%s", err_msg);
    } else {
      pt0 = text_of (a, &pn0);
      memset (&wbuf, 0, sizeof (wbuf));
      MIR_write_with_func (a, writer);
      pw = wbuf;
      fprintf (out, "|PW=ok");
      fflush (out);
      STAGE ("postload-read");
      e = MIR_init ();
      MIR_set_error_func (e, err_func);
      if (setjmp (err_jmp)) {
        fprintf (out, "|PR=ERR:%s", err_msg);
      } else {
        rbuf = &pw;
        rpos = 0;
        MIR_read_with_func (e, reader);
        fprintf (out, "|PR=ok");
        pt1 = text_of (e, &pn1);
        emit_text (out, "PT1", pt1, pn1, pt0, pn0);
        fflush (out);
        exec_ctx (out, "PX1", e);
      }
      fflush (out);
      STAGE ("postload-scan");
      f = MIR_init ();
      MIR_set_error_func (f, err_func);
      if (setjmp (err_jmp)) {
        fprintf (out, "|PS=ERR:%s", err_msg);
      } else {
        MIR_scan_string (f, pt0);
        fprintf (out, "|PS=ok");
        pt2 = text_of (f, &pn2);
        emit_text (out, "PT2", pt2, pn2, pt0, pn0);
        fflush (out);
        exec_ctx (out, "PX2", f);
      }
    }
    fflush (out);
  }
  STAGE ("probe-original");
  probe_fresh (out, "0", a);
  if (rb_ok) {
    STAGE ("probe-after-read");
    probe_fresh (out, "1", b);
  }
  if (sc_ok) {
    STAGE ("probe-after-scan");
    probe_fresh (out, "2", c);
  }
  STAGE ("done");
  fflush (out);
}

static void print_table (void) {
  MIR_context_t ctx = MIR_init ();
  for (int c = 0; c < MIR_INSN_BOUND; c++) {
    printf ("%d %s", c, MIR_insn_name (ctx, c));
    for (size_t i = 0;; i++) {
      int out_p;
      MIR_op_mode_t m = _MIR_insn_code_op_mode (ctx, c, i, &out_p);
      if (m == MIR_OP_BOUND) break;
      printf (" %d%s", (int) m, out_p ? "o" : "");
    }
    printf ("\n");
  }
  printf ("modes UNDEF=%d REG=%d VAR=%d INT=%d UINT=%d FLOAT=%d DOUBLE=%d LDOUBLE=%d REF=%d STR=%d MEM=%d VAR_MEM=%d LABEL=%d BOUND=%d\n",
          MIR_OP_UNDEF, MIR_OP_REG, MIR_OP_VAR, MIR_OP_INT, MIR_OP_UINT, MIR_OP_FLOAT, MIR_OP_DOUBLE, MIR_OP_LDOUBLE,
          MIR_OP_REF, MIR_OP_STR, MIR_OP_MEM, MIR_OP_VAR_MEM, MIR_OP_LABEL, MIR_OP_BOUND);
  MIR_finish (ctx);
}

int main (int argc, char **argv) {
  char *line = NULL;
  size_t cap = 0;
  ssize_t len;
  struct rlimit rl = {0, 0};
  setrlimit (RLIMIT_CORE, &rl);
  if (argc > 1 && !strcmp (argv[1], "table")) {
    print_table ();
    return 0;
  }
  while ((len = getline (&line, &cap, stdin)) > 0) {
    if (line[len - 1] == '\n') line[--len] = 0;
    if (len == 0 || line[0] == '#') {
      printf ("skip\n");
      fflush (stdout);
      continue;
    }
    int fd[2];
    if (pipe (fd) != 0) return 4;
    fflush (stdout);
    pid_t pid = fork ();
    if (pid == 0) {
      close (fd[0]);
      FILE *out = fdopen (fd[1], "w");
      alarm (20);
      run_case (out, line);
      fflush (out);
      _exit (0);
    }
    close (fd[1]);
    {
      char tmp[65536];
      ssize_t r;
      while ((r = read (fd[0], tmp, sizeof (tmp))) > 0) fwrite (tmp, 1, (size_t) r, stdout);
      close (fd[0]);
    }
    int st = 0;
    waitpid (pid, &st, 0);
    if (WIFSIGNALED (st))
      printf ("|CRASH=signal%d", WTERMSIG (st));
    else if (WIFEXITED (st) && WEXITSTATUS (st) != 0)
      printf ("|CRASH=exit%d", WEXITSTATUS (st));
    printf ("\n");
    fflush (stdout);
  }
  return 0;
}

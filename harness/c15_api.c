/* C15 correspondence harness: drives the REAL MIR construction API of the current /repo tree with
   one "case" per input line and reports whether the context's error function was called, with
   which MIR_error_type_t, and at which step.  The error function longjmps (it must not return).

   Every case runs in a fresh context, inside module "m", after a fixed prelude that creates one
   item of every kind for reference operands:
     import imp, export exp, forward fwd, data dat (i32 x1), bss bs (8 bytes), ref-data rd (->dat),
     func f0 (i64 result, no args: expression function), expr-data ed (f0), lref-data lr (a label),
   Steps are separated by " ; " and executed in order:
     proto NAME V NRES T* NARGS T[:SIZE]*      MIR_new_proto_arr / MIR_new_vararg_proto_arr
     unspec CODE V NRES T* NARGS T[:SIZE]*     _MIR_register_unspec_insn (codes consecutive from 0)
     func V NRES T* NARGS T:NAME*              MIR_new_func_arr / MIR_new_vararg_func_arr  (name "fn")
     reg T NAME                                MIR_new_func_reg
     greg T NAME HARD|-                        MIR_new_global_func_reg ('-' = NULL hard reg name)
     lookup NAME                               MIR_reg
     regtype OPERAND-REG                       MIR_reg_type on a register number
     insn OPNAME|#CODE OPERAND*                MIR_new_insn_arr + MIR_append_insn
     new OPNAME|#CODE OPERAND*                 MIR_new_insn (the variadic creator; <= 5 operands)
     finish                                    MIR_finish_func
   Operands:  r:NAME (register declared by an earlier step)  rx:NUM (raw register number)
     i:V u:V (int / uint immediates)  f d ld (float/double/long double immediates)
     m:TYPE:DISP:BASE:INDEX (BASE/INDEX: '-' none, NAME, or #NUM raw)   L (label)
     ref:KIND[:NAME] (KIND func proto import export forward data refdata lrefdata exprdata bss;
     NAME = a proto defined by an earlier step)   s (string)
   Types: i8 u8 i16 u16 i32 u32 i64 u64 f d ld p blk0..blk4 rblk undef bound
   Output per case:  "ok"  |  "err <error-name> <step-index>"  |  "bad-case <why>" */
#include <stdio.h>
#include <stdlib.h>
#include <string.h>
#include <stdint.h>
#include <setjmp.h>
#include <stdarg.h>
#include "mir.h"

static jmp_buf jb;
static volatile int err_code;

static void MIR_NO_RETURN on_error (MIR_error_type_t t, const char *fmt, ...) {
  (void) fmt;
  err_code = (int) t;
  longjmp (jb, 1);
}

static const char *err_name (int e) {
  switch ((MIR_error_type_t) e) {
#define E(n) \
  case MIR_##n##_error: return #n;
    E (no) E (syntax) E (binary_io) E (alloc) E (finish) E (no_module) E (nested_module) E (no_func)
    E (func) E (vararg_func) E (nested_func) E (wrong_param_value) E (hard_reg) E (reserved_name)
    E (import_export) E (undeclared_func_reg) E (repeated_decl) E (reg_type) E (wrong_type)
    E (unique_reg) E (undeclared_op_ref) E (ops_num) E (call_op) E (unspec_op) E (wrong_lref)
    E (ret) E (op_mode) E (out_op) E (invalid_insn) E (ctx_change)
#undef E
  }
  return "unknown-error-code";
}

static int type_of (const char *s, MIR_type_t *t) {
  static const struct {
    const char *n;
    int t;
  } tab[] = {{"i8", MIR_T_I8},       {"u8", MIR_T_U8},       {"i16", MIR_T_I16},
             {"u16", MIR_T_U16},     {"i32", MIR_T_I32},     {"u32", MIR_T_U32},
             {"i64", MIR_T_I64},     {"u64", MIR_T_U64},     {"f", MIR_T_F},
             {"d", MIR_T_D},         {"ld", MIR_T_LD},       {"p", MIR_T_P},
             {"blk0", MIR_T_BLK},    {"blk1", MIR_T_BLK + 1}, {"blk2", MIR_T_BLK + 2},
             {"blk3", MIR_T_BLK + 3}, {"blk4", MIR_T_BLK + 4}, {"rblk", MIR_T_RBLK},
             {"undef", MIR_T_UNDEF}, {"bound", MIR_T_BOUND}};
  for (size_t i = 0; i < sizeof (tab) / sizeof (tab[0]); i++)
    if (!strcmp (s, tab[i].n)) {
      *t = (MIR_type_t) tab[i].t;
      return 1;
    }
  return 0;
}

#define MAXN 64
static struct {
  char name[40];
  MIR_reg_t reg;
} regs[MAXN];
static int nregs;
static struct {
  char name[40];
  MIR_item_t item;
} protos[MAXN];
static int nprotos, nunspec;
static char namepool[4096];
static size_t namepool_n;

static char *keep (const char *s) { /* names handed to the API must outlive the call */
  size_t n = strlen (s) + 1;
  if (namepool_n + n > sizeof (namepool)) return NULL;
  char *p = namepool + namepool_n;
  memcpy (p, s, n);
  namepool_n += n;
  return p;
}

static int find_reg (const char *n, MIR_reg_t *r) {
  for (int i = nregs - 1; i >= 0; i--)
    if (!strcmp (regs[i].name, n)) {
      *r = regs[i].reg;
      return 1;
    }
  return 0;
}
static void add_reg (const char *n, MIR_reg_t r) {
  if (nregs < MAXN) {
    snprintf (regs[nregs].name, sizeof (regs[nregs].name), "%s", n);
    regs[nregs++].reg = r;
  }
}

static MIR_context_t ctx;
static MIR_item_t it_import, it_export, it_forward, it_data, it_bss, it_refdata, it_func, it_expr,
  it_lref, cur_func;

#define BAD(msg)          \
  do {                    \
    snprintf (why, 128, "%s", msg); \
    return 0;             \
  } while (0)

static int reg_ref (const char *s, MIR_reg_t *r, char *why) { /* '-' | NAME | #NUM */
  if (!strcmp (s, "-")) {
    *r = 0;
    return 1;
  }
  if (s[0] == '#') {
    *r = (MIR_reg_t) strtoul (s + 1, NULL, 10);
    return 1;
  }
  if (!find_reg (s, r)) BAD ("unknown reg name in case");
  return 1;
}

static int parse_operand (char *tok, MIR_op_t *op, char *why) {
  char *f[6];
  int nf = 0;
  char *save;
  for (char *p = strtok_r (tok, ":", &save); p != NULL && nf < 6; p = strtok_r (NULL, ":", &save))
    f[nf++] = p;
  if (nf == 0) BAD ("empty operand");
  if (!strcmp (f[0], "r") && nf == 2) {
    MIR_reg_t r;
    if (!find_reg (f[1], &r)) BAD ("unknown reg name in case");
    *op = MIR_new_reg_op (ctx, r);
  } else if (!strcmp (f[0], "rx") && nf == 2) {
    *op = MIR_new_reg_op (ctx, (MIR_reg_t) strtoul (f[1], NULL, 10));
  } else if (!strcmp (f[0], "i") && nf == 2) {
    *op = MIR_new_int_op (ctx, strtoll (f[1], NULL, 10));
  } else if (!strcmp (f[0], "u") && nf == 2) {
    *op = MIR_new_uint_op (ctx, strtoull (f[1], NULL, 10));
  } else if (!strcmp (f[0], "f") && nf == 1) {
    *op = MIR_new_float_op (ctx, 1.5f);
  } else if (!strcmp (f[0], "d") && nf == 1) {
    *op = MIR_new_double_op (ctx, 2.5);
  } else if (!strcmp (f[0], "ld") && nf == 1) {
    *op = MIR_new_ldouble_op (ctx, 3.5L);
  } else if (!strcmp (f[0], "m") && nf == 5) {
    MIR_type_t t;
    MIR_reg_t b, x;
    if (!type_of (f[1], &t)) BAD ("bad mem type");
    if (!reg_ref (f[3], &b, why) || !reg_ref (f[4], &x, why)) return 0;
    *op = MIR_new_mem_op (ctx, t, strtoll (f[2], NULL, 10), b, x, 1);
  } else if (!strcmp (f[0], "L") && nf == 1) {
    *op = MIR_new_label_op (ctx, MIR_new_label (ctx));
  } else if (!strcmp (f[0], "s") && nf == 1) {
    MIR_str_t str = {4, "abc"};
    *op = MIR_new_str_op (ctx, str);
  } else if (!strcmp (f[0], "ref") && nf >= 2) {
    MIR_item_t it = NULL;
    if (!strcmp (f[1], "proto")) {
      if (nf != 3) BAD ("ref:proto needs a name");
      for (int i = nprotos - 1; i >= 0 && it == NULL; i--)
        if (!strcmp (protos[i].name, f[2])) it = protos[i].item;
      if (it == NULL) BAD ("unknown proto in case");
    } else if (!strcmp (f[1], "func"))
      it = it_func;
    else if (!strcmp (f[1], "import"))
      it = it_import;
    else if (!strcmp (f[1], "export"))
      it = it_export;
    else if (!strcmp (f[1], "forward"))
      it = it_forward;
    else if (!strcmp (f[1], "data"))
      it = it_data;
    else if (!strcmp (f[1], "refdata"))
      it = it_refdata;
    else if (!strcmp (f[1], "lrefdata"))
      it = it_lref;
    else if (!strcmp (f[1], "exprdata"))
      it = it_expr;
    else if (!strcmp (f[1], "bss"))
      it = it_bss;
    else
      BAD ("bad ref kind");
    *op = MIR_new_ref_op (ctx, it);
  } else
    BAD ("bad operand");
  return 1;
}

static int insn_code_of (const char *s, MIR_insn_code_t *code, char *why) {
  if (s[0] == '#') {
    *code = (MIR_insn_code_t) strtol (s + 1, NULL, 10);
    return 1;
  }
  for (int c = 0; c < MIR_INSN_BOUND; c++)
    if (!strcmp (MIR_insn_name (ctx, (MIR_insn_code_t) c), s)) {
      *code = (MIR_insn_code_t) c;
      return 1;
    }
  BAD ("unknown insn name");
}

/* one step; returns 1 ok, 0 malformed case. API errors longjmp out. */
static int do_step (char *step, char *why) {
  char *w[48];
  int n = 0;
  char *save;
  for (char *p = strtok_r (step, " \t", &save); p != NULL && n < 48; p = strtok_r (NULL, " \t", &save))
    w[n++] = p;
  if (n == 0) return 1;
  if (!strcmp (w[0], "proto") || !strcmp (w[0], "func") || !strcmp (w[0], "unspec")) {
    int isunspec = !strcmp (w[0], "unspec");
    int isproto = !strcmp (w[0], "proto") || isunspec;
    int k = isproto ? 2 : 1;
    if (n < k + 2) BAD ("short proto/func");
    int v = atoi (w[k++]);
    size_t nres = strtoul (w[k++], NULL, 10);
    MIR_type_t res[16];
    MIR_var_t args[16];
    if (nres > 16 || (size_t) n < k + nres + 1) BAD ("bad nres");
    for (size_t i = 0; i < nres; i++)
      if (!type_of (w[k++], &res[i])) BAD ("bad res type");
    size_t nargs = strtoul (w[k++], NULL, 10);
    if (nargs > 16 || (size_t) n != k + nargs) BAD ("bad nargs");
    for (size_t i = 0; i < nargs; i++) {
      char *c = strchr (w[k], ':');
      args[i].size = 0;
      args[i].name = "a";
      if (c != NULL) {
        *c = 0;
        if (isproto)
          args[i].size = strtoul (c + 1, NULL, 10);
        else if ((args[i].name = keep (c + 1)) == NULL)
          BAD ("name pool");
      }
      if (!type_of (w[k], &args[i].type)) BAD ("bad arg type");
      k++;
    }
    if (isunspec) {
      char nm[32];
      snprintf (nm, sizeof (nm), "u%s", w[1]);
      if ((int) strtol (w[1], NULL, 10) != nunspec) BAD ("unspec codes must be consecutive");
      _MIR_register_unspec_insn (ctx, (uint64_t) nunspec, keep (nm), nres, res, nargs, v, args);
      nunspec++;
    } else if (isproto) {
      if (nprotos >= MAXN) BAD ("too many protos");
      char *nm = keep (w[1]);
      if (nm == NULL) BAD ("name pool");
      MIR_item_t it = v ? MIR_new_vararg_proto_arr (ctx, nm, nres, res, nargs, args)
                        : MIR_new_proto_arr (ctx, nm, nres, res, nargs, args);
      snprintf (protos[nprotos].name, sizeof (protos[nprotos].name), "%s", nm);
      protos[nprotos++].item = it;
    } else {
      cur_func = v ? MIR_new_vararg_func_arr (ctx, "fn", nres, res, nargs, args)
                   : MIR_new_func_arr (ctx, "fn", nres, res, nargs, args);
      for (size_t i = 0; i < nargs; i++) add_reg (args[i].name, (MIR_reg_t) (i + 1));
    }
  } else if (!strcmp (w[0], "reg") && n == 3) {
    MIR_type_t t;
    if (!type_of (w[1], &t)) BAD ("bad reg type");
    char *nm = keep (w[2]);
    if (nm == NULL) BAD ("name pool");
    MIR_reg_t r = MIR_new_func_reg (ctx, cur_func == NULL ? NULL : cur_func->u.func, t, nm);
    add_reg (nm, r);
  } else if (!strcmp (w[0], "greg") && n == 4) {
    MIR_type_t t;
    if (!type_of (w[1], &t)) BAD ("bad reg type");
    char *nm = keep (w[2]);
    char *hr = !strcmp (w[3], "-") ? NULL : keep (w[3]);
    if (nm == NULL) BAD ("name pool");
    MIR_reg_t r = MIR_new_global_func_reg (ctx, cur_func == NULL ? NULL : cur_func->u.func, t, nm, hr);
    /* when the hard reg is already tied, the existing register is returned and the new name is
       NOT declared: record the name only for a new register number */
    int known = 0;
    for (int i = 0; i < nregs; i++)
      if (regs[i].reg == r) known = 1;
    if (!known) add_reg (nm, r);
  } else if (!strcmp (w[0], "lookup") && n == 2) {
    if (cur_func == NULL) BAD ("lookup outside func");
    MIR_reg_t r = MIR_reg (ctx, w[1], cur_func->u.func);
    MIR_reg_t mine;
    if (find_reg (w[1], &mine) && mine != r) BAD ("MIR_reg returned a different register");
  } else if (!strcmp (w[0], "regtype") && n == 2) {
    MIR_reg_t r;
    if (cur_func == NULL) BAD ("regtype outside func");
    if (!reg_ref (w[1], &r, why)) return 0;
    (void) MIR_reg_type (ctx, r, cur_func->u.func);
  } else if ((!strcmp (w[0], "insn") || !strcmp (w[0], "new")) && n >= 2) {
    MIR_insn_code_t code;
    MIR_op_t ops[48];
    MIR_insn_t insn;
    if (!insn_code_of (w[1], &code, why)) return 0;
    for (int i = 2; i < n; i++)
      if (!parse_operand (w[i], &ops[i - 2], why)) return 0;
    if (!strcmp (w[0], "insn"))
      insn = MIR_new_insn_arr (ctx, code, (size_t) (n - 2), ops);
    else {
      if (n - 2 > 5) BAD ("too many operands for new");
      /* MIR_new_insn takes exactly insn_code_nops operands from the va_list: always pass 5 */
      for (int i = n - 2; i < 5; i++) ops[i] = MIR_new_int_op (ctx, 0);
      insn = MIR_new_insn (ctx, code, ops[0], ops[1], ops[2], ops[3], ops[4]);
    }
    if (cur_func == NULL) BAD ("insn outside func");
    MIR_append_insn (ctx, cur_func, insn);
  } else if (!strcmp (w[0], "finish") && n == 1) {
    MIR_finish_func (ctx);
    cur_func = NULL;
  } else
    BAD ("unknown step");
  return 1;
}

static void prelude (void) {
  int32_t v = 7;
  MIR_type_t i64 = MIR_T_I64;
  MIR_new_module (ctx, "m");
  it_import = MIR_new_import (ctx, "imp");
  it_export = MIR_new_export (ctx, "exp");
  it_forward = MIR_new_forward (ctx, "fwd");
  it_data = MIR_new_data (ctx, "dat", MIR_T_I32, 1, &v);
  it_bss = MIR_new_bss (ctx, "bs", 8);
  it_refdata = MIR_new_ref_data (ctx, "rd", it_data, 0);
  it_func = MIR_new_func_arr (ctx, "f0", 1, &i64, 0, NULL);
  MIR_append_insn (ctx, it_func, MIR_new_ret_insn (ctx, 1, MIR_new_int_op (ctx, 1)));
  MIR_finish_func (ctx);
  it_expr = MIR_new_expr_data (ctx, "ed", it_func);
  it_lref = MIR_new_lref_data (ctx, "lr", MIR_new_label (ctx), NULL, 0);
}

int main (void) {
  static char line[1 << 16];
  while (fgets (line, sizeof (line), stdin) != NULL) {
    size_t len = strlen (line);
    while (len > 0 && (line[len - 1] == '\n' || line[len - 1] == '\r')) line[--len] = 0;
    if (len == 0 || line[0] == '#') {
      puts ("skip");
      continue;
    }
    volatile int stepno = -1; /* -1 = prelude */
    char why[128] = "";
    volatile int bad = 0;
    nregs = nprotos = nunspec = 0;
    namepool_n = 0;
    cur_func = NULL;
    ctx = MIR_init ();
    MIR_set_error_func (ctx, on_error);
    err_code = -1;
    if (setjmp (jb) == 0) {
      prelude ();
      char *p = line;
      int k = 0;
      while (p != NULL && !bad) {
        char *q = strstr (p, " ; ");
        if (q != NULL) *q = 0;
        stepno = k++;
        if (!do_step (p, why)) bad = 1;
        p = q == NULL ? NULL : q + 3;
      }
      if (bad)
        printf ("bad-case %s (step %d)\n", why, stepno);
      else
        puts ("ok");
    } else {
      printf ("err %s %d\n", err_name (err_code), stepno);
    }
    fflush (stdout);
    /* Release the context.  After an error the function under construction may still be open, and
       MIR_finish on an open function reports MIR_finish_error reading the already freed function
       (not this property's business): empty and close the function first, then the module. */
    if (err_code >= 0 || bad) {
      if (setjmp (jb) == 0) {
        MIR_module_t m = DLIST_TAIL (MIR_module_t, *MIR_get_module_list (ctx));
        MIR_item_t it = m == NULL ? NULL : DLIST_TAIL (MIR_item_t, m->items);
        if (it != NULL && it->item_type == MIR_func_item && strcmp (it->u.func->name, "fn") == 0) {
          MIR_insn_t insn;
          while ((insn = DLIST_HEAD (MIR_insn_t, it->u.func->insns)) != NULL) MIR_remove_insn (ctx, it, insn);
        }
        MIR_finish_func (ctx);
      }
    }
    if (setjmp (jb) == 0) MIR_finish_module (ctx);
    if (setjmp (jb) == 0) MIR_finish (ctx);
  }
  return 0;
}

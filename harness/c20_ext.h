/* External functions called by the generated C20 test modules: each logs its name and arguments
   (so the call trace can be compared) and returns a value derived from them.  Included both by the
   MIR-side harness (c20_mod.c) and by the stub linked with the gcc-compiled translation. */
#ifndef C20_EXT_H
#define C20_EXT_H
#include <stdio.h>
#include <stdint.h>
#include <inttypes.h>
#include <string.h>
#include <stdarg.h>

static uint64_t c20_bits_d (double d) {
  uint64_t u;
  memcpy (&u, &d, 8);
  return u;
}
static uint32_t c20_bits_f (float f) {
  uint32_t u;
  memcpy (&u, &f, 4);
  return u;
}

int64_t ext_i (int64_t a, int64_t b) {
  printf ("E ext_i %016" PRIx64 " %016" PRIx64 "\n", (uint64_t) a, (uint64_t) b);
  return a * 3 + (b ^ 0x5555);
}
double ext_d (double x, int64_t n) {
  printf ("E ext_d %016" PRIx64 " %016" PRIx64 "\n", c20_bits_d (x), (uint64_t) n);
  return x * 0.5 + (double) (n & 0xff);
}
float ext_f (float x, float y) {
  printf ("E ext_f %08x %08x\n", c20_bits_f (x), c20_bits_f (y));
  return x - y;
}
/* bytes of a memory area (a data section of the module) */
int64_t ext_p (int64_t addr, int64_t len) {
  const unsigned char *p = (const unsigned char *) (intptr_t) addr;
  printf ("E ext_p");
  for (int64_t i = 0; i < len; i++) printf (" %02x", p[i]);
  printf ("\n");
  return len;
}
/* variadic: n further int64 arguments */
int64_t ext_v (int64_t n, ...) {
  va_list ap;
  int64_t s = 0;
  va_start (ap, n);
  printf ("E ext_v %" PRId64, n);
  for (int64_t i = 0; i < n; i++) {
    int64_t v = va_arg (ap, int64_t);
    printf (" %016" PRIx64, (uint64_t) v);
    s += v;
  }
  va_end (ap);
  printf ("\n");
  return s;
}
#endif

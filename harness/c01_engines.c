/* C01/C04 engine harness: runs one textual MIR program per input line under the requested engines
   (MIR_interp, MIR_gen at -O0..-O3), each in a forked child with a fresh context, and prints for
   every engine the canonical observation: results, final bytes of the writable harness regions,
   ordered log of external calls.  Format identical to ocaml/driver_c01.ml.

   input line:  <engines> A n z*n O n z*n R n (base size w hexbytes)*n T <MIR text, "\n" escaped>
     engines = comma list of  i | g0 | g1 | g2 | g3   (numbers are hex)
   output line: <engine>=<observation> separated by TABs
     observation = OK res=<hex,..> mem=<hex>;<hex> ev=<id>(<hex,..>)|...
                 | MIR-ERROR <text> | CRASH sig=<n> | TIMEOUT | OOB-WRITE region=<k> | HARNESS-ERROR <text> */
#define _GNU_SOURCE
#include <stdio.h>
#include <stdarg.h>
#include <stdlib.h>
#include <string.h>
#include <stdint.h>
#include <unistd.h>
#include <signal.h>
#include <sys/mman.h>
#include <sys/wait.h>
#include <execinfo.h>
#include "mir.h"
#include "mir-gen.h"

#define MAXR 8
#define MAXA 16
#define MAXO 4096

static int out_fd = 1;
static char outbuf[1 << 20];
static size_t outlen;

static void oprintf (const char *fmt, ...) {
  va_list ap;
  va_start (ap, fmt);
  int n = vsnprintf (outbuf + outlen, sizeof (outbuf) - outlen, fmt, ap);
  va_end (ap);
  if (n > 0) outlen += (size_t) n < sizeof (outbuf) - outlen ? (size_t) n : sizeof (outbuf) - outlen - 1;
}

static void flush_and_exit (int code) {
  size_t off = 0;
  while (off < outlen) {
    ssize_t w = write (out_fd, outbuf + off, outlen - off);
    if (w <= 0) break;
    off += (size_t) w;
  }
  _exit (code);
}

/* ---- case data ---- */
static uint64_t args[MAXA];
static int nargs;
static uint64_t oracle[MAXO];
static int noracle, oracle_pos;
static struct region {
  uint64_t base, size;
  int writable;
  char *hex;
  size_t maplen;
} regions[MAXR];
static int nregions;

/* ---- external-call log ---- */
static char evbuf[1 << 18];
static size_t evlen;
static int evcount;

static void ev_start (int id) {
  evlen += snprintf (evbuf + evlen, sizeof (evbuf) - evlen, "%s%x(", evcount++ ? "|" : "", id);
}
static void ev_arg (int first, uint64_t v) {
  if (evlen < sizeof (evbuf) - 40)
    evlen += snprintf (evbuf + evlen, sizeof (evbuf) - evlen, "%s%llx", first ? "" : ",", (unsigned long long) v);
}
static void ev_end (void) {
  if (evlen < sizeof (evbuf) - 4) evlen += snprintf (evbuf + evlen, sizeof (evbuf) - evlen, ")");
}
static uint64_t next_oracle (void) {
  if (oracle_pos >= noracle) {
    outlen = 0;
    oprintf ("HARNESS-ERROR oracle exhausted");
    flush_and_exit (0);
  }
  return oracle[oracle_pos++];
}
static uint64_t dbits (double d) { uint64_t u; memcpy (&u, &d, 8); return u; }
static uint64_t fbits (float f) { uint32_t u; memcpy (&u, &f, 4); return u; }
static double bitsd (uint64_t u) { double d; memcpy (&d, &u, 8); return d; }
static float bitsf (uint64_t u) { uint32_t w = (uint32_t) u; float f; memcpy (&f, &w, 4); return f; }

/* the externals; ids and signatures are mirrored in tools/gen_c01_prog.py (EXTERNALS) */
static int64_t x0 (void) { ev_start (0); ev_end (); return (int64_t) next_oracle (); }
static int64_t x1 (int64_t a) { ev_start (1); ev_arg (1, a); ev_end (); return (int64_t) next_oracle (); }
static int64_t x2 (int64_t a, int64_t b) {
  ev_start (2); ev_arg (1, a); ev_arg (0, b); ev_end ();
  return (int64_t) next_oracle ();
}
static int64_t x3 (int64_t a, int64_t b, int64_t c) {
  ev_start (3); ev_arg (1, a); ev_arg (0, b); ev_arg (0, c); ev_end ();
  return (int64_t) next_oracle ();
}
static int64_t x8 (int64_t a, int64_t b, int64_t c, int64_t d, int64_t e, int64_t f, int64_t g, int64_t h) {
  ev_start (4);
  ev_arg (1, a); ev_arg (0, b); ev_arg (0, c); ev_arg (0, d);
  ev_arg (0, e); ev_arg (0, f); ev_arg (0, g); ev_arg (0, h);
  ev_end ();
  return (int64_t) next_oracle ();
}
static int32_t xn (int8_t a, uint8_t b, int16_t c, uint16_t d, int32_t e, uint32_t f) {
  ev_start (5);
  ev_arg (1, (uint64_t) (int64_t) a); ev_arg (0, b); ev_arg (0, (uint64_t) (int64_t) c); ev_arg (0, d);
  ev_arg (0, (uint64_t) (int64_t) e); ev_arg (0, f);
  ev_end ();
  return (int32_t) next_oracle ();
}
static double xd (double a, double b) {
  ev_start (6); ev_arg (1, dbits (a)); ev_arg (0, dbits (b)); ev_end ();
  return bitsd (next_oracle ());
}
static float xf (float a, float b) {
  ev_start (7); ev_arg (1, fbits (a)); ev_arg (0, fbits (b)); ev_end ();
  return bitsf (next_oracle ());
}
static double xm (int64_t a, double b, int32_t c, float d) {
  ev_start (8); ev_arg (1, a); ev_arg (0, dbits (b)); ev_arg (0, (uint64_t) (int64_t) c); ev_arg (0, fbits (d)); ev_end ();
  return bitsd (next_oracle ());
}
static void xv (int64_t a, int64_t b) { ev_start (9); ev_arg (1, a); ev_arg (0, b); ev_end (); }
static uint8_t xu8 (int64_t a) { ev_start (10); ev_arg (1, a); ev_end (); return (uint8_t) next_oracle (); }
static int16_t xi16 (int64_t a) { ev_start (11); ev_arg (1, a); ev_end (); return (int16_t) next_oracle (); }

/* six register arguments, then narrow integer arguments passed on the stack */
static int64_t xs (int64_t a, int64_t b, int64_t c, int64_t d, int64_t e, int64_t f, int8_t g, uint16_t h,
                   int32_t i, uint32_t j, uint8_t k, int16_t l) {
  ev_start (12);
  ev_arg (1, a); ev_arg (0, b); ev_arg (0, c); ev_arg (0, d); ev_arg (0, e); ev_arg (0, f);
  ev_arg (0, (uint64_t) (int64_t) g); ev_arg (0, h); ev_arg (0, (uint64_t) (int64_t) i); ev_arg (0, j);
  ev_arg (0, k); ev_arg (0, (uint64_t) (int64_t) l);
  ev_end ();
  return (int64_t) next_oracle ();
}

static struct { const char *name; void *addr; } externals[] = {
  {"ex0", x0}, {"ex1", x1}, {"ex2", x2}, {"ex3", x3}, {"ex8", x8}, {"exn", xn}, {"exd", xd},
  {"exf", xf}, {"exm", xm}, {"exv", xv}, {"exu8", xu8}, {"exi16", xi16}, {"exs", xs}, {NULL, NULL}};

static void err_func (MIR_error_type_t t, const char *fmt, ...) {
  va_list ap;
  char b[400];
  va_start (ap, fmt);
  vsnprintf (b, sizeof (b), fmt, ap);
  va_end (ap);
  for (char *p = b; *p; p++)
    if (*p == '\n' || *p == '\t') *p = ' ';
  outlen = 0;
  oprintf ("MIR-ERROR %d %s", (int) t, b);
  flush_and_exit (0);
}

static int hexval (int c) { return c <= '9' ? c - '0' : (c | 32) - 'a' + 10; }

static void setup_regions (void) {
  for (int k = 0; k < nregions; k++) {
    struct region *r = &regions[k];
    size_t len = (r->size + 4095) / 4096 * 4096;
    if (len == 0) len = 4096;
    void *p = mmap ((void *) r->base, len, PROT_READ | PROT_WRITE,
                    MAP_PRIVATE | MAP_ANONYMOUS | MAP_FIXED_NOREPLACE, -1, 0);
    if (p != (void *) r->base) {
      outlen = 0;
      oprintf ("HARNESS-ERROR cannot map region %d at %llx", k, (unsigned long long) r->base);
      flush_and_exit (0);
    }
    r->maplen = len;
    unsigned char *q = p;
    size_t n = strlen (r->hex) / 2;
    if (r->hex[0] == '-') n = 0;
    for (size_t i = 0; i < n && i < r->size; i++)
      q[i] = (unsigned char) (hexval (r->hex[2 * i]) * 16 + hexval (r->hex[2 * i + 1]));
    if (!r->writable) mprotect (p, len, PROT_READ);
  }
}

typedef int64_t (*fn_t) (int64_t, int64_t, int64_t, int64_t, int64_t, int64_t, int64_t, int64_t);

static void run_engine (const char *eng, const char *text, int dump_p) {
  MIR_context_t ctx = MIR_init ();
  MIR_item_t main_func = NULL;
  int nres = 0;
  uint64_t result = 0;

  MIR_set_error_func (ctx, (MIR_error_func_t) err_func);
  setup_regions ();
  MIR_scan_string (ctx, text);
  for (MIR_module_t m = DLIST_HEAD (MIR_module_t, *MIR_get_module_list (ctx)); m != NULL;
       m = DLIST_NEXT (MIR_module_t, m)) {
    for (MIR_item_t f = DLIST_HEAD (MIR_item_t, m->items); f != NULL; f = DLIST_NEXT (MIR_item_t, f))
      if (f->item_type == MIR_func_item && strcmp (f->u.func->name, "main") == 0) main_func = f;
    MIR_load_module (ctx, m);
  }
  if (eng[0] == 'S') {
    /* simplified code (functions are simplified by MIR_link; meaningful with a library built with
       inlining off): for every function the first group of consolidated constant allocas:
       name:total:off,off,...  (the first block has offset 0) */
    for (int i = 0; externals[i].name != NULL; i++) MIR_load_external (ctx, externals[i].name, externals[i].addr);
    MIR_link (ctx, MIR_set_interp_interface, NULL);
    oprintf ("SIMP");
    for (MIR_module_t m = DLIST_HEAD (MIR_module_t, *MIR_get_module_list (ctx)); m != NULL;
         m = DLIST_NEXT (MIR_module_t, m))
      for (MIR_item_t f = DLIST_HEAD (MIR_item_t, m->items); f != NULL; f = DLIST_NEXT (MIR_item_t, f)) {
        if (f->item_type != MIR_func_item) continue;
        int seen_insn_p = 0;
        for (MIR_insn_t in = DLIST_HEAD (MIR_insn_t, f->u.func->insns); in != NULL;
             in = DLIST_NEXT (MIR_insn_t, in)) {
          if (in->code == MIR_LABEL && seen_insn_p) break;
          if (in->code == MIR_LABEL) continue;
          seen_insn_p = 1;
          if (in->code != MIR_ALLOCA) continue;
          MIR_insn_t pr = DLIST_PREV (MIR_insn_t, in), nx;
          if (pr == NULL || pr->code != MIR_MOV || pr->ops[1].mode != MIR_OP_INT) break;
          oprintf (" %s:%llx:0", f->u.func->name, (unsigned long long) pr->ops[1].u.i);
          for (nx = DLIST_NEXT (MIR_insn_t, in); nx != NULL; nx = DLIST_NEXT (MIR_insn_t, nx)) {
            MIR_insn_t ad = DLIST_NEXT (MIR_insn_t, nx);
            if (nx->code != MIR_MOV || nx->ops[1].mode != MIR_OP_INT || ad == NULL || ad->code != MIR_ADD
                || ad->ops[1].mode != MIR_OP_REG || ad->ops[1].u.reg != in->ops[0].u.reg
                || ad->ops[2].mode != MIR_OP_REG || ad->ops[2].u.reg != nx->ops[0].u.reg)
              break;
            oprintf (",%llx", (unsigned long long) nx->ops[1].u.i);
            nx = ad;
          }
          break;
        }
      }
    flush_and_exit (0);
  }
  if (main_func == NULL) {
    oprintf ("HARNESS-ERROR no main");
    flush_and_exit (0);
  }
  for (int i = 0; externals[i].name != NULL; i++) MIR_load_external (ctx, externals[i].name, externals[i].addr);
  nres = main_func->u.func->nres;
  if (nres > 1 || (int) main_func->u.func->nargs != nargs || nargs > 8) {
    oprintf ("HARNESS-ERROR main signature");
    flush_and_exit (0);
  }
  if (eng[0] == 'i') {
    MIR_val_t res[2], vals[MAXA];
    MIR_link (ctx, MIR_set_interp_interface, NULL);
    if (dump_p) { MIR_output (ctx, stderr); }
    for (int i = 0; i < nargs; i++) vals[i].u = args[i];
    res[0].u = 0;
    MIR_interp_arr (ctx, main_func, res, nargs, vals);
    result = res[0].u;
  } else {
    fn_t fn;
    MIR_gen_init (ctx);
    MIR_gen_set_optimize_level (ctx, (unsigned) (eng[1] - '0'));
    if (dump_p) { MIR_gen_set_debug_file (ctx, stderr); MIR_gen_set_debug_level (ctx, 2); }
    MIR_link (ctx, MIR_set_gen_interface, NULL);
    fn = (fn_t) MIR_gen (ctx, main_func);
    result = (uint64_t) fn (args[0], args[1], args[2], args[3], args[4], args[5], args[6], args[7]);
    MIR_gen_finish (ctx);
  }
  /* observation */
  if (nres == 1) oprintf ("OK res=%llx mem=", (unsigned long long) result);
  else oprintf ("OK res= mem=");
  int first = 1;
  for (int k = 0; k < nregions; k++) {
    struct region *r = &regions[k];
    unsigned char *q = (unsigned char *) r->base;
    for (size_t i = r->size; i < r->maplen; i++)
      if (q[i] != 0) {
        outlen = 0;
        oprintf ("OOB-WRITE region=%d offset=%zu", k, i);
        flush_and_exit (0);
      }
    if (!r->writable) continue;
    if (!first) oprintf (";");
    first = 0;
    for (size_t i = 0; i < r->size; i++) oprintf ("%02x", q[i]);
  }
  evbuf[evlen] = 0;
  oprintf (" ev=%s", evbuf);
  flush_and_exit (0);
}

/* a crash inside the library: report where (offsets relative to main, resolved by the check with
   addr2line) so that a recorded defect can be recognised by its crash site */
static void crash_handler (int sig) {
  void *bt[24];
  int n = backtrace (bt, 24);
  outlen = 0;
  oprintf ("CRASH sig=%d bt=", sig);
  for (int i = 0; i < n; i++) oprintf ("%s%lx", i ? "," : "", (unsigned long) ((char *) bt[i] - (char *) &crash_handler));
  flush_and_exit (0);
}

static char *unescape (char *s) {
  char *d = s, *r = s;
  while (*r) {
    if (r[0] == '\\' && r[1] == 'n') { *d++ = '\n'; r += 2; }
    else *d++ = *r++;
  }
  *d = 0;
  return s;
}

int main (int argc, char **argv) {
  char *line = NULL;
  size_t cap = 0;
  ssize_t len;
  int dump_p = argc > 1 && strcmp (argv[1], "-d") == 0;
  int timeout_s = getenv ("C01_TIMEOUT") ? atoi (getenv ("C01_TIMEOUT")) : 5;

  while ((len = getline (&line, &cap, stdin)) > 0) {
    if (line[len - 1] == '\n') line[--len] = 0;
    if (len == 0) { printf ("\n"); fflush (stdout); continue; }
    char *text = strstr (line, " T ");
    if (text == NULL) { printf ("HARNESS-ERROR no text\n"); fflush (stdout); continue; }
    *text = 0;
    text = unescape (text + 3);
    /* header */
    char *save = NULL, *tok = strtok_r (line, " ", &save);
    char engines[128];
    snprintf (engines, sizeof (engines), "%s", tok ? tok : "");
    nargs = noracle = nregions = 0;
    memset (args, 0, sizeof (args));
    int bad = 0;
#define NEXT() (tok = strtok_r (NULL, " ", &save))
#define NUM() (NEXT () ? strtoull (tok, NULL, 16) : (bad = 1, 0ull))
    if (!NEXT () || strcmp (tok, "A") != 0) bad = 1;
    nargs = (int) NUM ();
    for (int i = 0; i < nargs && i < MAXA; i++) args[i] = NUM ();
    if (!NEXT () || strcmp (tok, "O") != 0) bad = 1;
    noracle = (int) NUM ();
    for (int i = 0; i < noracle && i < MAXO; i++) oracle[i] = NUM ();
    if (!NEXT () || strcmp (tok, "R") != 0) bad = 1;
    nregions = (int) NUM ();
    for (int i = 0; i < nregions && i < MAXR; i++) {
      regions[i].base = NUM ();
      regions[i].size = NUM ();
      regions[i].writable = (int) NUM ();
      regions[i].hex = NEXT () ? tok : (bad = 1, (char *) "-");
    }
    if (bad || nargs > MAXA || noracle > MAXO || nregions > MAXR) {
      printf ("HARNESS-ERROR bad header\n");
      fflush (stdout);
      continue;
    }
    /* engines */
    char *esave = NULL;
    int firste = 1;
    for (char *eng = strtok_r (engines, ",", &esave); eng != NULL; eng = strtok_r (NULL, ",", &esave)) {
      int fds[2], efds[2];
      if (pipe (fds) != 0 || pipe (efds) != 0) { perror ("pipe"); return 2; }
      fflush (stdout);
      pid_t pid = fork ();
      if (pid == 0) {
        close (fds[0]);
        close (efds[0]);
        if (!dump_p) dup2 (efds[1], 2);
        close (efds[1]);
        out_fd = fds[1];
        outlen = 0;
        evlen = 0; evcount = 0; oracle_pos = 0;
        alarm (timeout_s);
        {
          static char altstack[1 << 16];
          stack_t ss = {.ss_sp = altstack, .ss_size = sizeof (altstack), .ss_flags = 0};
          struct sigaction sa;
          sigaltstack (&ss, NULL);
          memset (&sa, 0, sizeof (sa));
          sa.sa_handler = crash_handler;
          sa.sa_flags = SA_ONSTACK | SA_RESETHAND;
          sigaction (SIGSEGV, &sa, NULL);
          sigaction (SIGBUS, &sa, NULL);
          sigaction (SIGILL, &sa, NULL);
          sigaction (SIGFPE, &sa, NULL);
        }
        run_engine (eng, text, dump_p);
        _exit (0);
      }
      close (fds[1]);
      close (efds[1]);
      static char rbuf[1 << 20];
      static char ebuf[4096];
      size_t rl = 0, el = 0;
      ssize_t n;
      while ((n = read (fds[0], rbuf + rl, sizeof (rbuf) - 1 - rl)) > 0) rl += (size_t) n;
      close (fds[0]);
      rbuf[rl] = 0;
      {
        char sink[4096];
        while ((n = read (efds[0], el < sizeof (ebuf) - 1 ? ebuf + el : sink,
                          el < sizeof (ebuf) - 1 ? sizeof (ebuf) - 1 - el : sizeof (sink))) > 0)
          if (el < sizeof (ebuf) - 1) el += (size_t) n;
      }
      close (efds[0]);
      ebuf[el] = 0;
      for (char *q = ebuf; *q; q++)
        if (*q == '\n' || *q == '\t') *q = ' ';
      int status = 0;
      waitpid (pid, &status, 0);
      printf ("%s%s=", firste ? "" : "\t", eng);
      firste = 0;
      if (WIFSIGNALED (status)) {
        if (WTERMSIG (status) == SIGALRM) printf ("TIMEOUT");
        else printf ("CRASH sig=%d", WTERMSIG (status));
      } else if (rl == 0) {
        printf ("CRASH exit=%d msg=%.200s", WEXITSTATUS (status), ebuf);
      } else {
        fputs (rbuf, stdout);
      }
    }
    printf ("\n");
    fflush (stdout);
  }
  return 0;
}

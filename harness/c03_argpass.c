/* C03 (round 3) tie of coq/C03/ArgPass.v to the code: WHERE does each engine put / fetch every eightbyte of
   every argument at a call through a public address?

   A <file> <iface> <opt> <n>
     <file> holds one module with, for k < n,
       g<k>: func <parameter list k>        stores every eightbyte of every parameter into the table `outp`
       f<k>: func p:tab                     calls `probe` with parameter list k, arguments taken from tab
     The module is linked with <iface> (interp | gen | lazy | bb).
     callee side: g<k> is called through its public address with ALL argument registers and 24 stack words holding
       distinct tags W(slot) (a C call with the prototype (long x 6, double x 8, long x 24)); the table tells from
       which slot each eightbyte was fetched  (interp: shim + interp () + va_block_arg_builtin; else the prologue
       made by target_machinize, entered directly / through the lazy wrapper / through the bb wrapper).
     caller side: f<k> is called; probe (same prototype) records all argument registers and 24 stack words
       (interp: _MIR_get_ff_call; else the call sequence made by machinize_call).
   answer: "A g0=<48 hex words> f0=<38 hex words> g1=... "

   Every tag is W(i) = 0xBFF0000000004000 | i: as a double it is an ordinary negative number, any two consecutive
   tags are a valid x87 extended value (integer bit set, exponent 0x40ii), and the low byte identifies the slot. */
#include "c03_prog.h"

#define W(i) (0xBFF0000000004000ull | (uint64_t) (i))
#define NOUT 48
#define NSTK 24
static uint64_t out_tab[64], in_tab[64], cap[6 + 8 + NSTK];

typedef void (*full_t) (long, long, long, long, long, long, double, double, double, double, double, double, double,
                        double, long, long, long, long, long, long, long, long, long, long, long, long, long, long,
                        long, long, long, long, long, long, long, long, long, long);

static double dbl (uint64_t w) {
  double d;
  memcpy (&d, &w, 8);
  return d;
}
static uint64_t bits (double d) {
  uint64_t w;
  memcpy (&w, &d, 8);
  return w;
}

static void probe (long a0, long a1, long a2, long a3, long a4, long a5, double d0, double d1, double d2, double d3,
                   double d4, double d5, double d6, double d7, long s0, long s1, long s2, long s3, long s4, long s5,
                   long s6, long s7, long s8, long s9, long s10, long s11, long s12, long s13, long s14, long s15,
                   long s16, long s17, long s18, long s19, long s20, long s21, long s22, long s23) {
  long a[6] = {a0, a1, a2, a3, a4, a5};
  double d[8] = {d0, d1, d2, d3, d4, d5, d6, d7};
  long s[NSTK] = {s0, s1, s2, s3, s4, s5, s6, s7, s8, s9, s10, s11, s12, s13, s14, s15, s16, s17, s18, s19, s20, s21, s22, s23};
  for (int i = 0; i < 6; i++) cap[i] = (uint64_t) a[i];
  for (int i = 0; i < 8; i++) cap[6 + i] = bits (d[i]);
  for (int i = 0; i < NSTK; i++) cap[14 + i] = (uint64_t) s[i];
}

static void call_full (void *fp) {
  ((full_t) fp) ((long) W (0), (long) W (1), (long) W (2), (long) W (3), (long) W (4), (long) W (5), dbl (W (8)),
                 dbl (W (9)), dbl (W (10)), dbl (W (11)), dbl (W (12)), dbl (W (13)), dbl (W (14)), dbl (W (15)),
                 (long) W (16), (long) W (17), (long) W (18), (long) W (19), (long) W (20), (long) W (21),
                 (long) W (22), (long) W (23), (long) W (24), (long) W (25), (long) W (26), (long) W (27),
                 (long) W (28), (long) W (29), (long) W (30), (long) W (31), (long) W (32), (long) W (33),
                 (long) W (34), (long) W (35), (long) W (36), (long) W (37), (long) W (38), (long) W (39));
}

static void do_line (char *line) {
  char *w[8];
  int nw = split_words (line, w, 8);
  if (nw != 5 || strcmp (w[0], "A") != 0 || iface_of (w[2]) == NULL) {
    printf ("BAD\n");
    return;
  }
  ctx = MIR_init ();
  MIR_set_error_func (ctx, prog_err_func);
  MIR_gen_init (ctx);
  trace_generator ();
  MIR_gen_set_optimize_level (ctx, atoi (w[3]));
  MIR_load_external (ctx, "outp", out_tab);
  MIR_load_external (ctx, "probe", probe);
  printf ("A");
  fflush (stdout);
  if (!prog_scan (w[1])) {
    printf (" NOFILE\n");
    return;
  }
  for (int k = 0; k < p_nmods; k++) prog_load_module (k);
  MIR_link (ctx, iface_of (w[2]), NULL);
  int n = atoi (w[4]);
  for (int k = 0; k < n; k++) {
    char name[16];
    snprintf (name, sizeof (name), "g%d", k);
    int i = find_func (name);
    if (i < 0) {
      printf (" NOFUNC");
      continue;
    }
    memset (out_tab, 0, sizeof (out_tab));
    call_full (p_addr0[i]);
    printf (" %s=", name);
    for (int j = 0; j < NOUT; j++) printf ("%s%" PRIx64, j ? "," : "", out_tab[j]);
    fflush (stdout);
    snprintf (name, sizeof (name), "f%d", k);
    i = find_func (name);
    if (i < 0) {
      printf (" NOFUNC");
      continue;
    }
    for (int j = 0; j < 64; j++) in_tab[j] = W (64 + j);
    memset (cap, 0, sizeof (cap));
    ((void (*) (void *)) p_addr0[i]) (in_tab);
    printf (" %s=", name);
    for (int j = 0; j < 6 + 8 + NSTK; j++) printf ("%s%" PRIx64, j ? "," : "", cap[j]);
    fflush (stdout);
  }
  printf ("\n");
}

int main (void) {
  per_line_fork (do_line);
  return 0;
}

/* Measurement hook of tools/gen_c02_patcov.py: counts how often each row of patterns[] (mir-gen-x86_64.c) is the one
   whose replacement is emitted; the counts go to the file named by C02_PATCOV_OUT when the process exits. */
#include <stdio.h>
#include <stdlib.h>
#define C02_MAXPAT 8192
static unsigned long c02_cnt[C02_MAXPAT];
static int c02_registered;
static void c02_dump (void) {
  const char *f = getenv ("C02_PATCOV_OUT");
  FILE *o = f != NULL ? fopen (f, "w") : NULL;
  if (o == NULL) return;
  for (int i = 0; i < C02_MAXPAT; i++)
    if (c02_cnt[i]) fprintf (o, "%d %lu\n", i, c02_cnt[i]);
  fclose (o);
}
void c02_pat_hook (int ind) {
  if (!c02_registered) {
    c02_registered = 1;
    atexit (c02_dump);
  }
  if (ind >= 0 && ind < C02_MAXPAT) c02_cnt[ind]++;
}

/* C03 differential harness: run one generated multi-module program under a chosen assignment of
   execution interfaces to link groups and print everything observable.

   I <file> <opt>[f] <groups> | <op> ; <op> ; ...      (f: code pages from an allocator whose regions are > 2 GiB apart)
     groups = iface:m,m/iface:m ...   modules of a group are loaded, then MIR_link (iface) is called;
              iface = interp | mirinterp | gen | lazy | bb   (mirinterp: linked with the interpreter
              interface, entries called with MIR_interp_arr instead of through item->addr)
     ops    = call <func> <sig> <args...>   call through the public address recorded at load time
              gen <func>                    explicit MIR_gen in the middle of the run
     answer = "I r=<result> ... | log=<hash>:<n> mem=<hash> addr=ok|CHANGED"
*/
#include "c03_prog.h"

#include <sys/mman.h>
static char mod_iface[MAXMOD][16];

/* A user code allocator (CUSTOM-ALLOCATORS.md) whose regions are far from each other: successive
   mem_map calls alternate between two areas 8 GiB apart.  It satisfies the documented contract
   (mem_map / mem_unmap / mem_protect as mmap / munmap / mprotect); nothing in the contract promises
   that two regions are within reach of a rel32 displacement. */
static long far_maps;
static void *far_map (size_t len, void *ud) {
  uintptr_t base = 0x200000000000ull + (uintptr_t) (far_maps % 2) * 0x200000000ull
                   + (uintptr_t) (far_maps / 2) * 0x1000000ull;
  far_maps++;
  void *p = mmap ((void *) base, len, PROT_READ | PROT_EXEC, MAP_PRIVATE | MAP_ANONYMOUS | MAP_FIXED_NOREPLACE, -1, 0);
  return p == (void *) -1 ? NULL : p;
}
static int far_unmap (void *p, size_t len, void *ud) { return munmap (p, len); }
static int far_protect (void *p, size_t len, MIR_mem_protect_t prot, void *ud) {
  return mprotect (p, len, prot == PROT_WRITE_EXEC ? PROT_WRITE | PROT_EXEC : PROT_READ | PROT_EXEC);
}
static struct MIR_code_alloc far_alloc = {far_map, far_unmap, far_protect, NULL};

static int addr_check (void) {
  for (int i = 0; i < p_nfuncs; i++)
    if (p_addr0[i] != NULL && p_funcs[i]->addr != p_addr0[i]) return 0;
  return 1;
}

static void do_line (char *line) {
  char *bar = strchr (line, '|');
  if (bar == NULL) {
    printf ("BAD\n");
    return;
  }
  *bar = 0;
  char *w[8];
  int nw = split_words (line, w, 8);
  if (nw != 4 || strcmp (w[0], "I") != 0) {
    printf ("BAD\n");
    return;
  }
  /* <opt> with a trailing 'f' (e.g. "1f"): run with the far code allocator */
  ctx = strchr (w[2], 'f') != NULL ? MIR_init2 (NULL, &far_alloc) : MIR_init ();
  MIR_set_error_func (ctx, prog_err_func);
  MIR_gen_init (ctx);
  trace_generator ();
  MIR_gen_set_optimize_level (ctx, atoi (w[2]));
  if (getenv ("C03_GENDEBUG") != NULL) { /* developer aid */
    MIR_gen_set_debug_file (ctx, stderr);
    MIR_gen_set_debug_level (ctx, atoi (getenv ("C03_GENDEBUG")));
  }
  load_externals ();
  printf ("I");
  fflush (stdout); /* so that a crash below is attributed to this request */
  if (!prog_scan (w[1])) {
    printf (" NOFILE\n");
    return;
  }
  int addr_ok = 1;
  /* groups */
  char *save;
  for (char *g = strtok_r (w[3], "/", &save); g != NULL; g = strtok_r (NULL, "/", &save)) {
    char *colon = strchr (g, ':');
    if (colon == NULL) continue;
    *colon = 0;
    char *save2;
    for (char *m = strtok_r (colon + 1, ",", &save2); m != NULL; m = strtok_r (NULL, ",", &save2)) {
      int k = atoi (m);
      if (k < 0 || k >= p_nmods) continue;
      strncpy (mod_iface[k], g, 15);
      prog_load_module (k);
    }
    MIR_link (ctx, iface_of (g), NULL);
    addr_ok &= addr_check ();
  }
  /* ops */
  char *save3;
  for (char *op = strtok_r (bar + 1, ";", &save3); op != NULL; op = strtok_r (NULL, ";", &save3)) {
    char *v[24];
    int n = split_words (op, v, 24);
    if (n == 0) continue;
    if (strcmp (v[0], "call") == 0 && n >= 3) {
      int i = find_func (v[1]);
      if (i < 0) {
        printf (" NOFUNC");
        continue;
      }
      int mk = 0;
      for (int k = 0; k < p_nmods; k++)
        if (p_mods[k] == p_funcs[i]->module) mk = k;
      fflush (stdout);
      call_entry (i, v[2], v + 3, n - 3, strcmp (mod_iface[mk], "mirinterp") == 0);
    } else if (strcmp (v[0], "gen") == 0 && n >= 2) {
      int i = find_func (v[1]);
      if (i >= 0) {
        void *a = MIR_gen (ctx, p_funcs[i]);
        printf (" %s", a == p_addr0[i] ? "g" : "GENADDR");
      }
    } else
      printf (" BADOP");
    addr_ok &= addr_check ();
    fflush (stdout);
  }
  printf (" | log=%016" PRIx64 ":%ld mem=%016" PRIx64 " addr=%s\n", log_hash, log_n, mem_hash (),
          addr_ok ? "ok" : "CHANGED");
}

int main (void) {
  per_line_fork (do_line);
  return 0;
}

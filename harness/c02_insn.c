/* C02 / C20 correspondence harness.  Builds, through the public MIR API of the CURRENT tree, one tiny
   function per input line around ONE instruction under test, in every legal operand shape, and runs
   it with MIR_interp and with MIR_gen at -O0..-O3 (mode "run"), or emits the functions' module as C
   through mir2c (mode "emitc FILE") and runs the gcc-compiled translation (mode "runso LIB").

   Every test function has the signature   i64 f (i64 p)   where p points to a 256-byte block:
     [0,16)   value of operand x      [16,32)  value of operand y
     [32,80)  address registers: base/index for x (32,40), y (48,56), dst (64,72)
     [96,112) result store (written with a move of the result's type)
     [112,120) flag / branch-taken store
     [128,144) memory cell of x   [160,176) memory cell of y   [192,208) memory cell of dst
   all other bytes are filled with 0xA5 and printed back, so stores wider than the memory type show.

   Input line:  <id> <OPCODE> <kinds> <dst> <x> <y> [br=<BO|BNO|UBO|UBNO>]
     kinds = 3 letters (result, x, y) from {i,f,d,l,-}; result '-' = branch instruction
     operand x / y:  r:<hex>           register, loaded from the block by a move before the instruction
                     k:<hex> register defined IN the function by `mov k, <constant>` (integer kinds; the constant reaches the
                             instruction through a register: transform_mul_div / power2_int_op of -O2/-O3)
                     i:<hex> | u:<hex> immediate (MIR_new_int_op / MIR_new_uint_op; f/d/l kinds: float imm)
                     m<ty>,<form>,<scale>,<disp>,<index>:<hex>   memory operand; ty = i8 u8 i16 u16 i32 u32 i64 u64 f d ld p,
                        form in {b,d,bd,bi,bid,i,id} (base / displacement / index), <hex> = cell contents
                     -                 absent (2-operand instructions)
     optional tokens: pre=<unary int OPCODE on x> post=<unary int OPCODE or BT/BF/BTS/BFS on the result> prime=<0..3>
     dst:  r (fresh register) | x | y (same register as operand x / y, which must be r:) | m<ty>,<form>,<scale>,<disp>,<index>
   Output line: <id> <engine>=<ret>,<off>:<hex>;<off>:<hex>... (runs of block bytes changed by the call) ... */
#include <stdio.h>
#include <stdlib.h>
#include <string.h>
#include <stdint.h>
#include <inttypes.h>
#include <setjmp.h>
#include <stdarg.h>
#include <ctype.h>
#include <dlfcn.h>
#include "mir.h"
#include "mir-gen.h"
#ifdef C02_WITH_MIR2C
#include "mir2c/mir2c.h"
#endif

static jmp_buf err_jmp;
static char err_msg[300];
static void MIR_NO_RETURN err_func (MIR_error_type_t t, const char *fmt, ...) {
  va_list ap;
  va_start (ap, fmt);
  vsnprintf (err_msg, sizeof (err_msg), fmt, ap);
  va_end (ap);
  longjmp (err_jmp, 1);
}

typedef struct {
  char kind;          /* 'r' 'i' 'u' 'm' '-' ; for dst also 'x' 'y' (register x / y) 'X' (memory operand x) */
  unsigned __int128 val; /* pattern (up to 80 bits) */
  char ty[4], form[4];
  int scale;
  int64_t disp, index;
} opnd_t;

typedef struct {
  char id[40], opname[24], kinds[4], br[8], pre[12], post[12];
  int prime; /* -1: none; 0..3: an ADDO leaving (signed,unsigned) overflow = (prime&1, prime>>1) goes first */
  int bover;       /* the branch under test jumps over an unconditional jump: `b L1; jmp L2; L1: ...` (the shape
                      the simplifier rewrites with the reversed branch) */
  int far;         /* the label the branch under test jumps to is more than 128 bytes away: the rel32 forms of the
                      branch patterns (filler: a chain of add/xor on block + 240, executed on one of the two paths) */
  int press;       /* >0: register pressure, see build_case */
  char hr[8][8];   /* hr=<reg>,<reg>,...: the address registers of the memory operands (x base, x index, y base, ...) are
                      variables tied to these hard registers (r12: SIB needed, r13: no mod=00 form, ...) */
  int nhr;
  uint64_t pmask;  /* defined bits of the result, for the comparison of the copies */
  int hiblk;       /* C20 modes: the block of this case lies above 2^32 (absolute addresses that do not fit 32 bits) */
  char seq[400];   /* @MEMSEQ: seq=<step>,<step>,...; @ADDR: seq=<K>;<R>;<v1>,<v2>,<v3>;<steps>;<access>  (see build_special) */
  opnd_t dst, x, y;
} case_t;

static unsigned __int128 parse_hex (const char *s) {
  unsigned __int128 v = 0;
  for (; *s; s++) {
    int d = isdigit ((unsigned char) *s) ? *s - '0' : tolower ((unsigned char) *s) - 'a' + 10;
    v = (v << 4) | (unsigned) d;
  }
  return v;
}

static int parse_opnd (const char *s, opnd_t *o) {
  memset (o, 0, sizeof (*o));
  o->kind = s[0];
  if (s[0] == '-' || ((s[0] == 'r' || s[0] == 'x' || s[0] == 'y' || s[0] == 'X') && s[1] == 0)) return 1;
  if (s[0] == 'r' || s[0] == 'i' || s[0] == 'u' || s[0] == 'k') {
    if (s[1] != ':') return 0;
    o->val = parse_hex (s + 2);
    return 1;
  }
  if (s[0] == 'm') {
    char buf[200];
    strncpy (buf, s + 1, sizeof (buf) - 1);
    buf[sizeof (buf) - 1] = 0;
    char *colon = strchr (buf, ':');
    if (colon != NULL) {
      *colon = 0;
      o->val = parse_hex (colon + 1);
    }
    char *tok = strtok (buf, ",");
    if (tok == NULL) return 0;
    strncpy (o->ty, tok, 3);
    if ((tok = strtok (NULL, ",")) == NULL) return 0;
    strncpy (o->form, tok, 3);
    if ((tok = strtok (NULL, ",")) == NULL) return 0;
    o->scale = atoi (tok);
    if ((tok = strtok (NULL, ",")) == NULL) return 0;
    o->disp = strtoll (tok, NULL, 10);
    if ((tok = strtok (NULL, ",")) == NULL) return 0;
    o->index = strtoll (tok, NULL, 10);
    return 1;
  }
  return 0;
}

static int parse_case (char *line, case_t *c) {
  char dst[200], x[200], y[200];
  int pos = 0;
  memset (c, 0, sizeof (*c));
  c->prime = -1;
  c->pmask = ~(uint64_t) 0;
  int n = sscanf (line, "%39s %23s %3s %199s %199s %199s%n", c->id, c->opname, c->kinds, dst, x, y, &pos);
  if (n < 6) return 0;
  if (!parse_opnd (dst, &c->dst) || !parse_opnd (x, &c->x) || !parse_opnd (y, &c->y)) return 0;
  for (char *tok = strtok (line + pos, " \t\r\n"); tok != NULL; tok = strtok (NULL, " \t\r\n")) {
    if (strncmp (tok, "br=", 3) == 0) strncpy (c->br, tok + 3, 7);
    else if (strncmp (tok, "pre=", 4) == 0) strncpy (c->pre, tok + 4, 11);
    else if (strncmp (tok, "post=", 5) == 0) strncpy (c->post, tok + 5, 11);
    else if (strncmp (tok, "prime=", 6) == 0) c->prime = atoi (tok + 6);
    else if (strncmp (tok, "bover=", 6) == 0) c->bover = atoi (tok + 6);
    else if (strncmp (tok, "press=", 6) == 0) c->press = atoi (tok + 6);
    else if (strncmp (tok, "far=", 4) == 0) c->far = atoi (tok + 4);
    else if (strncmp (tok, "hiblk=", 6) == 0) c->hiblk = atoi (tok + 6);
    else if (strncmp (tok, "seq=", 4) == 0) strncpy (c->seq, tok + 4, sizeof (c->seq) - 1);
    else if (strncmp (tok, "hr=", 3) == 0) {
      const char *q = tok + 3;
      while (*q != 0 && c->nhr < 8) {
        int n = 0;
        while (*q != 0 && *q != ',' && n < 7) c->hr[c->nhr][n++] = *q++;
        c->hr[c->nhr++][n] = 0;
        if (*q == ',') q++;
      }
    }
    else if (strncmp (tok, "pmask=", 6) == 0) c->pmask = (uint64_t) parse_hex (tok + 6);
    else return 0;
  }
  return 1;
}

static MIR_insn_code_t find_code (MIR_context_t ctx, const char *name) {
  for (int c = 0; c < MIR_INSN_BOUND; c++) {
    const char *n = MIR_insn_name (ctx, (MIR_insn_code_t) c);
    if (n != NULL && strcasecmp (n, name) == 0) return (MIR_insn_code_t) c;
  }
  return MIR_INSN_BOUND;
}

static MIR_type_t type_of_name (const char *t) {
  static const char *names[] = {"i8", "u8", "i16", "u16", "i32", "u32", "i64", "u64", "f", "d", "ld", "p"};
  static MIR_type_t tys[] = {MIR_T_I8, MIR_T_U8, MIR_T_I16, MIR_T_U16, MIR_T_I32, MIR_T_U32, MIR_T_I64, MIR_T_U64,
                             MIR_T_F, MIR_T_D, MIR_T_LD, MIR_T_P};
  for (int i = 0; i < 12; i++)
    if (strcmp (names[i], t) == 0) return tys[i];
  return MIR_T_BOUND;
}

static MIR_type_t kind_type (char k) {
  return k == 'f' ? MIR_T_F : k == 'd' ? MIR_T_D : k == 'l' ? MIR_T_LD : MIR_T_I64;
}
static MIR_insn_code_t kind_mov (char k) {
  return k == 'f' ? MIR_FMOV : k == 'd' ? MIR_DMOV : k == 'l' ? MIR_LDMOV : MIR_MOV;
}

typedef struct {
  MIR_context_t ctx;
  MIR_item_t func;
  MIR_func_t f;
  MIR_reg_t p;
  int ntemp;
  case_t *c; /* for the hard registers of address variables */
  int hrk;
} fb_t;

static MIR_reg_t new_reg (fb_t *b, MIR_type_t t, const char *pfx) {
  char name[40];
  snprintf (name, sizeof (name), "%s%d", pfx, b->ntemp++);
  return MIR_new_func_reg (b->ctx, b->f, t == MIR_T_F || t == MIR_T_D || t == MIR_T_LD ? t : MIR_T_I64, name);
}

static void app (fb_t *b, MIR_insn_t insn) { MIR_append_insn (b->ctx, b->func, insn); }

/* an address register: tied to the next hard register of the case's hr= list, if any */
static MIR_reg_t addr_reg (fb_t *b, const char *pfx) {
  if (b->c == NULL || b->hrk >= b->c->nhr) return new_reg (b, MIR_T_I64, pfx);
  char name[40];
  snprintf (name, sizeof (name), "%s%d", pfx, b->ntemp++);
  return MIR_new_global_func_reg (b->ctx, b->f, MIR_T_I64, name, b->c->hr[b->hrk++]);
}

static MIR_op_t blk (fb_t *b, MIR_type_t t, int off) { return MIR_new_mem_op (b->ctx, t, off, b->p, 0, 1); }

/* memory operand for slot (0 = x, 1 = y, 2 = dst); address registers are loaded from the block */
static MIR_op_t mem_operand (fb_t *b, opnd_t *o, int slot) {
  MIR_context_t ctx = b->ctx;
  MIR_reg_t base = 0, index = 0;
  int has_b = strchr (o->form, 'b') != NULL, has_i = strchr (o->form, 'i') != NULL, has_d = strchr (o->form, 'd') != NULL;
  if (has_b) {
    base = addr_reg (b, "base");
    app (b, MIR_new_insn (ctx, MIR_MOV, MIR_new_reg_op (ctx, base), blk (b, MIR_T_I64, 32 + 16 * slot)));
  }
  if (has_i) {
    index = addr_reg (b, "index");
    app (b, MIR_new_insn (ctx, MIR_MOV, MIR_new_reg_op (ctx, index), blk (b, MIR_T_I64, 40 + 16 * slot)));
  }
  return MIR_new_mem_op (ctx, type_of_name (o->ty), has_d ? o->disp : 0, base, index, has_i ? o->scale : 1);
}

static MIR_op_t imm_operand (fb_t *b, opnd_t *o, char kind) {
  MIR_context_t ctx = b->ctx;
  if (kind == 'f') {
    uint32_t u = (uint32_t) o->val;
    float f;
    memcpy (&f, &u, 4);
    return MIR_new_float_op (ctx, f);
  } else if (kind == 'd') {
    uint64_t u = (uint64_t) o->val;
    double d;
    memcpy (&d, &u, 8);
    return MIR_new_double_op (ctx, d);
  } else if (kind == 'l') {
    long double ld = 0;
    memcpy (&ld, &o->val, 10);
    return MIR_new_ldouble_op (ctx, ld);
  }
  return o->kind == 'u' ? MIR_new_uint_op (ctx, (uint64_t) o->val) : MIR_new_int_op (ctx, (int64_t) (uint64_t) o->val);
}

/* more than 128 bytes of code that no optimisation level removes or shortens: t = block[240]; 24 x (t += C_i | t ^= C_i)
   with constants outside the imm8 range; block[240] = t.  tools/gen_c02_cases.py far_value() mirrors it. */
#define FAR_STEPS 24
static void far_filler (fb_t *b) {
  MIR_context_t ctx = b->ctx;
  MIR_reg_t t = new_reg (b, MIR_T_I64, "far");
  app (b, MIR_new_insn (ctx, MIR_MOV, MIR_new_reg_op (ctx, t), blk (b, MIR_T_I64, 240)));
  for (int i = 0; i < FAR_STEPS; i++)
    app (b, MIR_new_insn (ctx, i % 2 == 0 ? MIR_ADD : MIR_XOR, MIR_new_reg_op (ctx, t), MIR_new_reg_op (ctx, t),
                          MIR_new_int_op (ctx, 0x1234567 + i * 0x10101)));
  app (b, MIR_new_insn (ctx, MIR_MOV, blk (b, MIR_T_I64, 240), MIR_new_reg_op (ctx, t)));
}

/* ---- @ADDR: address arithmetic (chains of add / sub / mul / lsh by constants) feeding one memory operand.
   seq=<K>;<R>;<v1>,<v2>,<v3>;<step>,<step>,...;<L|S><ty>.<disp>.<base>.<index>.<scale>
   Registers: 0 = a (the address carrier, loaded from block[32]), 1..3 = v1..v3 (block[40..64), values given), 4.. = one per
   step in order.  Steps (s = register number, c = decimal constant):
     M<s>.<c> mul t,s,c    m<s>.<c> mul t,c,s    K<s>.<c> mov k,c; mul t,s,k    L<s>.<c> lsh t,s,c    A<s>.<s2> add t,s,s2
     P<s>.<c> add t,s,c    p<s>.<c> add t,c,s    Q<s>.<c> sub t,s,c             C<s>.0 mov t,s        B  new basic block
   Access: load into the result (L) or store of y (S) through ty:disp(base, index, scale); base / index = register number
   or '-'.  The generator (tools/gen_c02_cases.py addr_lines) evaluates the documented address base + index*scale + disp as a
   linear form K*a + R modulo 2^64; addr_pre solves it for a so that the address is a cell inside addr_tab, copies the 16
   cell bytes there (the rest of the table holds a position pattern) and addr_post copies the cell back to block[128..144)
   and flags any other changed table byte in block[176..192). */
typedef struct {
  uint64_t K, R;
  int64_t v[3], disp;
  char steps[400], acc, ty[8];
  int base, index, scale;
} addr_case_t;

static int addr_parse (case_t *c, addr_case_t *a) {
  char buf[sizeof (c->seq)], *f[5], bs[8], is[8];
  int n = 0;
  long long v1, v2, v3, disp;
  strcpy (buf, c->seq);
  for (char *p = buf; n < 5;) {
    f[n++] = p;
    if ((p = strchr (p, ';')) == NULL) break;
    *p++ = 0;
  }
  if (n != 5) return 0;
  a->K = strtoull (f[0], NULL, 16);
  a->R = strtoull (f[1], NULL, 16);
  if (sscanf (f[2], "%lld,%lld,%lld", &v1, &v2, &v3) != 3) return 0;
  a->v[0] = v1, a->v[1] = v2, a->v[2] = v3;
  strcpy (a->steps, f[3]);
  a->acc = f[4][0];
  if (a->acc != 'L' && a->acc != 'S') return 0;
  if (sscanf (f[4] + 1, "%7[^.].%lld.%7[^.].%7[^.].%d", a->ty, &disp, bs, is, &a->scale) != 5) return 0;
  a->disp = disp;
  a->base = bs[0] == '-' ? -1 : atoi (bs);
  a->index = is[0] == '-' ? -1 : atoi (is);
  return 1;
}

#define ADDR_TAB_SIZE (3 * 65536)
#define ADDR_CELL_LO 65536
#define ADDR_MAX_K 65536
#define ADDR_PAT(i) ((unsigned char) ((i) * 131 + 89 + ((i) >> 8) * 7))
static unsigned char addr_tab[ADDR_TAB_SIZE] __attribute__ ((aligned (16)));
static long addr_off = -1;

/* ---- special cases (opcode names starting with '@'): instructions whose documented effect is not a function of operand
   values (stack allocation, indirect jumps, switch, calls).  Expected observations: tools/gen_c02_cases.py special_expect. */
static MIR_op_t sp_src (fb_t *b, opnd_t *o, int slot) { /* register loaded from the block, or immediate */
  MIR_context_t ctx = b->ctx;
  if (o->kind == 'i' || o->kind == 'u') return imm_operand (b, o, 'i');
  MIR_reg_t r = new_reg (b, MIR_T_I64, slot == 0 ? "x" : "y");
  app (b, MIR_new_insn (ctx, MIR_MOV, MIR_new_reg_op (ctx, r), blk (b, MIR_T_I64, 16 * slot)));
  return MIR_new_reg_op (ctx, r);
}

static MIR_item_t build_special (MIR_context_t ctx, case_t *c, const char *name) {
  fb_t b;
  MIR_type_t res_type = MIR_T_I64;
  MIR_var_t var;
  const char *k = c->opname + 1;
  char hname[80], pname[80];
  MIR_item_t helper = NULL, proto = NULL;
  snprintf (hname, sizeof (hname), "%s_h", name);
  snprintf (pname, sizeof (pname), "%s_p", name);
  if (!strcasecmp (k, "CALL")) { /* helper (a, b) = a * 3 + b */
    MIR_var_t hv[2] = {{MIR_T_I64, "a"}, {MIR_T_I64, "b"}};
    proto = MIR_new_proto_arr (ctx, pname, 1, &res_type, 2, hv);
    helper = MIR_new_func_arr (ctx, hname, 1, &res_type, 2, hv);
    MIR_reg_t a = MIR_reg (ctx, "a", helper->u.func), bb = MIR_reg (ctx, "b", helper->u.func);
    MIR_reg_t t = MIR_new_func_reg (ctx, helper->u.func, MIR_T_I64, "t");
    MIR_append_insn (ctx, helper, MIR_new_insn (ctx, MIR_MUL, MIR_new_reg_op (ctx, t), MIR_new_reg_op (ctx, a), MIR_new_int_op (ctx, 3)));
    MIR_append_insn (ctx, helper, MIR_new_insn (ctx, MIR_ADD, MIR_new_reg_op (ctx, t), MIR_new_reg_op (ctx, t), MIR_new_reg_op (ctx, bb)));
    MIR_append_insn (ctx, helper, MIR_new_ret_insn (ctx, 1, MIR_new_reg_op (ctx, t)));
    MIR_finish_func (ctx);
  } else if (!strcasecmp (k, "CALLLD") || !strcasecmp (k, "CALLLD2")) { /* helper (ld a) = a + a [, a] */
    int two = !strcasecmp (k, "CALLLD2");
    MIR_type_t rt[2] = {MIR_T_LD, MIR_T_LD};
    MIR_var_t hv[1] = {{MIR_T_LD, "a"}};
    proto = MIR_new_proto_arr (ctx, pname, two ? 2 : 1, rt, 1, hv);
    helper = MIR_new_func_arr (ctx, hname, two ? 2 : 1, rt, 1, hv);
    MIR_reg_t a = MIR_reg (ctx, "a", helper->u.func);
    MIR_reg_t t = MIR_new_func_reg (ctx, helper->u.func, MIR_T_LD, "t");
    MIR_append_insn (ctx, helper, MIR_new_insn (ctx, MIR_LDADD, MIR_new_reg_op (ctx, t), MIR_new_reg_op (ctx, a), MIR_new_reg_op (ctx, a)));
    if (two)
      MIR_append_insn (ctx, helper, MIR_new_ret_insn (ctx, 2, MIR_new_reg_op (ctx, t), MIR_new_reg_op (ctx, a)));
    else
      MIR_append_insn (ctx, helper, MIR_new_ret_insn (ctx, 1, MIR_new_reg_op (ctx, t)));
    MIR_finish_func (ctx);
  }
  var.type = MIR_T_I64;
  var.name = "p";
  b.ctx = ctx;
  b.ntemp = 0;
  b.c = NULL;
  b.hrk = 0;
  b.func = MIR_new_func_arr (ctx, name, 1, &res_type, 1, &var);
  b.f = b.func->u.func;
  b.p = MIR_reg (ctx, "p", b.f);
  MIR_reg_t r = new_reg (&b, MIR_T_I64, "r");
#define RO(x) MIR_new_reg_op (ctx, x)
#define IO(x) MIR_new_int_op (ctx, x)
#define I3(code, a, bb, cc) app (&b, MIR_new_insn (ctx, code, a, bb, cc))
#define I2(code, a, bb) app (&b, MIR_new_insn (ctx, code, a, bb))
  if (!strcasecmp (k, "ALLOCA")) {
    /* two allocations of x bytes (x >= 16): 16-byte aligned, disjoint, writable at both ends */
    MIR_op_t size = sp_src (&b, &c->x, 0), val = sp_src (&b, &c->y, 1);
    MIR_reg_t a1 = new_reg (&b, MIR_T_I64, "a"), a2 = new_reg (&b, MIR_T_I64, "a"), e = new_reg (&b, MIR_T_I64, "e");
    MIR_reg_t t = new_reg (&b, MIR_T_I64, "t"), v = new_reg (&b, MIR_T_I64, "v"), d = new_reg (&b, MIR_T_I64, "d");
    MIR_reg_t c1 = new_reg (&b, MIR_T_I64, "c"), c2 = new_reg (&b, MIR_T_I64, "c");
    I2 (MIR_ALLOCA, RO (a1), size);
    I3 (MIR_SUB, RO (e), size, IO (8));
    I2 (MIR_MOV, RO (v), val);
    I2 (MIR_MOV, MIR_new_mem_op (ctx, MIR_T_I64, 0, a1, 0, 1), RO (v));
    I3 (MIR_ADD, RO (v), RO (v), IO (1));
    I2 (MIR_MOV, MIR_new_mem_op (ctx, MIR_T_I64, 0, a1, e, 1), RO (v));
    I2 (MIR_ALLOCA, RO (a2), size);
    I3 (MIR_ADD, RO (v), RO (v), IO (1));
    I2 (MIR_MOV, MIR_new_mem_op (ctx, MIR_T_I64, 0, a2, 0, 1), RO (v));
    I3 (MIR_ADD, RO (v), RO (v), IO (1));
    I2 (MIR_MOV, MIR_new_mem_op (ctx, MIR_T_I64, 0, a2, e, 1), RO (v));
    I3 (MIR_OR, RO (t), RO (a1), RO (a2));
    I3 (MIR_AND, RO (t), RO (t), IO (15));
    I2 (MIR_MOV, blk (&b, MIR_T_I64, 96), RO (t)); /* 0 */
    I3 (MIR_SUB, RO (d), RO (a1), RO (a2));
    I3 (MIR_UGE, RO (c1), RO (d), size);
    I3 (MIR_SUB, RO (d), RO (a2), RO (a1));
    I3 (MIR_UGE, RO (c2), RO (d), size);
    I3 (MIR_AND, RO (c1), RO (c1), RO (c2));
    I2 (MIR_MOV, blk (&b, MIR_T_I64, 112), RO (c1)); /* 1 */
    I2 (MIR_MOV, RO (r), MIR_new_mem_op (ctx, MIR_T_I64, 0, a1, 0, 1));
    I3 (MIR_MUL, RO (t), MIR_new_mem_op (ctx, MIR_T_I64, 0, a1, e, 1), IO (3));
    I3 (MIR_ADD, RO (r), RO (r), RO (t));
    I3 (MIR_MUL, RO (t), MIR_new_mem_op (ctx, MIR_T_I64, 0, a2, 0, 1), IO (5));
    I3 (MIR_ADD, RO (r), RO (r), RO (t));
    I3 (MIR_MUL, RO (t), MIR_new_mem_op (ctx, MIR_T_I64, 0, a2, e, 1), IO (7));
    I3 (MIR_ADD, RO (r), RO (r), RO (t));
  } else if (!strcasecmp (k, "BLOCK")) {
    /* y times: { bstart; alloca x bytes; use; bend }; a value kept in a register across the blocks */
    MIR_op_t size = sp_src (&b, &c->x, 0), cnt = sp_src (&b, &c->y, 1);
    MIR_reg_t i = new_reg (&b, MIR_T_I64, "i"), s = new_reg (&b, MIR_T_I64, "s"), a = new_reg (&b, MIR_T_I64, "a");
    MIR_insn_t loop = MIR_new_label (ctx);
    I2 (MIR_MOV, RO (i), IO (0));
    I2 (MIR_MOV, RO (r), IO (0));
    app (&b, loop);
    app (&b, MIR_new_insn (ctx, MIR_BSTART, RO (s)));
    I2 (MIR_ALLOCA, RO (a), size);
    I2 (MIR_MOV, MIR_new_mem_op (ctx, MIR_T_I64, 0, a, 0, 1), RO (i));
    I3 (MIR_MUL, RO (r), RO (r), IO (3));
    I3 (MIR_ADD, RO (r), RO (r), MIR_new_mem_op (ctx, MIR_T_I64, 0, a, 0, 1));
    app (&b, MIR_new_insn (ctx, MIR_BEND, RO (s)));
    I3 (MIR_ADD, RO (i), RO (i), IO (1));
    I3 (MIR_BLT, MIR_new_label_op (ctx, loop), RO (i), cnt);
  } else if (!strcasecmp (k, "SWITCH")) {
    /* switch on x in 0..4 */
    MIR_op_t sel = sp_src (&b, &c->x, 0);
    MIR_insn_t labs[5], le = MIR_new_label (ctx);
    MIR_op_t sops[6];
    if (sel.mode != MIR_OP_REG) {
      MIR_reg_t sr = new_reg (&b, MIR_T_I64, "sel");
      I2 (MIR_MOV, RO (sr), sel);
      sel = RO (sr);
    }
    sops[0] = sel;
    for (int i = 0; i < 5; i++) {
      labs[i] = MIR_new_label (ctx);
      sops[i + 1] = MIR_new_label_op (ctx, labs[i]);
    }
    app (&b, MIR_new_insn_arr (ctx, MIR_SWITCH, 6, sops));
    for (int i = 0; i < 5; i++) {
      app (&b, labs[i]);
      I2 (MIR_MOV, RO (r), IO (100 + 7 * i));
      if (c->far) far_filler (&b);
      app (&b, MIR_new_insn (ctx, MIR_JMP, MIR_new_label_op (ctx, le)));
    }
    app (&b, le);
  } else if (!strcasecmp (k, "JMPI")) {
    /* t = x ? &&L2 : &&L1; goto *t  (y != 0: through a memory cell) */
    MIR_op_t sel = sp_src (&b, &c->x, 0);
    MIR_reg_t t = new_reg (&b, MIR_T_I64, "t");
    MIR_insn_t l1 = MIR_new_label (ctx), l2 = MIR_new_label (ctx), ls = MIR_new_label (ctx), le = MIR_new_label (ctx);
    app (&b, MIR_new_insn (ctx, MIR_LADDR, RO (t), MIR_new_label_op (ctx, l1)));
    I2 (MIR_BF, MIR_new_label_op (ctx, ls), sel);
    if (c->y.val != 0) {
      app (&b, MIR_new_insn (ctx, MIR_LADDR, blk (&b, MIR_T_I64, 200), MIR_new_label_op (ctx, l2)));
      I2 (MIR_MOV, RO (t), blk (&b, MIR_T_I64, 200));
    } else
      app (&b, MIR_new_insn (ctx, MIR_LADDR, RO (t), MIR_new_label_op (ctx, l2)));
    app (&b, ls);
    if (c->y.val != 0) {
      I2 (MIR_MOV, blk (&b, MIR_T_I64, 200), RO (t));
      app (&b, MIR_new_insn (ctx, MIR_JMPI, blk (&b, MIR_T_I64, 200)));
    } else
      app (&b, MIR_new_insn (ctx, MIR_JMPI, RO (t)));
    app (&b, l1);
    I2 (MIR_MOV, RO (r), IO (1));
    app (&b, MIR_new_insn (ctx, MIR_JMP, MIR_new_label_op (ctx, le)));
    app (&b, l2);
    I2 (MIR_MOV, RO (r), IO (2));
    app (&b, le);
  } else if (!strcasecmp (k, "CALL")) {
    /* r = helper (x, y), called by reference (dst r) or through a register (dst x) */
    MIR_op_t xa = sp_src (&b, &c->x, 0), ya = sp_src (&b, &c->y, 1);
    MIR_op_t callee = MIR_new_ref_op (ctx, helper);
    if (c->dst.kind == 'x') {
      MIR_reg_t fr = new_reg (&b, MIR_T_I64, "fn");
      I2 (MIR_MOV, RO (fr), callee);
      callee = RO (fr);
    }
    app (&b, MIR_new_call_insn (ctx, 5, MIR_new_ref_op (ctx, proto), callee, RO (r), xa, ya));
  } else if (!strcasecmp (k, "CALLLD") || !strcasecmp (k, "CALLLD2")) {
    /* long double results come back in st0 (and st1) */
    int two = !strcasecmp (k, "CALLLD2");
    MIR_reg_t a = new_reg (&b, MIR_T_LD, "la"), r1 = new_reg (&b, MIR_T_LD, "lr"), r2 = new_reg (&b, MIR_T_LD, "lr");
    MIR_reg_t fr = new_reg (&b, MIR_T_I64, "fn"); /* through a register: a direct call of so small a function is inlined */
    I2 (MIR_LDMOV, RO (a), blk (&b, MIR_T_LD, 0));
    I2 (MIR_MOV, RO (fr), MIR_new_ref_op (ctx, helper));
    if (two)
      app (&b, MIR_new_call_insn (ctx, 5, MIR_new_ref_op (ctx, proto), RO (fr), RO (r1), RO (r2), RO (a)));
    else
      app (&b, MIR_new_call_insn (ctx, 4, MIR_new_ref_op (ctx, proto), RO (fr), RO (r1), RO (a)));
    I2 (MIR_LDMOV, blk (&b, MIR_T_LD, 96), RO (r1));
    if (two) I2 (MIR_LDMOV, blk (&b, MIR_T_LD, 192), RO (r2));
    I2 (MIR_MOV, RO (r), IO (0));
  } else if (!strcasecmp (k, "MEMSEQ")) {
    /* A sequence of memory accesses of different types (sign, size) to ONE cell in one function.  x is a memory operand
       (form b): its cell [128,144) is filled by the caller and its address is read from the block, so the function knows
       neither the address nor the content.  y is the first value stored.  Steps of seq=:
         L<ty>[@off]  t = ty:off(a); r = r * 1000003 + t     (every load into a fresh register, all stay live)
         S<ty>[@off]  ty:off(a) = v; v = v * 5 + 0x1234567   (the value register changes after every store)
         B            a new basic block (jump to a fresh label)
         X            the loaded values are only added to the hash at the end (all loads first, uses later)
       Result: the hash r; the final content of the cell is observed as changed block bytes. */
    MIR_reg_t a = new_reg (&b, MIR_T_I64, "a"), v = new_reg (&b, MIR_T_I64, "v");
    MIR_reg_t pend[40];
    int npend = 0, defer = strchr (c->seq, 'X') != NULL;
    char buf[sizeof (c->seq)];
    if (c->x.kind != 'm') {
      snprintf (err_msg, sizeof (err_msg), "@MEMSEQ: operand x must be a memory operand");
      longjmp (err_jmp, 1);
    }
    I2 (MIR_MOV, RO (a), blk (&b, MIR_T_I64, 32));
    I2 (MIR_MOV, RO (v), sp_src (&b, &c->y, 1));
    I2 (MIR_MOV, RO (r), IO (7));
    strcpy (buf, c->seq);
    for (char *st = strtok (buf, ","); st != NULL; st = strtok (NULL, ",")) {
      if (st[0] == 'X') continue;
      if (st[0] == 'B') {
        MIR_insn_t l = MIR_new_label (ctx);
        app (&b, MIR_new_insn (ctx, MIR_JMP, MIR_new_label_op (ctx, l)));
        app (&b, l);
        continue;
      }
      char tn[8];
      long off = 0;
      char *at = strchr (st, '@');
      if (at != NULL) {
        *at = 0;
        off = strtol (at + 1, NULL, 10);
      }
      strncpy (tn, st + 1, 7);
      tn[7] = 0;
      MIR_type_t ty = type_of_name (tn);
      MIR_op_t m = MIR_new_mem_op (ctx, ty, off, a, 0, 1);
      if (st[0] == 'L') {
        MIR_reg_t t = new_reg (&b, MIR_T_I64, "t");
        I2 (MIR_MOV, RO (t), m);
        if (defer && npend < 40) {
          pend[npend++] = t;
        } else {
          I3 (MIR_MUL, RO (r), RO (r), IO (1000003));
          I3 (MIR_ADD, RO (r), RO (r), RO (t));
        }
      } else if (st[0] == 'S') {
        I2 (MIR_MOV, m, RO (v));
        I3 (MIR_MUL, RO (v), RO (v), IO (5));
        I3 (MIR_ADD, RO (v), RO (v), IO (0x1234567));
      } else {
        snprintf (err_msg, sizeof (err_msg), "@MEMSEQ: unknown step %s", st);
        longjmp (err_jmp, 1);
      }
    }
    for (int i = 0; i < npend; i++) {
      I3 (MIR_MUL, RO (r), RO (r), IO (1000003));
      I3 (MIR_ADD, RO (r), RO (r), RO (pend[i]));
    }
  } else if (!strcasecmp (k, "ADDR")) {
    addr_case_t a;
    MIR_reg_t regs[80], v = new_reg (&b, MIR_T_I64, "sv");
    int nr = 0, bad = !addr_parse (c, &a);
    regs[nr++] = new_reg (&b, MIR_T_I64, "a");
    I2 (MIR_MOV, RO (regs[0]), blk (&b, MIR_T_I64, 32));
    for (int i = 0; i < 3; i++) {
      regs[nr] = new_reg (&b, MIR_T_I64, "v");
      I2 (MIR_MOV, RO (regs[nr]), blk (&b, MIR_T_I64, 40 + 8 * i));
      nr++;
    }
    I2 (MIR_MOV, RO (v), sp_src (&b, &c->y, 1));
    I2 (MIR_MOV, RO (r), IO (0));
    for (char *st = bad ? NULL : strtok (a.steps, ","); st != NULL && !bad; st = strtok (NULL, ",")) {
      int s1 = 0;
      long long c2 = 0;
      if (st[0] == 'B') {
        MIR_insn_t l = MIR_new_label (ctx);
        app (&b, MIR_new_insn (ctx, MIR_JMP, MIR_new_label_op (ctx, l)));
        app (&b, l);
        continue;
      }
      if (sscanf (st + 1, "%d.%lld", &s1, &c2) != 2 || s1 < 0 || s1 >= nr || nr >= 78) {
        bad = 1;
        break;
      }
      MIR_reg_t t = new_reg (&b, MIR_T_I64, "t");
      switch (st[0]) {
      case 'M': I3 (MIR_MUL, RO (t), RO (regs[s1]), IO (c2)); break;
      case 'm': I3 (MIR_MUL, RO (t), IO (c2), RO (regs[s1])); break;
      case 'K': {
        MIR_reg_t kr = new_reg (&b, MIR_T_I64, "k");
        I2 (MIR_MOV, RO (kr), IO (c2));
        I3 (MIR_MUL, RO (t), RO (regs[s1]), RO (kr));
        break;
      }
      case 'L': I3 (MIR_LSH, RO (t), RO (regs[s1]), IO (c2)); break;
      case 'A':
        if (c2 < 0 || c2 >= nr) {
          bad = 1;
          break;
        }
        I3 (MIR_ADD, RO (t), RO (regs[s1]), RO (regs[c2]));
        break;
      case 'P': I3 (MIR_ADD, RO (t), RO (regs[s1]), IO (c2)); break;
      case 'p': I3 (MIR_ADD, RO (t), IO (c2), RO (regs[s1])); break;
      case 'Q': I3 (MIR_SUB, RO (t), RO (regs[s1]), IO (c2)); break;
      case 'C': I2 (MIR_MOV, RO (t), RO (regs[s1])); break;
      default: bad = 1;
      }
      regs[nr++] = t;
    }
    if (bad || a.base >= nr || a.index >= nr || a.scale < 1 || a.scale > 255) {
      snprintf (err_msg, sizeof (err_msg), "@ADDR: bad description");
      longjmp (err_jmp, 1);
    }
    MIR_op_t m = MIR_new_mem_op (ctx, type_of_name (a.ty), a.disp, a.base < 0 ? 0 : regs[a.base], a.index < 0 ? 0 : regs[a.index],
                                 (MIR_scale_t) a.scale);
    if (a.acc == 'L')
      I2 (MIR_MOV, RO (r), m);
    else
      I2 (MIR_MOV, m, RO (v));
  } else {
    snprintf (err_msg, sizeof (err_msg), "unknown special case %s", c->opname);
    longjmp (err_jmp, 1);
  }
  app (&b, MIR_new_ret_insn (ctx, 1, RO (r)));
#undef RO
#undef IO
#undef I3
#undef I2
  MIR_finish_func (ctx);
  return b.func;
}

/* builds function <name> for case c in the current module of ctx; returns the func item */
static MIR_item_t build_case (MIR_context_t ctx, case_t *c, const char *name) {
  fb_t b;
  MIR_type_t res_type = MIR_T_I64;
  MIR_var_t var;
  if (c->opname[0] == '@') return build_special (ctx, c, name);
  var.type = MIR_T_I64;
  var.name = "p";
  b.ctx = ctx;
  b.ntemp = 0;
  b.c = c;
  b.hrk = 0;
  b.func = MIR_new_func_arr (ctx, name, 1, &res_type, 1, &var);
  b.f = b.func->u.func;
  b.p = MIR_reg (ctx, "p", b.f);
  MIR_insn_code_t code = find_code (ctx, c->opname);
  if (code == MIR_INSN_BOUND) {
    snprintf (err_msg, sizeof (err_msg), "unknown opcode %s", c->opname);
    longjmp (err_jmp, 1);
  }
  char rk = c->kinds[0], xk = c->kinds[1], yk = c->kinds[2];
  MIR_op_t ops[3];
  MIR_reg_t xr = 0, yr = 0, rr = 0;
  opnd_t *src[2] = {&c->x, &c->y};
  char sk[2] = {xk, yk};
  MIR_reg_t *sr[2] = {&xr, &yr};
  for (int i = 0; i < 2; i++) {
    opnd_t *o = src[i];
    if (o->kind == '-') continue;
    if (o->kind == 'r') {
      *sr[i] = new_reg (&b, kind_type (sk[i]), i == 0 ? "x" : "y");
      app (&b, MIR_new_insn (ctx, kind_mov (sk[i]), MIR_new_reg_op (ctx, *sr[i]), blk (&b, kind_type (sk[i]), 16 * i)));
      if (i == 0 && c->pre[0] != 0) { /* a unary integer instruction feeding operand x */
        MIR_reg_t x2 = new_reg (&b, MIR_T_I64, "xp");
        app (&b, MIR_new_insn (ctx, find_code (ctx, c->pre), MIR_new_reg_op (ctx, x2), MIR_new_reg_op (ctx, *sr[i])));
        *sr[i] = x2;
      }
      ops[1 + i] = MIR_new_reg_op (ctx, *sr[i]);
    } else if (o->kind == 'k') { /* register holding a constant: mov k, C */
      if (sk[i] != 'i') {
        snprintf (err_msg, sizeof (err_msg), "operand k needs an integer kind");
        longjmp (err_jmp, 1);
      }
      *sr[i] = new_reg (&b, MIR_T_I64, i == 0 ? "kx" : "ky");
      app (&b, MIR_new_insn (ctx, MIR_MOV, MIR_new_reg_op (ctx, *sr[i]), MIR_new_int_op (ctx, (int64_t) (uint64_t) o->val)));
      ops[1 + i] = MIR_new_reg_op (ctx, *sr[i]);
    } else if (o->kind == 'i' || o->kind == 'u') {
      ops[1 + i] = imm_operand (&b, o, sk[i]);
    } else {
      ops[1 + i] = mem_operand (&b, o, i);
    }
  }
  int branch_p = rk == '-';
  int dst_mem_p = 0;
  if (!branch_p) {
    if (c->dst.kind == 'r') {
      rr = new_reg (&b, kind_type (rk), "r");
    } else if (c->dst.kind == 'x') {
      rr = xr;
    } else if (c->dst.kind == 'y') {
      rr = yr;
    } else {
      dst_mem_p = 1;
    }
    if (c->dst.kind == 'X') { /* in place: the destination is the memory operand x itself (op m, m, y) */
      if (c->x.kind != 'm') {
        snprintf (err_msg, sizeof (err_msg), "dst X needs a memory operand x");
        longjmp (err_jmp, 1);
      }
      ops[0] = ops[1];
    } else
      ops[0] = dst_mem_p ? mem_operand (&b, &c->dst, 2) : MIR_new_reg_op (ctx, rr);
  }
  int nsrc = c->y.kind == '-' ? 1 : 2;
  MIR_reg_t flag = new_reg (&b, MIR_T_I64, "flag");
  /* register pressure: the instruction is also applied (in place when the destination is x) to x+1 .. x+npress,
     all of which are computed first; so many values live at once force spills, and the spilled ones make the
     generator use the memory forms of the instruction's patterns.  A hash of the results (defined bits pmask)
     goes to block + 232. */
  MIR_reg_t qx[32], qr[32];
  int npress = c->press > 32 ? 32 : c->press;
  if (npress > 0 && (branch_p || dst_mem_p || c->x.kind != 'r' || rk != 'i' || xk != 'i' || c->pre[0] != 0 || c->post[0] != 0))
    npress = 0;
  for (int i = 0; i < npress; i++) {
    qx[i] = new_reg (&b, MIR_T_I64, "qx");
    app (&b, MIR_new_insn (ctx, MIR_ADD, MIR_new_reg_op (ctx, qx[i]), MIR_new_reg_op (ctx, xr), MIR_new_int_op (ctx, i + 1)));
  }
  for (int i = 0; i < npress; i++) {
    MIR_op_t qops[3];
    qr[i] = c->dst.kind == 'x' ? qx[i] : new_reg (&b, MIR_T_I64, "qr");
    qops[0] = MIR_new_reg_op (ctx, qr[i]);
    qops[1] = MIR_new_reg_op (ctx, qx[i]);
    qops[2] = ops[2];
    app (&b, MIR_new_insn_arr (ctx, code, 1 + nsrc, qops));
  }
  if (c->prime >= 0) { /* leave known overflow flags behind: s = prime&1, u = prime>>1 */
    MIR_reg_t t1 = new_reg (&b, MIR_T_I64, "pr"), t2 = new_reg (&b, MIR_T_I64, "pr");
    app (&b, MIR_new_insn (ctx, MIR_MOV, MIR_new_reg_op (ctx, t1), blk (&b, MIR_T_I64, 80)));
    app (&b, MIR_new_insn (ctx, MIR_ADDO, MIR_new_reg_op (ctx, t2), MIR_new_reg_op (ctx, t1), MIR_new_reg_op (ctx, t1)));
    app (&b, MIR_new_insn (ctx, MIR_MOV, blk (&b, MIR_T_I64, 88), MIR_new_reg_op (ctx, t2)));
  }
  int post_branch_p = c->post[0] == 'B' || c->post[0] == 'b';
  if (branch_p || c->br[0] != 0) {
    MIR_insn_t l1 = MIR_new_label (ctx), le = MIR_new_label (ctx);
    if (branch_p) {
      ops[0] = MIR_new_label_op (ctx, l1);
      if (c->x.kind == '-')
        app (&b, MIR_new_insn_arr (ctx, code, 1, ops));
      else
        app (&b, MIR_new_insn_arr (ctx, code, 1 + nsrc, ops));
    } else {
      app (&b, MIR_new_insn_arr (ctx, code, 1 + nsrc, ops));
      app (&b, MIR_new_insn (ctx, find_code (ctx, c->br), MIR_new_label_op (ctx, l1)));
    }
    if (c->bover) { /* b L1; jmp L2; L1: flag = 1; jmp Le; L2: flag = 0; Le: */
      MIR_insn_t l2 = MIR_new_label (ctx);
      app (&b, MIR_new_insn (ctx, MIR_JMP, MIR_new_label_op (ctx, l2)));
      app (&b, l1);
      if (c->far) far_filler (&b); /* executed when the branch is taken; L2 is far from the (reversed) branch */
      app (&b, MIR_new_insn (ctx, MIR_MOV, MIR_new_reg_op (ctx, flag), MIR_new_int_op (ctx, 1)));
      app (&b, MIR_new_insn (ctx, MIR_JMP, MIR_new_label_op (ctx, le)));
      app (&b, l2);
      app (&b, MIR_new_insn (ctx, MIR_MOV, MIR_new_reg_op (ctx, flag), MIR_new_int_op (ctx, 0)));
    } else {
      if (c->far) far_filler (&b); /* executed when the branch is not taken; L1 is far from the branch */
      app (&b, MIR_new_insn (ctx, MIR_MOV, MIR_new_reg_op (ctx, flag), MIR_new_int_op (ctx, 0)));
      app (&b, MIR_new_insn (ctx, MIR_JMP, MIR_new_label_op (ctx, le)));
      app (&b, l1);
      app (&b, MIR_new_insn (ctx, MIR_MOV, MIR_new_reg_op (ctx, flag), MIR_new_int_op (ctx, 1)));
    }
    app (&b, le);
    app (&b, MIR_new_insn (ctx, MIR_MOV, blk (&b, MIR_T_I64, 112), MIR_new_reg_op (ctx, flag)));
  } else {
    app (&b, MIR_new_insn_arr (ctx, code, 1 + nsrc, ops));
    if (c->post[0] != 0 && !dst_mem_p) {
      if (post_branch_p) { /* BT/BF/BTS/BFS on the result */
        MIR_insn_t l1 = MIR_new_label (ctx), le = MIR_new_label (ctx);
        app (&b, MIR_new_insn (ctx, find_code (ctx, c->post), MIR_new_label_op (ctx, l1), MIR_new_reg_op (ctx, rr)));
        if (c->far) far_filler (&b);
        app (&b, MIR_new_insn (ctx, MIR_MOV, MIR_new_reg_op (ctx, flag), MIR_new_int_op (ctx, 0)));
        app (&b, MIR_new_insn (ctx, MIR_JMP, MIR_new_label_op (ctx, le)));
        app (&b, l1);
        app (&b, MIR_new_insn (ctx, MIR_MOV, MIR_new_reg_op (ctx, flag), MIR_new_int_op (ctx, 1)));
        app (&b, le);
        app (&b, MIR_new_insn (ctx, MIR_MOV, blk (&b, MIR_T_I64, 112), MIR_new_reg_op (ctx, flag)));
      } else {
        MIR_reg_t r2 = new_reg (&b, MIR_T_I64, "rp");
        app (&b, MIR_new_insn (ctx, find_code (ctx, c->post), MIR_new_reg_op (ctx, r2), MIR_new_reg_op (ctx, rr)));
        rr = r2;
      }
    }
  }
  if (npress > 0) { /* acc = acc * 31 + (r_i & pmask) */
    MIR_reg_t acc = new_reg (&b, MIR_T_I64, "acc"), t = new_reg (&b, MIR_T_I64, "t");
    app (&b, MIR_new_insn (ctx, MIR_MOV, MIR_new_reg_op (ctx, acc), MIR_new_int_op (ctx, 0)));
    for (int i = 0; i < npress; i++) {
      app (&b, MIR_new_insn (ctx, MIR_AND, MIR_new_reg_op (ctx, t), MIR_new_reg_op (ctx, qr[i]), MIR_new_uint_op (ctx, c->pmask)));
      app (&b, MIR_new_insn (ctx, MIR_MUL, MIR_new_reg_op (ctx, acc), MIR_new_reg_op (ctx, acc), MIR_new_int_op (ctx, 31)));
      app (&b, MIR_new_insn (ctx, MIR_ADD, MIR_new_reg_op (ctx, acc), MIR_new_reg_op (ctx, acc), MIR_new_reg_op (ctx, t)));
    }
    app (&b, MIR_new_insn (ctx, MIR_MOV, blk (&b, MIR_T_I64, 232), MIR_new_reg_op (ctx, acc)));
  }
  if (!branch_p && !dst_mem_p)
    app (&b, MIR_new_insn (ctx, kind_mov (rk), blk (&b, kind_type (rk), 96), MIR_new_reg_op (ctx, rr)));
  int flag_p = branch_p || c->br[0] != 0 || (post_branch_p && !dst_mem_p);
  if (flag_p || dst_mem_p || rk != 'i')
    app (&b, MIR_new_ret_insn (ctx, 1, flag_p ? MIR_new_reg_op (ctx, flag) : MIR_new_int_op (ctx, 0)));
  else
    app (&b, MIR_new_ret_insn (ctx, 1, MIR_new_reg_op (ctx, rr)));
  MIR_finish_func (ctx);
  return b.func;
}

/* the data block for a case */
#define BLOCK_SIZE 256
static unsigned char block_static[BLOCK_SIZE] __attribute__ ((aligned (16)));
static unsigned char *block = block_static; /* C20 modes (emitc / runso) place it at a fixed address, see c20_select_block */

static void fill_block (case_t *c) {
  memset (block, 0xA5, BLOCK_SIZE);
  if (c->prime >= 0) {
    static const uint64_t pa[4] = {1, 0x7fffffffffffffffull, 0xffffffffffffffffull, 0x8000000000000000ull};
    memcpy (block + 80, &pa[c->prime], 8);
  }
  opnd_t *os[3] = {&c->x, &c->y, &c->dst};
  for (int i = 0; i < 3; i++) {
    opnd_t *o = os[i];
    if (i < 2 && o->kind == 'r') {
      memset (block + 16 * i, 0, 16);
      memcpy (block + 16 * i, &o->val, 16);
    }
    if (o->kind == 'm') {
      unsigned char *cell = block + 128 + 32 * i;
      if (i < 2) {
        memset (cell, 0, 16);
        memcpy (cell, &o->val, 16);
      }
      int has_b = strchr (o->form, 'b') != NULL, has_i = strchr (o->form, 'i') != NULL, has_d = strchr (o->form, 'd') != NULL;
      /* address = disp + base + index * scale: choose base (or disp / index) to hit the cell */
      int64_t addr = (int64_t) (intptr_t) cell, index = has_i ? o->index : 0, base = 0;
      if (has_b) { /* modulo 2^64: huge indexes wrap */
        base = (int64_t) ((uint64_t) addr - (uint64_t) (has_d ? o->disp : 0) - (uint64_t) index * (uint64_t) (has_i ? o->scale : 1));
      } else if (has_i) { /* index * scale (+ disp) must be the address: index = addr / scale needs alignment */
        index = (addr - (has_d ? o->disp : 0)) / o->scale;
      }
      memcpy (block + 32 + 16 * i, &base, 8);
      memcpy (block + 40 + 16 * i, &index, 8);
    }
  }
}

/* @ADDR: solve K*a + R = address of a cell in addr_tab (modulo 2^64) for the carrier a, see addr_case_t */
static void addr_pre (case_t *c) {
  addr_case_t a;
  addr_off = -1;
  if (!addr_parse (c, &a) || a.K == 0 || a.K > ADDR_MAX_K) {
    snprintf (err_msg, sizeof (err_msg), "@ADDR: bad description");
    longjmp (err_jmp, 1);
  }
  for (int i = 0; i < ADDR_TAB_SIZE; i++) addr_tab[i] = ADDR_PAT (i);
  uint64_t x = (uint64_t) (intptr_t) (addr_tab + ADDR_CELL_LO) - a.R;
  uint64_t off = (a.K - x % a.K) % a.K;
  if (x + off < x) {
    snprintf (err_msg, sizeof (err_msg), "@ADDR: no solution");
    longjmp (err_jmp, 1);
  }
  uint64_t av = (x + off) / a.K;
  addr_off = ADDR_CELL_LO + (long) off;
  memcpy (addr_tab + addr_off, block + 128, 16);
  memcpy (block + 32, &av, 8);
  memcpy (block + 40, a.v, 24);
}

static void addr_post (void) {
  if (addr_off < 0) return;
  memcpy (block + 128, addr_tab + addr_off, 16);
  for (long i = 0; i < ADDR_TAB_SIZE; i++)
    if ((i < addr_off || i >= addr_off + 16) && addr_tab[i] != ADDR_PAT (i)) { /* a store somewhere else */
      int64_t d = i - addr_off;
      block[176] = 0x5A;
      memcpy (block + 184, &d, 8);
      break;
    }
  addr_off = -1;
}

/* patch disp of memory operands that have no base: the address (or its remainder) goes to disp */
static void fix_disps (case_t *c) {
  opnd_t *os[3] = {&c->x, &c->y, &c->dst};
  for (int i = 0; i < 3; i++) {
    opnd_t *o = os[i];
    if (o->kind != 'm') continue;
    int has_b = strchr (o->form, 'b') != NULL, has_i = strchr (o->form, 'i') != NULL;
    int64_t addr = (int64_t) (intptr_t) (block + 128 + 32 * i);
    if (!has_b && !has_i) {
      o->disp = addr; /* form d */
      strcpy (o->form, "d");
    } else if (!has_b && has_i) { /* i or id: index*scale + disp = addr with disp = addr mod scale (+ given) */
      int64_t rem = addr % o->scale;
      o->disp = rem + o->scale * (o->disp % 3); /* small multiple so that index stays integral */
      strcpy (o->form, "id");
    }
  }
}

/* ---- C20: base-less memory forms embed absolute addresses in the translated C (disp only: the address itself; index *
   scale [+ disp]: the index register is loaded with address / scale).  The translation is printed by one process (emitc) and
   run by another (runso), so in these two modes the block lives at one of two fixed addresses, the same in both processes:
   a low one (a displacement that fits 32 bits) and a high one (hiblk=1: needs more than 32 bits). */
#include <sys/mman.h>
#ifndef MAP_FIXED_NOREPLACE
#define MAP_FIXED_NOREPLACE 0x100000
#endif
#define C20_LOW_PAGE 0x2a5a0000ull
#define C20_HIGH_PAGE 0x2a5a5a5a0000ull
static unsigned char *c20_blocks[2];
static int c20_map_blocks (void) {
  static const unsigned long long pages[2] = {C20_LOW_PAGE, C20_HIGH_PAGE};
  for (int i = 0; i < 2; i++) {
    void *want = (void *) (uintptr_t) pages[i];
    void *p = mmap (want, 4096, PROT_READ | PROT_WRITE, MAP_PRIVATE | MAP_ANONYMOUS | MAP_FIXED_NOREPLACE, -1, 0);
    if (p != want) return 0;
    c20_blocks[i] = (unsigned char *) p + 1024;
  }
  return 1;
}
static void c20_select_block (case_t *c) { block = c20_blocks[c->hiblk ? 1 : 0]; }

/* the displacement of base-less memory operands, given the (fixed) block address: form d = the address of the cell; forms
   i / id: the generator's displacement, moved up to the next value for which address - disp is a multiple of the scale
   (fill_block then loads the index register with (address - disp) / scale).  Forms with a base register are untouched. */
static void fix_disps_c20 (case_t *c) {
  opnd_t *os[3] = {&c->x, &c->y, &c->dst};
  for (int i = 0; i < 3; i++) {
    opnd_t *o = os[i];
    if (o->kind != 'm') continue;
    int has_b = strchr (o->form, 'b') != NULL, has_i = strchr (o->form, 'i') != NULL, has_d = strchr (o->form, 'd') != NULL;
    int64_t addr = (int64_t) (intptr_t) (block + 128 + 32 * i);
    if (has_b) continue;
    if (!has_i) {
      o->disp = addr;
    } else if (has_d) {
      int64_t rem = (int64_t) (((uint64_t) addr - (uint64_t) o->disp) % (uint64_t) o->scale);
      o->disp = (int64_t) ((uint64_t) o->disp + (uint64_t) rem);
    }
  }
}

static unsigned char block0[256];
static void save_block (void) { memcpy (block0, block, BLOCK_SIZE); }

/* prints the return value and the maximal runs of block bytes that differ from their initial value */
static void print_obs (const char *eng, int64_t ret) {
  printf (" %s=%016" PRIx64 ",", eng, (uint64_t) ret);
  int first = 1;
  for (int i = 0; i < 256;) {
    if (block[i] == block0[i]) {
      i++;
      continue;
    }
    printf ("%s%d:", first ? "" : ";", i);
    first = 0;
    for (; i < 256 && block[i] != block0[i]; i++) printf ("%02x", block[i]);
  }
}

/* ---- independent oracle for the long double instructions (DocSpec gives them no Coq meaning): the host
   C compiler's own x87 long double arithmetic.  Performs on the block what the test function must do. */
static long double ld_of (opnd_t *o) {
  long double v = 0;
  memcpy (&v, &o->val, 10);
  return v;
}
static int native_ld (case_t *c, int64_t *ret) {
  char rk = c->kinds[0], xk = c->kinds[1], yk = c->kinds[2];
  const char *n = c->opname;
  if (xk != 'l' && rk != 'l') return 0;
  if (c->pre[0] || c->post[0] || c->br[0] || c->prime >= 0) return 0;
  long double x = 0, y = 0, lr = 0;
  int64_t ix = (int64_t) (uint64_t) c->x.val, ir = 0;
  if (c->x.kind == 'm' && xk == 'i') { /* extension of a narrow memory operand */
    const char *t = c->x.ty;
    if (!strcmp (t, "i8")) ix = (int8_t) ix;
    else if (!strcmp (t, "u8")) ix = (uint8_t) ix;
    else if (!strcmp (t, "i16")) ix = (int16_t) ix;
    else if (!strcmp (t, "u16")) ix = (uint16_t) ix;
    else if (!strcmp (t, "i32")) ix = (int32_t) ix;
    else if (!strcmp (t, "u32")) ix = (uint32_t) ix;
  }
  float fx, fr = 0;
  double dx, dr = 0;
  uint32_t u32 = (uint32_t) c->x.val;
  uint64_t u64v = (uint64_t) c->x.val;
  memcpy (&fx, &u32, 4);
  memcpy (&dx, &u64v, 8);
  if (xk == 'l') x = ld_of (&c->x);
  if (yk == 'l') y = ld_of (&c->y);
  int flag = -1;
  if (!strcasecmp (n, "LDMOV")) lr = x;
  else if (!strcasecmp (n, "LDNEG")) lr = -x;
  else if (!strcasecmp (n, "LDADD")) lr = x + y;
  else if (!strcasecmp (n, "LDSUB")) lr = x - y;
  else if (!strcasecmp (n, "LDMUL")) lr = x * y;
  else if (!strcasecmp (n, "LDDIV")) lr = x / y;
  else if (!strcasecmp (n, "LDEQ")) ir = x == y;
  else if (!strcasecmp (n, "LDNE")) ir = x != y;
  else if (!strcasecmp (n, "LDLT")) ir = x < y;
  else if (!strcasecmp (n, "LDLE")) ir = x <= y;
  else if (!strcasecmp (n, "LDGT")) ir = x > y;
  else if (!strcasecmp (n, "LDGE")) ir = x >= y;
  else if (!strcasecmp (n, "LDBEQ")) flag = x == y;
  else if (!strcasecmp (n, "LDBNE")) flag = x != y;
  else if (!strcasecmp (n, "LDBLT")) flag = x < y;
  else if (!strcasecmp (n, "LDBLE")) flag = x <= y;
  else if (!strcasecmp (n, "LDBGT")) flag = x > y;
  else if (!strcasecmp (n, "LDBGE")) flag = x >= y;
  else if (!strcasecmp (n, "I2LD")) lr = (long double) ix;
  else if (!strcasecmp (n, "UI2LD")) lr = (long double) (uint64_t) ix;
  else if (!strcasecmp (n, "F2LD")) lr = fx;
  else if (!strcasecmp (n, "D2LD")) lr = dx;
  else if (!strcasecmp (n, "LD2F")) fr = (float) x;
  else if (!strcasecmp (n, "LD2D")) dr = (double) x;
  else if (!strcasecmp (n, "LD2I")) {
    if (!(x > -9223372036854775808.0L - 1.0L && x < 9223372036854775808.0L)) return 0; /* undefined in C */
    ir = (int64_t) x;
  } else
    return 0;
  *ret = 0;
  if (flag >= 0) {
    int64_t f64 = flag;
    memcpy (block + 112, &f64, 8);
    *ret = flag;
    if (c->far && (c->bover ? flag == 1 : flag == 0)) { /* what far_filler computes on the executed path */
      uint64_t t;
      memcpy (&t, block + 240, 8);
      for (int i = 0; i < FAR_STEPS; i++) t = i % 2 == 0 ? t + (uint64_t) (0x1234567 + i * 0x10101) : t ^ (uint64_t) (0x1234567 + i * 0x10101);
      memcpy (block + 240, &t, 8);
    }
    return 1;
  }
  unsigned char *dst = c->dst.kind == 'm' ? block + 192 : block + 96;
  if (rk == 'l') memcpy (dst, &lr, 10);
  else if (rk == 'f') memcpy (dst, &fr, 4);
  else if (rk == 'd') memcpy (dst, &dr, 8);
  else if (c->dst.kind == 'm') {
    int sz = strchr (c->dst.ty, '8') && !strchr (c->dst.ty, '1') ? 1 : strstr (c->dst.ty, "16") ? 2 : strstr (c->dst.ty, "32") ? 4 : 8;
    memcpy (dst, &ir, sz);
  } else {
    memcpy (dst, &ir, 8);
    *ret = ir;
  }
  return 1;
}

/* generated code is entered through a trampoline that saves every callee-saved register: variables tied to hard registers
   (hr=) are, like GNU C global register variables, not saved by the function that uses them */
__asm__ (".text\n"
         ".globl c02_call_saving\n"
         ".type c02_call_saving, @function\n"
         "c02_call_saving:\n"
         "  push %rbx\n  push %rbp\n  push %r12\n  push %r13\n  push %r14\n  push %r15\n  sub $8, %rsp\n"
         "  mov %rdi, %rax\n  mov %rsi, %rdi\n  call *%rax\n"
         "  add $8, %rsp\n  pop %r15\n  pop %r14\n  pop %r13\n  pop %r12\n  pop %rbp\n  pop %rbx\n  ret\n"
         ".size c02_call_saving, .-c02_call_saving\n");
extern int64_t c02_call_saving (void *fun, int64_t arg);

#define NENG 5
static MIR_context_t ctxs[NENG];
static const char *eng_names[NENG] = {"interp", "gen0", "gen1", "gen2", "gen3"};

/* @ADDR cases: an engine that computes another address than the documented one usually dies; the engine is named
   (<engine>=ERR(signal-n)), its context replaced, and the batch goes on.  All other cases keep the default action. */
#include <signal.h>
static sigjmp_buf run_jmp;
static volatile int run_catch;
static void run_signal (int sig) {
  if (run_catch) siglongjmp (run_jmp, sig);
  signal (sig, SIG_DFL);
}

static int run_mode (void) {
  char line[2000];
  case_t c;
  int n = 0;
  for (int e = 0; e < NENG; e++) {
    ctxs[e] = MIR_init ();
    MIR_set_error_func (ctxs[e], err_func);
    if (e > 0) {
      MIR_gen_init (ctxs[e]);
      MIR_gen_set_optimize_level (ctxs[e], e - 1);
      if (getenv ("C02_GEN_DEBUG") != NULL) { /* diagnosis only: the generator's own dump on stderr */
        MIR_gen_set_debug_file (ctxs[e], stderr);
        MIR_gen_set_debug_level (ctxs[e], atoi (getenv ("C02_GEN_DEBUG")));
      }
    }
  }
  while (fgets (line, sizeof (line), stdin) != NULL) {
    if (line[0] == '\n' || line[0] == '#') continue;
    if (!parse_case (line, &c)) {
      printf ("? ERR unparsable line\n");
      continue;
    }
    printf ("%s", c.id);
    fix_disps (&c);
    n++;
    for (int e = 0; e < NENG; e++) {
      MIR_context_t ctx = ctxs[e];
      char mname[40], fname[40];
      snprintf (mname, sizeof (mname), "m%d", n);
      snprintf (fname, sizeof (fname), "f%d", n);
      if (setjmp (err_jmp)) {
        printf (" %s=ERR(%s)", eng_names[e], err_msg);
        /* the context may hold a half-built module: replace it */
        ctxs[e] = MIR_init ();
        MIR_set_error_func (ctxs[e], err_func);
        if (e > 0) {
          MIR_gen_init (ctxs[e]);
          MIR_gen_set_optimize_level (ctxs[e], e - 1);
        }
        continue;
      }
      MIR_module_t m = MIR_new_module (ctx, mname);
      MIR_item_t func = build_case (ctx, &c, fname);
      MIR_finish_module (ctx);
      MIR_load_module (ctx, m);
      fill_block (&c);
      if (!strcasecmp (c.opname, "@ADDR")) {
        int sig;
        addr_pre (&c);
        signal (SIGSEGV, run_signal);
        signal (SIGBUS, run_signal);
        if ((sig = sigsetjmp (run_jmp, 1)) != 0) {
          run_catch = 0;
          addr_off = -1;
          printf (" %s=ERR(signal-%d)", eng_names[e], sig);
          ctxs[e] = MIR_init (); /* the old context is abandoned in whatever state the signal left it */
          MIR_set_error_func (ctxs[e], err_func);
          if (e > 0) {
            MIR_gen_init (ctxs[e]);
            MIR_gen_set_optimize_level (ctxs[e], e - 1);
          }
          continue;
        }
        run_catch = 1;
      }
      save_block ();
      int64_t ret;
      if (e == 0) {
        MIR_val_t res, arg;
        MIR_link (ctx, MIR_set_interp_interface, NULL);
        arg.i = (int64_t) (intptr_t) block;
        MIR_interp_arr (ctx, func, &res, 1, &arg);
        ret = res.i;
      } else {
        MIR_link (ctx, MIR_set_gen_interface, NULL);
        void *fun = MIR_gen (ctx, func);
        ret = c02_call_saving (fun, (int64_t) (intptr_t) block);
      }
      run_catch = 0;
      addr_post ();
      print_obs (eng_names[e], ret);
    }
    {
      int64_t nret;
      fill_block (&c);
      save_block ();
      if ((c.x.kind == 'r' || c.x.kind == 'i' || c.x.kind == 'u' || c.x.kind == 'm')
          && (c.y.kind == '-' || c.y.kind == 'r' || c.y.kind == 'i' || c.y.kind == 'm') && native_ld (&c, &nret))
        print_obs ("native", nret);
    }
    printf ("\n");
    fflush (stdout);
  }
  return 0;
}

#ifdef C02_WITH_MIR2C
/* emit all cases as one module translated by mir2c */
static int emitc_mode (const char *out) {
  char line[2000];
  case_t c;
  int n = 0;
  MIR_context_t ctx = MIR_init ();
  MIR_set_error_func (ctx, err_func);
  FILE *f = fopen (out, "w");
  if (f == NULL) return 2;
  if (!c20_map_blocks ()) {
    printf ("module ERR(cannot map the fixed-address blocks)\n");
    return 3;
  }
  MIR_module_t m = MIR_new_module (ctx, "c20");
  while (fgets (line, sizeof (line), stdin) != NULL) {
    if (line[0] == '\n' || line[0] == '#') continue;
    if (!parse_case (line, &c)) continue;
    n++;
    char fname[60];
    snprintf (fname, sizeof (fname), "c20_%s", c.id);
    if (setjmp (err_jmp)) {
      printf ("%s ERR(%s)\n", c.id, err_msg);
      fclose (f);
      return 3;
    }
    c20_select_block (&c);
    fix_disps_c20 (&c);
    build_case (ctx, &c, fname);
    MIR_new_export (ctx, fname);
  }
  MIR_finish_module (ctx);
  if (setjmp (err_jmp)) {
    printf ("module ERR(%s)\n", err_msg);
    fclose (f);
    return 3;
  }
  MIR_module2c (ctx, f, m);
  fclose (f);
  printf ("emitted %d\n", n);
  return 0;
}
#endif

#ifdef C02_WITH_MIR2C
/* one function per opcode named on stdin: just that instruction on registers qa0 qa1 qa2 (typed by the operand
   modes of the opcode, a label where the opcode wants one) and `ret 0`; the C text mir2c prints goes to stdout.
   Used by tools/tr_c20_mir2c.py for the rows whose printing code it cannot execute symbolically. */
static int probe_mode (void) {
  char line[200];
  MIR_context_t ctx = MIR_init ();
  MIR_set_error_func (ctx, err_func);
  MIR_module_t m = MIR_new_module (ctx, "probe");
  if (setjmp (err_jmp)) {
    fprintf (stderr, "probe: %s\n", err_msg);
    return 3;
  }
  while (fgets (line, sizeof (line), stdin) != NULL) {
    char *nl = strchr (line, '\n');
    if (nl != NULL) *nl = 0;
    MIR_insn_code_t code = find_code (ctx, line);
    if (code == MIR_INSN_BOUND) continue;
    char fname[220];
    snprintf (fname, sizeof (fname), "pr_%s", line);
    MIR_type_t res_type = MIR_T_I64;
    MIR_item_t func = MIR_new_func_arr (ctx, fname, 1, &res_type, 0, NULL);
    MIR_op_t ops[3];
    MIR_insn_t lab = NULL;
    int n, ok = 1;
    for (n = 0; n < 3; n++) {
      int out_p;
      MIR_op_mode_t mode = _MIR_insn_code_op_mode (ctx, code, n, &out_p);
      if (mode == MIR_OP_BOUND) break;
      char rname[8];
      snprintf (rname, sizeof (rname), "qa%d", n);
      if (mode == MIR_OP_LABEL) {
        lab = MIR_new_label (ctx);
        ops[n] = MIR_new_label_op (ctx, lab);
      } else if (mode == MIR_OP_INT || mode == MIR_OP_UINT) {
        ops[n] = MIR_new_reg_op (ctx, MIR_new_func_reg (ctx, func->u.func, MIR_T_I64, rname));
      } else if (mode == MIR_OP_FLOAT) {
        ops[n] = MIR_new_reg_op (ctx, MIR_new_func_reg (ctx, func->u.func, MIR_T_F, rname));
      } else if (mode == MIR_OP_DOUBLE) {
        ops[n] = MIR_new_reg_op (ctx, MIR_new_func_reg (ctx, func->u.func, MIR_T_D, rname));
      } else if (mode == MIR_OP_LDOUBLE) {
        ops[n] = MIR_new_reg_op (ctx, MIR_new_func_reg (ctx, func->u.func, MIR_T_LD, rname));
      } else {
        ok = 0;
      }
    }
    if (code == MIR_BO || code == MIR_BNO || code == MIR_UBO || code == MIR_UBNO) { /* need an overflow insn before them */
      MIR_op_t q = MIR_new_reg_op (ctx, MIR_new_func_reg (ctx, func->u.func, MIR_T_I64, "qb0"));
      MIR_append_insn (ctx, func, MIR_new_insn (ctx, MIR_ADDO, q, q, q));
    }
    if (ok && n > 0) MIR_append_insn (ctx, func, MIR_new_insn_arr (ctx, code, n, ops));
    if (lab != NULL) MIR_append_insn (ctx, func, lab);
    MIR_append_insn (ctx, func, MIR_new_ret_insn (ctx, 1, MIR_new_int_op (ctx, 0)));
    MIR_finish_func (ctx);
  }
  MIR_finish_module (ctx);
  MIR_module2c (ctx, stdout, m);
  MIR_finish (ctx);
  return 0;
}

/* one function per line `<ty> <form> <scale> <disp>` on stdin: `pa_<n>` holding just a move of the type's kind from the
   memory operand <ty>:<disp>(qb, qi, <scale>) (form letters b / i / d say which parts are present) into register qa0, and
   `ret 0`; the C text mir2c prints goes to stdout.  Used by tools/tr_c20_addr.py to read (or cross-check) what out_op
   prints for every memory-operand address form. */
static int probeaddr_mode (void) {
  char line[200];
  MIR_context_t ctx = MIR_init ();
  MIR_set_error_func (ctx, err_func);
  MIR_module_t m = MIR_new_module (ctx, "probeaddr");
  int n = 0;
  if (setjmp (err_jmp)) {
    fprintf (stderr, "probeaddr: %s\n", err_msg);
    return 3;
  }
  while (fgets (line, sizeof (line), stdin) != NULL) {
    char ty[8], form[8];
    int scale;
    long long disp;
    if (sscanf (line, "%7s %7s %d %lld", ty, form, &scale, &disp) != 4) continue;
    MIR_type_t t = type_of_name (ty);
    if (t == MIR_T_BOUND) continue;
    char fname[40];
    snprintf (fname, sizeof (fname), "pa_%d", n++);
    MIR_type_t res_type = MIR_T_I64;
    MIR_item_t func = MIR_new_func_arr (ctx, fname, 1, &res_type, 0, NULL);
    char k = t == MIR_T_F ? 'f' : t == MIR_T_D ? 'd' : t == MIR_T_LD ? 'l' : 'i';
    MIR_reg_t v = MIR_new_func_reg (ctx, func->u.func, kind_type (k), "qa0");
    MIR_reg_t base = strchr (form, 'b') != NULL ? MIR_new_func_reg (ctx, func->u.func, MIR_T_I64, "qb") : 0;
    MIR_reg_t index = strchr (form, 'i') != NULL ? MIR_new_func_reg (ctx, func->u.func, MIR_T_I64, "qi") : 0;
    MIR_op_t mem = MIR_new_mem_op (ctx, t, strchr (form, 'd') != NULL ? (MIR_disp_t) disp : 0, base, index, (MIR_scale_t) scale);
    MIR_append_insn (ctx, func, MIR_new_insn (ctx, kind_mov (k), MIR_new_reg_op (ctx, v), mem));
    MIR_append_insn (ctx, func, MIR_new_ret_insn (ctx, 1, MIR_new_int_op (ctx, 0)));
    MIR_finish_func (ctx);
  }
  MIR_finish_module (ctx);
  MIR_module2c (ctx, stdout, m);
  MIR_finish (ctx);
  return 0;
}

#endif

/* a translation that addresses memory wrongly usually dies: the case is reported (c=ERR(signal n)) and the batch goes on */
#include <signal.h>
static sigjmp_buf runso_jmp;
static void runso_signal (int sig) { siglongjmp (runso_jmp, sig); }

static int runso_mode (const char *lib) {
  char line[2000];
  case_t c;
  void *h = dlopen (lib, RTLD_NOW);
  signal (SIGSEGV, runso_signal);
  signal (SIGBUS, runso_signal);
  signal (SIGFPE, runso_signal);
  signal (SIGILL, runso_signal);
  if (h == NULL) {
    printf ("ERR dlopen %s\n", dlerror ());
    return 2;
  }
  if (!c20_map_blocks ()) {
    printf ("ERR cannot map the fixed-address blocks\n");
    return 2;
  }
  while (fgets (line, sizeof (line), stdin) != NULL) {
    if (line[0] == '\n' || line[0] == '#') continue;
    if (!parse_case (line, &c)) continue;
    char fname[60];
    snprintf (fname, sizeof (fname), "c20_%s", c.id);
    int64_t (*fun) (int64_t) = (int64_t (*) (int64_t)) dlsym (h, fname);
    printf ("%s", c.id);
    if (fun == NULL) {
      printf (" c=ERR(no symbol)\n");
      continue;
    }
    c20_select_block (&c);
    fix_disps_c20 (&c);
    fill_block (&c);
    save_block ();
    int sig = sigsetjmp (runso_jmp, 1);
    if (sig != 0) {
      printf (" c=ERR(signal-%d)\n", sig);
      fflush (stdout);
      continue;
    }
    int64_t ret = fun ((int64_t) (intptr_t) block);
    print_obs ("c", ret);
    printf ("\n");
    fflush (stdout);
  }
  return 0;
}

int main (int argc, char **argv) {
  if (argc >= 2 && strcmp (argv[1], "run") == 0) return run_mode ();
#ifdef C02_WITH_MIR2C
  if (argc >= 3 && strcmp (argv[1], "emitc") == 0) return emitc_mode (argv[2]);
#endif
  if (argc >= 3 && strcmp (argv[1], "runso") == 0) return runso_mode (argv[2]);
#ifdef C02_WITH_MIR2C
  if (argc >= 2 && strcmp (argv[1], "probe") == 0) return probe_mode ();
  if (argc >= 2 && strcmp (argv[1], "probeaddr") == 0) return probeaddr_mode ();
#endif
  fprintf (stderr, "usage: c02_insn run | emitc FILE | runso LIB   (cases on stdin)\n");
  return 2;
}

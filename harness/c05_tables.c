/* C05/C06: prints, by EXECUTING the static functions of the checked tree's generator, the finite tables
   that tools/tr_c05_abi.py turns into coq/gen/C05Abi.v:
     ext <TYPE> <CODE>        get_ext_code for every integer MIR type
     intreg <n> <hardreg|-1>  get_int_arg_reg (n), n = 0..9      fpreg <n> <hardreg|-1> likewise, n = 0..11
     callused <r> <0|1>       target_call_used_hard_reg_p for every hard register
     regsave <n>              reg_save_area_size
     pat <insn name>\t<operand pattern>\t<replacement>   every row of patterns[]
   The whole domain of each function is tabulated, so the table IS the function: a rewrite of the C text
   that keeps the behaviour yields the same table. */
#include "mir-gen.c"
#include <stdio.h>

static const char *ext_name (MIR_insn_code_t c) {
  switch (c) {
  case MIR_EXT8: return "EXT8";
  case MIR_UEXT8: return "UEXT8";
  case MIR_EXT16: return "EXT16";
  case MIR_UEXT16: return "UEXT16";
  case MIR_EXT32: return "EXT32";
  case MIR_UEXT32: return "UEXT32";
  case MIR_INVALID_INSN: return "INVALID_INSN";
  default: return "OTHER";
  }
}

int main (void) {
  static const struct { MIR_type_t t; const char *n; } tys[]
    = {{MIR_T_I8, "I8"}, {MIR_T_U8, "U8"}, {MIR_T_I16, "I16"}, {MIR_T_U16, "U16"}, {MIR_T_I32, "I32"},
       {MIR_T_U32, "U32"}, {MIR_T_I64, "I64"}, {MIR_T_U64, "U64"}, {MIR_T_P, "P"}};
  MIR_context_t ctx = MIR_init ();
  for (size_t i = 0; i < sizeof (tys) / sizeof (tys[0]); i++)
    printf ("ext %s %s\n", tys[i].n, ext_name (get_ext_code (tys[i].t)));
  for (size_t n = 0; n < 10; n++) {
    MIR_reg_t r = get_int_arg_reg (n);
    printf ("intreg %d %d\n", (int) n, r == MIR_NON_VAR ? -1 : (int) r);
  }
  for (size_t n = 0; n < 12; n++) {
    MIR_reg_t r = get_fp_arg_reg (n);
    printf ("fpreg %d %d\n", (int) n, r == MIR_NON_VAR ? -1 : (int) r);
  }
  for (int r = 0; r <= MAX_HARD_REG; r++)
    printf ("callused %d %d\n", r, target_call_used_hard_reg_p ((MIR_reg_t) r, MIR_T_UNDEF) ? 1 : 0);
  printf ("regsave %d\n", (int) reg_save_area_size);
  for (size_t i = 0; i < sizeof (patterns) / sizeof (patterns[0]); i++)
    printf ("pat %s\t%s\t%s\n", MIR_insn_name (ctx, patterns[i].code), patterns[i].pattern, patterns[i].replacement);
  return 0;
}

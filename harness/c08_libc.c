/* C08: real libc headers and data shared between c2m-compiled code and the native libc: the same TU is run by
   c2m (-ei, -eg) and compiled by gcc; every output line must be identical.  struct-returning libc functions
   (div, ldiv, lldiv), struct-filling ones (gmtime, stat), struct-reading ones (timegm), and the layout of
   the glibc structures themselves as c2m parses them from the system headers. */
#include <stdio.h>
#include <stdlib.h>
#include <stddef.h>
#include <time.h>
#include <sys/stat.h>
#include <sys/time.h>
#include <dirent.h>
#include <locale.h>
#include <signal.h>
#include <setjmp.h>
#define SZ(T) printf (#T " %zu %zu\n", sizeof (T), _Alignof (T))
#define OFF(T, f) printf (#T "." #f " %zu %zu\n", offsetof (T, f), sizeof (((T *) 0)->f))
int main (void) {
  div_t d = div (17, 5); ldiv_t l = ldiv (-170000000001L, 7); lldiv_t ll = lldiv (99LL, -10LL);
  printf ("div %d %d ldiv %ld %ld lldiv %lld %lld\n", d.quot, d.rem, l.quot, l.rem, ll.quot, ll.rem);
  time_t t = 1234567890; struct tm *g = gmtime (&t);
  printf ("tm %d %d %d %d %d %d %d %d\n", g->tm_sec, g->tm_min, g->tm_hour, g->tm_mday, g->tm_mon, g->tm_year, g->tm_wday, g->tm_yday);
  struct tm m = {0}; m.tm_year = 100; m.tm_mon = 1; m.tm_mday = 29; m.tm_hour = 12;
  printf ("timegm %ld\n", (long) timegm (&m));
  struct stat st; if (stat ("/", &st) == 0) printf ("stat mode %o isdir %d nlink>0 %d\n", (unsigned) (st.st_mode & S_IFMT), S_ISDIR (st.st_mode), st.st_nlink > 0);
  SZ (struct tm); SZ (struct stat); SZ (struct timespec); SZ (struct timeval); SZ (struct dirent); SZ (struct lconv); SZ (div_t); SZ (ldiv_t); SZ (lldiv_t);
  SZ (struct sigaction); SZ (sigset_t); SZ (jmp_buf); SZ (FILE); SZ (fpos_t);
  OFF (struct tm, tm_year); OFF (struct tm, tm_gmtoff); OFF (struct tm, tm_zone);
  OFF (struct stat, st_mode); OFF (struct stat, st_size); OFF (struct stat, st_mtim); OFF (struct stat, st_blocks);
  OFF (struct dirent, d_name); OFF (struct dirent, d_type); OFF (struct sigaction, sa_mask); OFF (struct sigaction, sa_flags);
  return 0;
}

/* C18 harness: N threads, each with its OWN MIR context, each executing its own API script
   (harness/c17_api.h) `reps` times (so context creation and destruction overlap the other threads'
   compiling, linking, interpreting and generating).  Built with -fsanitize=thread (variant 'tsan'):
   ThreadSanitizer reports every pair of conflicting, unsynchronised accesses to library memory on
   stderr.  Each thread's results are printed so that the parallel run can be compared with the
   sequential run (mode seq: the same scripts, one thread after another).
   The harness shares nothing between threads: one struct api + one output buffer per thread; the
   threads only meet at the start barrier (no further synchronisation, which would hide races).

   stdin:  "threads <N> reps <R> mode <par|seq> [alloc <default|arena>]"  then lines "<tid> <api command>", then "end".
   stdout: "T<tid> <result or diagnostic line>" in thread order. */
#define _GNU_SOURCE
#include <pthread.h>
#include <stdio.h>
#include <stdlib.h>
#include <string.h>
#include <sys/mman.h>
#include "c17_api.h"

#define MAXT 16

struct th {
  struct api api;
  char **lines;
  size_t nlines, cap;
  char *out;
  size_t olen, ocap;
  int reps, failed, tid;
  pthread_t pt;
  struct MIR_code_alloc code_alloc;
};

static struct th ths[MAXT];
static pthread_barrier_t start_barrier;
static int use_barrier;

static void th_out (struct api *a, const char *line);

/* ---- optional arena code allocator (header "alloc arena"): all contexts get their code pages from ONE
   contiguous arena, so holders of different contexts are neighbours, and every mem_protect / mem_unmap is checked
   to touch only pages the calling context owns.  A context changing the protection of another context's page is
   interference even though no data race is visible to TSan.  Owner bytes are relaxed atomics (no extra
   happens-before edges between the threads); the bump pointer is taken under a mutex only in mem_map. */
#define ARENA_PAGES 16384
#define APAGE 4096ul
static uint8_t *arena;
static size_t arena_next;
static unsigned char arena_owner[ARENA_PAGES];
static pthread_mutex_t arena_lock = PTHREAD_MUTEX_INITIALIZER;

static void *ar_map (size_t len, void *ud) {
  struct th *t = ud;
  size_t np = (len + APAGE - 1) / APAGE, first;
  pthread_mutex_lock (&arena_lock);
  first = arena_next;
  arena_next += np;
  pthread_mutex_unlock (&arena_lock);
  if (first + np > ARENA_PAGES) return NULL;
  for (size_t i = 0; i < np; i++) __atomic_store_n (&arena_owner[first + i], (unsigned char) (t->tid + 1), __ATOMIC_RELAXED);
  return arena + first * APAGE;
}

static int ar_check (struct th *t, const char *what, void *ptr, size_t len) {
  size_t lo, hi;
  if ((uint8_t *) ptr < arena || (uint8_t *) ptr + len > arena + ARENA_PAGES * APAGE || len == 0) {
    char b[120];
    sprintf (b, "X FOREIGN-%s outside the arena", what);
    if (len != 0) th_out (&t->api, b);
    return len == 0;
  }
  lo = (size_t) ((uint8_t *) ptr - arena) / APAGE;
  hi = (size_t) ((uint8_t *) ptr + len - 1 - arena) / APAGE;
  for (size_t i = lo; i <= hi; i++) {
    unsigned o = __atomic_load_n (&arena_owner[i], __ATOMIC_RELAXED);
    if (o != (unsigned) (t->tid + 1)) {
      char b[160];
      sprintf (b, "X FOREIGN-%s context of thread %d touches a code page owned by %s%d", what, t->tid,
               o == 0 ? "nobody " : "thread ", o == 0 ? 0 : (int) o - 1);
      th_out (&t->api, b);
      fprintf (stderr, "C18-%s\n", b + 2); /* at once: the run may not survive what follows */
      return 0;
    }
  }
  return 1;
}

static int ar_unmap (void *ptr, size_t len, void *ud) {
  struct th *t = ud;
  if (!ar_check (t, "UNMAP", ptr, len)) return -1;
  size_t lo = (size_t) ((uint8_t *) ptr - arena) / APAGE, np = (len + APAGE - 1) / APAGE;
  mprotect (ptr, np * APAGE, PROT_NONE);
  for (size_t i = 0; i < np; i++) __atomic_store_n (&arena_owner[lo + i], 0, __ATOMIC_RELAXED);
  return 0;
}

static int ar_protect (void *ptr, size_t len, MIR_mem_protect_t prot, void *ud) {
  struct th *t = ud;
  ar_check (t, "PROTECT", ptr, len); /* recorded; the request is carried out as a real allocator would */
  return mprotect (ptr, len, prot == PROT_WRITE_EXEC ? PROT_READ | PROT_WRITE | PROT_EXEC : PROT_READ | PROT_EXEC);
}

static void th_out (struct api *a, const char *line) {
  struct th *t = a->user;
  size_t n = strlen (line);
  if (t->olen + n + 24 > t->ocap) {
    t->ocap = 2 * (t->olen + n + 24);
    t->out = realloc (t->out, t->ocap);
  }
  t->olen += (size_t) sprintf (t->out + t->olen, "T%d %s\n", t->tid, line);
}

static void *th_main (void *arg) {
  struct th *t = arg;
  if (use_barrier) pthread_barrier_wait (&start_barrier);
  for (int r = 0; r < t->reps && !t->failed; r++) {
    struct api *a = &t->api;
    a->ctx = NULL;
    a->gen_on = a->c2m_on = a->linked = 0;
    a->nloaded = 0;
    a->wlen = a->rpos = 0;
    for (size_t i = 0; i < t->nlines; i++)
      if (api_exec (a, t->lines[i]) != 0) {
        t->failed = 1;
        break;
      }
  }
  api_cleanup_files (&t->api);
  return NULL;
}

int main (void) {
  static char line[1 << 20];
  int n = 2, reps = 1, par = 1;
  char mode[16] = "par";
  FILE *nullf = fopen ("/dev/null", "w");

  char amode[16] = "default";
  if (fgets (line, sizeof (line), stdin) == NULL
      || sscanf (line, "threads %d reps %d mode %15s alloc %15s", &n, &reps, mode, amode) < 3) {
    fprintf (stderr, "bad header\n");
    return 64;
  }
  if (n < 1 || n > MAXT) return 64;
  par = strcmp (mode, "par") == 0;
  for (int i = 0; i < n; i++) {
    ths[i].tid = i;
    ths[i].reps = reps;
    ths[i].api.id = i;
    ths[i].api.alloc = NULL; /* default allocators: plain malloc/mmap, which TSan knows */
    ths[i].api.code_alloc = NULL;
    if (strcmp (amode, "arena") == 0) {
      if (arena == NULL)
        arena = mmap (NULL, ARENA_PAGES * APAGE, PROT_READ | PROT_EXEC, MAP_PRIVATE | MAP_ANONYMOUS | MAP_NORESERVE, -1, 0);
      ths[i].code_alloc = (struct MIR_code_alloc){ar_map, ar_unmap, ar_protect, &ths[i]};
      ths[i].api.code_alloc = &ths[i].code_alloc;
    }
    ths[i].api.out = th_out;
    ths[i].api.user = &ths[i];
    ths[i].api.null_file = nullf;
  }
  while (fgets (line, sizeof (line), stdin) != NULL) {
    size_t len = strlen (line);
    int tid;
    struct th *t;
    while (len > 0 && (line[len - 1] == '\n' || line[len - 1] == '\r')) line[--len] = 0;
    if (len == 0 || line[0] == '#') continue;
    if (strcmp (line, "end") == 0) break;
    tid = atoi (line);
    if (tid < 0 || tid >= n || strchr (line, ' ') == NULL) return 64;
    t = &ths[tid];
    if (t->nlines == t->cap) {
      t->cap = t->cap ? 2 * t->cap : 32;
      t->lines = realloc (t->lines, t->cap * sizeof (char *));
    }
    t->lines[t->nlines++] = strdup (strchr (line, ' ') + 1);
  }
  use_barrier = par;
  if (par) {
    pthread_barrier_init (&start_barrier, NULL, (unsigned) n);
    for (int i = 0; i < n; i++) pthread_create (&ths[i].pt, NULL, th_main, &ths[i]);
    for (int i = 0; i < n; i++) pthread_join (ths[i].pt, NULL);
  } else {
    for (int i = 0; i < n; i++) { /* one after another, still in fresh threads */
      pthread_create (&ths[i].pt, NULL, th_main, &ths[i]);
      pthread_join (ths[i].pt, NULL);
    }
  }
  for (int i = 0; i < n; i++) {
    if (ths[i].out != NULL) fwrite (ths[i].out, 1, ths[i].olen, stdout);
    printf ("T%d %s\n", i, ths[i].failed ? "FAILED" : "DONE");
  }
  fflush (stdout);
  return 0;
}

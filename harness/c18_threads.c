/* C18 harness: N threads, each with its OWN MIR context, each executing its own API script
   (harness/c17_api.h) `reps` times (so context creation and destruction overlap the other threads'
   compiling, linking, interpreting and generating).  Built with -fsanitize=thread (variant 'tsan'):
   ThreadSanitizer reports every pair of conflicting, unsynchronised accesses to library memory on
   stderr.  Each thread's results are printed so that the parallel run can be compared with the
   sequential run (mode seq: the same scripts, one thread after another).
   The harness shares nothing between threads: one struct api + one output buffer per thread; the
   threads only meet at the start barrier (no further synchronisation, which would hide races).

   stdin:  "threads <N> reps <R> mode <par|seq>"  then lines "<tid> <api command>", then "end".
   stdout: "T<tid> <result or diagnostic line>" in thread order. */
#define _GNU_SOURCE
#include <pthread.h>
#include <stdio.h>
#include <stdlib.h>
#include <string.h>
#include "c17_api.h"

#define MAXT 16

struct th {
  struct api api;
  char **lines;
  size_t nlines, cap;
  char *out;
  size_t olen, ocap;
  int reps, failed, tid;
  pthread_t pt;
};

static struct th ths[MAXT];
static pthread_barrier_t start_barrier;
static int use_barrier;

static void th_out (struct api *a, const char *line) {
  struct th *t = a->user;
  size_t n = strlen (line);
  if (t->olen + n + 24 > t->ocap) {
    t->ocap = 2 * (t->olen + n + 24);
    t->out = realloc (t->out, t->ocap);
  }
  t->olen += (size_t) sprintf (t->out + t->olen, "T%d %s\n", t->tid, line);
}

static void *th_main (void *arg) {
  struct th *t = arg;
  if (use_barrier) pthread_barrier_wait (&start_barrier);
  for (int r = 0; r < t->reps && !t->failed; r++) {
    struct api *a = &t->api;
    a->ctx = NULL;
    a->gen_on = a->c2m_on = a->linked = 0;
    a->nloaded = 0;
    a->wlen = a->rpos = 0;
    for (size_t i = 0; i < t->nlines; i++)
      if (api_exec (a, t->lines[i]) != 0) {
        t->failed = 1;
        break;
      }
  }
  return NULL;
}

int main (void) {
  static char line[1 << 20];
  int n = 2, reps = 1, par = 1;
  char mode[16] = "par";
  FILE *nullf = fopen ("/dev/null", "w");

  if (fgets (line, sizeof (line), stdin) == NULL || sscanf (line, "threads %d reps %d mode %15s", &n, &reps, mode) != 3) {
    fprintf (stderr, "bad header\n");
    return 64;
  }
  if (n < 1 || n > MAXT) return 64;
  par = strcmp (mode, "par") == 0;
  for (int i = 0; i < n; i++) {
    ths[i].tid = i;
    ths[i].reps = reps;
    ths[i].api.id = i;
    ths[i].api.alloc = NULL; /* default allocators: plain malloc/mmap, which TSan knows */
    ths[i].api.code_alloc = NULL;
    ths[i].api.out = th_out;
    ths[i].api.user = &ths[i];
    ths[i].api.null_file = nullf;
  }
  while (fgets (line, sizeof (line), stdin) != NULL) {
    size_t len = strlen (line);
    int tid;
    struct th *t;
    while (len > 0 && (line[len - 1] == '\n' || line[len - 1] == '\r')) line[--len] = 0;
    if (len == 0 || line[0] == '#') continue;
    if (strcmp (line, "end") == 0) break;
    tid = atoi (line);
    if (tid < 0 || tid >= n || strchr (line, ' ') == NULL) return 64;
    t = &ths[tid];
    if (t->nlines == t->cap) {
      t->cap = t->cap ? 2 * t->cap : 32;
      t->lines = realloc (t->lines, t->cap * sizeof (char *));
    }
    t->lines[t->nlines++] = strdup (strchr (line, ' ') + 1);
  }
  use_barrier = par;
  if (par) {
    pthread_barrier_init (&start_barrier, NULL, (unsigned) n);
    for (int i = 0; i < n; i++) pthread_create (&ths[i].pt, NULL, th_main, &ths[i]);
    for (int i = 0; i < n; i++) pthread_join (ths[i].pt, NULL);
  } else {
    for (int i = 0; i < n; i++) { /* one after another, still in fresh threads */
      pthread_create (&ths[i].pt, NULL, th_main, &ths[i]);
      pthread_join (ths[i].pt, NULL);
    }
  }
  for (int i = 0; i < n; i++) {
    if (ths[i].out != NULL) fwrite (ths[i].out, 1, ths[i].olen, stdout);
    printf ("T%d %s\n", i, ths[i].failed ? "FAILED" : "DONE");
  }
  fflush (stdout);
  return 0;
}

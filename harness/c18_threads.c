/* C18 harness: N threads, each with its OWN MIR context, each executing its own API script
   (harness/c17_api.h) `reps` times (so context creation and destruction overlap the other threads'
   compiling, linking, interpreting and generating).  Built with -fsanitize=thread (variant 'tsan'):
   ThreadSanitizer reports every pair of conflicting, unsynchronised accesses to library memory on
   stderr.  Each thread's results are printed so that the parallel run can be compared with the
   sequential run (mode seq: the same scripts, one thread after another).
   The harness shares nothing between threads: one struct api + one output buffer per thread; the
   threads only meet at the start barrier (no further synchronisation, which would hide races).

   stdin:  "threads <N> reps <R> mode <par|seq> [alloc <default|arena|p00|pff|p5a|dirty|arena+pff...>]"  then lines "<tid> <api command>", then "end".
   stdout: "T<tid> <result or diagnostic line>" in thread order. */
#define _GNU_SOURCE
#include <pthread.h>
#include <stdio.h>
#include <stdlib.h>
#include <string.h>
#include <sys/mman.h>
#include "c17_api.h"

#define MAXT 16
#define PB_BUCKETS 1024
struct pblk {
  size_t size;
  struct pblk *next;
};

struct th {
  struct api api;
  char **lines;
  size_t nlines, cap;
  char *out;
  size_t olen, ocap;
  int reps, failed, tid;
  pthread_t pt;
  struct MIR_code_alloc code_alloc;
  /* poisoning data allocator (header "alloc p00|pff|p5a|dirty", may be combined: "arena+pff") */
  struct MIR_alloc data_alloc;
  int fill; /* byte every block handed out is pre-filled with, or -1: dirty = freed blocks are handed out again
               (same size, last freed first) with the bytes their previous owner left in them */
  struct pblk *freed[PB_BUCKETS];
};

static struct th ths[MAXT];
static pthread_barrier_t start_barrier;
static int use_barrier;

static void th_out (struct api *a, const char *line);

/* ---- optional arena code allocator (header "alloc arena"): all contexts get their code pages from ONE
   contiguous arena, so holders of different contexts are neighbours, and every mem_protect / mem_unmap is checked
   to touch only pages the calling context owns.  A context changing the protection of another context's page is
   interference even though no data race is visible to TSan.  Owner bytes are relaxed atomics (no extra
   happens-before edges between the threads); the bump pointer is taken under a mutex only in mem_map. */
#define ARENA_PAGES 16384
#define APAGE 4096ul
static uint8_t *arena;
static size_t arena_next;
static unsigned char arena_owner[ARENA_PAGES];
static pthread_mutex_t arena_lock = PTHREAD_MUTEX_INITIALIZER;

static void *ar_map (size_t len, void *ud) {
  struct th *t = ud;
  size_t np = (len + APAGE - 1) / APAGE, first;
  pthread_mutex_lock (&arena_lock);
  first = arena_next;
  arena_next += np;
  pthread_mutex_unlock (&arena_lock);
  if (first + np > ARENA_PAGES) return NULL;
  for (size_t i = 0; i < np; i++) __atomic_store_n (&arena_owner[first + i], (unsigned char) (t->tid + 1), __ATOMIC_RELAXED);
  return arena + first * APAGE;
}

static int ar_check (struct th *t, const char *what, void *ptr, size_t len) {
  size_t lo, hi;
  if ((uint8_t *) ptr < arena || (uint8_t *) ptr + len > arena + ARENA_PAGES * APAGE || len == 0) {
    char b[120];
    sprintf (b, "X FOREIGN-%s outside the arena", what);
    if (len != 0) th_out (&t->api, b);
    return len == 0;
  }
  lo = (size_t) ((uint8_t *) ptr - arena) / APAGE;
  hi = (size_t) ((uint8_t *) ptr + len - 1 - arena) / APAGE;
  for (size_t i = lo; i <= hi; i++) {
    unsigned o = __atomic_load_n (&arena_owner[i], __ATOMIC_RELAXED);
    if (o != (unsigned) (t->tid + 1)) {
      char b[160];
      sprintf (b, "X FOREIGN-%s context of thread %d touches a code page owned by %s%d", what, t->tid,
               o == 0 ? "nobody " : "thread ", o == 0 ? 0 : (int) o - 1);
      th_out (&t->api, b);
      fprintf (stderr, "C18-%s\n", b + 2); /* at once: the run may not survive what follows */
      return 0;
    }
  }
  return 1;
}

static int ar_unmap (void *ptr, size_t len, void *ud) {
  struct th *t = ud;
  if (!ar_check (t, "UNMAP", ptr, len)) return -1;
  size_t lo = (size_t) ((uint8_t *) ptr - arena) / APAGE, np = (len + APAGE - 1) / APAGE;
  mprotect (ptr, np * APAGE, PROT_NONE);
  for (size_t i = 0; i < np; i++) __atomic_store_n (&arena_owner[lo + i], 0, __ATOMIC_RELAXED);
  return 0;
}

static int ar_protect (void *ptr, size_t len, MIR_mem_protect_t prot, void *ud) {
  struct th *t = ud;
  ar_check (t, "PROTECT", ptr, len); /* recorded; the request is carried out as a real allocator would */
  return mprotect (ptr, len, prot == PROT_WRITE_EXEC ? PROT_READ | PROT_WRITE | PROT_EXEC : PROT_READ | PROT_EXEC);
}

/* ---- poisoning data allocator.  The library must initialise every field of a context (and of the sub-contexts it
   allocates) itself: nothing may be inherited from what the allocator returns.  Every block handed out by malloc /
   the grown tail of realloc is pre-filled with a byte (0x00, 0xff, 0x5a) or, in mode dirty, is a block freed earlier
   by this thread (same size, last freed first: the next context's struct MIR_context is exactly the block of the
   finished one) with its old bytes.  The same script must behave identically under every fill.  All state is per
   thread (struct th). */
static void *pb_get (struct th *t, size_t n) {
  struct pblk *b;
  if (t->fill < 0) {
    struct pblk **pp = &t->freed[n % PB_BUCKETS];
    for (; *pp != NULL; pp = &(*pp)->next)
      if ((*pp)->size == n) {
        b = *pp;
        *pp = b->next;
        return b + 1;
      }
  }
  if ((b = malloc (sizeof (struct pblk) + n)) == NULL) return NULL;
  b->size = n;
  memset (b + 1, t->fill < 0 ? 0 : t->fill, n);
  return b + 1;
}
static void pb_put (struct th *t, void *p) {
  struct pblk *b;
  if (p == NULL) return;
  b = (struct pblk *) p - 1;
  if (t->fill < 0) {
    b->next = t->freed[b->size % PB_BUCKETS];
    t->freed[b->size % PB_BUCKETS] = b;
  } else {
    memset (p, (t->fill ^ 0x33) & 0xff, b->size); /* stale reads do not see valid data either */
    free (b);
  }
}
static void *pb_malloc (size_t n, void *ud) { return pb_get (ud, n); }
static void *pb_calloc (size_t k, size_t n, void *ud) {
  void *p = pb_get (ud, k * n);
  if (p != NULL) memset (p, 0, k * n);
  return p;
}
static void *pb_realloc (void *p, size_t old, size_t n, void *ud) {
  void *q = pb_get (ud, n);
  (void) old;
  if (q != NULL && p != NULL) {
    size_t o = ((struct pblk *) p - 1)->size;
    memcpy (q, p, o < n ? o : n);
    pb_put (ud, p);
  }
  return q;
}
static void pb_free (void *p, void *ud) { pb_put (ud, p); }

static void th_out (struct api *a, const char *line) {
  struct th *t = a->user;
  size_t n = strlen (line);
  if (t->olen + n + 24 > t->ocap) {
    t->ocap = 2 * (t->olen + n + 24);
    t->out = realloc (t->out, t->ocap);
  }
  t->olen += (size_t) sprintf (t->out + t->olen, "T%d %s\n", t->tid, line);
}

/* ---- script commands of this harness only (not known to harness/c17_api.h):
     redef <0|1>    MIR_set_func_redef_permission
     flags          print the option state a context exposes (func redefinition permission)
     dbglines <f>   MIR_gen of <f> with the debug output (level 0) summarised (lines, code length): depends on the optimize level
                    in force (default when the script did not set one)
     patchend       publish code filling its page exactly up to the page end, then patch it with _MIR_change_code /
                    _MIR_update_code / _MIR_update_code_arr at every position around the page end (last byte of the
                    patch = last byte of the page, one before, ...) and around the page start
   -> 1 handled, 0 not one of these, -1 failed */
static int c18_exec (struct th *t, const char *line) {
  struct api *a = &t->api;
  char cmd[32], s1[200];
  int err;
  s1[0] = 0;
  if (sscanf (line, "%31s %199s", cmd, s1) < 1) return 0;
  if (strcmp (cmd, "redef") != 0 && strcmp (cmd, "flags") != 0 && strcmp (cmd, "dbglines") != 0
      && strcmp (cmd, "patchend") != 0)
    return 0;
  if (a->ctx == NULL) return -1;
  api_cur = a;
  if ((err = setjmp (a->err_jmp)) != 0) {
    a->err_armed = 0;
    api_outf (a, "X MIRERROR %d %s", err - 1, a->errmsg);
    return -1;
  }
  a->err_armed = 1;
  if (strcmp (cmd, "redef") == 0) {
    MIR_set_func_redef_permission (a->ctx, atoi (s1));
  } else if (strcmp (cmd, "flags") == 0) {
    api_outf (a, "R flags redef=%d", MIR_get_func_redef_permission_p (a->ctx));
  } else if (strcmp (cmd, "dbglines") == 0) {
    MIR_item_t f = api_find_func (a, s1);
    FILE *df = tmpfile ();
    long n = 0, len = 0;
    static const char key[] = "len=";
    int c, k = 0;
    if (f == NULL || df == NULL || !a->gen_on) {
      a->err_armed = 0;
      api_outf (a, "X NOFUNC %s", s1);
      return -1;
    }
    MIR_gen_set_debug_file (a->ctx, df);
    MIR_gen_set_debug_level (a->ctx, 0); /* level 0: one line per generated function with the code length */
    void *addr = MIR_gen (a->ctx, f);
    MIR_gen_set_debug_file (a->ctx, a->null_file);
    fflush (df);
    rewind (df);
    while ((c = getc (df)) != EOF) {
      if (c == '\n') n++;
      if (c == key[k]) {
        if (key[++k] == 0) {
          long v = 0;
          while ((c = getc (df)) >= '0' && c <= '9') v = 10 * v + (c - '0');
          len += v;
          k = 0;
          if (c == '\n') n++;
        }
      } else
        k = c == key[0];
    }
    fclose (df);
    api_outf (a, "R dbglines %s %s lines=%ld codelen=%ld", s1, addr != NULL ? "ok" : "null", n, len);
  } else { /* patchend */
    static const uint8_t rets[2 * 4096] = {0};
    uint8_t nops[16];
    int npatch = 0;
    memset (nops, 0x90, sizeof (nops));
    for (int round = 0; round < 2; round++) {
      uint8_t *p = _MIR_get_new_code_addr (a->ctx, 1), *q, *end;
      size_t room = p == NULL ? 0 : 4096 - ((size_t) p & 4095);
      if (room == 0) break;
      if (room < 64) room += 4096; /* too little left: this page and the whole next one */
      q = _MIR_publish_code (a->ctx, rets, room);
      if (q == NULL || (((size_t) q + room) & 4095) != 0) { /* not placed at the free address: no page end to aim at */
        api_outf (a, "R patchend moved");
        continue;
      }
      end = q + room;
      for (size_t back = 0; back <= 2; back++)      /* patch ends `back` bytes before the page end */
        for (size_t len = 1; len <= 16; len += (len < 8 ? 7 : len == 8 ? 5 : 3)) { /* 1, 8, 13, 16 */
          _MIR_change_code (a->ctx, end - back - len, nops, len);
          npatch++;
        }
      for (size_t back = 0; back <= 1; back++) { /* relocation slot = last 8 bytes of the page / one before */
        MIR_code_reloc_t rl[2];
        _MIR_update_code (a->ctx, q, 1, room - 8 - back, nops);
        rl[0].offset = room - 24 - back;
        rl[0].value = nops;
        rl[1].offset = room - 8 - back;
        rl[1].value = nops;
        _MIR_update_code_arr (a->ctx, q, 2, rl);
        npatch += 2;
      }
      if (((size_t) q & 4095) == 0 || room > 4096) { /* a patch starting exactly at a page start */
        uint8_t *ps = (uint8_t *) (((size_t) end - 1) & ~(size_t) 4095);
        if (ps >= q) {
          _MIR_change_code (a->ctx, ps, nops, 8);
          npatch++;
        }
      }
    }
    api_outf (a, "R patchend %d", npatch);
  }
  a->err_armed = 0;
  return 1;
}

static void *th_main (void *arg) {
  struct th *t = arg;
  if (use_barrier) pthread_barrier_wait (&start_barrier);
  for (int r = 0; r < t->reps && !t->failed; r++) {
    struct api *a = &t->api;
    a->ctx = NULL;
    a->gen_on = a->c2m_on = a->linked = 0;
    a->nloaded = 0;
    a->wlen = a->rpos = 0;
    for (size_t i = 0; i < t->nlines; i++) {
      int h = c18_exec (t, t->lines[i]);
      if (h < 0 || (h == 0 && api_exec (a, t->lines[i]) != 0)) {
        t->failed = 1;
        break;
      }
    }
  }
  api_cleanup_files (&t->api);
  return NULL;
}

int main (void) {
  static char line[1 << 20];
  int n = 2, reps = 1, par = 1;
  char mode[16] = "par";
  FILE *nullf = fopen ("/dev/null", "w");

  char amode[32] = "default";
  if (fgets (line, sizeof (line), stdin) == NULL
      || sscanf (line, "threads %d reps %d mode %15s alloc %31s", &n, &reps, mode, amode) < 3) {
    fprintf (stderr, "bad header\n");
    return 64;
  }
  if (n < 1 || n > MAXT) return 64;
  par = strcmp (mode, "par") == 0;
  for (int i = 0; i < n; i++) {
    ths[i].tid = i;
    ths[i].reps = reps;
    ths[i].api.id = i;
    ths[i].api.alloc = NULL; /* default allocators: plain malloc/mmap, which TSan knows */
    ths[i].api.code_alloc = NULL;
    ths[i].fill = strstr (amode, "p00")   ? 0x00
                  : strstr (amode, "pff") ? 0xff
                  : strstr (amode, "p5a") ? 0x5a
                  : strstr (amode, "dirty") ? -1
                                            : -2;
    if (ths[i].fill != -2) {
      ths[i].data_alloc = (struct MIR_alloc){pb_malloc, pb_calloc, pb_realloc, pb_free, &ths[i]};
      ths[i].api.alloc = &ths[i].data_alloc;
    }
    if (strstr (amode, "arena") != NULL) {
      if (arena == NULL)
        arena = mmap (NULL, ARENA_PAGES * APAGE, PROT_READ | PROT_EXEC, MAP_PRIVATE | MAP_ANONYMOUS | MAP_NORESERVE, -1, 0);
      ths[i].code_alloc = (struct MIR_code_alloc){ar_map, ar_unmap, ar_protect, &ths[i]};
      ths[i].api.code_alloc = &ths[i].code_alloc;
    }
    ths[i].api.out = th_out;
    ths[i].api.user = &ths[i];
    ths[i].api.null_file = nullf;
  }
  while (fgets (line, sizeof (line), stdin) != NULL) {
    size_t len = strlen (line);
    int tid;
    struct th *t;
    while (len > 0 && (line[len - 1] == '\n' || line[len - 1] == '\r')) line[--len] = 0;
    if (len == 0 || line[0] == '#') continue;
    if (strcmp (line, "end") == 0) break;
    tid = atoi (line);
    if (tid < 0 || tid >= n || strchr (line, ' ') == NULL) return 64;
    t = &ths[tid];
    if (t->nlines == t->cap) {
      t->cap = t->cap ? 2 * t->cap : 32;
      t->lines = realloc (t->lines, t->cap * sizeof (char *));
    }
    t->lines[t->nlines++] = strdup (strchr (line, ' ') + 1);
  }
  use_barrier = par;
  if (par) {
    pthread_barrier_init (&start_barrier, NULL, (unsigned) n);
    for (int i = 0; i < n; i++) pthread_create (&ths[i].pt, NULL, th_main, &ths[i]);
    for (int i = 0; i < n; i++) pthread_join (ths[i].pt, NULL);
  } else {
    for (int i = 0; i < n; i++) { /* one after another, still in fresh threads */
      pthread_create (&ths[i].pt, NULL, th_main, &ths[i]);
      pthread_join (ths[i].pt, NULL);
    }
  }
  for (int i = 0; i < n; i++) {
    if (ths[i].out != NULL) fwrite (ths[i].out, 1, ths[i].olen, stdout);
    printf ("T%d %s\n", i, ths[i].failed ? "FAILED" : "DONE");
  }
  fflush (stdout);
  return 0;
}

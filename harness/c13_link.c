/* C13 correspondence harness: runs load/load_external/link histories on the REAL mir.c of the
   current tree.  One history per input line, one canonical output line per history.

   history := op { ';' op }
   op      := 'L' decl*          create a module from the declarations (in order), finish it, load it
            | 'X' n a            MIR_load_external ("n<n>", ext function number a)
            | 'R' <int>          MIR_set_func_redef_permission (any int: non-zero = permitted)
            | 'K' mask iface     MIR_link (iface: i = interpreter, g = generator, l = lazy generator,
                                 q = interpreter, but no accessor is executed after this link);
                                 the import resolver resolves name n iff bit n of mask is set
            | 'J' mask iface { '@' n ans { '+' decl* } }
                                 MIR_link with a SCRIPTED resolver that loads modules itself (re-entrant
                                 MIR_load_module during the link): asked for name n (first entry for n) it
                                 loads the entry's modules (built before MIR_link is called, module numbers
                                 in script order) and answers ans: '0' = NULL, 'x'a = external a, 'm' = the
                                 address of the definition of n in the last module it has just loaded
                                 (NULL if none); names without an entry: as for 'K'.  iface i/g/l/q.
                                 Resolver log entries are printed as n<n>:<address identity>.
   decl    := 'i'n | 'e'n | 'f'n | 'F'n | 'B'n | 'D'n | 'S'n | 'P'n   import / export / forward / func /
                                                        big func / data / data section of several items
                                                        (named head + anonymous followers) / proto
                                                        of name "n<n>"

   The k-th 'L' op creates module k.  Its function n returns 1000+16*k+n, its data n holds
   5000+16*k+n, external function a returns 9000+a, the resolver supplies external 100+n for n.
   After the declared items each module gets, per imported name, a caller `acc_c_<name>` (calls the
   import with `call`), `acc_i_<name>` (with `inline`) and a reader `acc_r_<name>` (loads an i64
   through the import's address).

   iface `n` = MIR_link (ctx, NULL, resolver): imports are bound, the modules stay queued.

   Output: per op `ok` or `E:<error>`.  An error raised while a module is being BUILT ends the
   history (the context cannot be used through the public API any more: curr_func dangles); an error
   raised by MIR_load_module or MIR_link does not: the error function longjmps back and the history
   CONTINUES in the same context.  After each link: `res=[n:a,...]` (resolver calls that returned an
   address, in order; also after a failed link) and, when the link completed, for every module
   whose interface has been set so far `m<k>{<kind><n>=<addr>[/<value>] ...}` for its
   import/export/forward items in item order, where <addr> is `null`, `M<k>.<idx>` (address of the
   definition item idx of module k) or `X<a>`, and <value> is what calling/reading through the
   import yields (the accessor is entered through its thunk, i.e. through the interface chosen for
   the link; `E:<error>` when the call raises one).  After a NULL-interface link the still queued
   modules are printed as `p<k>{...}` (addresses only). */
#include <stdio.h>
#include <stdlib.h>
#include <string.h>
#include <stdint.h>
#include <setjmp.h>
#include <stdarg.h>
#include <signal.h>
#include <unistd.h>
#include <sys/time.h>
#include "mir.h"
#include "mir-gen.h"

#define MAXMOD 64
#define MAXN 8

static jmp_buf err_jmp, call_jmp;
static volatile int in_call; /* an accessor is running: errors go back to call_acc */
static int err_code;
static void MIR_NO_RETURN err_func (MIR_error_type_t t, const char *fmt, ...) {
  err_code = (int) t;
  longjmp (in_call ? call_jmp : err_jmp, 1);
}

static const char *err_name (int e) {
  switch (e) {
  case MIR_repeated_decl_error: return "repeated_decl";
  case MIR_import_export_error: return "import_export";
  case MIR_undeclared_op_ref_error: return "undeclared_op_ref";
  case MIR_call_op_error: return "call_op";
  default: {
    static char b[32];
    sprintf (b, "err%d", e);
    return b;
  }
  }
}

#define EXTF(n) \
  static int64_t ext##n (void) { return 9000 + n; }
EXTF (0) EXTF (1) EXTF (2) EXTF (3) EXTF (4) EXTF (5) EXTF (6) EXTF (7)
EXTF (100) EXTF (101) EXTF (102) EXTF (103) EXTF (104) EXTF (105) EXTF (106) EXTF (107)
static struct { int id; int64_t (*f) (void); } exts[] = {
  {0, ext0}, {1, ext1}, {2, ext2}, {3, ext3}, {4, ext4}, {5, ext5}, {6, ext6}, {7, ext7},
  {100, ext100}, {101, ext101}, {102, ext102}, {103, ext103}, {104, ext104}, {105, ext105},
  {106, ext106}, {107, ext107}};
#define NEXTS (sizeof (exts) / sizeof (exts[0]))
static void *ext_addr (int id) {
  for (size_t i = 0; i < NEXTS; i++)
    if (exts[i].id == id) return (void *) exts[i].f;
  return NULL;
}

static unsigned res_mask;
static char res_log[256];
static void *resolver (const char *name) {
  int n = atoi (name + 1);
  if (name[0] != 'n' || n < 0 || n >= MAXN || !((res_mask >> n) & 1)) return NULL;
  char t[32];
  sprintf (t, "%sn%d:%d", res_log[0] ? "," : "", n, 100 + n);
  if (strlen (res_log) + strlen (t) < sizeof (res_log)) strcat (res_log, t);
  return ext_addr (100 + n);
}

struct mod {
  MIR_module_t m;
  int nspec;                 /* number of items that come from the declarations */
  int state;                 /* 0 = not loaded (load failed), 1 = loaded and queued, 2 = interface set */
  int nulled;                /* went through a NULL-interface link while queued */
  MIR_item_t imp[MAXN];      /* import item per name */
  MIR_item_t acc_c[MAXN], acc_i[MAXN], acc_r[MAXN];
};
static struct mod mods[MAXMOD];
static int nmods;

static void nm (char *b, int n) { sprintf (b, "n%d", n); }

static void build_module (MIR_context_t ctx, int k, char *decls) {
  struct mod *md = &mods[k];
  char mname[32], name[32], an[48];
  MIR_type_t i64 = MIR_T_I64;
  memset (md, 0, sizeof (*md));
  sprintf (mname, "m%d", k);
  md->m = MIR_new_module (ctx, mname);
  char *save, *d;
  for (d = strtok_r (decls, " \t", &save); d != NULL; d = strtok_r (NULL, " \t", &save)) {
    int n = atoi (d + 1);
    if (n < 0 || n >= MAXN) continue;
    nm (name, n);
    switch (d[0]) {
    case 'i': md->imp[n] = MIR_new_import (ctx, name); break;
    case 'e': MIR_new_export (ctx, name); break;
    case 'f': MIR_new_forward (ctx, name); break;
    case 'F': {
      MIR_item_t f = MIR_new_func_arr (ctx, name, 1, &i64, 0, NULL);
      MIR_append_insn (ctx, f, MIR_new_ret_insn (ctx, 1, MIR_new_int_op (ctx, 1000 + 16 * k + n)));
      MIR_finish_func (ctx);
      break;
    }
    case 'B': { /* the same function, too big to be inlined at link (> MIR_MAX_INSNS_FOR_INLINE) */
      MIR_item_t f = MIR_new_func_arr (ctx, name, 1, &i64, 0, NULL);
      MIR_reg_t r = MIR_new_func_reg (ctx, f->u.func, MIR_T_I64, "r");
      MIR_append_insn (ctx, f,
                       MIR_new_insn (ctx, MIR_MOV, MIR_new_reg_op (ctx, r), MIR_new_int_op (ctx, 1000 + 16 * k + n - 210)));
      for (int j = 0; j < 210; j++)
        MIR_append_insn (ctx, f,
                         MIR_new_insn (ctx, MIR_ADD, MIR_new_reg_op (ctx, r), MIR_new_reg_op (ctx, r),
                                       MIR_new_int_op (ctx, 1)));
      MIR_append_insn (ctx, f, MIR_new_ret_insn (ctx, 1, MIR_new_reg_op (ctx, r)));
      MIR_finish_func (ctx);
      break;
    }
    case 'D': {
      int64_t v = 5000 + 16 * k + n;
      MIR_new_data (ctx, name, MIR_T_I64, 1, &v);
      break;
    }
    case 'S': { /* what c2mir emits for an initialised aggregate: a named head and anonymous items */
      int64_t v = 5000 + 16 * k + n, w[2] = {7, 8};
      MIR_new_data (ctx, name, MIR_T_I64, 1, &v);
      MIR_new_data (ctx, NULL, MIR_T_I64, 2, w);
      MIR_new_bss (ctx, NULL, 3);
      break;
    }
    case 'P': MIR_new_proto_arr (ctx, name, 1, &i64, 0, NULL); break;
    default: break;
    }
  }
  md->nspec = (int) DLIST_LENGTH (MIR_item_t, md->m->items);
  MIR_item_t pr = NULL;
  for (int n = 0; n < MAXN; n++) {
    if (md->imp[n] == NULL) continue;
    if (pr == NULL) pr = MIR_new_proto_arr (ctx, "acc_proto", 1, &i64, 0, NULL);
    nm (name, n);
    sprintf (an, "acc_c_%s", name);
    MIR_item_t f = MIR_new_func_arr (ctx, an, 1, &i64, 0, NULL);
    MIR_reg_t r = MIR_new_func_reg (ctx, f->u.func, MIR_T_I64, "r");
    MIR_append_insn (ctx, f,
                     MIR_new_call_insn (ctx, 3, MIR_new_ref_op (ctx, pr),
                                        MIR_new_ref_op (ctx, md->imp[n]), MIR_new_reg_op (ctx, r)));
    MIR_append_insn (ctx, f, MIR_new_ret_insn (ctx, 1, MIR_new_reg_op (ctx, r)));
    MIR_finish_func (ctx);
    md->acc_c[n] = f;
    sprintf (an, "acc_i_%s", name); /* the same through an `inline` insn */
    f = MIR_new_func_arr (ctx, an, 1, &i64, 0, NULL);
    r = MIR_new_func_reg (ctx, f->u.func, MIR_T_I64, "r");
    {
      MIR_op_t ops[3];
      ops[0] = MIR_new_ref_op (ctx, pr);
      ops[1] = MIR_new_ref_op (ctx, md->imp[n]);
      ops[2] = MIR_new_reg_op (ctx, r);
      MIR_append_insn (ctx, f, MIR_new_insn_arr (ctx, MIR_INLINE, 3, ops));
    }
    MIR_append_insn (ctx, f, MIR_new_ret_insn (ctx, 1, MIR_new_reg_op (ctx, r)));
    MIR_finish_func (ctx);
    md->acc_i[n] = f;
    sprintf (an, "acc_r_%s", name);
    f = MIR_new_func_arr (ctx, an, 1, &i64, 0, NULL);
    MIR_reg_t a = MIR_new_func_reg (ctx, f->u.func, MIR_T_I64, "a");
    MIR_reg_t v = MIR_new_func_reg (ctx, f->u.func, MIR_T_I64, "v");
    MIR_append_insn (ctx, f,
                     MIR_new_insn (ctx, MIR_MOV, MIR_new_reg_op (ctx, a),
                                   MIR_new_ref_op (ctx, md->imp[n])));
    MIR_append_insn (ctx, f,
                     MIR_new_insn (ctx, MIR_MOV, MIR_new_reg_op (ctx, v),
                                   MIR_new_mem_op (ctx, MIR_T_I64, 0, a, 0, 1)));
    MIR_append_insn (ctx, f, MIR_new_ret_insn (ctx, 1, MIR_new_reg_op (ctx, v)));
    MIR_finish_func (ctx);
    md->acc_r[n] = f;
  }
  MIR_finish_module (ctx);
}

/* what an address is: 0 unknown, 1 null, 2 function definition, 3 data definition, 4 external */
/* the anonymous followers of an `S` declaration are not declarations: they have no index */
static int follower_p (MIR_item_t it) {
  return (it->item_type == MIR_data_item && it->u.data->name == NULL)
         || (it->item_type == MIR_bss_item && it->u.bss->name == NULL);
}

static int ident_mod; /* module of the definition found by identify */
static int identify (void *addr, char *out) {
  ident_mod = -1;
  if (addr == NULL) {
    strcpy (out, "null");
    return 1;
  }
  for (size_t i = 0; i < NEXTS; i++)
    if ((void *) exts[i].f == addr) {
      sprintf (out, "X%d", exts[i].id);
      return 4;
    }
  for (int k = 0; k < nmods; k++) {
    int idx = 0, pos = 0;
    for (MIR_item_t it = DLIST_HEAD (MIR_item_t, mods[k].m->items); it != NULL && pos < mods[k].nspec;
         it = DLIST_NEXT (MIR_item_t, it), pos++) {
      if (follower_p (it)) continue;
      if ((it->item_type == MIR_func_item || it->item_type == MIR_data_item) && it->addr == addr) {
        sprintf (out, "M%d.%d", k, idx);
        ident_mod = k;
        return it->item_type == MIR_func_item ? 2 : 3;
      }
      idx++;
    }
  }
  strcpy (out, "?");
  return 0;
}


/* ---- scripted resolver of the 'J' op: loads modules during the link */
#define MAXENT 8
struct sentry {
  int n, ans, a;          /* name, answer kind ('0', 'x', 'm'), external number */
  int mods[8], nm;        /* modules to load, in order */
};
static struct sentry script[MAXENT];
static int nscript;
static MIR_context_t res_ctx;

static void log_answer (int n, void *addr) {
  char t[64], tag[32];
  identify (addr, tag);
  sprintf (t, "%sn%d:%s", res_log[0] ? "," : "", n, tag);
  if (strlen (res_log) + strlen (t) < sizeof (res_log)) strcat (res_log, t);
}

static void *resolver_re (const char *name) {
  int n = atoi (name + 1);
  void *addr = NULL;
  if (name[0] != 'n' || n < 0 || n >= MAXN) return NULL;
  for (int i = 0; i < nscript; i++)
    if (script[i].n == n) {
      struct sentry *e = &script[i];
      for (int j = 0; j < e->nm; j++) {
        MIR_load_module (res_ctx, mods[e->mods[j]].m); /* a rejection longjmps out of the link */
        mods[e->mods[j]].state = 1;
      }
      if (e->ans == 'x') {
        addr = ext_addr (e->a);
      } else if (e->ans == 'm' && e->nm > 0) {
        struct mod *md = &mods[e->mods[e->nm - 1]];
        int pos = 0;
        for (MIR_item_t it = DLIST_HEAD (MIR_item_t, md->m->items); it != NULL && pos < md->nspec;
             it = DLIST_NEXT (MIR_item_t, it), pos++) {
          const char *iname = it->item_type == MIR_func_item    ? it->u.func->name
                              : it->item_type == MIR_data_item  ? it->u.data->name
                              : it->item_type == MIR_proto_item ? it->u.proto->name
                                                                : NULL;
          if (iname != NULL && strcmp (iname, name) == 0) addr = it->addr;
        }
      }
      if (addr != NULL) log_answer (n, addr);
      return addr;
    }
  if (!((res_mask >> n) & 1)) return NULL;
  addr = ext_addr (100 + n);
  log_answer (n, addr);
  return addr;
}

/* calls an accessor; an error raised underneath (e.g. "undefined call interface" of a function whose
   module was never linked) comes back through call_jmp */
static int call_acc (MIR_item_t acc, long *v) {
  if (setjmp (call_jmp)) {
    in_call = 0;
    return 0;
  }
  in_call = 1;
  *v = (long) ((int64_t (*) (void)) acc->addr) ();
  in_call = 0;
  return 1;
}

static void val_str (MIR_item_t acc, char *out) {
  long v;
  if (call_acc (acc, &v))
    sprintf (out, "%ld", v);
  else
    sprintf (out, "E:%s", err_name (err_code));
}

static void print_bindings (int want_state) {
  char tag[64];
  for (int k = 0; k < nmods; k++) {
    struct mod *md = &mods[k];
    int pos = 0;
    if (md->state != want_state) continue;
    printf (" %c%d{", want_state == 2 ? 'm' : 'p', k);
    int first = 1;
    for (MIR_item_t it = DLIST_HEAD (MIR_item_t, md->m->items); it != NULL && pos < md->nspec;
         it = DLIST_NEXT (MIR_item_t, it), pos++) {
      char kc;
      const char *name;
      if (it->item_type == MIR_import_item) {
        kc = 'i';
        name = it->u.import_id;
      } else if (it->item_type == MIR_export_item) {
        kc = 'e';
        name = it->u.export_id;
      } else if (it->item_type == MIR_forward_item) {
        kc = 'f';
        name = it->u.forward_id;
      } else
        continue;
      int what = identify (it->addr, tag);
      printf ("%s%c%s=%s", first ? "" : " ", kc, name + 1, tag);
      first = 0;
      if (kc == 'i' && want_state == 2) {
        int n = atoi (name + 1);
        if (what == 2 && mods[ident_mod].state != 2) {
          /* a function of a module whose load was rejected: its thunk leads to undefined_interface
             with a garbage context argument; not called */
          printf ("/dead");
        } else if ((what == 2 || what == 4) && md->nulled) {
          /* the module went through a NULL-interface link: calls of small functions were inlined
             THEN, with the definition bound then; not looked at (see design/C13.md) */
        } else if ((what == 2 || what == 4) && md->acc_c[n] != NULL) {
          char v1[48], v2[48];
          val_str (md->acc_c[n], v1);
          val_str (md->acc_i[n], v2);
          if (strcmp (v1, v2) == 0)
            printf ("/%s", v1);
          else
            printf ("/%s~%s", v1, v2); /* call and inline disagree */
        } else if (what == 3 && md->acc_r[n] != NULL) {
          char v1[48];
          val_str (md->acc_r[n], v1);
          printf ("/%s", v1);
        }
      }
    }
    printf ("}");
  }
}

static MIR_context_t ctx;
static int gen_inited;
static int stop_at_rejection; /* C13_MODE contains 's': a rejected load ends the history */

/* Watchdog (wave 6): every history runs under a CPU-time limit (ITIMER_PROF, C13_HANG_CPU seconds, default 4) and a
   wall-clock limit (alarm, C13_HANG_WALL, default 60).  When one expires - MIR_link or an accessor loops forever on
   the tree under test - the line of the history is closed with the token `HANG@<phase>` and the process exits with
   code 124: the check takes the line as the history's outcome (a disagreement with the model, which terminates on
   every history) and restarts the harness after it.  A healthy history takes well under 10 ms. */
static volatile int phase; /* 1 = building a module, 2 = MIR_load_module, 3 = MIR_link */
static int hang_cpu = 4, hang_wall = 60;
static volatile int line_open; /* the output line of the current history has not been closed yet */
static void on_hang (int sig) {
  static const char *const ph[] = {"idle", "build", "load", "link", "run"};
  (void) sig;
  if (!line_open) _exit (125); /* while the context is torn down: reported like a crash there */
  /* not async-signal-safe in general; the loops this is for spin inside MIR / generated code, not inside stdio */
  printf (" HANG@%s\n", in_call ? ph[4] : ph[phase >= 0 && phase <= 3 ? phase : 0]);
  fflush (stdout);
  _exit (124);
}
static void arm_watchdog (void) {
  struct itimerval it;
  memset (&it, 0, sizeof (it));
  it.it_value.tv_sec = hang_cpu;
  setitimer (ITIMER_PROF, &it, NULL);
  alarm (hang_wall);
}

/* returns 0 when the history has to end */
static int do_op (char *op) {
  if (setjmp (err_jmp)) {
    printf ("E:%s", err_name (err_code));
    if (phase == 3) printf (" res=[%s]", res_log);
    return phase != 1 && !(phase == 2 && stop_at_rejection);
  }
  switch (op[0]) {
  case 'L': {
    if (nmods >= MAXMOD) {
      printf ("toomany");
      return 0;
    }
    int k = nmods;
    nmods = k + 1;
    phase = 1;
    build_module (ctx, k, op + 1);
    phase = 2;
    MIR_load_module (ctx, mods[k].m);
    mods[k].state = 1;
    printf ("ok");
    break;
  }
  case 'X': {
    int n = 0, a = 0;
    char name[32];
    sscanf (op + 1, "%d %d", &n, &a);
    nm (name, n);
    MIR_load_external (ctx, name, ext_addr (a));
    printf ("ok");
    break;
  }
  case 'R': {
    /* any int is a C truth value here (1, 2, -1, 256, INT_MIN ...): the model takes non-zero as permission;
       the value read back through the public getter must agree as a truth value */
    long long pv = strtoll (op + 1, NULL, 0);
    int want = pv != 0;
    MIR_set_func_redef_permission (ctx, (int) pv);
    if ((MIR_get_func_redef_permission_p (ctx) != 0) == want)
      printf ("ok");
    else
      printf ("ok permission-reads-back-as-%d", MIR_get_func_redef_permission_p (ctx));
    break;
  }
  case 'K': {
    unsigned mask = 0;
    char iface = 'i';
    sscanf (op + 1, "%u %c", &mask, &iface);
    res_mask = mask;
    res_log[0] = 0;
    int quiet = iface == 'q'; /* interpreter interface, but nothing is executed after this link */
    if (quiet) iface = 'i';
    if (iface != 'i' && iface != 'n' && !gen_inited) {
      MIR_gen_init (ctx);
      gen_inited = 1;
    }
    phase = 3;
    MIR_link (ctx,
              iface == 'g'   ? MIR_set_gen_interface
              : iface == 'l' ? MIR_set_lazy_gen_interface
              : iface == 'n' ? NULL
                             : MIR_set_interp_interface,
              resolver);
    phase = 0;
    printf ("ok res=[%s]", res_log);
    for (int k = 0; k < nmods; k++)
      if (mods[k].state == 1) {
        if (iface == 'n')
          mods[k].nulled = 1;
        else
          mods[k].state = 2;
      }
    if (iface == 'n')
      print_bindings (1);
    else if (!quiet)
      print_bindings (2);
    break;
  }
  case 'J': {
    unsigned mask = 0;
    char iface = 'i';
    char *save2, *w;
    int stage = 0; /* 0 mask, 1 iface, 2 expecting '@' or '+', 3 name, 4 answer, 5 decls of a module */
    char decls[1024];
    int have_mod = 0;
    struct sentry *e = NULL;
    nscript = 0;
    decls[0] = 0;
    phase = 1; /* the script's modules are built before the link */
#define FLUSH_MOD()                                         \
  do {                                                      \
    if (have_mod && e != NULL && e->nm < 8 && nmods < MAXMOD) { \
      int k = nmods;                                        \
      nmods = k + 1;                                        \
      build_module (ctx, k, decls);                         \
      e->mods[e->nm++] = k;                                 \
    }                                                       \
    have_mod = 0;                                           \
    decls[0] = 0;                                           \
  } while (0)
    for (w = strtok_r (op + 1, " \t", &save2); w != NULL; w = strtok_r (NULL, " \t", &save2)) {
      if (stage == 0) {
        mask = (unsigned) atoi (w);
        stage = 1;
      } else if (stage == 1) {
        iface = w[0];
        stage = 2;
      } else if (strcmp (w, "@") == 0) {
        FLUSH_MOD ();
        e = NULL;
        stage = 3;
      } else if (stage == 3) {
        if (nscript < MAXENT) {
          e = &script[nscript++];
          memset (e, 0, sizeof (*e));
          e->n = atoi (w);
        }
        stage = 4;
      } else if (stage == 4) {
        if (e != NULL) {
          e->ans = w[0];
          e->a = w[0] == 'x' ? atoi (w + 1) : 0;
        }
        stage = 5;
      } else if (strcmp (w, "+") == 0) {
        FLUSH_MOD ();
        have_mod = 1;
      } else if (have_mod && strlen (decls) + strlen (w) + 2 < sizeof (decls)) {
        strcat (decls, " ");
        strcat (decls, w);
      }
    }
    FLUSH_MOD ();
#undef FLUSH_MOD
    res_mask = mask;
    res_log[0] = 0;
    res_ctx = ctx;
    int quiet = iface == 'q';
    if (quiet || iface == 'n') iface = 'i';
    if (iface != 'i' && !gen_inited) {
      MIR_gen_init (ctx);
      gen_inited = 1;
    }
    phase = 3;
    MIR_link (ctx,
              iface == 'g'   ? MIR_set_gen_interface
              : iface == 'l' ? MIR_set_lazy_gen_interface
                             : MIR_set_interp_interface,
              resolver_re);
    phase = 0;
    printf ("ok res=[%s]", res_log);
    for (int k = 0; k < nmods; k++)
      if (mods[k].state == 1) mods[k].state = 2;
    if (!quiet) print_bindings (2);
    break;
  }
  default: printf ("badop"); break;
  }
  return 1;
}

static void run_history (char *line) {
  arm_watchdog ();
  line_open = 1;
  ctx = MIR_init ();
  gen_inited = 0;
  nmods = 0;
  phase = 0;
  in_call = 0;
  memset (mods, 0, sizeof (mods));
  MIR_set_error_func (ctx, err_func);
  char *save, *op;
  int first = 1, alive = 1;
  for (op = strtok_r (line, ";", &save); op != NULL && alive; op = strtok_r (NULL, ";", &save)) {
    while (*op == ' ' || *op == '\t') op++;
    if (*op == 0 || *op == '\n') continue;
    printf ("%s", first ? "" : " | ");
    first = 0;
    alive = do_op (op);
  }
  printf ("\n");
  fflush (stdout);
  line_open = 0;
  /* tear the context down; after an error module creation may be half done, in which case
     MIR_finish frees nearly everything and then reports the unfinished module/function: that
     last error is swallowed here */
  if (!alive && setjmp (err_jmp) == 0)
    MIR_finish_module (ctx); /* a half-built module: MIR_finish would free it and then read its name */
  if (setjmp (err_jmp) == 0) {
    /* MIR_link marks functions with item->data = 1 and an error leaves the marks behind;
       MIR_finish would pass them to free */
    for (MIR_module_t m = DLIST_HEAD (MIR_module_t, *MIR_get_module_list (ctx)); m != NULL;
         m = DLIST_NEXT (MIR_module_t, m))
      for (MIR_item_t it = DLIST_HEAD (MIR_item_t, m->items); it != NULL; it = DLIST_NEXT (MIR_item_t, it))
        if (it->data == (void *) 1) it->data = NULL;
    if (gen_inited) {
      gen_inited = 0;
      MIR_gen_finish (ctx);
    }
    MIR_finish (ctx);
  }
}

int main (void) {
  static char line[1 << 16];
  const char *mode = getenv ("C13_MODE");
  stop_at_rejection = mode != NULL && strchr (mode, 's') != NULL;
  if (getenv ("C13_HANG_CPU") != NULL && atoi (getenv ("C13_HANG_CPU")) > 0) hang_cpu = atoi (getenv ("C13_HANG_CPU"));
  if (getenv ("C13_HANG_WALL") != NULL && atoi (getenv ("C13_HANG_WALL")) > 0) hang_wall = atoi (getenv ("C13_HANG_WALL"));
  signal (SIGPROF, on_hang);
  signal (SIGALRM, on_hang);
  while (fgets (line, sizeof (line), stdin) != NULL) {
    size_t l = strlen (line);
    if (l > 0 && line[l - 1] == '\n') line[l - 1] = 0;
    if (line[0] == 0 || line[0] == '#') {
      printf ("\n");
      continue;
    }
    run_history (line);
  }
  return 0;
}

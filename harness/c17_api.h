/* Shared by harness/c17_alloc.c and harness/c18_threads.c: a small, re-entrant interpreter of
   "API scripts" -- one MIR API call (or a short fixed group of calls) per line -- acting on one
   context.  It keeps no process-wide mutable state: everything lives in struct api (one per
   context / thread); the only statics are thread-local pointers needed because MIR's error
   function and MIR_read_with_func's reader take no user data.

   Script lines (tokens separated by one blank; <hex> = hex-encoded text):
     init                      MIR_init2 (alloc, code_alloc) + error function
     c2m_init | c2m_finish     c2mir_init / c2mir_finish
     c2m <name> <hex C source> c2mir_compile of a C translation unit
     file <name> <hex text>    write a header into this script's private include directory
     c2mx <name> <hex>         c2mir_compile of a unit with a C error: must return 0 (diagnosed), everything stays usable
     c2mt <name> <hex>         c2mir_compile of a unit of a foreign corpus: accepted or diagnosed, both are fine (only what
                               the compilation does to memory is observed); system headers are searched as the compiler
                               does by default
     c2mo <name> <opts> <hex>  c2mir_compile with options; <opts> = '-' or a comma list of
                               Dname=def | Dname | Uname (macro commands), I (add the private include directory),
                               E (prepro_only into a sink), S (syntax_only), asm | obj (module also output / written
                               into a sink FILE that c2mir closes), v (verbose), d (debug), w (ignore warnings)
     scan <hex MIR text>       MIR_scan_string
     api <k> <variant>         build module "api<k>" through the construction API
     apim <k> <decl list>      build module "m<k>" through the construction API from a declaration list (exports / imports /
                               forwards before and after definitions, repeated; see api_build_decl_module)
     write | read              MIR_write_with_func into the script's byte buffer / MIR_read_with_func from it
     fwrite | fread            MIR_write into a tmpfile() whose bytes become the script's byte buffer / MIR_read from a
                               tmpfile() holding the byte buffer
     wmod <i> | fwmod <i>      MIR_write_module_with_func / MIR_write_module of the i-th module (mod the number of modules)
     output                    MIR_output to the null sink
     outmod <i> | outitems <i> MIR_output_module / MIR_output_item of every item of the i-th module
     gen_dbg <level>           MIR_gen_set_debug_file (null sink) + MIR_gen_set_debug_level
     interpa <func> <arg>      MIR_interp_arr
     load                      MIR_load_module of every module not yet loaded
     link <interp|gen|lazy|lazybb>
     gen_init | gen_finish | opt <level>
     interp <func> <arg>       MIR_interp
     gen <func>                MIR_gen
     call <func> <arg>         call through the item's address (thunk)
     fill                      publish code ending exactly at the end of the current code page
     finish                    MIR_finish
   Every callable function has the C type  long f (long).  Results go to a->out ("R ..."). */
#ifndef C17_API_H
#define C17_API_H
#include <stdio.h>
#include <stdlib.h>
#include <string.h>
#include <stdint.h>
#include <stdarg.h>
#include <setjmp.h>
#include <unistd.h>
#include <sys/stat.h>
#include "mir.h"
#include "mir-gen.h"
#include "c2mir/c2mir.h"

#ifndef API_REALLOC
#define API_REALLOC realloc
#define API_FREE free
#endif

struct api {
  int id;
  MIR_context_t ctx;
  MIR_alloc_t alloc;
  MIR_code_alloc_t code_alloc;
  int gen_on, c2m_on, linked;
  size_t nloaded;
  void (*out) (struct api *, const char *line); /* results and diagnostics */
  void *user;
  FILE *null_file;
  jmp_buf err_jmp;
  int err_armed;
  char errmsg[300];
  unsigned char *wbuf;
  size_t wlen, wcap, rpos;
  const char *src;
  size_t src_pos; /* c2mir getc */
  char incdir[64]; /* private include directory (created on demand by `file`) */
  char *incfiles[16];
  int nincfiles;
};

static __thread struct api *api_cur; /* thread-local: no sharing between threads */

static void api_outf (struct api *a, const char *fmt, ...) {
  char buf[600];
  va_list ap;
  va_start (ap, fmt);
  vsnprintf (buf, sizeof (buf), fmt, ap);
  va_end (ap);
  a->out (a, buf);
}

static void MIR_NO_RETURN api_error_func (MIR_error_type_t t, const char *format, ...) {
  struct api *a = api_cur;
  va_list ap;
  va_start (ap, format);
  vsnprintf (a->errmsg, sizeof (a->errmsg), format, ap);
  va_end (ap);
  if (a->err_armed) longjmp (a->err_jmp, 1 + (int) t);
  fprintf (stderr, "MIR error outside a script step: %s\n", a->errmsg);
  _Exit (90);
}

static int api_writer (MIR_context_t ctx, uint8_t byte) {
  struct api *a = api_cur;
  (void) ctx;
  if (a->wlen == a->wcap) {
    a->wcap = a->wcap ? 2 * a->wcap : 4096;
    a->wbuf = API_REALLOC (a->wbuf, a->wcap);
  }
  a->wbuf[a->wlen++] = byte;
  return 1;
}

static int api_reader (MIR_context_t ctx) {
  struct api *a = api_cur;
  (void) ctx;
  return a->rpos < a->wlen ? a->wbuf[a->rpos++] : EOF;
}

static int api_getc (void *data) {
  struct api *a = data;
  int c = (unsigned char) a->src[a->src_pos];
  if (c == 0) return EOF;
  a->src_pos++;
  return c;
}

static char *api_unhex (const char *h) {
  size_t n = strlen (h) / 2, i;
  char *s = API_REALLOC (NULL, n + 1);
  for (i = 0; i < n; i++) {
    unsigned v;
    sscanf (h + 2 * i, "%2x", &v);
    s[i] = (char) v;
  }
  s[n] = 0;
  return s;
}

static long api_host_add (long a, long b) { return a + b; }
static long api_host_neg (long a) { return -a; }
static void *api_resolve (const char *name) {
  if (strcmp (name, "host_add") == 0) return (void *) api_host_add;
  if (strcmp (name, "host_neg") == 0) return (void *) api_host_neg;
  if (strcmp (name, "labs") == 0) return (void *) labs;
  if (strcmp (name, "strlen") == 0) return (void *) strlen;
  if (strcmp (name, "memset") == 0) return (void *) memset;
  if (strcmp (name, "memcpy") == 0) return (void *) memcpy;
  return NULL;
}

static MIR_item_t api_find_func (struct api *a, const char *name) {
  MIR_item_t res = NULL;
  for (MIR_module_t m = DLIST_HEAD (MIR_module_t, *MIR_get_module_list (a->ctx)); m != NULL;
       m = DLIST_NEXT (MIR_module_t, m))
    for (MIR_item_t it = DLIST_HEAD (MIR_item_t, m->items); it != NULL; it = DLIST_NEXT (MIR_item_t, it))
      if (it->item_type == MIR_func_item && strcmp (it->u.func->name, name) == 0) res = it;
  return res; /* the last definition, as the linker binds */
}

/* module api<k>: exported long apif<k> (long n) =
     s = 0; for (i = 0; i < n; i++) s += tab[i % 4] * variant + i;  return host_add (s, bss-load) ...
   touching every item kind the construction API offers (proto, import, export, forward, data,
   ref data, expr data, bss, string data, labels, call, switch-free loop). */
static void api_build_module (struct api *a, int k, int variant) {
  MIR_context_t ctx = a->ctx;
  char mname[40], fname[40], dname[40], bname[40], sname[40], rname[40], pname[40];
  MIR_type_t res = MIR_T_I64;
  MIR_item_t func, proto, imp, data, bss;
  MIR_reg_t n, i, s, t, addr;
  MIR_label_t loop, done;
  int64_t tab[4] = {1, 2 + variant, 3, 5};
  MIR_var_t pargs[2];

  sprintf (mname, "api%d", k);
  sprintf (fname, "apif%d", k);
  sprintf (dname, "apid%d", k);
  sprintf (bname, "apib%d", k);
  sprintf (sname, "apis%d", k);
  sprintf (rname, "apir%d", k);
  sprintf (pname, "apip%d", k);
  MIR_new_module (ctx, mname);
  pargs[0].type = MIR_T_I64;
  pargs[0].name = "a";
  pargs[1].type = MIR_T_I64;
  pargs[1].name = "b";
  proto = MIR_new_proto_arr (ctx, pname, 1, &res, 2, pargs);
  imp = MIR_new_import (ctx, "host_add");
  MIR_new_export (ctx, fname);
  MIR_new_forward (ctx, fname);
  data = MIR_new_data (ctx, dname, MIR_T_I64, 4, tab);
  bss = MIR_new_bss (ctx, bname, 64);
  MIR_new_string_data (ctx, sname, (MIR_str_t){sizeof ("hello, allocator"), "hello, allocator"});
  MIR_new_ref_data (ctx, rname, data, 8);
  func = MIR_new_func (ctx, fname, 1, &res, 1, MIR_T_I64, "n");
  n = MIR_reg (ctx, "n", func->u.func);
  i = MIR_new_func_reg (ctx, func->u.func, MIR_T_I64, "i");
  s = MIR_new_func_reg (ctx, func->u.func, MIR_T_I64, "s");
  t = MIR_new_func_reg (ctx, func->u.func, MIR_T_I64, "t");
  addr = MIR_new_func_reg (ctx, func->u.func, MIR_T_I64, "addr");
  loop = MIR_new_label (ctx);
  done = MIR_new_label (ctx);
#define OPR(r) MIR_new_reg_op (ctx, r)
#define OPI(v) MIR_new_int_op (ctx, v)
#define APP(insn) MIR_append_insn (ctx, func, insn)
  APP (MIR_new_insn (ctx, MIR_MOV, OPR (i), OPI (0)));
  APP (MIR_new_insn (ctx, MIR_MOV, OPR (s), OPI (0)));
  APP (MIR_new_insn (ctx, MIR_MOV, OPR (addr), MIR_new_ref_op (ctx, data)));
  APP (MIR_new_insn (ctx, MIR_BGE, MIR_new_label_op (ctx, done), OPR (i), OPR (n)));
  APP (loop);
  APP (MIR_new_insn (ctx, MIR_AND, OPR (t), OPR (i), OPI (3)));
  APP (MIR_new_insn (ctx, MIR_MOV, OPR (t), MIR_new_mem_op (ctx, MIR_T_I64, 0, addr, t, 8)));
  APP (MIR_new_insn (ctx, MIR_MUL, OPR (t), OPR (t), OPI (variant + 1)));
  APP (MIR_new_insn (ctx, MIR_ADD, OPR (s), OPR (s), OPR (t)));
  APP (MIR_new_insn (ctx, MIR_ADD, OPR (s), OPR (s), OPR (i)));
  APP (MIR_new_insn (ctx, MIR_ADD, OPR (i), OPR (i), OPI (1)));
  APP (MIR_new_insn (ctx, MIR_BLT, MIR_new_label_op (ctx, loop), OPR (i), OPR (n)));
  APP (done);
  APP (MIR_new_insn (ctx, MIR_MOV, OPR (addr), MIR_new_ref_op (ctx, bss)));
  APP (MIR_new_insn (ctx, MIR_MOV, MIR_new_mem_op (ctx, MIR_T_I64, 8, addr, 0, 1), OPR (s)));
  APP (MIR_new_insn (ctx, MIR_MOV, OPR (t), MIR_new_mem_op (ctx, MIR_T_I64, 8, addr, 0, 1)));
  APP (MIR_new_call_insn (ctx, 5, MIR_new_ref_op (ctx, proto), MIR_new_ref_op (ctx, imp), OPR (s), OPR (t),
                          OPI (k)));
  APP (MIR_new_ret_insn (ctx, 1, OPR (s)));
#undef OPR
#undef OPI
#undef APP
  MIR_finish_func (ctx);
  MIR_finish_module (ctx);
}


/* module "m<k>" built through the construction API from a declaration list (tools/gen_c17_decl.py renders the same
   list as MIR text): items separated by ',', fields by ':', lists inside a field by '.':
     X:name | I:name | W:name          MIR_new_export / MIR_new_import / MIR_new_forward
     P:name:nargs                      proto  i64 <- nargs x i64
     D:name:v.v.v                      i64 data (name '-' = anonymous)        B:name:len   bss
     S:name:text                       string data                            R:name:target:disp   ref data
     F:name:p1:p2:ref.ref...           func  long name (long n):  acc = n; per ref  c=g (acc += g (acc) through proto p1),
                                       h=imp (acc += imp (acc, n) through proto p2), d=data (acc += ((long *) data)[1]),
                                       b=bss (store acc, load it back), a=item (address taken, value unused); ret acc
   A name is referred to through the item the LAST declaring call for it returned (what a user of the API holds). */
struct apim_name {
  char name[48];
  MIR_item_t item;
};

static MIR_item_t *apim_slot (struct apim_name *tab, int *n, const char *name) {
  for (int i = 0; i < *n; i++)
    if (strcmp (tab[i].name, name) == 0) return &tab[i].item;
  if (*n == 96) return NULL;
  snprintf (tab[*n].name, sizeof (tab[*n].name), "%s", name);
  tab[*n].item = NULL;
  return &tab[(*n)++].item;
}

static int api_build_decl_module (struct api *a, const char *k, const char *ops_text) {
  MIR_context_t ctx = a->ctx;
  struct apim_name *tab = API_REALLOC (NULL, 96 * sizeof (struct apim_name));
  int ntab = 0, rc = 0;
  char *ops = API_REALLOC (NULL, strlen (ops_text) + 1), *save = NULL, mname[48];
  MIR_type_t res = MIR_T_I64;

  strcpy (ops, ops_text);
  snprintf (mname, sizeof (mname), "m%s", k);
  MIR_new_module (ctx, mname);
  for (char *tok = strtok_r (ops, ",", &save); tok != NULL && rc == 0; tok = strtok_r (NULL, ",", &save)) {
    char *f[6] = {NULL, NULL, NULL, NULL, NULL, NULL}, *s2 = NULL;
    int nf = 0;
    MIR_item_t it = NULL, *slot;
    for (char *p = strtok_r (tok, ":", &s2); p != NULL && nf < 6; p = strtok_r (NULL, ":", &s2)) f[nf++] = p;
    if (nf < 2) { rc = -1; break; }
    const char *name = strcmp (f[1], "-") == 0 ? NULL : f[1];
    switch (f[0][0]) {
    case 'X': it = MIR_new_export (ctx, name); break;
    case 'I': it = MIR_new_import (ctx, name); break;
    case 'W': it = MIR_new_forward (ctx, name); break;
    case 'P': {
      MIR_var_t pargs[4];
      int na = nf > 2 ? atoi (f[2]) : 1;
      static const char *const an[4] = {"a", "b", "c", "d"};
      for (int i = 0; i < na && i < 4; i++) {
        pargs[i].type = MIR_T_I64;
        pargs[i].name = an[i];
      }
      it = MIR_new_proto_arr (ctx, name, 1, &res, na, pargs);
      break;
    }
    case 'D': {
      int64_t v[16];
      size_t nv = 0;
      char *s3 = NULL;
      for (char *p = nf > 2 ? strtok_r (f[2], ".", &s3) : NULL; p != NULL && nv < 16; p = strtok_r (NULL, ".", &s3))
        v[nv++] = atol (p);
      it = MIR_new_data (ctx, name, MIR_T_I64, nv, v);
      break;
    }
    case 'B': it = MIR_new_bss (ctx, name, nf > 2 ? (size_t) atol (f[2]) : 8); break;
    case 'S': it = MIR_new_string_data (ctx, name, (MIR_str_t){strlen (nf > 2 ? f[2] : "") + 1, nf > 2 ? f[2] : ""}); break;
    case 'R': {
      MIR_item_t *t = nf > 2 ? apim_slot (tab, &ntab, f[2]) : NULL;
      if (t == NULL || *t == NULL) { rc = -1; break; }
      it = MIR_new_ref_data (ctx, name, *t, nf > 3 ? atol (f[3]) : 0);
      break;
    }
    case 'F': {
      MIR_item_t *p1 = nf > 2 ? apim_slot (tab, &ntab, f[2]) : NULL, *p2 = nf > 3 ? apim_slot (tab, &ntab, f[3]) : NULL;
      MIR_item_t func = MIR_new_func (ctx, name, 1, &res, 1, MIR_T_I64, "n");
      MIR_reg_t n = MIR_reg (ctx, "n", func->u.func), acc = MIR_new_func_reg (ctx, func->u.func, MIR_T_I64, "acc"),
                t = MIR_new_func_reg (ctx, func->u.func, MIR_T_I64, "t"), ad = MIR_new_func_reg (ctx, func->u.func, MIR_T_I64, "ad");
      char *s3 = NULL;
#define OPR(r) MIR_new_reg_op (ctx, r)
#define APP(insn) MIR_append_insn (ctx, func, insn)
      APP (MIR_new_insn (ctx, MIR_MOV, OPR (acc), OPR (n)));
      for (char *p = nf > 4 ? strtok_r (f[4], ".", &s3) : NULL; p != NULL; p = strtok_r (NULL, ".", &s3)) {
        if (strcmp (p, "-") == 0) continue; /* no references */
        MIR_item_t *r = p[0] != 0 && p[1] == '=' ? apim_slot (tab, &ntab, p + 2) : NULL;
        if (r == NULL || *r == NULL) { rc = -1; break; }
        if (p[0] == 'c' && p1 != NULL && *p1 != NULL) {
          APP (MIR_new_call_insn (ctx, 4, MIR_new_ref_op (ctx, *p1), MIR_new_ref_op (ctx, *r), OPR (t), OPR (acc)));
        } else if (p[0] == 'h' && p2 != NULL && *p2 != NULL) {
          APP (MIR_new_call_insn (ctx, 5, MIR_new_ref_op (ctx, *p2), MIR_new_ref_op (ctx, *r), OPR (t), OPR (acc), OPR (n)));
        } else if (p[0] == 'd') {
          APP (MIR_new_insn (ctx, MIR_MOV, OPR (ad), MIR_new_ref_op (ctx, *r)));
          APP (MIR_new_insn (ctx, MIR_MOV, OPR (t), MIR_new_mem_op (ctx, MIR_T_I64, 8, ad, 0, 1)));
        } else if (p[0] == 'b') {
          APP (MIR_new_insn (ctx, MIR_MOV, OPR (ad), MIR_new_ref_op (ctx, *r)));
          APP (MIR_new_insn (ctx, MIR_MOV, MIR_new_mem_op (ctx, MIR_T_I64, 0, ad, 0, 1), OPR (acc)));
          APP (MIR_new_insn (ctx, MIR_MOV, OPR (t), MIR_new_mem_op (ctx, MIR_T_I64, 0, ad, 0, 1)));
        } else if (p[0] == 'a') {
          APP (MIR_new_insn (ctx, MIR_MOV, OPR (ad), MIR_new_ref_op (ctx, *r)));
          APP (MIR_new_insn (ctx, MIR_AND, OPR (t), OPR (ad), MIR_new_int_op (ctx, 0)));
        } else {
          rc = -1;
          break;
        }
        APP (MIR_new_insn (ctx, MIR_ADD, OPR (acc), OPR (acc), OPR (t)));
      }
      APP (MIR_new_ret_insn (ctx, 1, OPR (acc)));
#undef OPR
#undef APP
      MIR_finish_func (ctx);
      it = func;
      break;
    }
    default: rc = -1;
    }
    if (rc == 0 && name != NULL && (slot = apim_slot (tab, &ntab, name)) != NULL) *slot = it;
  }
  MIR_finish_module (ctx);
  API_FREE (ops);
  API_FREE (tab);
  return rc;
}

/* the i-th module of the context, i taken modulo the number of modules */
static MIR_module_t api_nth_module (struct api *a, int i) {
  int n = 0;
  MIR_module_t m;
  for (m = DLIST_HEAD (MIR_module_t, *MIR_get_module_list (a->ctx)); m != NULL; m = DLIST_NEXT (MIR_module_t, m)) n++;
  if (n == 0) return NULL;
  i = (i % n + n) % n;
  for (m = DLIST_HEAD (MIR_module_t, *MIR_get_module_list (a->ctx)); i > 0; m = DLIST_NEXT (MIR_module_t, m)) i--;
  return m;
}

/* private include directory of this script (one per struct api: nothing shared between threads) */
static int api_add_file (struct api *a, const char *name, const char *text) {
  char path[200];
  FILE *f;
  if (a->incdir[0] == 0) {
    const char *t = getenv ("TMPDIR"); /* read once per script before any library call of this step */
    snprintf (a->incdir, sizeof (a->incdir), "%s/c17inc-%ld-%d-XXXXXX", t != NULL && strlen (t) < 20 ? t : "/tmp",
              (long) getpid (), a->id);
    if (mkdtemp (a->incdir) == NULL) return -1;
  }
  if (a->nincfiles == 16 || strchr (name, '/') != NULL) return -1;
  snprintf (path, sizeof (path), "%s/%s", a->incdir, name);
  if ((f = fopen (path, "w")) == NULL) return -1;
  fputs (text, f);
  fclose (f);
  for (int i = 0; i < a->nincfiles; i++)
    if (strcmp (a->incfiles[i], path) == 0) return 0;
  a->incfiles[a->nincfiles] = API_REALLOC (NULL, strlen (path) + 1);
  strcpy (a->incfiles[a->nincfiles++], path);
  return 0;
}

static void api_cleanup_files (struct api *a) {
  for (int i = 0; i < a->nincfiles; i++) {
    unlink (a->incfiles[i]);
    API_FREE (a->incfiles[i]);
  }
  a->nincfiles = 0;
  if (a->incdir[0] != 0) rmdir (a->incdir);
  a->incdir[0] = 0;
}

/* bytes of a stdio stream -> the script's byte buffer */
static void api_slurp (struct api *a, FILE *f) {
  int c;
  rewind (f);
  a->wlen = 0;
  while ((c = getc (f)) != EOF) {
    if (a->wlen == a->wcap) {
      a->wcap = a->wcap ? 2 * a->wcap : 4096;
      a->wbuf = API_REALLOC (a->wbuf, a->wcap);
    }
    a->wbuf[a->wlen++] = (unsigned char) c;
  }
}

/* executes one script line; returns 0, or -1 after a MIR error / failed compile (the script is
   then not an error-free history and the caller discards it) */
static int api_exec (struct api *a, const char *line) {
  char cmd[32], s1[64], s2[200];
  const char *rest = line;
  int nw, err;
  long v;

  cmd[0] = s1[0] = s2[0] = 0;
  nw = sscanf (line, "%31s %63s %199s", cmd, s1, s2);
  if (nw < 1) return 0;
  rest = line + strlen (cmd);
  while (*rest == ' ') rest++;
  api_cur = a;
  if ((err = setjmp (a->err_jmp)) != 0) {
    a->err_armed = 0;
    api_outf (a, "X MIRERROR %d %s", err - 1, a->errmsg);
    return -1;
  }
  a->err_armed = 1;
  if (strcmp (cmd, "init") == 0) {
    a->ctx = MIR_init2 (a->alloc, a->code_alloc);
    MIR_set_error_func (a->ctx, api_error_func);
    a->gen_on = a->c2m_on = a->linked = 0; /* a script may create several contexts one after another */
    a->nloaded = 0;
  } else if (strcmp (cmd, "c2m_init") == 0) {
    c2mir_init (a->ctx);
    a->c2m_on = 1;
  } else if (strcmp (cmd, "c2m_finish") == 0) {
    c2mir_finish (a->ctx);
    a->c2m_on = 0;
  } else if (strcmp (cmd, "c2m") == 0) {
    struct c2mir_options ops;
    char *src = api_unhex (rest + strlen (s1) + 1);
    int ok;
    memset (&ops, 0, sizeof (ops));
    ops.message_file = a->null_file;
    ops.module_num = a->nloaded + 100 * (size_t) a->id;
    a->src = src;
    a->src_pos = 0;
    ok = c2mir_compile (a->ctx, &ops, api_getc, a, s1, NULL);
    API_FREE (src);
    if (!ok) {
      a->err_armed = 0;
      api_outf (a, "X C2MFAIL %s", s1);
      return -1;
    }
  } else if (strcmp (cmd, "file") == 0) {
    char *txt = api_unhex (rest + strlen (s1) + 1);
    int rc = api_add_file (a, s1, txt);
    API_FREE (txt);
    if (rc != 0) {
      a->err_armed = 0;
      api_outf (a, "X FILEFAIL %s", s1);
      return -1;
    }
  } else if (strcmp (cmd, "c2mo") == 0) {
    struct c2mir_options ops;
    struct c2mir_macro_command mc[16];
    const char *dirs[1];
    char optbuf[200], *tok, *save = NULL, *eq;
    char *src = api_unhex (rest + strlen (s1) + 1 + strlen (s2) + 1);
    FILE *outf = NULL, *pf = NULL;
    int ok, no_module = 0;
    memset (&ops, 0, sizeof (ops));
    ops.message_file = a->null_file;
    ops.module_num = a->nloaded + 100 * (size_t) a->id;
    ops.macro_commands = mc;
    strcpy (optbuf, s2);
    for (tok = strtok_r (optbuf, ",", &save); tok != NULL; tok = strtok_r (NULL, ",", &save)) {
      if ((tok[0] == 'D' || tok[0] == 'U') && tok[1] != 0 && ops.macro_commands_num < 16) {
        struct c2mir_macro_command *m = &mc[ops.macro_commands_num++];
        m->def_p = tok[0] == 'D';
        m->name = tok + 1;
        m->def = m->def_p ? "1" : NULL; /* c2mir decides by def != NULL (process_macro_commands), the driver passes NULL for -U */
        if (m->def_p && (eq = strchr (tok, '=')) != NULL) {
          *eq = 0;
          m->def = eq + 1;
        }
      } else if (strcmp (tok, "I") == 0 && a->incdir[0] != 0) {
        dirs[0] = a->incdir;
        ops.include_dirs = dirs;
        ops.include_dirs_num = 1;
      } else if (strcmp (tok, "E") == 0) {
        ops.prepro_only_p = 1;
        ops.prepro_output_file = pf = fopen ("/dev/null", "w");
        no_module = 1;
      } else if (strcmp (tok, "S") == 0) {
        ops.syntax_only_p = 1;
        no_module = 1;
      } else if (strcmp (tok, "asm") == 0 || strcmp (tok, "obj") == 0) {
        if (tok[0] == 'a') ops.asm_p = 1; else ops.object_p = 1;
        if (outf == NULL) outf = tmpfile (); /* closed by c2mir_compile */
      } else if (strcmp (tok, "v") == 0) {
        ops.verbose_p = 1;
      } else if (strcmp (tok, "d") == 0) {
        ops.debug_p = 1;
      } else if (strcmp (tok, "w") == 0) {
        ops.ignore_warnings_p = 1;
      }
    }
    a->src = src;
    a->src_pos = 0;
    ok = c2mir_compile (a->ctx, &ops, api_getc, a, s1, no_module ? NULL : outf);
    if (no_module && outf != NULL) fclose (outf);
    if (pf != NULL) fclose (pf);
    API_FREE (src);
    if (!ok) {
      a->err_armed = 0;
      api_outf (a, "X C2MFAIL %s", s1);
      return -1;
    }
  } else if (strcmp (cmd, "c2mt") == 0) {
    struct c2mir_options ops;
    char *src = api_unhex (rest + strlen (s1) + 1);
    int ok;
    memset (&ops, 0, sizeof (ops));
    ops.message_file = a->null_file;
    ops.module_num = a->nloaded + 100 * (size_t) a->id;
    a->src = src;
    a->src_pos = 0;
    ok = c2mir_compile (a->ctx, &ops, api_getc, a, s1, NULL);
    API_FREE (src);
    api_outf (a, "R c2mt %s %s", s1, ok ? "compiled" : "rejected");
  } else if (strcmp (cmd, "c2mx") == 0) {
    /* a translation unit with a C error: c2mir_compile reports it (to the message sink) and returns 0; the context
       and the compiler stay usable */
    struct c2mir_options ops;
    char *src = api_unhex (rest + strlen (s1) + 1);
    int ok;
    memset (&ops, 0, sizeof (ops));
    ops.message_file = a->null_file;
    ops.module_num = a->nloaded + 100 * (size_t) a->id;
    a->src = src;
    a->src_pos = 0;
    ok = c2mir_compile (a->ctx, &ops, api_getc, a, s1, NULL);
    API_FREE (src);
    if (ok) {
      a->err_armed = 0;
      api_outf (a, "X C2MX-COMPILED %s", s1);
      return -1;
    }
    api_outf (a, "R c2mx %s rejected", s1);
  } else if (strcmp (cmd, "scan") == 0) {
    char *src = api_unhex (rest);
    MIR_scan_string (a->ctx, src);
    API_FREE (src);
  } else if (strcmp (cmd, "api") == 0) {
    api_build_module (a, atoi (s1), atoi (s2));
  } else if (strcmp (cmd, "apim") == 0) {
    if (api_build_decl_module (a, s1, rest + strlen (s1) + 1) != 0) {
      a->err_armed = 0;
      api_outf (a, "X BADAPIM %s", s1);
      return -1;
    }
  } else if (strcmp (cmd, "write") == 0) {
    a->wlen = 0;
    MIR_write_with_func (a->ctx, api_writer);
    api_outf (a, "R write %lu", (unsigned long) a->wlen);
  } else if (strcmp (cmd, "read") == 0) {
    a->rpos = 0;
    MIR_read_with_func (a->ctx, api_reader);
  } else if (strcmp (cmd, "fwrite") == 0 || strcmp (cmd, "fwmod") == 0) {
    /* stdio variant: the written bytes become the script's byte buffer (so that `take` + `read`/`fread` of another
       context sees them) */
    FILE *f = tmpfile ();
    if (f != NULL) {
      if (cmd[2] == 'r')
        MIR_write (a->ctx, f);
      else
        MIR_write_module (a->ctx, f, api_nth_module (a, atoi (s1)));
      fflush (f);
      api_slurp (a, f);
      fclose (f);
      api_outf (a, "R %s %lu", cmd, (unsigned long) a->wlen);
    }
  } else if (strcmp (cmd, "fread") == 0) {
    FILE *f = tmpfile ();
    if (f != NULL) {
      fwrite (a->wbuf, 1, a->wlen, f);
      rewind (f);
      MIR_read (a->ctx, f);
      fclose (f);
    }
  } else if (strcmp (cmd, "wmod") == 0) {
    a->wlen = 0;
    MIR_write_module_with_func (a->ctx, api_writer, api_nth_module (a, atoi (s1)));
    api_outf (a, "R wmod %lu", (unsigned long) a->wlen);
  } else if (strcmp (cmd, "outmod") == 0) {
    MIR_output_module (a->ctx, a->null_file, api_nth_module (a, atoi (s1)));
  } else if (strcmp (cmd, "outitems") == 0) {
    MIR_module_t m = api_nth_module (a, atoi (s1));
    if (m != NULL)
      for (MIR_item_t it = DLIST_HEAD (MIR_item_t, m->items); it != NULL; it = DLIST_NEXT (MIR_item_t, it))
        MIR_output_item (a->ctx, a->null_file, it);
  } else if (strcmp (cmd, "gen_dbg") == 0) {
    MIR_gen_set_debug_file (a->ctx, a->null_file);
    MIR_gen_set_debug_level (a->ctx, atoi (s1));
  } else if (strcmp (cmd, "output") == 0) {
    MIR_output (a->ctx, a->null_file);
  } else if (strcmp (cmd, "load") == 0) {
    size_t i = 0;
    for (MIR_module_t m = DLIST_HEAD (MIR_module_t, *MIR_get_module_list (a->ctx)); m != NULL;
         m = DLIST_NEXT (MIR_module_t, m), i++)
      if (i >= a->nloaded) MIR_load_module (a->ctx, m);
    a->nloaded = i;
  } else if (strcmp (cmd, "link") == 0) {
    void (*iface) (MIR_context_t, MIR_item_t)
      = strcmp (s1, "interp") == 0 ? MIR_set_interp_interface
        : strcmp (s1, "gen") == 0  ? MIR_set_gen_interface
        : strcmp (s1, "lazy") == 0 ? MIR_set_lazy_gen_interface
                                   : MIR_set_lazy_bb_gen_interface;
    MIR_link (a->ctx, iface, api_resolve);
    a->linked = 1;
  } else if (strcmp (cmd, "gen_init") == 0) {
    MIR_gen_init (a->ctx);
    a->gen_on = 1;
  } else if (strcmp (cmd, "gen_finish") == 0) {
    MIR_gen_finish (a->ctx);
    a->gen_on = 0;
  } else if (strcmp (cmd, "opt") == 0) {
    MIR_gen_set_optimize_level (a->ctx, (unsigned) atoi (s1));
  } else if (strcmp (cmd, "interp") == 0 || strcmp (cmd, "interpa") == 0 || strcmp (cmd, "call") == 0
             || strcmp (cmd, "gen") == 0) {
    MIR_item_t f = api_find_func (a, s1);
    if (f == NULL) {
      a->err_armed = 0;
      api_outf (a, "X NOFUNC %s", s1);
      return -1;
    }
    v = atol (s2);
    if (strcmp (cmd, "interp") == 0 || strcmp (cmd, "interpa") == 0) {
      MIR_val_t r, arg;
      r.i = 0;
      arg.i = v;
      if (cmd[6] == 0)
        MIR_interp (a->ctx, f, &r, 1, arg);
      else
        MIR_interp_arr (a->ctx, f, &r, 1, &arg);
      api_outf (a, "R %s %ld = %ld", s1, v, (long) r.i);
    } else if (strcmp (cmd, "gen") == 0) {
      void *addr = MIR_gen (a->ctx, f);
      api_outf (a, "R gen %s %s", s1, addr != NULL ? "ok" : "null");
    } else {
      long r = ((long (*) (long)) f->addr) (v);
      api_outf (a, "R %s %ld = %ld", s1, v, r);
    }
  } else if (strcmp (cmd, "fill") == 0) {
    /* publish a block of `ret` instructions that ends exactly at the end of the current code page (for the
       usual one-page holder: exactly at the holder's bound) */
    static const uint8_t rets[4096] = {0};
    uint8_t *p = _MIR_get_new_code_addr (a->ctx, 1);
    size_t room = p == NULL ? 0 : 4096 - ((size_t) p & 4095);
    if (room != 0 && room <= 4096) {
      uint8_t *q = _MIR_publish_code (a->ctx, rets, room);
      api_outf (a, "R fill %lu %s", (unsigned long) room, q == p ? "at-free" : "moved");
    }
  } else if (strcmp (cmd, "finish") == 0) {
    MIR_finish (a->ctx);
    a->ctx = NULL;
  } else {
    a->err_armed = 0;
    api_outf (a, "X BADCMD %s", cmd);
    return -1;
  }
  a->err_armed = 0;
  return 0;
}
#endif

/* C19 correspondence harness: interprets op scripts against the REAL container headers of the
   current /repo tree.  One script per input line; one canonical output line per script.
   Line format:  <kind> <args> : op ; op ; ...
   varr <init_size> : push X | pusharr X.. | pop | trunc N | expand N | tailor N | set I X | get I
                      | last | len | cap
   bitmap <n bitmaps> : bit B N | set B N | clr B N | setr B N LEN | clrr B N LEN | clear B | expand B NBITS
                      | copy D S | eq A B | isect A B | empty B | count B | min B | max B
                      | and D A B | andc D A B | ior D A B | iorand D A B C | iorandc D A B C
                      | iter B (whole FOREACH_BITMAP_BIT) | iinit B | inext   (ids may coincide: aliasing)
     per op: return token, then all bitmaps as hex words without trailing zero words joined by '.',
     bitmaps separated by '/', then '#'-token = VARR_LENGTH of each bitmap (representation, not contents)
   Tokens starting with '#' or 'r' are bookkeeping (capacity / representation), all others are the
   observables the property talks about.
   Output tokens per op: '-' (no value) 'v<int>' 'n<uint>' 'b<0|1>' ('#c<uint>' for cap) followed by
   '#r<old>,<new>' for each realloc the op issued (sizes in elements); then '| <live elements>'. */
#include <stdio.h>
#include <stdlib.h>
#include <string.h>
#include <stdint.h>
#include "mir-alloc.h"
#include "mir-varr.h"
#include "mir-bitmap.h"

typedef long elt;
DEF_VARR (elt);

static char evbuf[256];
static void *h_malloc (size_t n, void *u) { return malloc (n); }
static void *h_calloc (size_t k, size_t n, void *u) { return calloc (k, n); }
static void *h_realloc (void *p, size_t old, size_t new, void *u) {
  char t[64];
  sprintf (t, " #r%zu,%zu", old / sizeof (elt), new / sizeof (elt));
  if (strlen (evbuf) + strlen (t) < sizeof (evbuf)) strcat (evbuf, t);
  return realloc (p, new);
}
static void h_free (void *p, void *u) { free (p); }
static struct MIR_alloc h_alloc = {h_malloc, h_calloc, h_realloc, h_free, NULL};

static void run_varr (char *args, char *ops) {
  VARR (elt) * v;
  size_t init = strtoul (args, NULL, 10);
  VARR_CREATE (elt, v, &h_alloc, init);
  char *save, *op;
  for (op = strtok_r (ops, ";", &save); op != NULL; op = strtok_r (NULL, ";", &save)) {
    char name[32];
    int off = 0;
    if (sscanf (op, " %31s%n", name, &off) < 1) continue;
    char *rest = op + off;
    evbuf[0] = 0;
    if (!strcmp (name, "push")) {
      VARR_PUSH (elt, v, strtol (rest, NULL, 10));
      printf (" -");
    } else if (!strcmp (name, "pusharr")) {
      elt tmp[64];
      size_t n = 0;
      char *e;
      for (;;) {
        long x = strtol (rest, &e, 10);
        if (e == rest) break;
        if (n < 64) tmp[n++] = x;
        rest = e;
      }
      VARR_PUSH_ARR (elt, v, tmp, n);
      printf (" -");
    } else if (!strcmp (name, "pop")) {
      printf (" v%ld", VARR_POP (elt, v));
    } else if (!strcmp (name, "trunc")) {
      VARR_TRUNC (elt, v, strtoul (rest, NULL, 10));
      printf (" -");
    } else if (!strcmp (name, "expand")) {
      printf (" b%d", VARR_EXPAND (elt, v, strtoul (rest, NULL, 10)));
    } else if (!strcmp (name, "tailor")) {
      VARR_TAILOR (elt, v, strtoul (rest, NULL, 10));
      printf (" -");
    } else if (!strcmp (name, "set")) {
      char *e;
      size_t i = strtoul (rest, &e, 10);
      VARR_SET (elt, v, i, strtol (e, NULL, 10));
      printf (" -");
    } else if (!strcmp (name, "get")) {
      printf (" v%ld", VARR_GET (elt, v, strtoul (rest, NULL, 10)));
    } else if (!strcmp (name, "last")) {
      printf (" v%ld", VARR_LAST (elt, v));
    } else if (!strcmp (name, "len")) {
      printf (" n%zu", VARR_LENGTH (elt, v));
    } else if (!strcmp (name, "cap")) {
      printf (" #c%zu", VARR_CAPACITY (elt, v));
    } else {
      printf (" ?%s", name);
    }
    printf ("%s", evbuf);
  }
  printf (" |");
  for (size_t i = 0; i < VARR_LENGTH (elt, v); i++) printf (" %ld", VARR_GET (elt, v, i));
  printf ("\n");
  VARR_DESTROY (elt, v);
}


/* ---------------------------------------------------------------- bitmaps */
#define MAXBM 8
static void dump_bitmaps (bitmap_t *bm, int n) {
  printf (" ");
  for (int k = 0; k < n; k++) {
    size_t len = VARR_LENGTH (bitmap_el_t, bm[k]);
    bitmap_el_t *a = VARR_ADDR (bitmap_el_t, bm[k]);
    while (len > 0 && a[len - 1] == 0) len--;
    if (k) printf ("/");
    if (len == 0) printf ("-");
    for (size_t i = 0; i < len; i++) printf ("%s%lx", i ? "." : "", (unsigned long) a[i]);
  }
  printf (" #");
  for (int k = 0; k < n; k++) printf ("%s%zu", k ? "/" : "", VARR_LENGTH (bitmap_el_t, bm[k]));
}

static void run_bitmap (char *args, char *ops) {
  bitmap_t bm[MAXBM];
  int n = (int) strtoul (args, NULL, 10);
  if (n > MAXBM) n = MAXBM;
  for (int k = 0; k < n; k++) bm[k] = bitmap_create2 (&h_alloc, 0);
  bitmap_iterator_t iter;
  int iter_ok = n > 0;
  if (iter_ok) bitmap_iterator_init (&iter, bm[0]);
  char *save, *op;
  for (op = strtok_r (ops, ";", &save); op != NULL; op = strtok_r (NULL, ";", &save)) {
    char name[32];
    unsigned long a[4] = {0, 0, 0, 0};
    int na = sscanf (op, " %31s %lu %lu %lu %lu", name, &a[0], &a[1], &a[2], &a[3]);
    if (na < 1) continue;
    na--;
    /* which arguments are bitmap ids */
    int nids = 0;
    const char *nm = name;
#define IS(s) (!strcmp (nm, s))
    if (IS ("bit") || IS ("set") || IS ("clr") || IS ("setr") || IS ("clrr") || IS ("clear") || IS ("expand")
        || IS ("empty") || IS ("count") || IS ("min") || IS ("max") || IS ("iter") || IS ("iinit"))
      nids = 1;
    else if (IS ("copy") || IS ("eq") || IS ("isect"))
      nids = 2;
    else if (IS ("and") || IS ("andc") || IS ("ior"))
      nids = 3;
    else if (IS ("iorand") || IS ("iorandc"))
      nids = 4;
    else if (IS ("inext"))
      nids = 0;
    else {
      printf (" ?%s", name);
      continue;
    }
    int ok = na >= nids;
    for (int k = 0; k < nids && ok; k++)
      if (a[k] >= (unsigned long) n) ok = 0;
    if (IS ("inext") && !iter_ok) ok = 0;
    if (!ok) {
      printf (" REJECT");
      break;
    }
    if (IS ("bit")) printf (" b%d", bitmap_bit_p (bm[a[0]], a[1]));
    else if (IS ("set")) printf (" b%d", bitmap_set_bit_p (bm[a[0]], a[1]));
    else if (IS ("clr")) printf (" b%d", bitmap_clear_bit_p (bm[a[0]], a[1]));
    else if (IS ("setr")) printf (" b%d", bitmap_set_bit_range_p (bm[a[0]], a[1], a[2]));
    else if (IS ("clrr")) printf (" b%d", bitmap_clear_bit_range_p (bm[a[0]], a[1], a[2]));
    else if (IS ("clear")) { bitmap_clear (bm[a[0]]); printf (" -"); }
    else if (IS ("expand")) { bitmap_expand (bm[a[0]], a[1]); printf (" -"); }
    else if (IS ("copy")) { bitmap_copy (bm[a[0]], bm[a[1]]); printf (" -"); }
    else if (IS ("eq")) printf (" b%d", bitmap_equal_p (bm[a[0]], bm[a[1]]));
    else if (IS ("isect")) printf (" b%d", bitmap_intersect_p (bm[a[0]], bm[a[1]]));
    else if (IS ("empty")) printf (" b%d", bitmap_empty_p (bm[a[0]]));
    else if (IS ("count")) printf (" n%zu", bitmap_bit_count (bm[a[0]]));
    else if (IS ("min")) printf (" n%zu", bitmap_bit_min (bm[a[0]]));
    else if (IS ("max")) printf (" n%zu", bitmap_bit_max (bm[a[0]]));
    else if (IS ("and")) printf (" b%d", bitmap_and (bm[a[0]], bm[a[1]], bm[a[2]]));
    else if (IS ("andc")) printf (" b%d", bitmap_and_compl (bm[a[0]], bm[a[1]], bm[a[2]]));
    else if (IS ("ior")) printf (" b%d", bitmap_ior (bm[a[0]], bm[a[1]], bm[a[2]]));
    else if (IS ("iorand")) printf (" b%d", bitmap_ior_and (bm[a[0]], bm[a[1]], bm[a[2]], bm[a[3]]));
    else if (IS ("iorandc")) printf (" b%d", bitmap_ior_and_compl (bm[a[0]], bm[a[1]], bm[a[2]], bm[a[3]]));
    else if (IS ("iter")) {
      bitmap_iterator_t bi;
      size_t nb, cnt = 0;
      printf (" i");
      FOREACH_BITMAP_BIT (bi, bm[a[0]], nb) {
        printf ("%s%zu", cnt ? "," : "", nb);
        if (++cnt > 100000) break; /* a non-terminating iterator must not hang the harness */
      }
      if (cnt == 0) printf ("-");
    } else if (IS ("iinit")) { bitmap_iterator_init (&iter, bm[a[0]]); printf (" -"); }
    else if (IS ("inext")) {
      size_t nb;
      if (bitmap_iterator_next (&iter, &nb)) printf (" x%zu", nb); else printf (" x-");
    }
#undef IS
    dump_bitmaps (bm, n);
  }
  printf ("\n");
  for (int k = 0; k < n; k++) bitmap_destroy (bm[k]);
}

int main (void) {
  static char line[1 << 20];
  while (fgets (line, sizeof (line), stdin)) {
    char *colon = strchr (line, ':');
    if (colon == NULL) continue;
    *colon = 0;
    char kind[32];
    int off = 0;
    if (sscanf (line, " %31s%n", kind, &off) < 1) continue;
    if (!strcmp (kind, "varr"))
      run_varr (line + off, colon + 1);
    else if (!strcmp (kind, "bitmap"))
      run_bitmap (line + off, colon + 1);
    else
      printf ("?kind %s\n", kind);
  }
  return 0;
}

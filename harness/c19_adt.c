/* C19 correspondence harness: interprets op scripts against the REAL container headers of the
   current /repo tree.  One script per input line; one canonical output line per script.
   Line format:  <kind> <args> : op ; op ; ...
   varr <init_size> : push X | pusharr X.. | pop | trunc N | expand N | tailor N | set I X | get I
                      | last | len | cap
   bitmap <n bitmaps> : bit B N | set B N | clr B N | setr B N LEN | clrr B N LEN | clear B | expand B NBITS
                      | copy D S | eq A B | isect A B | empty B | count B | min B | max B
                      | and D A B | andc D A B | ior D A B | iorand D A B C | iorandc D A B C
                      | iter B (whole FOREACH_BITMAP_BIT) | iinit B | inext   (ids may coincide: aliasing)
     per op: return token, then all bitmaps as hex words without trailing zero words joined by '.',
     bitmaps separated by '/', then '#'-token = VARR_LENGTH of each bitmap (representation, not contents)
   htab|htabn <min_size> <hash of key 0> <hash of key 1> ... : find K | ins K V | rep K V | del K | clear | num | each | coll
     elements are numbers K*1000+V, eq = same key, hash = the table in the header (forced 0 / collisions)
     per op: 'f<found>' 'e<*res or ->' (do) | '-' | 'n<els_num>' | 'l<elements, sorted>' '#l<in foreach order>' | '#c<collisions>';
     then 'F<sorted elements free_func was called on by this op>' '#F<same in call order>', then the dump
     's<sorted live elements>' 'n<els_num>' and bookkeeping '#o<foreach order>' '#c<collisions>' '#b<els_bound>'
     '#z<size>' '#E<entries: . empty, x deleted, index>'; at the end HTAB_DESTROY: 'D<sorted freed>' '#D<in order>'
   dlist <nodes> : pre E | app E | insb B E | insa A E | rem E | el N | len | head | tail | next E | prev E
     per op: '-' | 'e<node or ->' | 'n<length>', then '><forward walk>' '<<backward walk>'; an op whose
     precondition fails (inserting a member, removing / anchoring on a non-member) prints REJECT and ends
   hash <n keys> <seed> :   prints (htab_hash_t) mir_hash (&key, sizeof key, seed) for key = 0..n-1 (the way
     mir.c / c2mir.c hash their table elements); used by the generator to build htab scripts whose hash
     table is the repo's real hash function
   Tokens starting with '#' are bookkeeping (capacity / representation), all others are the
   observables the property talks about.
   Output tokens per op: '-' (no value) 'v<int>' 'n<uint>' 'b<0|1>' ('#c<uint>' for cap) followed by
   '#r<old>,<new>' for each realloc the op issued (sizes in elements); then '| <live elements>'. */
#include <stdio.h>
#include <stdlib.h>
#include <string.h>
#include <stdint.h>
#include <signal.h>
#include <setjmp.h>
#include <unistd.h>
#include <sys/time.h>
#include "mir-alloc.h"
#include "mir-varr.h"
#include "mir-bitmap.h"
#include "mir-htab.h"
#include "mir-dlist.h"
#include "mir-hash.h"

typedef long elt;
DEF_VARR (elt);

static char evbuf[256];
/* checking allocator: fresh memory is filled with a poison pattern (never zero by luck), realloc
   ALWAYS moves the block and poisons + frees the old one, so a pointer kept across an expansion
   reads garbage deterministically (and trips ASan in the asan variant) */
static void *h_malloc (size_t n, void *u) {
  void *p = malloc (n ? n : 1);
  if (p != NULL) memset (p, 0x5a, n);
  return p;
}
static void *h_calloc (size_t k, size_t n, void *u) { return calloc (k, n); }
static void *h_realloc (void *p, size_t old, size_t new, void *u) {
  char t[64];
  sprintf (t, " #r%zu,%zu", old / sizeof (elt), new / sizeof (elt));
  if (strlen (evbuf) + strlen (t) < sizeof (evbuf)) strcat (evbuf, t);
  void *q = malloc (new ? new : 1);
  if (q == NULL) return NULL;
  memset (q, 0x5a, new);
  if (p != NULL) {
    memcpy (q, p, old < new ? old : new);
    memset (p, 0xa5, old);
    free (p);
  }
  return q;
}
static void h_free (void *p, void *u) { free (p); }
static struct MIR_alloc h_alloc = {h_malloc, h_calloc, h_realloc, h_free, NULL};

static void run_varr (char *args, char *ops) {
  VARR (elt) * v;
  size_t init = strtoul (args, NULL, 10);
  VARR_CREATE (elt, v, &h_alloc, init);
  char *save, *op;
  for (op = strtok_r (ops, ";", &save); op != NULL; op = strtok_r (NULL, ";", &save)) {
    char name[32];
    int off = 0;
    if (sscanf (op, " %31s%n", name, &off) < 1) continue;
    char *rest = op + off;
    evbuf[0] = 0;
    if (!strcmp (name, "push")) {
      VARR_PUSH (elt, v, strtol (rest, NULL, 10));
      printf (" -");
    } else if (!strcmp (name, "pusharr")) {
      elt tmp[64];
      size_t n = 0;
      char *e;
      for (;;) {
        long x = strtol (rest, &e, 10);
        if (e == rest) break;
        if (n < 64) tmp[n++] = x;
        rest = e;
      }
      VARR_PUSH_ARR (elt, v, tmp, n);
      printf (" -");
    } else if (!strcmp (name, "pop")) {
      printf (" v%ld", VARR_POP (elt, v));
    } else if (!strcmp (name, "trunc")) {
      VARR_TRUNC (elt, v, strtoul (rest, NULL, 10));
      printf (" -");
    } else if (!strcmp (name, "expand")) {
      printf (" #b%d", VARR_EXPAND (elt, v, strtoul (rest, NULL, 10))); /* "did realloc": capacity bookkeeping */
    } else if (!strcmp (name, "tailor")) {
      VARR_TAILOR (elt, v, strtoul (rest, NULL, 10));
      printf (" -");
    } else if (!strcmp (name, "set")) {
      char *e;
      size_t i = strtoul (rest, &e, 10);
      VARR_SET (elt, v, i, strtol (e, NULL, 10));
      printf (" -");
    } else if (!strcmp (name, "get")) {
      printf (" v%ld", VARR_GET (elt, v, strtoul (rest, NULL, 10)));
    } else if (!strcmp (name, "last")) {
      printf (" v%ld", VARR_LAST (elt, v));
    } else if (!strcmp (name, "len")) {
      printf (" n%zu", VARR_LENGTH (elt, v));
    } else if (!strcmp (name, "cap")) {
      printf (" #c%zu", VARR_CAPACITY (elt, v));
    } else {
      printf (" ?%s", name);
    }
    printf ("%s", evbuf);
  }
  printf (" |");
  for (size_t i = 0; i < VARR_LENGTH (elt, v); i++) printf (" %ld", VARR_GET (elt, v, i));
  printf ("\n");
  VARR_DESTROY (elt, v);
}


/* ---------------------------------------------------------------- bitmaps */
#define MAXBM 8
static void dump_bitmaps (bitmap_t *bm, int n) {
  printf (" ");
  for (int k = 0; k < n; k++) {
    size_t len = VARR_LENGTH (bitmap_el_t, bm[k]);
    bitmap_el_t *a = VARR_ADDR (bitmap_el_t, bm[k]);
    while (len > 0 && a[len - 1] == 0) len--;
    if (k) printf ("/");
    if (len == 0) printf ("-");
    for (size_t i = 0; i < len; i++) printf ("%s%lx", i ? "." : "", (unsigned long) a[i]);
  }
  printf (" #");
  for (int k = 0; k < n; k++) printf ("%s%zu", k ? "/" : "", VARR_LENGTH (bitmap_el_t, bm[k]));
}

static void run_bitmap (char *args, char *ops) {
  bitmap_t bm[MAXBM];
  char *e;
  int n = (int) strtoul (args, &e, 10);
  /* initial capacity: 1 word, so that expansions really reallocate (bitmap_create2 (alloc, 0) would
     give VARR_DEFAULT_SIZE = 64 words and no script would ever leave the first block) */
  if (n > MAXBM) n = MAXBM;
  for (int k = 0; k < n; k++) bm[k] = bitmap_create2 (&h_alloc, 1);
  bitmap_iterator_t iter;
  int iter_ok = n > 0;
  /* the property speaks about iterating an unmodified bitmap; once the iterated bitmap has been
     written since iinit, what inext delivers depends on the representation (word length), so it is
     printed as a bookkeeping token '#x' */
  unsigned long iter_id = 0;
  int iter_dirty = 0;
  if (iter_ok) bitmap_iterator_init (&iter, bm[0]);
  char *save, *op;
  for (op = strtok_r (ops, ";", &save); op != NULL; op = strtok_r (NULL, ";", &save)) {
    char name[32];
    unsigned long a[4] = {0, 0, 0, 0};
    int na = sscanf (op, " %31s %lu %lu %lu %lu", name, &a[0], &a[1], &a[2], &a[3]);
    if (na < 1) continue;
    na--;
    /* which arguments are bitmap ids */
    int nids = 0;
    const char *nm = name;
#define IS(s) (!strcmp (nm, s))
    if (IS ("bit") || IS ("set") || IS ("clr") || IS ("setr") || IS ("clrr") || IS ("clear") || IS ("expand")
        || IS ("empty") || IS ("count") || IS ("min") || IS ("max") || IS ("iter") || IS ("iinit"))
      nids = 1;
    else if (IS ("copy") || IS ("eq") || IS ("isect"))
      nids = 2;
    else if (IS ("and") || IS ("andc") || IS ("ior"))
      nids = 3;
    else if (IS ("iorand") || IS ("iorandc"))
      nids = 4;
    else if (IS ("inext"))
      nids = 0;
    else {
      printf (" ?%s", name);
      continue;
    }
    int ok = na >= nids;
    for (int k = 0; k < nids && ok; k++)
      if (a[k] >= (unsigned long) n) ok = 0;
    if (IS ("inext") && !iter_ok) ok = 0;
    if (!ok) {
      printf (" REJECT");
      break;
    }
    if (nids >= 1 && a[0] == iter_id
        && !(IS ("bit") || IS ("eq") || IS ("isect") || IS ("empty") || IS ("count") || IS ("min") || IS ("max")
             || IS ("iter") || IS ("iinit")))
      iter_dirty = 1;
    if (IS ("bit")) printf (" b%d", bitmap_bit_p (bm[a[0]], a[1]));
    else if (IS ("set")) printf (" b%d", bitmap_set_bit_p (bm[a[0]], a[1]));
    else if (IS ("clr")) printf (" b%d", bitmap_clear_bit_p (bm[a[0]], a[1]));
    else if (IS ("setr")) printf (" b%d", bitmap_set_bit_range_p (bm[a[0]], a[1], a[2]));
    else if (IS ("clrr")) printf (" b%d", bitmap_clear_bit_range_p (bm[a[0]], a[1], a[2]));
    else if (IS ("clear")) { bitmap_clear (bm[a[0]]); printf (" -"); }
    else if (IS ("expand")) { bitmap_expand (bm[a[0]], a[1]); printf (" -"); }
    else if (IS ("copy")) { bitmap_copy (bm[a[0]], bm[a[1]]); printf (" -"); }
    else if (IS ("eq")) printf (" b%d", bitmap_equal_p (bm[a[0]], bm[a[1]]));
    else if (IS ("isect")) printf (" b%d", bitmap_intersect_p (bm[a[0]], bm[a[1]]));
    else if (IS ("empty")) printf (" b%d", bitmap_empty_p (bm[a[0]]));
    else if (IS ("count")) printf (" n%zu", bitmap_bit_count (bm[a[0]]));
    else if (IS ("min")) printf (" n%zu", bitmap_bit_min (bm[a[0]]));
    else if (IS ("max")) printf (" n%zu", bitmap_bit_max (bm[a[0]]));
    else if (IS ("and")) printf (" b%d", bitmap_and (bm[a[0]], bm[a[1]], bm[a[2]]));
    else if (IS ("andc")) printf (" b%d", bitmap_and_compl (bm[a[0]], bm[a[1]], bm[a[2]]));
    else if (IS ("ior")) printf (" b%d", bitmap_ior (bm[a[0]], bm[a[1]], bm[a[2]]));
    else if (IS ("iorand")) printf (" b%d", bitmap_ior_and (bm[a[0]], bm[a[1]], bm[a[2]], bm[a[3]]));
    else if (IS ("iorandc")) printf (" b%d", bitmap_ior_and_compl (bm[a[0]], bm[a[1]], bm[a[2]], bm[a[3]]));
    else if (IS ("iter")) {
      bitmap_iterator_t bi;
      size_t nb, cnt = 0;
      printf (" i");
      FOREACH_BITMAP_BIT (bi, bm[a[0]], nb) {
        printf ("%s%zu", cnt ? "," : "", nb);
        if (++cnt > 100000) break; /* a non-terminating iterator must not hang the harness */
      }
      if (cnt == 0) printf ("-");
    } else if (IS ("iinit")) {
      bitmap_iterator_init (&iter, bm[a[0]]);
      iter_id = a[0];
      iter_dirty = 0;
      printf (" -");
    } else if (IS ("inext")) {
      size_t nb;
      const char *tag = iter_dirty ? "#x" : "x";
      if (bitmap_iterator_next (&iter, &nb)) printf (" %s%zu", tag, nb); else printf (" %s-", tag);
    }
#undef IS
    dump_bitmaps (bm, n);
  }
  printf ("\n");
  for (int k = 0; k < n; k++) bitmap_destroy (bm[k]);
}

/* ---------------------------------------------------------------- hash tables */
typedef long hel;
DEF_HTAB (hel);
#define MAXKEYS 64
static unsigned h_table[MAXKEYS];
static int h_nkeys;
static long h_freed[4096];
static int h_nfreed;
static htab_hash_t hel_hash (hel e, void *arg) {
  long k = e / 1000;
  return k >= 0 && k < h_nkeys ? h_table[k] : 0;
}
static int hel_eq (hel a, hel b, void *arg) { return a / 1000 == b / 1000; }
static void hel_free (hel e, void *arg) {
  if (h_nfreed < 4096) h_freed[h_nfreed++] = e;
}
static int cmp_long (const void *a, const void *b) {
  long x = *(const long *) a, y = *(const long *) b;
  return x < y ? -1 : x > y;
}
static void print_list (const char *tag, long *v, int n, int sorted) {
  static long t[4096];
  memcpy (t, v, n * sizeof (long));
  if (sorted) qsort (t, n, sizeof (long), cmp_long);
  printf (" %s", tag);
  if (n == 0) printf ("-");
  for (int i = 0; i < n; i++) printf ("%s%ld", i ? "," : "", t[i]);
}
static long h_each[4096];
static int h_neach;
static void hel_collect (hel e, void *arg) {
  if (h_neach < 4096) h_each[h_neach++] = e;
}
static void dump_htab (HTAB (hel) * ht) {
  h_neach = 0;
  HTAB_FOREACH_ELEM (hel, ht, hel_collect, NULL);
  print_list ("s", h_each, h_neach, 1);
  printf (" n%u", HTAB_ELS_NUM (hel, ht));
  print_list ("#o", h_each, h_neach, 0);
  printf (" #c%u #b%u #z%zu #E", HTAB_COLLISIONS (hel, ht), ht->els_bound, VARR_LENGTH (htab_ind_t, ht->entries));
  size_t size = VARR_LENGTH (htab_ind_t, ht->entries);
  htab_ind_t *a = VARR_ADDR (htab_ind_t, ht->entries);
  for (size_t i = 0; i < size; i++) {
    if (i) printf (",");
    if (a[i] == HTAB_EMPTY_IND) printf (".");
    else if (a[i] == HTAB_DELETED_IND) printf ("x");
    else printf ("%u", a[i]);
  }
}

static void run_htab (char *args, char *ops, int with_free) {
  HTAB (hel) * ht;
  char *e;
  unsigned long min_size = strtoul (args, &e, 10);
  h_nkeys = 0;
  for (;;) {
    char *e2;
    unsigned long h = strtoul (e, &e2, 10);
    if (e2 == e) break;
    if (h_nkeys < MAXKEYS) h_table[h_nkeys++] = (unsigned) h;
    e = e2;
  }
  if (with_free)
    HTAB_CREATE_WITH_FREE_FUNC (hel, ht, &h_alloc, (htab_size_t) min_size, hel_hash, hel_eq, hel_free, NULL);
  else /* kind 'htabn': free_func == NULL -- same behaviour, no calls (coq/C19/HtabGhost.v) */
    HTAB_CREATE (hel, ht, &h_alloc, (htab_size_t) min_size, hel_hash, hel_eq, NULL);
  char *save, *op;
  for (op = strtok_r (ops, ";", &save); op != NULL; op = strtok_r (NULL, ";", &save)) {
    char name[32];
    long k = 0, v = 0;
    int na = sscanf (op, " %31s %ld %ld", name, &k, &v);
    if (na < 1) continue;
    h_nfreed = 0;
    int act = -1;
    if (!strcmp (name, "find")) act = HTAB_FIND;
    else if (!strcmp (name, "ins")) act = HTAB_INSERT;
    else if (!strcmp (name, "rep")) act = HTAB_REPLACE;
    else if (!strcmp (name, "del")) act = HTAB_DELETE;
    if (act >= 0) {
      if (k < 0 || k >= h_nkeys || v < 0 || v > 999) {
        printf (" REJECT");
        break;
      }
      hel res = -1;
      int found = HTAB_DO (hel, ht, k * 1000 + v, act, res);
      printf (" f%d", found);
      if (res == -1) printf (" e-"); else printf (" e%ld", res);
    } else if (!strcmp (name, "clear")) {
      HTAB_CLEAR (hel, ht);
      printf (" -");
    } else if (!strcmp (name, "num")) {
      printf (" n%u", HTAB_ELS_NUM (hel, ht));
    } else if (!strcmp (name, "each")) {
      h_neach = 0;
      HTAB_FOREACH_ELEM (hel, ht, hel_collect, NULL);
      print_list ("l", h_each, h_neach, 1);
      print_list ("#l", h_each, h_neach, 0); /* the order of foreach is representation */
    } else if (!strcmp (name, "coll")) {
      printf (" #c%u", HTAB_COLLISIONS (hel, ht));
    } else {
      printf (" ?%s", name);
      continue;
    }
    print_list ("F", h_freed, h_nfreed, 1);
    print_list ("#F", h_freed, h_nfreed, 0);
    dump_htab (ht);
  }
  h_nfreed = 0;
  HTAB_DESTROY (hel, ht);
  print_list ("D", h_freed, h_nfreed, 1);
  print_list ("#D", h_freed, h_nfreed, 0);
  printf ("\n");
}

/* ---------------------------------------------------------------- doubly linked lists */
typedef struct dnode *dnode_t;
DEF_DLIST_LINK (dnode_t);
struct dnode {
  long id;
  DLIST_LINK (dnode_t) link;
};
DEF_DLIST (dnode_t, link);
#define MAXNODES 64
static void pr_node (const char *tag, dnode_t e) {
  if (e == NULL) printf (" %s-", tag); else printf (" %s%ld", tag, e->id);
}
static void run_dlist (char *args, char *ops) {
  static struct dnode nodes[MAXNODES];
  int in[MAXNODES];
  long n = strtol (args, NULL, 10);
  if (n > MAXNODES) n = MAXNODES;
  memset (nodes, 0, sizeof (nodes));
  for (int i = 0; i < MAXNODES; i++) { nodes[i].id = i; in[i] = 0; }
  DLIST (dnode_t) list;
  DLIST_INIT (dnode_t, list);
  char *save, *op;
  for (op = strtok_r (ops, ";", &save); op != NULL; op = strtok_r (NULL, ";", &save)) {
    char name[32];
    long a = 0, b = 0;
    int na = sscanf (op, " %31s %ld %ld", name, &a, &b);
    if (na < 1) continue;
#define NODE_OK(x) ((x) >= 0 && (x) < n)
    if (!strcmp (name, "pre") || !strcmp (name, "app")) {
      if (!NODE_OK (a) || in[a]) { printf (" REJECT"); break; }
      if (name[0] == 'p') DLIST_PREPEND (dnode_t, list, &nodes[a]); else DLIST_APPEND (dnode_t, list, &nodes[a]);
      in[a] = 1;
      printf (" -");
    } else if (!strcmp (name, "insb") || !strcmp (name, "insa")) {
      if (!NODE_OK (b) || in[b] || !NODE_OK (a) || !in[a]) { printf (" REJECT"); break; }
      if (name[3] == 'b') DLIST_INSERT_BEFORE (dnode_t, list, &nodes[a], &nodes[b]);
      else DLIST_INSERT_AFTER (dnode_t, list, &nodes[a], &nodes[b]);
      in[b] = 1;
      printf (" -");
    } else if (!strcmp (name, "rem")) {
      if (!NODE_OK (a) || !in[a]) { printf (" REJECT"); break; }
      DLIST_REMOVE (dnode_t, list, &nodes[a]);
      in[a] = 0;
      printf (" -");
    } else if (!strcmp (name, "el")) {
      pr_node ("e", DLIST_EL (dnode_t, list, (int) a));
    } else if (!strcmp (name, "len")) {
      printf (" n%zu", DLIST_LENGTH (dnode_t, list));
    } else if (!strcmp (name, "head")) {
      pr_node ("e", DLIST_HEAD (dnode_t, list));
    } else if (!strcmp (name, "tail")) {
      pr_node ("e", DLIST_TAIL (dnode_t, list));
    } else if (!strcmp (name, "next") || !strcmp (name, "prev")) {
      if (!NODE_OK (a) || !in[a]) { printf (" REJECT"); break; }
      pr_node ("e", name[0] == 'n' ? DLIST_NEXT (dnode_t, &nodes[a]) : DLIST_PREV (dnode_t, &nodes[a]));
    } else {
      printf (" ?%s", name);
      continue;
    }
    /* dump: forward and backward walks (bounded: a corrupted list must not hang the harness) */
    int cnt = 0;
    printf (" >");
    for (dnode_t e = DLIST_HEAD (dnode_t, list); e != NULL && cnt <= MAXNODES; e = DLIST_NEXT (dnode_t, e), cnt++)
      printf ("%s%ld", cnt ? "," : "", e->id);
    if (cnt == 0) printf ("-");
    cnt = 0;
    printf (" <");
    for (dnode_t e = DLIST_TAIL (dnode_t, list); e != NULL && cnt <= MAXNODES; e = DLIST_PREV (dnode_t, e), cnt++)
      printf ("%s%ld", cnt ? "," : "", e->id);
    if (cnt == 0) printf ("-");
  }
  printf ("\n");
}

/* watchdog: a script that makes the implementation loop (e.g. a corrupted list) must not hang the
   run: after 2 s of CPU time (ITIMER_VIRTUAL: immune to machine load) the line is abandoned and ends
   with the token HANG; after 5 hangs the harness exits (the driver restarts it on the rest) */
static sigjmp_buf watchdog_jb;
static int n_hangs;
static void on_alarm (int sig) { siglongjmp (watchdog_jb, 1); }
static void watchdog (int secs) {
  struct itimerval it = {{0, 0}, {secs, 0}};
  setitimer (ITIMER_VIRTUAL, &it, NULL);
}

int main (void) {
  static char line[1 << 20];
  signal (SIGVTALRM, on_alarm);
  setvbuf (stdout, NULL, _IOLBF, 0); /* a crash must not lose the lines already produced */
  while (fgets (line, sizeof (line), stdin)) {
    if (sigsetjmp (watchdog_jb, 1)) {
      printf (" HANG\n");
      fflush (stdout);
      if (++n_hangs >= 5) return 3;
      continue;
    }
    watchdog (2);
    char *colon = strchr (line, ':');
    if (colon == NULL) continue;
    *colon = 0;
    char kind[32];
    int off = 0;
    if (sscanf (line, " %31s%n", kind, &off) < 1) continue;
    if (!strcmp (kind, "varr"))
      run_varr (line + off, colon + 1);
    else if (!strcmp (kind, "bitmap"))
      run_bitmap (line + off, colon + 1);
    else if (!strcmp (kind, "htab"))
      run_htab (line + off, colon + 1, 1);
    else if (!strcmp (kind, "htabn"))
      run_htab (line + off, colon + 1, 0);
    else if (!strcmp (kind, "dlist"))
      run_dlist (line + off, colon + 1);
    else if (!strcmp (kind, "hash")) {
      long nk = 0, seed = 0;
      sscanf (line + off, " %ld %ld", &nk, &seed);
      for (long k = 0; k < nk; k++) printf (" %u", (htab_hash_t) mir_hash (&k, sizeof (k), (uint64_t) seed));
      printf ("\n");
    }
    else
      printf ("?kind %s\n", kind);
    watchdog (0);
  }
  return 0;
}

/* C19 correspondence harness: interprets op scripts against the REAL container headers of the
   current /repo tree.  One script per input line; one canonical output line per script.
   Line format:  <kind> <args> : op ; op ; ...
   varr <init_size> : push X | pusharr X.. | pop | trunc N | expand N | tailor N | set I X | get I
                      | last | len | cap
   Output tokens per op: '-' (no value) 'v<int>' 'n<uint>' 'b<0|1>' followed by 'r<old>,<new>' for each
   realloc the op issued (sizes in elements); then '| <live elements>'. */
#include <stdio.h>
#include <stdlib.h>
#include <string.h>
#include <stdint.h>
#include "mir-alloc.h"
#include "mir-varr.h"

typedef long elt;
DEF_VARR (elt);

static char evbuf[256];
static void *h_malloc (size_t n, void *u) { return malloc (n); }
static void *h_calloc (size_t k, size_t n, void *u) { return calloc (k, n); }
static void *h_realloc (void *p, size_t old, size_t new, void *u) {
  char t[64];
  sprintf (t, " r%zu,%zu", old / sizeof (elt), new / sizeof (elt));
  if (strlen (evbuf) + strlen (t) < sizeof (evbuf)) strcat (evbuf, t);
  return realloc (p, new);
}
static void h_free (void *p, void *u) { free (p); }
static struct MIR_alloc h_alloc = {h_malloc, h_calloc, h_realloc, h_free, NULL};

static void run_varr (char *args, char *ops) {
  VARR (elt) * v;
  size_t init = strtoul (args, NULL, 10);
  VARR_CREATE (elt, v, &h_alloc, init);
  char *save, *op;
  for (op = strtok_r (ops, ";", &save); op != NULL; op = strtok_r (NULL, ";", &save)) {
    char name[32];
    int off = 0;
    if (sscanf (op, " %31s%n", name, &off) < 1) continue;
    char *rest = op + off;
    evbuf[0] = 0;
    if (!strcmp (name, "push")) {
      VARR_PUSH (elt, v, strtol (rest, NULL, 10));
      printf (" -");
    } else if (!strcmp (name, "pusharr")) {
      elt tmp[64];
      size_t n = 0;
      char *e;
      for (;;) {
        long x = strtol (rest, &e, 10);
        if (e == rest) break;
        if (n < 64) tmp[n++] = x;
        rest = e;
      }
      VARR_PUSH_ARR (elt, v, tmp, n);
      printf (" -");
    } else if (!strcmp (name, "pop")) {
      printf (" v%ld", VARR_POP (elt, v));
    } else if (!strcmp (name, "trunc")) {
      VARR_TRUNC (elt, v, strtoul (rest, NULL, 10));
      printf (" -");
    } else if (!strcmp (name, "expand")) {
      printf (" b%d", VARR_EXPAND (elt, v, strtoul (rest, NULL, 10)));
    } else if (!strcmp (name, "tailor")) {
      VARR_TAILOR (elt, v, strtoul (rest, NULL, 10));
      printf (" -");
    } else if (!strcmp (name, "set")) {
      char *e;
      size_t i = strtoul (rest, &e, 10);
      VARR_SET (elt, v, i, strtol (e, NULL, 10));
      printf (" -");
    } else if (!strcmp (name, "get")) {
      printf (" v%ld", VARR_GET (elt, v, strtoul (rest, NULL, 10)));
    } else if (!strcmp (name, "last")) {
      printf (" v%ld", VARR_LAST (elt, v));
    } else if (!strcmp (name, "len")) {
      printf (" n%zu", VARR_LENGTH (elt, v));
    } else if (!strcmp (name, "cap")) {
      printf (" n%zu", VARR_CAPACITY (elt, v));
    } else {
      printf (" ?%s", name);
    }
    printf ("%s", evbuf);
  }
  printf (" |");
  for (size_t i = 0; i < VARR_LENGTH (elt, v); i++) printf (" %ld", VARR_GET (elt, v, i));
  printf ("\n");
  VARR_DESTROY (elt, v);
}

int main (void) {
  static char line[1 << 20];
  while (fgets (line, sizeof (line), stdin)) {
    char *colon = strchr (line, ':');
    if (colon == NULL) continue;
    *colon = 0;
    char kind[32];
    int off = 0;
    if (sscanf (line, " %31s%n", kind, &off) < 1) continue;
    if (!strcmp (kind, "varr"))
      run_varr (line + off, colon + 1);
    else
      printf ("?kind %s\n", kind);
  }
  return 0;
}

/* C20 module-level harness.
     c20_mod interp FILE.mir ENTRY A B     scan the MIR text, link with the logging externals, run ENTRY(A,B)
                                           with MIR_interp; prints the external-call trace and "R <hex>"
     c20_mod emitc FILE.mir OUT.c          translate every module of the file with MIR_module2c
   The same externals (c20_ext.h) are linked with the gcc-compiled translation by checks/c20_modules.py. */
#include <stdio.h>
#include <stdlib.h>
#include <string.h>
#include <stdint.h>
#include <inttypes.h>
#include "mir.h"
#include "mir2c/mir2c.h"
#include "c20_ext.h"

static char *read_file (const char *name) {
  FILE *f = fopen (name, "rb");
  if (f == NULL) {
    fprintf (stderr, "cannot open %s\n", name);
    exit (2);
  }
  fseek (f, 0, SEEK_END);
  long n = ftell (f);
  fseek (f, 0, SEEK_SET);
  char *buf = malloc (n + 1);
  if (fread (buf, 1, n, f) != (size_t) n) exit (2);
  buf[n] = 0;
  fclose (f);
  return buf;
}

int main (int argc, char **argv) {
  if (argc < 4) {
    fprintf (stderr, "usage: c20_mod interp FILE ENTRY A B | emitc FILE OUT.c\n");
    return 2;
  }
  MIR_context_t ctx = MIR_init ();
  char *text = read_file (argv[2]);
  MIR_scan_string (ctx, text);
  if (strcmp (argv[1], "emitc") == 0) {
    FILE *out = fopen (argv[3], "w");
    if (out == NULL) return 2;
    for (MIR_module_t m = DLIST_HEAD (MIR_module_t, *MIR_get_module_list (ctx)); m != NULL;
         m = DLIST_NEXT (MIR_module_t, m))
      MIR_module2c (ctx, out, m);
    fclose (out);
    return 0;
  }
  MIR_item_t entry = NULL;
  for (MIR_module_t m = DLIST_HEAD (MIR_module_t, *MIR_get_module_list (ctx)); m != NULL;
       m = DLIST_NEXT (MIR_module_t, m)) {
    for (MIR_item_t it = DLIST_HEAD (MIR_item_t, m->items); it != NULL; it = DLIST_NEXT (MIR_item_t, it))
      if (it->item_type == MIR_func_item && strcmp (it->u.func->name, argv[3]) == 0) entry = it;
    MIR_load_module (ctx, m);
  }
  if (entry == NULL) {
    fprintf (stderr, "no function %s\n", argv[3]);
    return 2;
  }
  MIR_load_external (ctx, "ext_i", ext_i);
  MIR_load_external (ctx, "ext_d", ext_d);
  MIR_load_external (ctx, "ext_f", ext_f);
  MIR_load_external (ctx, "ext_p", ext_p);
  MIR_load_external (ctx, "ext_v", ext_v);
  MIR_link (ctx, MIR_set_interp_interface, NULL);
  MIR_val_t res, args[2];
  args[0].i = argc > 4 ? (int64_t) strtoull (argv[4], NULL, 16) : 0;
  args[1].i = argc > 5 ? (int64_t) strtoull (argv[5], NULL, 16) : 0;
  MIR_interp_arr (ctx, entry, &res, 2, args);
  printf ("R %016" PRIx64 "\n", (uint64_t) res.i);
  return 0;
}

/* C03 tie harness: drives the real thunk functions and the real load/link/set-interface/MIR_gen/
   call sequence, and prints what the Coq model (coq/C03/Thunk.v) predicts.

   One request per input line, one answer line per request (each request runs in a forked child so
   a crash is reported as "CRASH sig=N" for that line only).

   R <k> abs <hex>          redirect thunk k (0..3) to absolute address <hex> (never executed)
   R <k> rel <signed dec>   redirect thunk k to thunk+5+<dec> (mod 2^64)
        -> R thunk=<hex> to=<hex> bytes=<26 hex> get=<hex>
   X <k> near|far           redirect thunk k to a real stub (near: published next to the thunk,
                            far: mmap'ed more than 2 GiB away) and CALL the thunk
        -> X thunk=<hex> to=<hex> bytes=<26 hex> get=<hex> reached=<hex>
   B <bbv hex> <dec1> <dec2> bb thunk with handler at thunk+15+<dec1>, then replaced by a jump to thunk+5+<dec2>
        -> B thunk=<hex> bbv=<hex> handler=<hex> bytes=<30 hex> to=<hex> bytes2=<30 hex>
   H <n> | <callees> | <op> ; <op> ; ...
        n functions f0..f(n-1), each in its own module; <callees> = "0:1,2 1:2" (f0 calls f1,f2 ...)
        ops: load <f> | link <iface> | set <iface> <f> | gen <f> | call <f> <arg>
             iface = interp | gen | lazy | bb | none
        -> for each op " || <op> => <result> gen=<order> # <state of every loaded function>"
           state = f:addr:bytes:mc:ca:data:kind
*/
#define _GNU_SOURCE
#include <stdio.h>
#include <stdlib.h>
#include <string.h>
#include <stdint.h>
#include <stdarg.h>
#include <inttypes.h>
#include <unistd.h>
#include <signal.h>
#include <sys/mman.h>
#include <sys/wait.h>
#include "mir.h"
#include "mir-gen.h"

#define MAXF 16
static MIR_context_t ctx;
static char *dbg_buf;
static size_t dbg_len;
static FILE *dbg_file;

static void hexbytes (const uint8_t *p, int n) {
  for (int i = 0; i < n; i++) printf ("%02x", p[i]);
}

static void MIR_NO_RETURN err_func (MIR_error_type_t t, const char *fmt, ...) {
  va_list ap;
  char buf[200];
  va_start (ap, fmt);
  vsnprintf (buf, sizeof (buf), fmt, ap);
  va_end (ap);
  for (char *c = buf; *c; c++)
    if (*c == ' ') *c = '_';
  printf (" => ERROR %s\n", buf);
  fflush (stdout);
  _exit (0);
}

/* ------------------------------------------------------------------ R / X */
static uint8_t *make_stub_bytes (uint8_t *buf, uint64_t id) {
  buf[0] = 0x48; buf[1] = 0xb8; /* movabs $id,%rax */
  memcpy (buf + 2, &id, 8);
  buf[10] = 0xc3; /* ret */
  return buf;
}

static void do_R (char *line) {
  int k;
  char mode[16], val[64];
  void *thunks[4];
  if (sscanf (line, "R %d %15s %63s", &k, mode, val) != 3 || k < 0 || k > 3) {
    printf ("BAD\n");
    return;
  }
  /* thunks are spread: some filler code between them so that their addresses differ mod 16 etc. */
  for (int i = 0; i < 4; i++) {
    thunks[i] = _MIR_get_thunk (ctx);
    uint8_t filler[40] = {0xc3};
    _MIR_publish_code (ctx, filler, 1 + 7 * i);
  }
  uint64_t th = (uint64_t) thunks[k], to;
  if (strcmp (mode, "abs") == 0)
    to = strtoull (val, NULL, 16);
  else
    to = th + 5 + (uint64_t) strtoll (val, NULL, 10);
  _MIR_redirect_thunk (ctx, thunks[k], (void *) to);
  printf ("R thunk=%" PRIx64 " to=%" PRIx64 " bytes=", th, to);
  hexbytes (thunks[k], 13);
  printf (" get=%" PRIx64 "\n", (uint64_t) _MIR_get_thunk_addr (ctx, thunks[k]));
}

static void do_X (char *line) {
  int k;
  char mode[16];
  void *thunks[4];
  uint8_t sb[16];
  if (sscanf (line, "X %d %15s", &k, mode) != 2 || k < 0 || k > 3) {
    printf ("BAD\n");
    return;
  }
  for (int i = 0; i < 4; i++) {
    thunks[i] = _MIR_get_thunk (ctx);
    uint8_t filler[40] = {0xc3};
    _MIR_publish_code (ctx, filler, 1 + 7 * i);
  }
  uint64_t th = (uint64_t) thunks[k];
  void *stub = NULL;
  if (strcmp (mode, "near") == 0) {
    uint8_t *probe = _MIR_get_new_code_addr (ctx, 16);
    stub = _MIR_publish_code (ctx, make_stub_bytes (sb, (uint64_t) probe), 11);
    if (stub != (void *) probe) { /* a new holder was opened: id must be the real address */
      uint64_t id = (uint64_t) stub;
      _MIR_change_code (ctx, (uint8_t *) stub + 2, (uint8_t *) &id, 8);
    }
  } else {
    /* find a page more than 2 GiB away from the thunk */
    static const int64_t deltas[] = {(int64_t) 1 << 33, -((int64_t) 1 << 33), (int64_t) 1 << 36,
                                     -((int64_t) 1 << 36), (int64_t) 1 << 40, -((int64_t) 1 << 40)};
    for (size_t i = 0; i < sizeof (deltas) / sizeof (deltas[0]) && stub == NULL; i++) {
      uint64_t hint = ((th + (uint64_t) deltas[i]) & ~(uint64_t) 0xfff);
      if (hint < 0x10000 || hint >= ((uint64_t) 1 << 47) - 0x10000) continue;
      void *p = mmap ((void *) hint, 4096, PROT_READ | PROT_WRITE | PROT_EXEC,
                      MAP_PRIVATE | MAP_ANONYMOUS, -1, 0);
      if (p == MAP_FAILED) continue;
      int64_t d = (int64_t) ((uint64_t) p - (th + 5));
      if (d > INT32_MAX || d < INT32_MIN) {
        stub = (uint8_t *) p + 64 * (k + 1) + k; /* unaligned on purpose */
        make_stub_bytes (stub, (uint64_t) stub);
      } else
        munmap (p, 4096);
    }
    if (stub == NULL) {
      printf ("X nofar\n");
      return;
    }
  }
  _MIR_redirect_thunk (ctx, thunks[k], stub);
  uint64_t reached = ((uint64_t (*) (void)) thunks[k]) ();
  printf ("X thunk=%" PRIx64 " to=%" PRIx64 " bytes=", th, (uint64_t) stub);
  hexbytes (thunks[k], 13);
  printf (" get=%" PRIx64 " reached=%" PRIx64 "\n", (uint64_t) _MIR_get_thunk_addr (ctx, thunks[k]),
          reached);
}

/* B <bbv hex> <signed dec 1> <signed dec 2>: a bb thunk (_MIR_get_bb_thunk) whose handler is at
   thunk+15+<dec 1>, then _MIR_replace_bb_thunk to thunk+5+<dec 2>; nothing is executed.
     -> B thunk=<hex> bbv=<hex> handler=<hex> bytes=<30 hex> to=<hex> bytes2=<30 hex> */
static void do_B (char *line) {
  char bv[64], d1[64], d2[64];
  if (sscanf (line, "B %63s %63s %63s", bv, d1, d2) != 3) {
    printf ("BAD\n");
    return;
  }
  uint8_t filler[40] = {0xc3};
  _MIR_publish_code (ctx, filler, 1 + (int) (strtoull (bv, NULL, 16) % 13));
  uint64_t pred = (uint64_t) _MIR_get_new_code_addr (ctx, 15);
  uint64_t bbv = strtoull (bv, NULL, 16), handler = pred + 15 + (uint64_t) strtoll (d1, NULL, 10);
  uint8_t *res = _MIR_get_bb_thunk (ctx, (void *) bbv, (void *) handler);
  if ((uint64_t) res != pred) {
    printf ("B unpredicted\n");
    return;
  }
  printf ("B thunk=%" PRIx64 " bbv=%" PRIx64 " handler=%" PRIx64 " bytes=", (uint64_t) res, bbv, handler);
  hexbytes (res, 15);
  uint64_t to = (uint64_t) res + 5 + (uint64_t) strtoll (d2, NULL, 10);
  _MIR_replace_bb_thunk (ctx, res, (void *) to);
  printf (" to=%" PRIx64 " bytes2=", to);
  hexbytes (res, 15);
  printf ("\n");
}

/* ------------------------------------------------------------------ H */
static int nfuncs;
static int callees[MAXF][MAXF], ncallees[MAXF];
static MIR_module_t mods[MAXF];
static MIR_item_t items[MAXF];
static int loaded[MAXF];

static void build_program (void) {
  char *text = malloc (1 << 16), *p = text;
  for (int i = 0; i < nfuncs; i++) {
    p += sprintf (p, "m%d: module\n  export f%d\n", i, i);
    for (int j = 0; j < ncallees[i]; j++) {
      int dup = 0;
      for (int l = 0; l < j; l++) dup |= callees[i][l] == callees[i][j];
      if (!dup) p += sprintf (p, "  import f%d\n", callees[i][j]);
    }
    /* variadic functions are never inlined by MIR_link, so every call in the text stays a call;
       odd call sites call through the function address held in a register */
    p += sprintf (p, "p: proto i64, i64:a, ...\n");
    p += sprintf (p, "f%d: func i64, i64:a, ...\n  local i64:r, i64:t, i64:fa\n  add r, a, %d\n", i,
                  i + 1);
    for (int j = 0; j < ncallees[i]; j++)
      if (j % 2 == 0)
        p += sprintf (p, "  add t, a, 1\n  call p, f%d, t, t\n  add r, r, t\n", callees[i][j]);
      else
        p += sprintf (p, "  add t, a, 1\n  mov fa, f%d\n  call p, fa, t, t\n  add r, r, t\n",
                      callees[i][j]);
    p += sprintf (p, "  ret r\n  endfunc\n  endmodule\n");
  }
  p += sprintf (p, "mprobe: module\nprobe: func i64\n  ret 0\n  endfunc\n  endmodule\n");
  MIR_scan_string (ctx, text);
  free (text);
  int i = 0;
  for (MIR_module_t m = DLIST_HEAD (MIR_module_t, *MIR_get_module_list (ctx)); m != NULL;
       m = DLIST_NEXT (MIR_module_t, m), i++) {
    if (i == nfuncs) { /* the probe module: loaded (never linked by us before the first link)
                          only to learn where a freshly loaded thunk points */
      MIR_load_module (ctx, m);
      for (MIR_item_t it = DLIST_HEAD (MIR_item_t, m->items); it != NULL;
           it = DLIST_NEXT (MIR_item_t, it))
        if (it->item_type == MIR_func_item)
          printf (" undef=%" PRIx64, (uint64_t) _MIR_get_thunk_addr (ctx, it->addr));
      break;
    }
    mods[i] = m;
    for (MIR_item_t it = DLIST_HEAD (MIR_item_t, m->items); it != NULL;
         it = DLIST_NEXT (MIR_item_t, it))
      if (it->item_type == MIR_func_item) items[i] = it;
  }
}

typedef void (*iface_t) (MIR_context_t, MIR_item_t);
static iface_t iface_of (const char *s) {
  if (strcmp (s, "interp") == 0) return MIR_set_interp_interface;
  if (strcmp (s, "gen") == 0) return MIR_set_gen_interface;
  if (strcmp (s, "lazy") == 0) return MIR_set_lazy_gen_interface;
  if (strcmp (s, "bb") == 0) return MIR_set_lazy_bb_gen_interface;
  return NULL;
}

static int find_ptr (const uint8_t *p, int n, const void *v) {
  for (int i = 0; i + 8 <= n; i++)
    if (memcmp (p + i, &v, 8) == 0) return i;
  return -1;
}

static void dump_state (void) {
  printf (" #");
  for (int i = 0; i < nfuncs; i++) {
    if (!loaded[i]) continue;
    MIR_item_t it = items[i];
    uint8_t *th = it->addr;
    void *tgt = _MIR_get_thunk_addr (ctx, th);
    printf (" %d:%" PRIx64 ":", i, (uint64_t) th);
    hexbytes (th, 13);
    printf (":%" PRIx64 ":%" PRIx64 ":%d:", (uint64_t) it->u.func->machine_code,
            (uint64_t) it->u.func->call_addr, it->data != NULL);
    /* classify what the thunk points to by looking at the machine code there */
    const uint8_t *t = tgt;
    if (it->u.func->call_addr != NULL && tgt == it->u.func->call_addr)
      printf ("C");
    else if (t[0] == 0x56 && t[1] == 0x57 && t[2] == 0x48 && t[3] == 0xbe
             && memcmp (t + 4, &it, 8) == 0) { /* _MIR_get_wrapper start_pat for this item */
      uint64_t hook;
      memcpy (&hook, t + 24, 8);
      printf ("W%" PRIx64, hook);
    } else if (t[0] == 0x53 && t[1] == 0x48 && t[2] == 0x81 && t[3] == 0xec) { /* interp shim */
      int off = find_ptr (t, 200, it);
      printf (off > 0 && t[off - 2] == 0x48 && t[off - 1] == 0xbe ? "S" : "S?");
    } else
      printf ("O");
  }
}

static void gen_order (size_t from) {
  fflush (dbg_file);
  printf (" gen=");
  const char *key = "Code generation of function ";
  int first = 1;
  for (char *s = dbg_buf + from; (s = strstr (s, key)) != NULL;) {
    s += strlen (key);
    if (s[0] != 'f') continue; /* the probe */
    printf ("%s%d", first ? "" : ",", atoi (s + 1));
    first = 0;
  }
  if (first) printf ("-");
}

static void do_H (char *line) {
  char *save1, *part = strtok_r (line, "|", &save1);
  sscanf (part, "H %d", &nfuncs);
  if (nfuncs <= 0 || nfuncs > MAXF) {
    printf ("BAD\n");
    return;
  }
  part = strtok_r (NULL, "|", &save1);
  { /* callees */
    char *save2;
    for (char *tok = strtok_r (part, " ", &save2); tok != NULL; tok = strtok_r (NULL, " ", &save2)) {
      int f = atoi (tok);
      char *c = strchr (tok, ':');
      while (c != NULL && c[1] != 0) {
        callees[f][ncallees[f]++] = atoi (c + 1);
        c = strchr (c + 1, ',');
      }
    }
  }
  printf ("H");
  build_program ();
  MIR_gen_init (ctx);
  MIR_gen_set_optimize_level (ctx, 1);
  dbg_file = open_memstream (&dbg_buf, &dbg_len);
  MIR_gen_set_debug_file (ctx, dbg_file);
  MIR_gen_set_debug_level (ctx, 0);
  part = strtok_r (NULL, "|", &save1);
  char *save3;
  for (char *op = strtok_r (part, ";", &save3); op != NULL; op = strtok_r (NULL, ";", &save3)) {
    char w0[16] = "", w1[16] = "", w2[32] = "";
    int nw = sscanf (op, "%15s %15s %31s", w0, w1, w2);
    if (nw < 1) continue;
    fflush (dbg_file);
    size_t from = dbg_len;
    printf (" || %s %s %s", w0, w1, w2);
    fflush (stdout);
    if (strcmp (w0, "load") == 0) {
      int f = atoi (w1);
      MIR_load_module (ctx, mods[f]);
      loaded[f] = 1;
      printf (" => ok");
    } else if (strcmp (w0, "link") == 0) {
      MIR_link (ctx, iface_of (w1), NULL);
      printf (" => ok");
    } else if (strcmp (w0, "set") == 0) {
      int f = atoi (w2);
      iface_t fi = iface_of (w1);
      fi (ctx, items[f]);
      if (fi == MIR_set_gen_interface) fi (ctx, NULL);
      printf (" => ok");
    } else if (strcmp (w0, "gen") == 0) {
      int f = atoi (w1);
      void *a = MIR_gen (ctx, items[f]);
      printf (" => %s", a == items[f]->addr ? "addr" : "other");
    } else if (strcmp (w0, "call") == 0) {
      int f = atoi (w1);
      int64_t a = strtoll (w2, NULL, 10);
      int64_t r = ((int64_t (*) (int64_t)) items[f]->addr) (a);
      printf (" => %" PRId64, r);
    } else {
      printf (" => BADOP");
    }
    gen_order (from);
    dump_state ();
  }
  printf ("\n");
}

int main (void) {
  char *line = NULL;
  size_t cap = 0;
  ssize_t n;
  setvbuf (stdout, NULL, _IOLBF, 0);
  while ((n = getline (&line, &cap, stdin)) > 0) {
    if (line[n - 1] == '\n') line[n - 1] = 0;
    if (line[0] == 0) {
      printf ("\n");
      continue;
    }
    fflush (stdout);
    pid_t pid = fork ();
    if (pid == 0) {
      ctx = MIR_init ();
      MIR_set_error_func (ctx, err_func);
      if (line[0] == 'R')
        do_R (line);
      else if (line[0] == 'X')
        do_X (line);
      else if (line[0] == 'B')
        do_B (line);
      else if (line[0] == 'H')
        do_H (line);
      else
        printf ("BAD\n");
      fflush (stdout);
      _exit (0);
    }
    int st;
    waitpid (pid, &st, 0);
    if (WIFSIGNALED (st)) printf (" => CRASH sig=%d\n", WTERMSIG (st));
    fflush (stdout);
  }
  return 0;
}

/* C18 harness 2: the library (mir.c, mir-gen.c, c2mir.c) is linked as a shared object of its own, so that its
   .data/.bss -- every static object the statics translator lists -- occupy pages of their own.  After start-up
   (relocation done, -z now) those pages are made READ-ONLY and API scripts (harness/c17_api.h) are run in one
   thread.  The regenerated Coq fact `statics_write_free` says no library function stores to any of these objects:
   here every store, also one made through a pointer the translator cannot follow, faults.  The SIGSEGV handler
   logs the faulting address as an offset into the shared object (checks/c18.py maps it to the symbol), makes the
   page writable and lets the run continue, so that all written objects of a script are collected.

   stdin: script lines "<api command>" (one context after another), "end".
   stdout: "R ..." results, "X STATIC-WRITE <so-offset hex> pc <so-offset hex or 0>", "X DONE". */
#define _GNU_SOURCE
#include <link.h>
#include <signal.h>
#include <stdio.h>
#include <stdlib.h>
#include <string.h>
#include <sys/mman.h>
#include <ucontext.h>
#include <unistd.h>
#include "c17_api.h"

#define PAGE 4096ul
static uintptr_t so_base, rw_lo, rw_hi, so_lo, so_hi;
static int nwrites;

static int find_lib (struct dl_phdr_info *info, size_t size, void *data) {
  (void) size;
  (void) data;
  if (info->dlpi_name == NULL || strstr (info->dlpi_name, "libmirv") == NULL) return 0;
  so_base = info->dlpi_addr;
  so_lo = ~(uintptr_t) 0;
  for (int i = 0; i < info->dlpi_phnum; i++) {
    const ElfW (Phdr) *ph = &info->dlpi_phdr[i];
    if (ph->p_type != PT_LOAD) continue;
    uintptr_t lo = info->dlpi_addr + ph->p_vaddr, hi = lo + ph->p_memsz;
    if (lo < so_lo) so_lo = lo;
    if (hi > so_hi) so_hi = hi;
    if (ph->p_flags & PF_W) {
      rw_lo = lo & ~(PAGE - 1);
      rw_hi = (hi + PAGE - 1) & ~(PAGE - 1);
    }
  }
  return 1;
}

static void wr (const char *s) {
  size_t n = strlen (s);
  while (n > 0) {
    ssize_t w = write (1, s, n);
    if (w <= 0) break;
    s += w;
    n -= (size_t) w;
  }
}

static void on_fault (int sig, siginfo_t *si, void *uc_) {
  ucontext_t *uc = uc_;
  uintptr_t a = (uintptr_t) si->si_addr, pc = (uintptr_t) uc->uc_mcontext.gregs[REG_RIP];
  char b[160];
  if (sig == SIGSEGV && a >= rw_lo && a < rw_hi && (uc->uc_mcontext.gregs[REG_ERR] & 2) != 0) {
    snprintf (b, sizeof (b), "X STATIC-WRITE %lx pc %lx\n", (unsigned long) (a - so_base),
              (unsigned long) (pc >= so_lo && pc < so_hi ? pc - so_base : 0));
    wr (b);
    nwrites++;
    mprotect ((void *) (a & ~(PAGE - 1)), PAGE, PROT_READ | PROT_WRITE); /* let the store proceed; the page stays open */
    return;
  }
  snprintf (b, sizeof (b), "X CRASH signal %d addr %p\n", sig, si->si_addr);
  wr (b);
  _exit (70);
}

static void out (struct api *a, const char *line) {
  (void) a;
  wr (line);
  wr ("\n");
}

int main (void) {
  static char line[1 << 20];
  static char altstack[1 << 16];
  static struct api api;
  stack_t ss = {.ss_sp = altstack, .ss_size = sizeof (altstack), .ss_flags = 0};
  struct sigaction sa;
  int rc = 0;

  dl_iterate_phdr (find_lib, NULL);
  if (rw_lo == 0) {
    wr ("X NOLIB\n");
    return 64;
  }
  api.out = out;
  api.null_file = fopen ("/dev/null", "w");
  fprintf (api.null_file, "%d %s %g\n", 1, "x", 1.5);
  fflush (api.null_file);
  sigaltstack (&ss, NULL);
  memset (&sa, 0, sizeof (sa));
  sa.sa_sigaction = on_fault;
  sa.sa_flags = SA_SIGINFO | SA_ONSTACK | SA_NODEFER;
  sigaction (SIGSEGV, &sa, NULL);
  sigaction (SIGBUS, &sa, NULL);
  {
    char b[120];
    snprintf (b, sizeof (b), "X PROTECTED %lx %lx\n", (unsigned long) (rw_lo - so_base), (unsigned long) (rw_hi - so_base));
    wr (b);
  }
  if (mprotect ((void *) rw_lo, rw_hi - rw_lo, PROT_READ) != 0) {
    wr ("X MPROTECT-FAILED\n");
    return 64;
  }
  while (fgets (line, sizeof (line), stdin) != NULL) {
    size_t n = strlen (line);
    while (n > 0 && (line[n - 1] == '\n' || line[n - 1] == '\r')) line[--n] = 0;
    if (n == 0 || line[0] == '#') continue;
    if (strcmp (line, "end") == 0) break;
    if (api_exec (&api, line) != 0) {
      rc = 65;
      break;
    }
  }
  api_cleanup_files (&api);
  {
    char b[80];
    snprintf (b, sizeof (b), "X DONE rc %d static-writes %d\n", rc, nwrites);
    wr (b);
  }
  _exit (rc);
}

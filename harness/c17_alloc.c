/* C17 harness: runs an API script (harness/c17_api.h) with CHECKING allocators installed through
   MIR_init2 and prints the allocator-call trace of every context; the verified monitor
   (coq/C17/Alloc.v, extracted) decides whether each trace meets the contract.  This file only
   observes and logs; it decides nothing about the property.

   - MIR_alloc callbacks: every block gets a header and a unique id; freed blocks are poisoned and
     kept (quarantine) so that a second free / a realloc of a dead block is seen with the same id and
     writes after free are detected ("U id").
   - MIR_code_alloc callbacks: pages are really mmap'ed READ|EXEC and made writable only between
     a PROT_WRITE_EXEC and the next PROT_READ_EXEC request.  A write to a non-writable code page
     faults; the SIGSEGV handler logs "W addr 1" at that point of the trace, makes the page writable
     and resumes.  Writes inside a window are found by diffing against a snapshot when the window
     closes ("W first len" per page, logged before the closing event).
   - link-time interposition (-Wl,--wrap=malloc,... see checks/c17.py): any call of
     malloc/calloc/realloc/free/mmap/munmap/mprotect/strdup/... from the library's objects is logged as
     "D" (with the caller's address); calls made inside libc itself are not redirected by --wrap, the
     harness itself uses __real_*.
   Output lines: "E <ctx> <event>" | "S <n> <ctx> <script line head>" | "R ..." | "X ..." (diagnostics).
   Script on stdin: lines "<ctx> <api command>" ; "end" finishes. */
#define _GNU_SOURCE
#include <stdio.h>
#include <stdlib.h>
#include <string.h>
#include <stdint.h>
#include <signal.h>
#include <unistd.h>
#include <dlfcn.h>
#include <sys/mman.h>
#include <ucontext.h>

extern void *__real_malloc (size_t);
extern void *__real_calloc (size_t, size_t);
extern void *__real_realloc (void *, size_t);
extern void __real_free (void *);
extern void *__real_mmap (void *, size_t, int, int, int, off_t);
extern int __real_munmap (void *, size_t);
extern int __real_mprotect (void *, size_t, int);
extern char *__real_strdup (const char *);
extern char *__real_strndup (const char *, size_t);
extern int __real_posix_memalign (void **, size_t, size_t);
extern void *__real_aligned_alloc (size_t, size_t);

#if defined(__SANITIZE_ADDRESS__)
/* thorough tier: under AddressSanitizer freed user blocks are poisoned for the instrumented library code, so a
   READ after free is reported too (the plain build only sees writes, through the 0xdb pattern) */
#include <sanitizer/asan_interface.h>
#define ASAN_ON 1
#else
#define ASAN_ON 0
#define __asan_poison_memory_region(p, n) ((void) 0)
#endif

#define API_REALLOC __real_realloc
#define API_FREE __real_free
#include "c17_api.h"

/* ------------------------------------------------------------------ trace output */
static char obuf[1 << 16];
static size_t opos;
static void oflush (void) {
  size_t off = 0;
  while (off < opos) {
    ssize_t w = write (1, obuf + off, opos - off);
    if (w <= 0) break;
    off += (size_t) w;
  }
  opos = 0;
}
static void oputs (const char *s) {
  size_t n = strlen (s);
  if (opos + n + 1 > sizeof (obuf)) oflush ();
  if (n + 1 > sizeof (obuf)) n = sizeof (obuf) - 2;
  memcpy (obuf + opos, s, n);
  opos += n;
  obuf[opos++] = '\n';
}
static void oprintf (const char *fmt, ...) {
  char b[700];
  va_list ap;
  va_start (ap, fmt);
  vsnprintf (b, sizeof (b), fmt, ap);
  va_end (ap);
  oputs (b);
}

/* ------------------------------------------------------------------ contexts */
#define MAXCX 4
#define PAGE 4096ul
#define HDR_MAGIC 0x4d4952414c4c4f43ull
#define POISON 0xdb

struct hdr {
  uint64_t magic;
  uint64_t size;
  uint32_t id, cx;
  uint32_t freed, pad;
}; /* 32 bytes: keeps malloc's 16-byte alignment */

struct region {
  uint8_t *base, *shadow;
  size_t len;
  int cx, live;
  uint8_t *pstate; /* per page: 0 non-writable, 1 writable with snapshot, 2 made writable by the fault handler */
};

struct cx {
  struct api api;
  struct MIR_alloc alloc;
  struct MIR_code_alloc code_alloc;
  uint32_t next_id, next_unknown;
  unsigned long n_events, n_alloc, n_free, n_realloc, n_map, n_protect, n_codewrite_bytes;
};
static struct cx cxs[MAXCX];
static int cur_cx = 0; /* context the script is acting on: direct calls are attributed to it */
static int armed = 0;  /* set once the first MIR_init2 starts */

#define MAXREG 4096
static struct region regions[MAXREG];
static int nregions;

/* all user blocks ever handed out (never released before exit): open-addressing set of headers */
static struct hdr **blocks;
static size_t blocks_cap, blocks_n;
static size_t quarantine_bytes;

/* blocks obtained by direct (bypassing) libc calls of the library */
static void **foreign;
static size_t foreign_n, foreign_cap;

static void ev (int c, const char *fmt, ...) {
  char b[200];
  int n = snprintf (b, sizeof (b), "E %d ", c);
  va_list ap;
  va_start (ap, fmt);
  vsnprintf (b + n, sizeof (b) - (size_t) n, fmt, ap);
  va_end (ap);
  oputs (b);
  cxs[c].n_events++;
}

static size_t hashp (const void *p) { return (size_t) (((uintptr_t) p >> 4) * 0x9E3779B97F4A7C15ull); }

static void blocks_add (struct hdr *h) {
  if ((blocks_n + 1) * 2 > blocks_cap) {
    size_t ncap = blocks_cap ? blocks_cap * 2 : 1 << 16, i;
    struct hdr **nb = __real_calloc (ncap, sizeof (*nb));
    for (i = 0; i < blocks_cap; i++)
      if (blocks[i] != NULL) {
        size_t j = hashp (blocks[i] + 1) & (ncap - 1);
        while (nb[j] != NULL) j = (j + 1) & (ncap - 1);
        nb[j] = blocks[i];
      }
    __real_free (blocks);
    blocks = nb;
    blocks_cap = ncap;
  }
  size_t j = hashp (h + 1) & (blocks_cap - 1);
  while (blocks[j] != NULL) j = (j + 1) & (blocks_cap - 1);
  blocks[j] = h;
  blocks_n++;
}

static struct hdr *blocks_find (const void *user) {
  if (blocks_cap == 0 || user == NULL) return NULL;
  size_t j = hashp (user) & (blocks_cap - 1);
  while (blocks[j] != NULL) {
    if ((void *) (blocks[j] + 1) == user) return blocks[j];
    j = (j + 1) & (blocks_cap - 1);
  }
  return NULL;
}

static int foreign_find (void *p) {
  for (size_t i = 0; i < foreign_n; i++)
    if (foreign[i] == p) return (int) i;
  return -1;
}
static void foreign_add (void *p) {
  if (p == NULL) return;
  if (foreign_n == foreign_cap) {
    foreign_cap = foreign_cap ? 2 * foreign_cap : 256;
    foreign = __real_realloc (foreign, foreign_cap * sizeof (void *));
  }
  foreign[foreign_n++] = p;
}

/* id for a pointer the allocator never handed out: distinct from every real id */
static uint32_t unknown_id (struct cx *c) { return 2000000000u + c->next_unknown++; }

/* ------------------------------------------------------------------ MIR_alloc callbacks */
static struct hdr *new_block (struct cx *c, size_t size, int zero) {
  struct hdr *h = zero ? __real_calloc (1, size + sizeof (struct hdr)) : __real_malloc (size + sizeof (struct hdr));
  if (h == NULL) {
    oputs ("X OOM in harness allocator");
    oflush ();
    _exit (80);
  }
  h->magic = HDR_MAGIC;
  h->size = size;
  h->id = ++c->next_id;
  h->cx = (uint32_t) (c - cxs);
  h->freed = 0;
  blocks_add (h);
  return h;
}

static void retire (struct hdr *h) {
  h->freed = 1;
  memset (h + 1, POISON, h->size);
  quarantine_bytes += h->size;
  __asan_poison_memory_region (h + 1, h->size);
}

static void *ck_malloc (size_t size, void *ud) {
  struct cx *c = ud;
  struct hdr *h = new_block (c, size, 0);
  c->n_alloc++;
  ev ((int) (c - cxs), "M %u %lu", h->id, (unsigned long) size);
  return h + 1;
}

static void *ck_calloc (size_t num, size_t size, void *ud) {
  struct cx *c = ud;
  struct hdr *h = new_block (c, num * size, 1);
  c->n_alloc++;
  ev ((int) (c - cxs), "C %u %lu %lu", h->id, (unsigned long) num, (unsigned long) size);
  return h + 1;
}

static void *ck_realloc (void *ptr, size_t old_size, size_t new_size, void *ud) {
  struct cx *c = ud;
  struct hdr *oh = blocks_find (ptr), *nh;
  uint32_t oid;
  c->n_realloc++;
  if (ptr == NULL)
    oid = 0;
  else if (oh == NULL)
    oid = unknown_id (c);
  else
    oid = oh->cx == (uint32_t) (c - cxs) ? oh->id : unknown_id (c); /* a block of another context is unknown here */
  nh = new_block (c, new_size, 0); /* always moves: stale pointers into the old block become visible */
  if (oh != NULL && !oh->freed) {
    memcpy (nh + 1, oh + 1, oh->size < new_size ? oh->size : new_size); /* the TRUE old size */
  } else if (oh == NULL && ptr != NULL) {
    oprintf ("X realloc of a pointer the allocator never returned: %p", ptr);
  }
  ev ((int) (c - cxs), "R %u %lu %lu %u", oid, (unsigned long) old_size, (unsigned long) new_size, nh->id);
  if (oh != NULL && !oh->freed) retire (oh);
  return nh + 1;
}

static void ck_free (void *ptr, void *ud) {
  struct cx *c = ud;
  struct hdr *h = blocks_find (ptr);
  c->n_free++;
  if (ptr == NULL) {
    ev ((int) (c - cxs), "F 0");
  } else if (h == NULL) {
    ev ((int) (c - cxs), "F %u", unknown_id (c));
    oprintf ("X free of a pointer the allocator never returned: %p%s", ptr,
             foreign_find (ptr) >= 0 ? " (obtained by a direct libc call)" : "");
  } else if (h->cx != (uint32_t) (c - cxs)) {
    ev ((int) (c - cxs), "F %u", unknown_id (c));
    oprintf ("X free of block %u of context %u through the allocator of context %d", h->id, h->cx, (int) (c - cxs));
  } else {
    ev ((int) (c - cxs), "F %u", h->id); /* a second free shows the same id: the monitor rejects it */
    if (!h->freed)
      retire (h);
    else {
      /* double free: recorded and written out at once; the block is NOT handed to the real free (no block ever is) */
      oprintf ("X double free of block %u (%lu bytes)", h->id, (unsigned long) h->size);
      oflush ();
    }
  }
}

/* writes into freed blocks: poison must be intact */
static void check_quarantine (void) {
  if (ASAN_ON) return; /* the shadow memory does the job */
  for (size_t j = 0; j < blocks_cap; j++) {
    struct hdr *h = blocks[j];
    if (h == NULL || h->freed != 1) continue;
    const uint8_t *p = (const uint8_t *) (h + 1);
    for (size_t i = 0; i < h->size; i++)
      if (p[i] != POISON) {
        ev ((int) h->cx, "U %u", h->id);
        oprintf ("X block %u of context %u written after free at offset %lu", h->id, h->cx, (unsigned long) i);
        h->freed = 2; /* report once */
        break;
      }
  }
}

/* ------------------------------------------------------------------ MIR_code_alloc callbacks */
static struct region *find_region (const void *addr) {
  for (int i = 0; i < nregions; i++)
    if (regions[i].live && (const uint8_t *) addr >= regions[i].base
        && (const uint8_t *) addr < regions[i].base + regions[i].len)
      return &regions[i];
  return NULL;
}

/* canonical address: region index in the high part, offset in the low part; unknown memory keeps
   its raw address under a tag so that it can never look mapped */
static unsigned long canon (const void *addr) {
  struct region *r = find_region (addr);
  if (r == NULL) /* the one-past-the-end address of a region (a full holder's free pointer) belongs to that region */
    for (int i = 0; i < nregions; i++)
      if (regions[i].live && (const uint8_t *) addr == regions[i].base + regions[i].len) r = &regions[i];
  if (r == NULL) return (1ul << 60) | (unsigned long) (uintptr_t) addr;
  return ((unsigned long) (r - regions + 1) << 32) + (unsigned long) ((const uint8_t *) addr - r->base);
}

/* close the write window of page pg of r: log the bytes that changed */
static void diff_page (struct region *r, size_t pg) {
  uint8_t *cur = r->base + pg * PAGE, *old = r->shadow + pg * PAGE;
  size_t first = PAGE, last = 0;
  if (r->pstate[pg] != 1) return;
  for (size_t i = 0; i < PAGE; i++)
    if (cur[i] != old[i]) {
      if (first == PAGE) first = i;
      last = i;
    }
  if (first != PAGE) {
    ev (r->cx, "W %lu %lu", canon (cur + first), (unsigned long) (last - first + 1));
    cxs[r->cx].n_codewrite_bytes += last - first + 1;
  }
}

static void *ck_map (size_t len, void *ud) {
  struct cx *c = ud;
  size_t rlen = (len + PAGE - 1) / PAGE * PAGE;
  struct region *r;
  if (nregions == MAXREG) {
    oputs ("X too many code regions");
    oflush ();
    _exit (81);
  }
  r = &regions[nregions++];
  /* one inaccessible guard page behind the region: a copy running past the end faults instead of landing in
     whatever happens to be mapped there */
  r->base = __real_mmap (NULL, rlen + PAGE, PROT_NONE, MAP_PRIVATE | MAP_ANONYMOUS, -1, 0);
  __real_mprotect (r->base, rlen, PROT_READ | PROT_EXEC);
  r->shadow = __real_mmap (NULL, rlen, PROT_READ | PROT_WRITE, MAP_PRIVATE | MAP_ANONYMOUS, -1, 0);
  r->len = rlen;
  r->cx = (int) (c - cxs);
  r->live = 1;
  r->pstate = __real_calloc (rlen / PAGE, 1);
  c->n_map++;
  ev (r->cx, "A %lu %lu", canon (r->base), (unsigned long) len);
  return r->base;
}

static int ck_unmap (void *ptr, size_t len, void *ud) {
  struct cx *c = ud;
  struct region *r = find_region (ptr);
  if (r != NULL && r->cx == (int) (c - cxs)) {
    for (size_t pg = 0; pg < r->len / PAGE; pg++) diff_page (r, pg);
    ev (r->cx, "Z %lu %lu", canon (ptr), (unsigned long) len);
    if ((uint8_t *) ptr == r->base && (len + PAGE - 1) / PAGE * PAGE == r->len) {
      __real_munmap (r->base, r->len + PAGE);
      __real_munmap (r->shadow, r->len);
      r->live = 0;
    } else {
      oprintf ("X partial unmap of a code region (%lu of %lu bytes): pages kept by the harness", (unsigned long) len,
               (unsigned long) r->len);
    }
    return 0;
  }
  ev ((int) (c - cxs), "Z %lu %lu", (1ul << 60) | (unsigned long) (uintptr_t) ptr, (unsigned long) len);
  oprintf ("X unmap of memory this context's code allocator never returned: %p", ptr);
  return -1;
}

static int ck_protect (void *ptr, size_t len, MIR_mem_protect_t prot, void *ud) {
  struct cx *c = ud;
  struct region *r = find_region (ptr);
  int w = prot == PROT_WRITE_EXEC;
  c->n_protect++;
  if (r == NULL || r->cx != (int) (c - cxs) || len == 0 || (uint8_t *) ptr + len > r->base + r->len) {
    ev ((int) (c - cxs), "%s %lu %lu", w ? "PW" : "PX",
        r != NULL && r->cx == (int) (c - cxs) ? canon (ptr) : (1ul << 60) | (unsigned long) (uintptr_t) ptr,
        (unsigned long) len);
    if (len != 0) oprintf ("X protect outside this context's code regions: %p+%lu", ptr, (unsigned long) len);
    return len == 0 ? 0 : -1;
  }
  size_t lo = (size_t) ((uint8_t *) ptr - r->base) / PAGE, hi = (size_t) ((uint8_t *) ptr + len - 1 - r->base) / PAGE;
  if (w) {
    ev (r->cx, "PW %lu %lu", canon (ptr), (unsigned long) len);
    for (size_t pg = lo; pg <= hi; pg++)
      if (r->pstate[pg] != 1) {
        memcpy (r->shadow + pg * PAGE, r->base + pg * PAGE, PAGE);
        r->pstate[pg] = 1;
      }
    __real_mprotect (r->base + lo * PAGE, (hi - lo + 1) * PAGE, PROT_READ | PROT_WRITE | PROT_EXEC);
  } else {
    for (size_t pg = lo; pg <= hi; pg++) diff_page (r, pg);
    ev (r->cx, "PX %lu %lu", canon (ptr), (unsigned long) len);
    for (size_t pg = lo; pg <= hi; pg++) r->pstate[pg] = 0;
    __real_mprotect (r->base + lo * PAGE, (hi - lo + 1) * PAGE, PROT_READ | PROT_EXEC);
  }
  return 0;
}

/* ------------------------------------------------------------------ faults */
static void on_fault (int sig, siginfo_t *si, void *uc_) {
  ucontext_t *uc = uc_;
  struct region *r = sig == SIGSEGV ? find_region (si->si_addr) : NULL;
  int is_write = sig == SIGSEGV && (uc->uc_mcontext.gregs[REG_ERR] & 2) != 0;
  if (r != NULL && is_write) {
    size_t pg = (size_t) ((uint8_t *) si->si_addr - r->base) / PAGE;
    if (r->pstate[pg] == 0) {
      /* a write to code memory outside a write window: log it where it happened and let it proceed */
      ev (r->cx, "W %lu 1", canon (si->si_addr));
      oprintf ("X write to non-writable code page at %p (pc %p)", si->si_addr, (void *) uc->uc_mcontext.gregs[REG_RIP]);
      r->pstate[pg] = 2;
      __real_mprotect (r->base + pg * PAGE, PAGE, PROT_READ | PROT_WRITE | PROT_EXEC);
      return;
    }
  }
  if (is_write)
    for (int i = 0; i < nregions; i++)
      if (regions[i].live && (uint8_t *) si->si_addr >= regions[i].base + regions[i].len
          && (uint8_t *) si->si_addr < regions[i].base + regions[i].len + PAGE) {
        /* a write running past the end of a code region (into its guard page): a code write to unmapped memory */
        ev (regions[i].cx, "W %lu 1", (1ul << 60) | (unsigned long) (uintptr_t) si->si_addr);
        oprintf ("X write past the end of a code region at %p (pc %p)", si->si_addr, (void *) uc->uc_mcontext.gregs[REG_RIP]);
      }
  oprintf ("X CRASH signal %d addr %p pc %p", sig, si->si_addr, (void *) uc->uc_mcontext.gregs[REG_RIP]);
  oflush ();
  _exit (70);
}

/* ------------------------------------------------------------------ direct-call interposition */
static void direct (const char *what, void *ret, const void *obj) {
  Dl_info di;
  unsigned long off = (unsigned long) (uintptr_t) ret;
  if (dladdr (ret, &di) && di.dli_fbase != NULL) off -= (unsigned long) (uintptr_t) di.dli_fbase;
  ev (cur_cx, "D");
  oprintf ("X direct %s %p caller+0x%lx", what, obj, off);
}
#define RET __builtin_return_address (0)

void *__wrap_malloc (size_t n) {
  void *p = __real_malloc (n);
  if (armed) {
    direct ("malloc", RET, p);
    foreign_add (p);
  }
  return p;
}
void *__wrap_calloc (size_t k, size_t n) {
  void *p = __real_calloc (k, n);
  if (armed) {
    direct ("calloc", RET, p);
    foreign_add (p);
  }
  return p;
}
void *__wrap_realloc (void *o, size_t n) {
  struct hdr *h = blocks_find (o);
  void *p;
  int i;
  if (armed) direct (h != NULL ? "realloc-of-user-allocator-block" : "realloc", RET, o);
  if (h != NULL) { /* keep going: move the contents to libc memory */
    p = __real_malloc (n);
    memcpy (p, h + 1, h->size < n ? h->size : n);
    if (!h->freed) retire (h);
    h->freed = 2;
    foreign_add (p);
    return p;
  }
  if ((i = foreign_find (o)) >= 0) foreign[i] = NULL;
  p = __real_realloc (o, n);
  if (armed) foreign_add (p);
  return p;
}
void __wrap_free (void *o) {
  struct hdr *h = blocks_find (o);
  int i;
  if (o == NULL) return;
  if (armed) direct (h != NULL ? "free-of-user-allocator-block" : "free", RET, o);
  if (h != NULL) { /* a block of the user allocator given to libc free: do not corrupt libc */
    if (armed) oprintf ("X block %u of context %u (size %lu) was passed to libc free", h->id, h->cx, (unsigned long) h->size);
    if (!h->freed) retire (h);
    h->freed = 2;
    return;
  }
  if ((i = foreign_find (o)) >= 0) foreign[i] = NULL;
  __real_free (o);
}
void *__wrap_mmap (void *a, size_t n, int pr, int fl, int fd, off_t off) {
  void *p = __real_mmap (a, n, pr, fl, fd, off);
  if (armed) direct ("mmap", RET, p);
  return p;
}
int __wrap_munmap (void *a, size_t n) {
  if (armed) direct ("munmap", RET, a);
  return __real_munmap (a, n);
}
int __wrap_mprotect (void *a, size_t n, int pr) {
  if (armed) direct ("mprotect", RET, a);
  return __real_mprotect (a, n, pr);
}
char *__wrap_strdup (const char *s) {
  char *p = __real_strdup (s);
  if (armed) {
    direct ("strdup", RET, p);
    foreign_add (p);
  }
  return p;
}
char *__wrap_strndup (const char *s, size_t n) {
  char *p = __real_strndup (s, n);
  if (armed) {
    direct ("strndup", RET, p);
    foreign_add (p);
  }
  return p;
}
int __wrap_posix_memalign (void **r, size_t al, size_t n) {
  int rc = __real_posix_memalign (r, al, n);
  if (armed) {
    direct ("posix_memalign", RET, *r);
    foreign_add (*r);
  }
  return rc;
}
void *__wrap_aligned_alloc (size_t al, size_t n) {
  void *p = __real_aligned_alloc (al, n);
  if (armed) {
    direct ("aligned_alloc", RET, p);
    foreign_add (p);
  }
  return p;
}

/* ------------------------------------------------------------------ driver */
static void api_out (struct api *a, const char *line) {
  (void) a;
  oputs (line);
}

/* ---- code-holder correspondence (checks/c17.py, coq/C17/CodeHolder.v): ops on the real code holders
   pub L | new S | puba L | pubax L | chg K OFF LEN | upd K off... ; K = index of an earlier successful publish */
#define MAXBLOB 4096
static uint8_t *blobs[MAXBLOB];
static int nblobs, ch_calls;
static uint8_t *last_new;
static uint8_t chbuf[1 << 16];

static int ch_exec (struct cx *c, const char *cmd) {
  MIR_context_t ctx = c->api.ctx;
  char op[16];
  unsigned long a1 = 0, a2 = 0, a3 = 0;
  int n = sscanf (cmd, "%15s %lu %lu %lu", op, &a1, &a2, &a3);
  uint8_t *res = NULL;
  if (n < 1 || ctx == NULL) return -1;
  memset (chbuf, ++ch_calls % 250 + 1, sizeof (chbuf)); /* content differs from what any earlier call wrote */
  if (strcmp (op, "pub") == 0) {
    if (a1 > sizeof (chbuf) || nblobs == MAXBLOB) return -1;
    res = _MIR_publish_code (ctx, chbuf, a1);
    blobs[nblobs++] = res;
  } else if (strcmp (op, "new") == 0) {
    res = last_new = _MIR_get_new_code_addr (ctx, a1);
  } else if (strcmp (op, "puba") == 0 || strcmp (op, "pubax") == 0) {
    if (a1 > sizeof (chbuf) || nblobs == MAXBLOB) return -1;
    res = _MIR_publish_code_by_addr (ctx, last_new + (op[4] == 'x' ? 16 : 0), chbuf, a1);
    if (res != NULL) blobs[nblobs++] = res;
  } else if (strcmp (op, "chg") == 0) {
    if (n < 4 || (int) a1 >= nblobs || a3 > sizeof (chbuf)) return -1;
    _MIR_change_code (ctx, blobs[a1] + a2, chbuf, a3);
  } else if (strcmp (op, "upd") == 0) {
    MIR_code_reloc_t relocs[32];
    size_t nloc = 0;
    const char *p = cmd + 3;
    unsigned long k, off;
    int used;
    void *val = (void *) (uintptr_t) (0x0101010101010101ull * (unsigned) (ch_calls % 250 + 1));
    if (sscanf (p, "%lu%n", &k, &used) != 1 || (int) k >= nblobs) return -1;
    p += used;
    while (nloc < 32 && sscanf (p, "%lu%n", &off, &used) == 1) {
      relocs[nloc].offset = off;
      relocs[nloc].value = val;
      nloc++;
      p += used;
    }
    _MIR_update_code_arr (ctx, blobs[k], nloc, relocs);
  } else
    return -1;
  oprintf ("R ch %lu", res == NULL ? 0ul : canon (res));
  return 0;
}

static void on_limit (int sig) {
  (void) sig;
  oputs ("X HANG time limit reached inside the step announced last");
  oflush ();
  _exit (124);
}

int main (void) {
  static char line[1 << 20];
  static char altstack[1 << 16];
  stack_t ss = {.ss_sp = altstack, .ss_size = sizeof (altstack), .ss_flags = 0};
  struct sigaction sa;
  FILE *nullf = fopen ("/dev/null", "w");
  int step = 0, rc = 0;

  /* pre-warm stdio so that libc's own lazy allocations are not mistaken for anything */
  fprintf (nullf, "%d %s %g\n", 1, "x", 1.5);
  fflush (nullf);
  sigaltstack (&ss, NULL);
  memset (&sa, 0, sizeof (sa));
  sa.sa_sigaction = on_fault;
  sa.sa_flags = SA_SIGINFO | SA_ONSTACK | SA_NODEFER;
  sigaction (SIGSEGV, &sa, NULL);
  sigaction (SIGBUS, &sa, NULL);
  sigaction (SIGABRT, &sa, NULL);
  sigaction (SIGILL, &sa, NULL);
  sigaction (SIGFPE, &sa, NULL);
  if (getenv ("C17_LIMIT") != NULL && atoi (getenv ("C17_LIMIT")) > 0) {
    /* own time limit: a library call that does not return ends the run with the whole trace written so far */
    signal (SIGALRM, on_limit);
    alarm ((unsigned) atoi (getenv ("C17_LIMIT")));
  }
  for (int i = 0; i < MAXCX; i++) {
    struct cx *c = &cxs[i];
    c->alloc = (struct MIR_alloc){ck_malloc, ck_calloc, ck_realloc, ck_free, c};
    c->code_alloc = (struct MIR_code_alloc){ck_map, ck_unmap, ck_protect, c};
    c->api.id = i;
    c->api.alloc = &c->alloc;
    c->api.code_alloc = &c->code_alloc;
    c->api.out = api_out;
    c->api.null_file = nullf;
  }
  while (fgets (line, sizeof (line), stdin) != NULL) {
    size_t n = strlen (line);
    char head[48];
    int c;
    while (n > 0 && (line[n - 1] == '\n' || line[n - 1] == '\r')) line[--n] = 0;
    if (n == 0 || line[0] == '#') continue;
    if (strcmp (line, "end") == 0) break;
    c = line[0] - '0';
    if (c < 0 || c >= MAXCX || line[1] != ' ') {
      oprintf ("X BADLINE %.40s", line);
      rc = 64;
      break;
    }
    snprintf (head, sizeof (head), "%.40s", line + 2);
    oprintf ("S %d %d %s", step++, c, head);
    oflush (); /* the step is on record before the library is entered (a killed child keeps it) */
    cur_cx = c;
    armed = 1;
    if (strncmp (line + 2, "take ", 5) == 0) { /* copy the bytes another context wrote */
      struct api *src = &cxs[(line[7] - '0') & 3].api, *dst = &cxs[c].api;
      dst->wbuf = __real_realloc (dst->wbuf, src->wlen + 1);
      memcpy (dst->wbuf, src->wbuf, src->wlen);
      dst->wlen = dst->wcap = src->wlen;
      continue;
    }
    if (strncmp (line + 2, "ch_", 3) == 0) { /* code-holder layer driven directly (private _MIR_* API) */
      if (ch_exec (&cxs[c], line + 5) != 0) {
        rc = 64;
        break;
      }
      continue;
    }
    if (api_exec (&cxs[c].api, line + 2) != 0) {
      rc = 65; /* not an error-free history */
      break;
    }
    if (quarantine_bytes < (64ul << 20)) check_quarantine ();
    if (strncmp (line + 2, "finish", 6) == 0) {
      check_quarantine ();
      /* windows still open at finish: log their writes, then the Finish event */
      for (int i = 0; i < nregions; i++)
        if (regions[i].live && regions[i].cx == c)
          for (size_t pg = 0; pg < regions[i].len / PAGE; pg++) diff_page (&regions[i], pg);
      ev (c, "FIN");
    }
  }
  armed = 0;
  check_quarantine ();
  for (int i = 0; i < MAXCX; i++) api_cleanup_files (&cxs[i].api);
  for (int i = 0; i < MAXCX; i++)
    if (cxs[i].n_events)
      oprintf ("X STATS ctx %d events %lu alloc %lu free %lu realloc %lu map %lu protect %lu codebytes %lu", i,
               cxs[i].n_events, cxs[i].n_alloc, cxs[i].n_free, cxs[i].n_realloc, cxs[i].n_map, cxs[i].n_protect,
               cxs[i].n_codewrite_bytes);
  oprintf ("X DONE rc %d quarantine %lu", rc, (unsigned long) quarantine_bytes);
  oflush ();
  _exit (rc); /* no atexit processing: the trace is complete */
}

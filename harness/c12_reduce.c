/* C12 harness: runs reduce_encode / reduce_decode / mir_hash_strict of the CURRENT tree's
   mir-reduce.h (found through -I$VERIF_REPO) on the cases read from stdin, one per line, and prints
   one result line per case, in the same format as ocaml/driver_c12.ml:
     enc <hex>               -> E <hex>
     encf <fill> <hex>       -> E <hex>           (encoder whose fresh struct reduce_data is filled with <fill>:
                                                   the bytes of buf behind buf_bound are an input of the experiment)
     dec <fx> <fill> <hex>   -> A <hex> | R          (fx is ignored: the real code is what it is)
     hash <seedhex> <hex>    -> H <decimal>
   "-" stands for the empty byte string.  Every struct reduce_data is allocated by an allocator that
   fills the fresh block with the byte <fill> (the decoder never initialises ind2pos/buf, so their
   initial contents are an input of the experiment).  Built with -fsanitize=address,undefined and
   -DNDEBUG by checks/c12.py; a sanitizer report aborts the process, the driver script then knows
   the case that was running from the number of result lines printed so far. */
#include <stdio.h>
#include <stdlib.h>
#include <string.h>
#include <stdint.h>
#include "mir-reduce.h"

static int fill_byte = 0;
/* One block is kept and handed out again (ASan's malloc/free of a 1.3 MB block costs far more than
   a decode of a short stream); it is an exact-size malloc block, so its redzones stay in place. */
static void *kept = NULL;
static size_t kept_size = 0;
static int kept_busy = 0;
static void *h_malloc (size_t n, void *u) {
  void *p;
  if (kept != NULL && !kept_busy && kept_size == n) {
    p = kept;
  } else if (kept == NULL) {
    p = kept = malloc (n);
    kept_size = n;
  } else {
    p = malloc (n);
  }
  if (p == kept) kept_busy = 1;
  if (p != NULL) memset (p, fill_byte, n);
  return p;
}
static void *h_calloc (size_t n, size_t s, void *u) { return calloc (n, s); }
static void *h_realloc (void *p, size_t o, size_t n, void *u) { return realloc (p, n); }
static void h_free (void *p, void *u) {
  if (p == kept)
    kept_busy = 0;
  else
    free (p);
}
static struct MIR_alloc h_alloc = {h_malloc, h_calloc, h_realloc, h_free, NULL};

struct io {
  const uint8_t *in;
  size_t in_len, in_pos;
  uint8_t *out;
  size_t out_len, out_cap;
};

static size_t io_reader (void *start, size_t len, void *aux) {
  struct io *io = aux;
  size_t n = io->in_len - io->in_pos;
  if (n > len) n = len;
  memcpy (start, io->in + io->in_pos, n);
  io->in_pos += n;
  return n;
}

static size_t io_writer (const void *start, size_t len, void *aux) {
  struct io *io = aux;
  if (io->out_len + len > io->out_cap) {
    io->out_cap = (io->out_len + len) * 2 + 64;
    io->out = realloc (io->out, io->out_cap);
  }
  memcpy (io->out + io->out_len, start, len);
  io->out_len += len;
  return len;
}

static int hexval (int c) {
  if (c >= '0' && c <= '9') return c - '0';
  if (c >= 'a' && c <= 'f') return c - 'a' + 10;
  if (c >= 'A' && c <= 'F') return c - 'A' + 10;
  return -1;
}

/* parses a hex token; returns malloc'ed exact-size bytes (so ASan sees reads past the input) */
static uint8_t *parse_hex (const char *s, size_t *len) {
  size_t n = 0;
  const char *e = s;
  uint8_t *b;
  while (*e != 0 && *e != ' ' && *e != '\n') e++;
  if (e - s == 1 && s[0] == '-') {
    *len = 0;
    return malloc (1);
  }
  n = (e - s) / 2;
  b = malloc (n ? n : 1);
  for (size_t i = 0; i < n; i++) b[i] = hexval (s[2 * i]) * 16 + hexval (s[2 * i + 1]);
  *len = n;
  return b;
}

static void print_hex (const char *tag, const uint8_t *b, size_t n) {
  static const char d[] = "0123456789abcdef";
  char *s = malloc (2 * n + 2);
  for (size_t i = 0; i < n; i++) {
    s[2 * i] = d[b[i] >> 4];
    s[2 * i + 1] = d[b[i] & 15];
  }
  s[2 * n] = 0;
  printf ("%s %s\n", tag, n == 0 ? "-" : s);
  free (s);
}

int main (void) {
  char *line = NULL;
  size_t cap = 0;
  ssize_t r;
  while ((r = getline (&line, &cap, stdin)) > 0) {
    struct io io;
    memset (&io, 0, sizeof (io));
    if (strncmp (line, "enc ", 4) == 0 || strncmp (line, "encf ", 5) == 0) {
      int off = 4;
      fill_byte = 0;
      if (line[3] == 'f') {
        int o2 = 0;
        if (sscanf (line + 5, "%d %n", &fill_byte, &o2) < 1) {
          printf ("?\n");
          continue;
        }
        off = 5 + o2;
      }
      io.in = parse_hex (line + off, &io.in_len);
      int ok = reduce_encode (&h_alloc, io_reader, io_writer, &io);
      if (ok)
        print_hex ("E", io.out, io.out_len);
      else
        printf ("EFAIL\n");
      free ((void *) io.in);
      free (io.out);
    } else if (strncmp (line, "dec ", 4) == 0) {
      int fx, fill, off = 0;
      if (sscanf (line + 4, "%d %d %n", &fx, &fill, &off) < 2) {
        printf ("?\n");
        continue;
      }
      fill_byte = fill;
      io.in = parse_hex (line + 4 + off, &io.in_len);
      int ok = reduce_decode (&h_alloc, io_reader, io_writer, &io);
      if (ok)
        print_hex ("A", io.out, io.out_len);
      else
        printf ("R\n");
      free ((void *) io.in);
      free (io.out);
    } else if (strncmp (line, "hash ", 5) == 0) {
      unsigned long long seed;
      int off = 0;
      sscanf (line + 5, "%llx %n", &seed, &off);
      io.in = parse_hex (line + 5 + off, &io.in_len);
      printf ("H %llu\n", (unsigned long long) mir_hash_strict (io.in, io.in_len, seed));
      free ((void *) io.in);
    } else if (line[0] == '\n') {
      continue;
    } else {
      printf ("?\n");
    }
    fflush (stdout);
  }
  return 0;
}

/* C03 round 3 (wave z): tie of coq/C03/CodePatch.v to mir.c _MIR_change_code / _MIR_update_code_arr.
   A code allocator that records every write-enable request (mem_protect (…, PROT_WRITE_EXEC)) is given to
   MIR_init2; a blob of three pages and a bit is published, then ONE patch is made by the real function:
     C <off> <n>           _MIR_change_code (ctx, blob + off, pattern, n)
     U <b> <off> <off>...  _MIR_update_code_arr (ctx, blob + b, nloc, relocs)    (offsets relative to blob + b)
   answer: page=<hex> addr=<hex> n=<hex> start=<hex> len=<hex> nreq=<k> start2=<hex> len2=<hex> nreq2=<k> order=<0|1> ok=<0|1>
           (start, len = the recorded write+exec request; start2, len2 = the read+exec request that closes it; ok = the patched bytes read back and their neighbours are untouched)
   One request per line, each in a forked child: a fault in the memcpy (page not writable) is reported as CRASH. */
#define _GNU_SOURCE
#include <stdio.h>
#include <stdlib.h>
#include <string.h>
#include <stdint.h>
#include <inttypes.h>
#include <unistd.h>
#include <sys/mman.h>
#include <sys/wait.h>
#include "mir.h"

static struct { uintptr_t start; size_t len; } req[64], req2[64]; /* write+exec requests, read+exec requests */
static int nreq, nreq2, order_bad; /* order_bad: a read+exec request that does not follow its write+exec one */
static void *rec_map (size_t len, void *ud) {
  void *p = mmap (NULL, len, PROT_READ | PROT_EXEC, MAP_PRIVATE | MAP_ANONYMOUS, -1, 0);
  return p == (void *) -1 ? NULL : p;
}
static int rec_unmap (void *p, size_t len, void *ud) { return munmap (p, len); }
static int rec_protect (void *p, size_t len, MIR_mem_protect_t prot, void *ud) {
  if (prot == PROT_WRITE_EXEC && nreq < 64) {
    req[nreq].start = (uintptr_t) p;
    req[nreq].len = len;
    nreq++;
  } else if (prot != PROT_WRITE_EXEC && nreq2 < 64) {
    if (nreq2 >= nreq) order_bad = 1;
    req2[nreq2].start = (uintptr_t) p;
    req2[nreq2].len = len;
    nreq2++;
  }
  return mprotect (p, len, prot == PROT_WRITE_EXEC ? PROT_WRITE | PROT_EXEC : PROT_READ | PROT_EXEC);
}
static struct MIR_code_alloc rec_alloc = {rec_map, rec_unmap, rec_protect, NULL};

#define BLOB (3 * 4096 + 512)
static void do_line (char *line) {
  char *w[40];
  int nw = 0;
  for (char *t = strtok (line, " \t"); t != NULL && nw < 40; t = strtok (NULL, " \t")) w[nw++] = t;
  if (nw < 3) {
    printf ("BAD\n");
    return;
  }
  long page = sysconf (_SC_PAGESIZE);
  MIR_context_t ctx = MIR_init2 (NULL, &rec_alloc);
  static uint8_t blob[BLOB], copy[BLOB];
  for (int i = 0; i < BLOB; i++) blob[i] = (uint8_t) (0x90 ^ (i * 7));
  uint8_t *base = _MIR_publish_code (ctx, blob, BLOB);
  if (base == NULL) {
    printf ("NOCODE\n");
    return;
  }
  memcpy (copy, base, BLOB);
  nreq = nreq2 = order_bad = 0;
  int ok = 1;
  if (w[0][0] == 'C') {
    long off = strtol (w[1], NULL, 10), n = strtol (w[2], NULL, 10);
    static uint8_t pat[BLOB];
    if (off < 0 || n < 0 || n > BLOB || off + n > BLOB) {
      printf ("BAD\n");
      return;
    }
    for (int i = 0; i < n; i++) pat[i] = (uint8_t) (0xC0 + i);
    printf ("page=%lx addr=%" PRIxPTR " n=%lx", page, (uintptr_t) (base + off), n);
    fflush (stdout);
    _MIR_change_code (ctx, base + off, pat, (size_t) n);
    memcpy (copy + off, pat, n);
  } else {
    long b = strtol (w[1], NULL, 10);
    MIR_code_reloc_t relocs[40];
    int nloc = nw - 2;
    printf ("page=%lx addr=%" PRIxPTR " n=%x", page, (uintptr_t) (base + b), nloc);
    for (int i = 0; i < nloc; i++) {
      long off = strtol (w[2 + i], NULL, 10);
      if (b < 0 || off < 0 || b + off + 8 > BLOB) {
        printf (" BAD\n");
        return;
      }
      relocs[i].offset = (size_t) off;
      relocs[i].value = (void *) (uintptr_t) (0x1122334455660000ull + (uint64_t) i);
      memcpy (copy + b + off, &relocs[i].value, 8);
    }
    fflush (stdout);
    _MIR_update_code_arr (ctx, base + b, (size_t) nloc, relocs);
  }
  ok = memcmp (copy, base, BLOB) == 0;
  printf (" start=%" PRIxPTR " len=%zx nreq=%d start2=%" PRIxPTR " len2=%zx nreq2=%d order=%d ok=%d\n",
          nreq > 0 ? req[0].start : 0, nreq > 0 ? req[0].len : 0, nreq, nreq2 > 0 ? req2[0].start : 0,
          nreq2 > 0 ? req2[0].len : 0, nreq2, !order_bad, ok);
}

int main (void) {
  char *line = NULL;
  size_t cap = 0;
  ssize_t n;
  setvbuf (stdout, NULL, _IOLBF, 0);
  while ((n = getline (&line, &cap, stdin)) > 0) {
    if (line[n - 1] == '\n') line[n - 1] = 0;
    if (line[0] == 0) {
      printf ("\n");
      continue;
    }
    fflush (stdout);
    pid_t pid = fork ();
    if (pid == 0) {
      do_line (line);
      fflush (stdout);
      _exit (0);
    }
    int st;
    waitpid (pid, &st, 0);
    if (WIFSIGNALED (st)) printf (" CRASH:sig%d\n", WTERMSIG (st));
    fflush (stdout);
  }
  return 0;
}

/* C05/C06 correspondence harness.  Reads one case per line:
     <id> <mode> <engine> <target> <mirhex> <valshex> <iohex>
   mode c05: the MIR module (text, hex-encoded) exports `caller`, which loads argument values from
             the imported buffer `vals`, calls the imported `probe` through its prototype and stores
             the results into the imported buffer `outs`.  `probe` is bound to <target>: the
             assembly probe c05_probe ("probe") or a gcc-compiled function from the generated table.
             <iohex> presets c05_ret (values the probe returns).  Output:
               <id> ok vals=<addr> img=<hex c05_img> outs=<hex> seen=<hex>
   mode c06: the module exports `f`; it is entered through its public address (interp shim,
             generated code, or lazy thunk) by the assembly trampoline c06_tramp with the register /
             stack image <iohex> (c06_in), or by a gcc-compiled caller from the generated table.
             Output: <id> ok vals=<addr> out=<hex c06_out> outs=<hex>
   mode gcc: no MIR: a gcc-compiled caller from the generated table calls the assembly probe (validates
             the SysV model against the platform compiler).  Output like c05.
   mode c2m: (harness variant built with -DC05_C2M and the c2mir unit) <mirhex> is C SOURCE text, compiled by
             c2mir into the context.  target probe / callee<k>: the c2m-compiled `caller` reads its argument
             values from c05_vals and calls `probe` (assembly probe or gcc-compiled callee) through its C
             prototype; output as mode c05.  target gcaller<k>: the gcc-compiled caller calls the c2m-compiled
             function `callee` through its public address; output as mode c06.
   engine: interp | gen0..gen3 | lazy.   Each case runs in a forked child; a crash or a MIR error is
   reported as "<id> crash sig=<n>" / "<id> error <text>".  */
#define _GNU_SOURCE
#include <stdio.h>
#include <stdlib.h>
#include <string.h>
#include <stdint.h>
#include <stdarg.h>
#include <unistd.h>
#include <signal.h>
#include <sys/wait.h>
#include <sys/mman.h>
#include "mir.h"
#include "mir-gen.h"
#ifdef C05_C2M
#include "c2mir/c2mir.h"
struct c05_src {
  const char *s;
  size_t pos;
};
static int c05_src_getc (void *d) {
  struct c05_src *sd = d;
  int c = (unsigned char) sd->s[sd->pos];
  if (c == 0) return EOF;
  sd->pos++;
  return c;
}
#endif

#define NSTK 1024
#define VALS_SIZE 16384
#define OUTS_SIZE 16384

extern unsigned char c05_img[256 + NSTK], c05_ret[80], c06_in[256 + NSTK], c06_out[192];
extern void c05_probe (void);
extern void c06_tramp (void *fn);

/* fixed addresses so that pointer-valued arguments (rblk) are predictable by the case generator */
unsigned char *c05_vals, *c05_outs, *c05_seen;
#define VALS_ADDR 0x20000000ul
#define OUTS_ADDR 0x20010000ul
#define SEEN_ADDR 0x20020000ul
static unsigned char *fixed_map (unsigned long addr) {
  void *p = mmap ((void *) addr, 0x4000, PROT_READ | PROT_WRITE, MAP_PRIVATE | MAP_ANONYMOUS | MAP_FIXED_NOREPLACE, -1, 0);
  if (p != (void *) addr) {
    fprintf (stderr, "cannot map fixed buffer at %lx\n", addr);
    exit (4);
  }
  return p;
}

struct c05_gen_entry {
  const char *name;
  void *addr;
};
extern struct c05_gen_entry c05_gen_table[] __attribute__ ((weak));

static void *gen_lookup (const char *name) {
  if (c05_gen_table == NULL) return NULL;
  for (int i = 0; c05_gen_table[i].name != NULL; i++)
    if (strcmp (c05_gen_table[i].name, name) == 0) return c05_gen_table[i].addr;
  return NULL;
}

/* a helper native function MIR callee bodies may call (keeps values live across a call) */
int64_t c06_helper (int64_t a, int64_t b) { return a * 3 + b; }
/* a native function that calls back into MIR code (function `inner` of the module, through its public
   address): the outer MIR->native call is still in progress while the nested MIR code makes its own calls */
static void *c05_inner_addr;
int64_t c05_reenter (int64_t x) { return ((int64_t (*) (int64_t)) c05_inner_addr) (x) + 1000; }
/* memory alignment / validity observations made inside MIR callee bodies go to outs */

static unsigned char first_out[192], first_outs[2048], first_pimg[256];
static int have_first = 0;
static char *line = NULL;
static size_t line_cap = 0;
static const char *cur_id = "?";

static int hexval (int c) {
  if (c >= '0' && c <= '9') return c - '0';
  if (c >= 'a' && c <= 'f') return c - 'a' + 10;
  if (c >= 'A' && c <= 'F') return c - 'A' + 10;
  return -1;
}
static size_t unhex (const char *s, unsigned char *dst, size_t cap) {
  size_t n = 0;
  if (s[0] == '-' && s[1] == 0) return 0;
  while (s[0] && s[1] && n < cap) {
    dst[n++] = (unsigned char) (hexval (s[0]) * 16 + hexval (s[1]));
    s += 2;
  }
  return n;
}
static void puthex (FILE *f, const unsigned char *p, size_t n) {
  static const char d[] = "0123456789abcdef";
  for (size_t i = 0; i < n; i++) {
    fputc (d[p[i] >> 4], f);
    fputc (d[p[i] & 15], f);
  }
}

static void MIR_NO_RETURN err_func (MIR_error_type_t t, const char *fmt, ...) {
  va_list ap;
  char buf[400];
  va_start (ap, fmt);
  vsnprintf (buf, sizeof (buf), fmt, ap);
  va_end (ap);
  for (char *p = buf; *p; p++)
    if (*p == '\n' || *p == ' ') *p = '_';
  printf ("%s error %d:%s\n", cur_id, (int) t, buf);
  fflush (stdout);
  _exit (3);
}

static MIR_item_t find_func (MIR_context_t ctx, const char *name) {
  MIR_item_t res = NULL;
  for (MIR_module_t m = DLIST_HEAD (MIR_module_t, *MIR_get_module_list (ctx)); m != NULL;
       m = DLIST_NEXT (MIR_module_t, m))
    for (MIR_item_t it = DLIST_HEAD (MIR_item_t, m->items); it != NULL; it = DLIST_NEXT (MIR_item_t, it))
      if (it->item_type == MIR_func_item && strcmp (it->u.func->name, name) == 0) res = it;
  return res;
}

static void run_case (char *id, char *mode, char *engine, char *target, char *mirhex, char *valshex,
                      char *iohex) {
  volatile char pad[4096]; /* make sure NSTK bytes above any callee's rsp are mapped stack */
  pad[0] = pad[4095] = 0;
  cur_id = id;
  memset (c05_vals, 0, VALS_SIZE);
  memset (c05_outs, 0xa5, OUTS_SIZE);
  memset (c05_seen, 0xa5, OUTS_SIZE);
  memset (c05_img, 0, sizeof (c05_img));
  memset (c06_out, 0, sizeof (c06_out));
  unhex (valshex, c05_vals, VALS_SIZE);
  if (strcmp (mode, "gcc") == 0) {
    void (*g) (void *) = gen_lookup (target);
    if (g == NULL) {
      printf ("%s error no-such-generated-function:%s\n", id, target);
      return;
    }
    unhex (iohex, c05_ret, sizeof (c05_ret));
    g ((void *) c05_probe);
    printf ("%s ok vals=%llx img=", id, (unsigned long long) (uintptr_t) c05_vals);
    puthex (stdout, c05_img, sizeof (c05_img));
    printf (" outs=");
    puthex (stdout, c05_outs, 256);
    printf (" seen=");
    puthex (stdout, c05_seen, 2304);
    printf ("\n");
    return;
  }
  size_t n = strlen (mirhex) / 2;
  char *text = malloc (n + 1);
  unhex (mirhex, (unsigned char *) text, n);
  text[n] = 0;
  MIR_context_t ctx = MIR_init ();
  MIR_set_error_func (ctx, err_func);
  int c2m = strcmp (mode, "c2m") == 0;
  if (c2m) {
#ifdef C05_C2M
    struct c2mir_options ops;
    struct c05_src sd = {text, 0};
    char *msg = NULL;
    size_t msg_len = 0;
    memset (&ops, 0, sizeof (ops));
    ops.message_file = open_memstream (&msg, &msg_len);
    ops.ignore_warnings_p = 1;
    c2mir_init (ctx);
    int ok = c2mir_compile (ctx, &ops, c05_src_getc, &sd, "case.c", NULL);
    c2mir_finish (ctx);
    fflush (ops.message_file);
    if (!ok) {
      for (char *q = msg; q != NULL && *q; q++)
        if (*q == '\n' || *q == ' ') *q = '_';
      printf ("%s error c2mir-rejects:%.300s\n", id, msg != NULL ? msg : "");
      return;
    }
#else
    printf ("%s error harness-built-without-c2mir\n", id);
    return;
#endif
  } else {
    MIR_scan_string (ctx, text);
  }
  for (MIR_module_t m = DLIST_HEAD (MIR_module_t, *MIR_get_module_list (ctx)); m != NULL;
       m = DLIST_NEXT (MIR_module_t, m))
    MIR_load_module (ctx, m);
  void *tgt = strcmp (target, "probe") == 0 ? (void *) c05_probe : gen_lookup (target);
  int c06 = strcmp (mode, "c06") == 0 || (c2m && strncmp (target, "gcaller", 7) == 0);
  if (tgt == NULL && !c06) {
    printf ("%s error no-such-target:%s\n", id, target);
    return;
  }
  MIR_load_external (ctx, "probe", tgt != NULL && !c06 ? tgt : (void *) c05_probe);
  MIR_load_external (ctx, "c05_vals", &c05_vals);
  MIR_load_external (ctx, "c05_seen", &c05_seen);
  MIR_load_external (ctx, "c05_outs", &c05_outs);
  MIR_load_external (ctx, "c05_ret", c05_ret);
  MIR_load_external (ctx, "memcpy", memcpy);
  MIR_load_external (ctx, "vals", c05_vals);
  MIR_load_external (ctx, "outs", c05_outs);
  MIR_load_external (ctx, "helper", c06_helper);
  MIR_load_external (ctx, "memset", memset);
  MIR_load_external (ctx, "reenter", c05_reenter);
  int gen_p = strncmp (engine, "gen", 3) == 0, lazy_p = strncmp (engine, "lazy", 4) == 0;
  int lazybb_p = strcmp (engine, "lazybb") == 0;
  char *dump = NULL;
  size_t dump_len = 0;
  FILE *dump_f = NULL;
  if (gen_p || lazy_p) {
    MIR_gen_init (ctx);
    MIR_gen_set_optimize_level (ctx, gen_p ? (unsigned) (engine[3] - '0') : 2);
    if ((gen_p || (lazy_p && !lazybb_p)) && getenv ("C06_DUMP") != NULL && (dump_f = open_memstream (&dump, &dump_len)) != NULL) {
      MIR_gen_set_debug_file (ctx, dump_f);
      MIR_gen_set_debug_level (ctx, 2);
    }
  }
  MIR_item_t f = find_func (ctx, c06 ? (c2m ? "callee" : "f") : "caller");
  if (f == NULL) {
    printf ("%s error no-entry-function\n", id);
    return;
  }
  void *addr = NULL;
  if (gen_p) {
    MIR_link (ctx, MIR_set_gen_interface, NULL);
    addr = MIR_gen (ctx, f);
  } else if (lazy_p) {
    MIR_link (ctx, lazybb_p ? MIR_set_lazy_bb_gen_interface : MIR_set_lazy_gen_interface, NULL);
    addr = f->addr;
  } else {
    MIR_link (ctx, MIR_set_interp_interface, NULL);
    addr = f->addr;
  }
  {
    MIR_item_t inner = find_func (ctx, "inner");
    if (inner != NULL) c05_inner_addr = gen_p ? MIR_gen (ctx, inner) : inner->addr;
  }
  if (!c06) {
    /* a session: caller, caller1, caller2 ... run one after the other in the same context */
    unhex (iohex, c05_ret, sizeof (c05_ret));
    printf ("%s ok vals=%llx", id, (unsigned long long) (uintptr_t) c05_vals);
    for (int k = 0; k < 8; k++) {
      char nm[32];
      if (k == 0)
        strcpy (nm, "caller");
      else
        sprintf (nm, "caller%d", k);
      MIR_item_t fk = find_func (ctx, nm);
      if (fk == NULL) break;
      memset (c05_img, 0, sizeof (c05_img));
      if (gen_p) {
        ((void (*) (void)) MIR_gen (ctx, fk)) ();
      } else if (lazy_p) {
        ((void (*) (void)) fk->addr) ();
      } else {
        MIR_val_t v;
        MIR_interp (ctx, fk, &v, 0);
      }
      if (k == 0)
        printf (" img=");
      else
        printf (" img%d=", k);
      puthex (stdout, c05_img, sizeof (c05_img));
    }
    printf (" outs=");
    puthex (stdout, c05_outs, 2048);
    printf (" seen=");
    puthex (stdout, c05_seen, 2304);
    printf ("\n");
  } else {
    int reps = 1;
    if (strncmp (target, "gcaller", 7) == 0) {
      void (*g) (void *) = gen_lookup (target);
      if (g == NULL) {
        printf ("%s error no-such-generated-function:%s\n", id, target);
        return;
      }
      if (c2m) unhex (iohex, c05_ret, sizeof (c05_ret));
      g (addr);
    } else {
      if (strncmp (target, "tramp", 5) == 0 && target[5] != 0) reps = atoi (target + 5);
      for (int r = 0; r < reps; r++) { /* lazy: the first call generates, the second runs directly */
        if (r > 0) { /* keep what the earlier call produced */
          memcpy (first_out, c06_out, sizeof (c06_out));
          memcpy (first_outs, c05_outs, 2048);
          memcpy (first_pimg, c05_img, 256);
          have_first = 1;
          memset (c05_outs, 0xa5, OUTS_SIZE);
          memset (c06_out, 0, sizeof (c06_out));
        }
        memset (c06_in, 0, sizeof (c06_in));
        memset (c05_img, 0, sizeof (c05_img));
        unhex (iohex, c06_in, sizeof (c06_in));
        /* optional tail: what the assembly probe returns when the MIR function itself calls it */
        if (strlen (iohex) > 2 * sizeof (c06_in)) unhex (iohex + 2 * sizeof (c06_in), c05_ret, sizeof (c05_ret));
        c06_tramp (addr);
      }
    }
    printf ("%s ok vals=%llx", id, (unsigned long long) (uintptr_t) c05_vals);
    if (have_first) {
      printf (" out0=");
      puthex (stdout, first_out, sizeof (c06_out));
      printf (" outs0=");
      puthex (stdout, first_outs, 2048);
      printf (" pimg0=");
      puthex (stdout, first_pimg, 256);
    }
    printf (" out=");
    puthex (stdout, c06_out, sizeof (c06_out));
    printf (" outs=");
    puthex (stdout, c05_outs, 2048);
    printf (" pimg=");
    puthex (stdout, c05_img, 256);
    if (getenv ("C06_PSTK") != NULL) { /* the stack arguments the probe saw in a call made by the MIR function */
      printf (" pstk=");
      puthex (stdout, c05_img + 256, NSTK);
    }
    printf (" seen=");
    puthex (stdout, c05_seen, 2304);
    if (dump_f != NULL) { /* the generator's own listing of the function after prologue/epilogue insertion */
      fflush (dump_f);
      const char *key = "MIR after forming prolog/epilog";
      char *q = dump, *last = NULL;
      /* the listing of `f` itself: the last one before "Code generation for f:" (other functions of the
         module are generated too) */
      char *fend = dump != NULL ? strstr (dump, "Code generation for f:") : NULL;
      while (q != NULL && (q = strstr (q, key)) != NULL && (fend == NULL || q < fend)) last = q, q++;
      if (last != NULL) {
        char *end = strstr (last, "\n+++");
        size_t n = end != NULL ? (size_t) (end - last) : strlen (last);
        printf (" dump=");
        puthex (stdout, (unsigned char *) last, n);
      }
    }
    printf ("\n");
  }
  fflush (stdout);
  /* no MIR_finish: the child exits */
}

int main (int argc, char **argv) {
  int nofork = argc > 1 && strcmp (argv[1], "--nofork") == 0;
  setvbuf (stdout, NULL, _IOFBF, 1 << 16);
  c05_vals = fixed_map (VALS_ADDR);
  c05_outs = fixed_map (OUTS_ADDR);
  c05_seen = fixed_map (SEEN_ADDR);
  while (getline (&line, &line_cap, stdin) > 0) {
    char *f[7];
    int nf = 0;
    for (char *p = strtok (line, " \n"); p != NULL && nf < 7; p = strtok (NULL, " \n")) f[nf++] = p;
    if (nf == 0) continue;
    if (nf != 7) {
      printf ("%s error bad-line\n", f[0]);
      continue;
    }
    fflush (stdout);
    if (nofork) {
      run_case (f[0], f[1], f[2], f[3], f[4], f[5], f[6]);
      fflush (stdout);
      continue;
    }
    pid_t pid = fork ();
    if (pid == 0) {
      alarm (120);
      run_case (f[0], f[1], f[2], f[3], f[4], f[5], f[6]);
      fflush (stdout);
      _exit (0);
    }
    int st = 0;
    waitpid (pid, &st, 0);
    if (WIFSIGNALED (st)) {
      printf ("%s crash sig=%d\n", f[0], WTERMSIG (st));
    } else if (WIFEXITED (st) && WEXITSTATUS (st) != 0 && WEXITSTATUS (st) != 3) {
      printf ("%s error exit=%d\n", f[0], WEXITSTATUS (st));
    }
    fflush (stdout);
  }
  return 0;
}

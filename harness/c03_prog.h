/* Shared by harness/c03_ifaces.c and harness/c16_regen.c: load a generated multi-module MIR program
   (tools/gen_c03_progs.py), the C externals it imports, the fixed entry signatures, observation of
   results / external-call log / memory. */
#ifndef C03_PROG_H
#define C03_PROG_H
#define _GNU_SOURCE
#include <sys/resource.h>
#include <stdio.h>
#include <stdlib.h>
#include <string.h>
#include <stdint.h>
#include <stdarg.h>
#include <inttypes.h>
#include <unistd.h>
#include <signal.h>
#include <sys/wait.h>
#include "mir.h"
#include "mir-gen.h"

#define MAXFN 64
#define MAXMOD 8

static MIR_context_t ctx;
static uint64_t log_hash = 1469598103934665603ull;
static long log_n;

static void log_val (int64_t v) {
  if (getenv ("C03_LOGV")) fprintf (stderr, "log %lld\n", (long long) v);
  for (int i = 0; i < 8; i++) {
    log_hash ^= (uint8_t) (v >> (8 * i));
    log_hash *= 1099511628211ull;
  }
  log_n++;
}

/* ---- externals imported by the generated programs ---- */
static int64_t ext_log (int64_t v) {
  log_val (v);
  return v * 3 + 1;
}
static int64_t ext_cb (int64_t (*fn) (int64_t), int64_t x) { /* C code re-entering MIR */
  log_val (1000003);
  int64_t r = fn (x & 0xffff);
  log_val (r);
  return r + 1;
}
static double ext_cbd (double (*fn) (double), double x) {
  log_val (1000005);
  double r = fn (x);
  int64_t bits;
  memcpy (&bits, &r, 8);
  log_val (bits);
  return r + 0.5;
}
static double ext_d2 (double a, double b) {
  int64_t bits;
  memcpy (&bits, &a, 8);
  log_val (bits);
  return a * 2 + b;
}
static int64_t ext_va (int64_t n, ...) {
  va_list ap;
  int64_t s = n;
  va_start (ap, n);
  for (int64_t i = 0; i < n; i++) s = s * 5 + va_arg (ap, int64_t);
  va_end (ap);
  log_val (s);
  return s;
}

/* (wave 6) native callees taking ONE structure / scalar by value: called by the prototype twins of tools/gen_c03_twins.py
   through prototypes that differ only in the size / class / type of that argument.  Every argument byte is folded
   (8-byte words, then the remaining bytes), as the MIR callees of the generator do. */
static int64_t twin_fold (const void *p, int n) {
  uint64_t r = 17, w;
  const unsigned char *c = p;
  int off = 0;
  for (; off + 8 <= n; off += 8) {
    memcpy (&w, c + off, 8);
    r = r * 31 + w;
  }
  for (; off < n; off++) r = r * 31 + c[off];
  log_val ((int64_t) r);
  return (int64_t) r;
}
#define TWIN_S(name, fields) \
  typedef struct { fields } name##_t; \
  static int64_t name (name##_t s) { return twin_fold (&s, sizeof (s)); }
TWIN_S (ext_s1, char c[1];) TWIN_S (ext_s4, char c[4];) TWIN_S (ext_s8, char c[8];) TWIN_S (ext_s12, char c[12];)
TWIN_S (ext_s16, char c[16];) TWIN_S (ext_sf4, float a;) TWIN_S (ext_sd8, double a;) TWIN_S (ext_sd16, double a; double b;)
TWIN_S (ext_sid, long a; double b;) TWIN_S (ext_sdi, double a; long b;)
TWIN_S (ext_m17, char c[17];) TWIN_S (ext_m24, char c[24];) TWIN_S (ext_m40, char c[40];)
static int64_t twin_scal (int64_t v) {
  uint64_t r = 17 * 31 + (uint64_t) v;
  log_val ((int64_t) r);
  return (int64_t) r;
}
static int64_t ext_i64 (int64_t v) { return twin_scal (v); }
static int64_t ext_i32 (int32_t v) { return twin_scal (v); }
static int64_t ext_u8 (uint8_t v) { return twin_scal (v); }
static int64_t ext_i16 (int16_t v) { return twin_scal (v); }
static int64_t ext_f1 (float v) { return twin_scal ((int64_t) (v * 4.0f)); }
static int64_t ext_d1 (double v) { return twin_scal ((int64_t) (v * 4.0)); }

/* which function is this?  index of the function whose public address (item->addr recorded at load
   time) fn is, -1 if it is nobody's public address: a function has ONE address, whoever asks and whenever */
static void *p_addr0_fwd (int i);
static int p_nfuncs_fwd (void);
static int64_t ext_id (void *fn) {
  int64_t r = -1;
  for (int i = 0; i < p_nfuncs_fwd (); i++)
    if (p_addr0_fwd (i) == fn) r = i;
  log_val (2000003 + r);
  return r;
}

static void load_externals (void) {
  MIR_load_external (ctx, "ext_id", ext_id);
  MIR_load_external (ctx, "ext_log", ext_log);
  MIR_load_external (ctx, "ext_cb", ext_cb);
  MIR_load_external (ctx, "ext_cbd", ext_cbd);
  MIR_load_external (ctx, "ext_d2", ext_d2);
  MIR_load_external (ctx, "ext_va", ext_va);
  MIR_load_external (ctx, "ext_s1", ext_s1);
  MIR_load_external (ctx, "ext_s4", ext_s4);
  MIR_load_external (ctx, "ext_s8", ext_s8);
  MIR_load_external (ctx, "ext_s12", ext_s12);
  MIR_load_external (ctx, "ext_s16", ext_s16);
  MIR_load_external (ctx, "ext_sf4", ext_sf4);
  MIR_load_external (ctx, "ext_sd8", ext_sd8);
  MIR_load_external (ctx, "ext_sd16", ext_sd16);
  MIR_load_external (ctx, "ext_sid", ext_sid);
  MIR_load_external (ctx, "ext_sdi", ext_sdi);
  MIR_load_external (ctx, "ext_m17", ext_m17);
  MIR_load_external (ctx, "ext_m24", ext_m24);
  MIR_load_external (ctx, "ext_m40", ext_m40);
  MIR_load_external (ctx, "ext_i64", ext_i64);
  MIR_load_external (ctx, "ext_i32", ext_i32);
  MIR_load_external (ctx, "ext_u8", ext_u8);
  MIR_load_external (ctx, "ext_i16", ext_i16);
  MIR_load_external (ctx, "ext_f1", ext_f1);
  MIR_load_external (ctx, "ext_d1", ext_d1);
  /* (wave 7) the same C function imported through prototypes with NARROW result types: the function returns the full
     64-bit hash in rax, the bits above the prototype's result type are garbage the caller has to drop (the ABI leaves
     them undefined) */
  MIR_load_external (ctx, "ext_ri8", ext_i64);
  MIR_load_external (ctx, "ext_ru8", ext_i64);
  MIR_load_external (ctx, "ext_ri16", ext_i64);
  MIR_load_external (ctx, "ext_ru16", ext_i64);
  MIR_load_external (ctx, "ext_ri32", ext_i64);
  MIR_load_external (ctx, "ext_ru32", ext_i64);
  MIR_load_external (ctx, "ext_ru64", ext_i64);
}

static void MIR_NO_RETURN prog_err_func (MIR_error_type_t t, const char *fmt, ...) {
  va_list ap;
  char buf[200];
  va_start (ap, fmt);
  vsnprintf (buf, sizeof (buf), fmt, ap);
  va_end (ap);
  for (char *c = buf; *c; c++)
    if (*c == ' ') *c = '_';
  printf (" ERROR:%s\n", buf);
  fflush (stdout);
  _exit (0);
}

/* ---- where did it die?  The generator's level-0 debug stream brackets every whole-function
   generation ("Code generation of function F:" ... "Code generation for F: ..."); a death between
   the two is the generator's own (C01's subject), anything else happened while running code. ---- */
static char gen_trace[256], gen_pass[64] = "start";
static volatile int gen_depth;
static ssize_t gen_trace_write (void *c, const char *buf, size_t n) {
  static const char b[] = "Code generation of function ", e[] = "  Code generation for ",
                    h[] = "+++++++++++++";
  if (n >= sizeof (b) - 1 && memcmp (buf, b, sizeof (b) - 1) == 0) {
    size_t k = n - (sizeof (b) - 1);
    if (k > sizeof (gen_trace) - 1) k = sizeof (gen_trace) - 1;
    memcpy (gen_trace, buf + sizeof (b) - 1, k);
    gen_trace[k] = 0;
    for (char *q = gen_trace; *q; q++)
      if (*q == ':' || *q == '\n') *q = 0;
    strcpy (gen_pass, "start");
    gen_depth = 1;
  } else if (n >= sizeof (e) - 1 && memcmp (buf, e, sizeof (e) - 1) == 0) {
    gen_depth = 0;
  } else if (n > sizeof (h) - 1 && memcmp (buf, h, sizeof (h) - 1) == 0) { /* a pass header */
    size_t k = 0;
    for (size_t i = sizeof (h) - 1; i < n && k < sizeof (gen_pass) - 1; i++) {
      char ch = buf[i];
      if (ch == ':' || ch == '\n') break;
      gen_pass[k++] = (ch >= 'a' && ch <= 'z') || (ch >= 'A' && ch <= 'Z') || (ch >= '0' && ch <= '9') ? ch : '-';
    }
    gen_pass[k] = 0;
  }
  return (ssize_t) n;
}
#include <execinfo.h>
/* name of the innermost function of the library on the stack (we are dying anyway: popen is fine) */
static void death_site (char *site, size_t max) {
  void *bt[40];
  int n = backtrace (bt, 40);
  char **syms = backtrace_symbols (bt, n);
  char exe[512], cmd[4096];
  ssize_t el = readlink ("/proc/self/exe", exe, sizeof (exe) - 1);
  snprintf (site, max, "unknown");
  if (syms == NULL || el <= 0) return;
  exe[el] = 0;
  int len = snprintf (cmd, sizeof (cmd), "addr2line -f -s -e %s", exe);
  int cnt = 0;
  for (int i = 0; i < n && len < (int) sizeof (cmd) - 40; i++) {
    char *p = strstr (syms[i], "(+0x");
    if (p == NULL || strncmp (syms[i], exe, el) != 0) continue;
    char *q = strchr (p, ')');
    if (q == NULL) continue;
    /* return addresses point after the call: step back one byte except for the faulting frame */
    unsigned long off = strtoul (p + 2, NULL, 16);
    len += snprintf (cmd + len, sizeof (cmd) - len, " 0x%lx", off > 0 ? off - 1 : off);
    cnt++;
  }
  if (cnt == 0) return;
  snprintf (cmd + len, sizeof (cmd) - len, " 2>/dev/null");
  FILE *f = popen (cmd, "r");
  if (f == NULL) return;
  char fn[256], loc[256];
  while (fgets (fn, sizeof (fn), f) != NULL && fgets (loc, sizeof (loc), f) != NULL) {
    fn[strcspn (fn, "\n")] = 0;
    if (strcmp (fn, "death_site") == 0 || strcmp (fn, "die_report") == 0 || strcmp (fn, "on_signal") == 0
        || strcmp (fn, "on_exit_hook") == 0 || strcmp (fn, "??") == 0)
      continue;
    /* the innermost frame we can name is the harness itself (c03_*.c/.h, c16_*.c): the library is not on
       the stack, control was in generated code (lazy-BB generation prints no closing line, so gen_depth
       alone cannot tell) */
    if (strncmp (loc, "c03_", 4) == 0 || strncmp (loc, "c16_", 4) == 0) break;
    snprintf (site, max, "%s", fn);
    break;
  }
  pclose (f);
}
static void die_report (const char *how, int n) {
  char msg[600], site[128];
  int len;
  if (gen_depth) death_site (site, sizeof (site));
  if (gen_depth && strcmp (site, "unknown") != 0)
    len = snprintf (msg, sizeof (msg), " CRASH:gen:%s:%s%d:%s\n", gen_trace, how, n, site);
  else
    len = snprintf (msg, sizeof (msg), " CRASH:run:%s%d\n", how, n);
  fflush (stdout);
  if (write (1, msg, len) < 0) {}
}
static volatile sig_atomic_t dying;
static void on_signal (int sig) {
  /* the report walks the stack (backtrace), which may never end after a wild jump: a second signal -- the watchdog
     alarm below included (SA_NODEFER) -- ends the process at once */
  if (dying) {
    if (write (1, " CRASH:run:sig0\n", 16) < 0) {}
    _exit (100);
  }
  dying = 1;
  alarm (3);
  die_report ("sig", sig);
  _exit (100);
}
static int normal_end;
static void on_exit_hook (void) { /* the library called exit () */
  if (!normal_end) die_report ("exit", 1);
}
static void install_death_reports (void) {
  int sigs[] = {SIGSEGV, SIGBUS, SIGILL, SIGFPE, SIGABRT, SIGALRM};
  static char altstack[1 << 16];
  stack_t ss = {.ss_sp = altstack, .ss_size = sizeof (altstack), .ss_flags = 0};
  sigaltstack (&ss, NULL);
  for (size_t i = 0; i < sizeof (sigs) / sizeof (sigs[0]); i++) {
    struct sigaction sa;
    memset (&sa, 0, sizeof (sa));
    sa.sa_handler = on_signal;
    sa.sa_flags = SA_ONSTACK | SA_NODEFER;
    sigaction (sigs[i], &sa, NULL);
  }
  atexit (on_exit_hook);
}
static void trace_generator (void) { /* after MIR_gen_init */
  cookie_io_functions_t io = {NULL, gen_trace_write, NULL, NULL};
  FILE *f = fopencookie (NULL, "w", io);
  setvbuf (f, NULL, _IOLBF, 0);
  if (getenv ("C03_GENDEBUG") == NULL) {
    MIR_gen_set_debug_file (ctx, f);
    MIR_gen_set_debug_level (ctx, 0);
  }
}

/* ---- program ---- */
static MIR_module_t p_mods[MAXMOD];
static int p_nmods;
static MIR_item_t p_funcs[MAXFN];
static void *p_addr0[MAXFN]; /* item->addr right after MIR_load_module */
static int p_nfuncs;

static void *p_addr0_fwd (int i) { return p_addr0[i]; }
static int p_nfuncs_fwd (void) { return p_nfuncs; }

static char *read_file (const char *path) {
  FILE *f = fopen (path, "rb");
  if (f == NULL) return NULL;
  fseek (f, 0, SEEK_END);
  long n = ftell (f);
  fseek (f, 0, SEEK_SET);
  char *s = malloc (n + 1);
  if (fread (s, 1, n, f) != (size_t) n) n = 0;
  s[n] = 0;
  fclose (f);
  return s;
}

static int prog_scan (const char *path) {
  char *text = read_file (path);
  if (text == NULL) return 0;
  MIR_scan_string (ctx, text);
  free (text);
  p_nmods = p_nfuncs = 0;
  for (MIR_module_t m = DLIST_HEAD (MIR_module_t, *MIR_get_module_list (ctx)); m != NULL;
       m = DLIST_NEXT (MIR_module_t, m)) {
    if (p_nmods < MAXMOD) p_mods[p_nmods++] = m;
    for (MIR_item_t it = DLIST_HEAD (MIR_item_t, m->items); it != NULL;
         it = DLIST_NEXT (MIR_item_t, it))
      if (it->item_type == MIR_func_item && p_nfuncs < MAXFN) p_funcs[p_nfuncs++] = it;
  }
  return 1;
}

static void prog_load_module (int k) {
  MIR_load_module (ctx, p_mods[k]);
  for (int i = 0; i < p_nfuncs; i++)
    if (p_funcs[i]->module == p_mods[k]) p_addr0[i] = p_funcs[i]->addr;
}

static int find_func (const char *name) {
  for (int i = 0; i < p_nfuncs; i++)
    if (strcmp (p_funcs[i]->u.func->name, name) == 0) return i;
  return -1;
}

typedef void (*iface_t) (MIR_context_t, MIR_item_t);
static iface_t iface_of (const char *s) {
  if (strcmp (s, "interp") == 0 || strcmp (s, "mirinterp") == 0) return MIR_set_interp_interface;
  if (strcmp (s, "gen") == 0) return MIR_set_gen_interface;
  if (strcmp (s, "lazy") == 0) return MIR_set_lazy_gen_interface;
  if (strcmp (s, "bb") == 0) return MIR_set_lazy_bb_gen_interface;
  return NULL;
}

/* hash of all bss items named mem<k> (the program's observable memory) */
static uint64_t mem_hash (void) {
  uint64_t h = 1469598103934665603ull;
  for (int k = 0; k < p_nmods; k++)
    for (MIR_item_t it = DLIST_HEAD (MIR_item_t, p_mods[k]->items); it != NULL;
         it = DLIST_NEXT (MIR_item_t, it))
      if (it->item_type == MIR_bss_item && it->u.bss->name != NULL
          && strncmp (it->u.bss->name, "mem", 3) == 0 && it->addr != NULL)
        for (uint64_t i = 0; i < it->u.bss->len; i++) {
          h ^= ((uint8_t *) it->addr)[i];
          h *= 1099511628211ull;
        }
  return h;
}

/* (wave 7) entries with TWO results, signature "r2:<t1>:<t2>" (i64:a0, i64:a1): what C sees as a structure of two
   eightbytes returned in rax/rdx/xmm0/xmm1 according to the classes in order.  Printed: integers narrowed to their
   type, doubles and floats as their bits. */
#define R2S(n, A, B) \
  typedef struct { \
    A a; \
    B b; \
  } n
R2S (r2_ii, int64_t, int64_t); R2S (r2_id, int64_t, double); R2S (r2_if, int64_t, float); R2S (r2_di, double, int64_t);
R2S (r2_dd, double, double); R2S (r2_df, double, float); R2S (r2_fi, float, int64_t); R2S (r2_fd, float, double);
static char r2_class (const char *t) { return strcmp (t, "d") == 0 ? 'd' : strcmp (t, "f") == 0 ? 'f' : 'i'; }
static void r2_set (MIR_val_t *v, char c, const void *p) {
  if (c == 'i') memcpy (&v->i, p, 8);
  else if (c == 'd') memcpy (&v->d, p, 8);
  else memcpy (&v->f, p, 4);
}
static void r2_print (const char *t, MIR_val_t v) {
  int64_t x = v.i;
  if (strcmp (t, "d") == 0) memcpy (&x, &v.d, 8);
  else if (strcmp (t, "f") == 0) { uint32_t b; memcpy (&b, &v.f, 4); x = b; }
  else if (strcmp (t, "i32") == 0) x = (int32_t) x;
  else if (strcmp (t, "u32") == 0) x = (uint32_t) x;
  else if (strcmp (t, "i16") == 0) x = (int16_t) x;
  else if (strcmp (t, "u16") == 0) x = (uint16_t) x;
  else if (strcmp (t, "i8") == 0) x = (int8_t) x;
  else if (strcmp (t, "u8") == 0) x = (uint8_t) x;
  printf (" %" PRId64, x);
}
static int call_entry_r2 (int i, const char *sig, int64_t a0, int64_t a1, int via_interp) {
  char buf[64], *t1, *t2, *save;
  MIR_val_t v[2], res[2];
  snprintf (buf, sizeof (buf), "%s", sig + 3);
  t1 = strtok_r (buf, ":", &save);
  t2 = strtok_r (NULL, ":", &save);
  if (t1 == NULL || t2 == NULL) return 0;
  char c1 = r2_class (t1), c2 = r2_class (t2);
  memset (res, 0, sizeof (res));
  if (via_interp) {
    v[0].i = a0; v[1].i = a1;
    MIR_interp_arr (ctx, p_funcs[i], res, 2, v);
  } else {
    void *fp = p_addr0[i];
#define R2C(n, x, y) \
  if (c1 == x && c2 == y) { \
    n s = ((n (*) (int64_t, int64_t)) fp) (a0, a1); \
    r2_set (&res[0], x, &s.a); \
    r2_set (&res[1], y, &s.b); \
  } else
    R2C (r2_ii, 'i', 'i') R2C (r2_id, 'i', 'd') R2C (r2_if, 'i', 'f') R2C (r2_di, 'd', 'i') R2C (r2_dd, 'd', 'd')
    R2C (r2_df, 'd', 'f') R2C (r2_fi, 'f', 'i') R2C (r2_fd, 'f', 'd') return 0;
  }
  r2_print (t1, res[0]);
  r2_print (t2, res[1]);
  return 1;
}

/* Call entry function i with signature sig and the given textual args.
   via_interp: use MIR_interp_arr instead of the function's public address.
   The public address used is the one recorded at load time (it must stay valid). */
static void call_entry (int i, const char *sig, char **av, int ac, int via_interp) {
  int64_t a[16] = {0};
  double d[16] = {0};
  for (int k = 0; k < ac && k < 16; k++) {
    a[k] = strtoll (av[k], NULL, 10);
    d[k] = (double) a[k];
  }
  void *fp = p_addr0[i];
  MIR_val_t v[16], res[2];
  memset (v, 0, sizeof (v));
  memset (res, 0, sizeof (res));
  if (strcmp (sig, "ii") == 0) {
    if (via_interp) {
      v[0].i = a[0]; v[1].i = a[1];
      MIR_interp_arr (ctx, p_funcs[i], res, 2, v);
    } else
      res[0].i = ((int64_t (*) (int64_t, int64_t)) fp) (a[0], a[1]);
    printf (" %" PRId64, res[0].i);
  } else if (strcmp (sig, "i8") == 0) {
    if (via_interp) {
      for (int k = 0; k < 8; k++) v[k].i = a[k];
      MIR_interp_arr (ctx, p_funcs[i], res, 8, v);
    } else
      res[0].i = ((int64_t (*) (int64_t, int64_t, int64_t, int64_t, int64_t, int64_t, int64_t, int64_t)) fp) (
        a[0], a[1], a[2], a[3], a[4], a[5], a[6], a[7]);
    printf (" %" PRId64, res[0].i);
  } else if (strcmp (sig, "d9i") == 0) {
    if (via_interp) {
      for (int k = 0; k < 9; k++) v[k].d = d[k];
      v[9].i = a[9];
      MIR_interp_arr (ctx, p_funcs[i], res, 10, v);
    } else
      res[0].d = ((double (*) (double, double, double, double, double, double, double, double, double,
                               int64_t)) fp) (d[0], d[1], d[2], d[3], d[4], d[5], d[6], d[7], d[8], a[9]);
    printf (" %a", res[0].d);
  } else if (strcmp (sig, "mix") == 0) {
    if (via_interp) {
      v[0].i = a[0]; v[1].d = d[1]; v[2].i = (int32_t) a[2]; v[3].f = (float) d[3];
      v[4].i = (uint8_t) a[4]; v[5].d = d[5]; v[6].i = (int16_t) a[6]; v[7].i = a[7];
      MIR_interp_arr (ctx, p_funcs[i], res, 8, v);
    } else
      res[0].i = ((int64_t (*) (int64_t, double, int32_t, float, uint8_t, double, int16_t, void *)) fp) (
        a[0], d[1], (int32_t) a[2], (float) d[3], (uint8_t) a[4], d[5], (int16_t) a[6], (void *) a[7]);
    printf (" %" PRId64, res[0].i);
  } else if (strcmp (sig, "va") == 0) {
    /* MIR_interp_arr cannot pass variadic arguments: variadic entries always go through the address */
    res[0].i = ((int64_t (*) (int64_t, ...)) fp) (a[0], a[1], a[2], a[3], a[4], a[5], a[6], a[7]);
    printf (" %" PRId64, res[0].i);
  } else if (strcmp (sig, "cbi") == 0) {
    if (via_interp) {
      v[0].i = a[0];
      MIR_interp_arr (ctx, p_funcs[i], res, 1, v);
    } else
      res[0].i = ((int64_t (*) (int64_t)) fp) (a[0]);
    printf (" %" PRId64, res[0].i);
  } else if (strcmp (sig, "cbd") == 0) {
    if (via_interp) {
      v[0].d = d[0];
      MIR_interp_arr (ctx, p_funcs[i], res, 1, v);
    } else
      res[0].d = ((double (*) (double)) fp) (d[0]);
    printf (" %a", res[0].d);
  } else if (strncmp (sig, "r2:", 3) == 0 && ac >= 2 && call_entry_r2 (i, sig, a[0], a[1], via_interp)) {
  } else
    printf (" BADSIG");
}

static int split_words (char *s, char **w, int max) {
  int n = 0;
  char *save;
  for (char *t = strtok_r (s, " \t", &save); t != NULL && n < max; t = strtok_r (NULL, " \t", &save))
    w[n++] = t;
  return n;
}

/* run f(line) in a forked child so that a crash is confined to one request */
static void per_line_fork (void (*f) (char *)) {
  char *line = NULL;
  size_t cap = 0;
  ssize_t n;
  setvbuf (stdout, NULL, _IOLBF, 0);
  while ((n = getline (&line, &cap, stdin)) > 0) {
    if (line[n - 1] == '\n') line[n - 1] = 0;
    if (line[0] == 0) {
      printf ("\n");
      continue;
    }
    fflush (stdout);
    pid_t pid = fork ();
    if (pid == 0) {
      install_death_reports ();
      alarm (20);
      { /* last resort against a child that survives its own death report: the kernel kills it */
        struct rlimit rl_cpu = {120, 150};
        setrlimit (RLIMIT_CPU, &rl_cpu);
      }
      f (line);
      fflush (stdout);
      normal_end = 1;
      _exit (0);
    }
    int st;
    waitpid (pid, &st, 0);
    if (WIFSIGNALED (st)) printf (" CRASH:run:sig%d\n", WTERMSIG (st)); /* not caught by the child */
    fflush (stdout);
  }
}
#endif

/* C16 harness.
   P <file> <func> <seed> <nedits> [i]        (i: the function is interpreted first)
       tie for coq/C16/GenProtocol.v: calls the real _MIR_duplicate_func_insns, applies a seeded edit
       script to the working copy through the public API (the kinds of edits the generator makes),
       calls _MIR_restore_func_insns, and prints the function in the model's vocabulary before,
       in between and after, plus the script in the model's edit language:
         P init=<F> dup=<F> script=<edits> work=<F> final=<F> readd=<ok|FAIL>
         F = insns/origs/vars/ovn/lrefs/gvars/regtab ; insn = id.L.payload.r,r.D (D = insn->data != NULL) ; lref = lab,lab2,orig,orig2 ;
             regtab = name.number,... (as MIR_reg / MIR_reg_name answer for every var and global var)
   G <file> | <op> ; <op> ...
       end-to-end: load m,m | link iface | opt n | gen f | call f sig args | icall f sig args | snap
       Every answer token is self-describing; `snap` compares every loaded function with the baseline
       taken at its first snap (text, insn identities, vars, original_insns, machine_code).
   All MIR memory comes from an allocator that poisons freed blocks and never reuses them, so a
   dangling pointer left behind by duplicate/restore cannot go unnoticed. */
#include "c03_prog.h"
#include <sys/mman.h>
#include <setjmp.h>

/* ------------------------------------------------------------------ poisoning allocator */
static char *arena, *arena_end;
static void *pz_malloc (size_t n, void *ud) {
  size_t need = ((n + 15) & ~(size_t) 15) + 16;
  if (arena == NULL || arena + need > arena_end) {
    size_t sz = need > ((size_t) 256 << 20) ? need : ((size_t) 256 << 20);
    arena = mmap (NULL, sz, PROT_READ | PROT_WRITE, MAP_PRIVATE | MAP_ANONYMOUS | MAP_NORESERVE, -1, 0);
    if (arena == MAP_FAILED) abort ();
    arena_end = arena + sz;
  }
  *(size_t *) arena = n;
  void *p = arena + 16;
  arena += need;
  return p;
}
static int pz_poison; /* P requests poison freed blocks; G requests only never reuse them (the
                         generator reads the freed label of an lref whose jmpi became unreachable:
                         reported separately, it is not what C16 is about) */
static void pz_free (void *p, void *ud) {
  if (p == NULL || !pz_poison) return;
  memset (p, 0xDD, *(size_t *) ((char *) p - 16));
}
static void *pz_calloc (size_t a, size_t b, void *ud) {
  void *p = pz_malloc (a * b, ud);
  memset (p, 0, a * b);
  return p;
}
static void *pz_realloc (void *p, size_t old, size_t n, void *ud) {
  void *q = pz_malloc (n, ud);
  if (p != NULL) {
    size_t o = *(size_t *) ((char *) p - 16);
    memcpy (q, p, o < n ? o : n);
    pz_free (p, ud);
  }
  return q;
}
static struct MIR_alloc pz_alloc = {pz_malloc, pz_calloc, pz_realloc, pz_free, NULL};

/* ------------------------------------------------------------------ P: the protocol tie */
#define MAXI 32768 /* (large functions of tools/gen_c03_progs.py gen_big_program: thousands of insns, twice during generation) */
static MIR_insn_t id_ptr[MAXI];
static int id_n;
static uint64_t lcg;
static unsigned rnd (unsigned n) {
  lcg = lcg * 6364136223846793005ull + 1442695040888963407ull;
  return n == 0 ? 0 : (unsigned) ((lcg >> 33) % n);
}
static int id_of (MIR_insn_t p) {
  for (int i = 0; i < id_n; i++)
    if (id_ptr[i] == p) return i;
  return -1;
}
static int new_id (MIR_insn_t p) {
  if (id_n >= MAXI) abort ();
  id_ptr[id_n] = p;
  return id_n++;
}
static uint64_t text_hash (const char *s, size_t n) {
  uint64_t h = 1469598103934665603ull;
  for (size_t i = 0; i < n; i++) {
    h ^= (uint8_t) s[i];
    h *= 1099511628211ull;
  }
  return h;
}
/* payload of an insn: hash of its printed form (labels by their number) */
static uint64_t payload (MIR_func_t func, MIR_insn_t insn) {
  char *buf = NULL;
  size_t len = 0;
  FILE *f = open_memstream (&buf, &len);
  if (insn->code == MIR_LABEL)
    fprintf (f, "L%" PRId64, insn->ops[0].u.i);
  else
    MIR_output_insn (ctx, f, insn, func, 0);
  fclose (f);
  uint64_t h = text_hash (buf, len) & 0xffffffffffffull;
  free (buf);
  return h;
}
static void print_insn_list (MIR_func_t func, MIR_insn_t head, int assign) {
  int first = 1;
  if (assign) /* identities in list order, before any (forward) label reference is printed */
    for (MIR_insn_t i = head; i != NULL; i = DLIST_NEXT (MIR_insn_t, i))
      if (id_of (i) < 0) new_id (i);
  for (MIR_insn_t i = head; i != NULL; i = DLIST_NEXT (MIR_insn_t, i)) {
    int id = id_of (i);
    printf ("%s%d.%d.%" PRIx64 ".", first ? "" : ":", id, i->code == MIR_LABEL, payload (func, i));
    first = 0;
    int fr = 1;
    for (size_t k = 0; k < i->nops; k++)
      if (i->ops[k].mode == MIR_OP_LABEL) {
        printf ("%s%d", fr ? "" : ",", id_of (i->ops[k].u.label));
        fr = 0;
      }
    printf (".%d", i->data != NULL);
  }
}
static jmp_buf err_jmp;
static int err_armed;
static uint32_t name_hash (const char *nm) { return (uint32_t) (text_hash (nm, strlen (nm)) & 0xffffffffull); }
/* the register tables as the API shows them: (name, number) of every variable and hard-register-tied
   global of the function that is declared, by number; `!` marks an entry whose number does not lead
   back to the name */
static void print_regtab (MIR_func_t func) {
  static struct { uint32_t h; long reg; int back; } e[16384]; /* (large functions: link-time simplification adds hundreds of temporaries) */
  int n = 0;
  for (int pass = 0; pass < 2; pass++) {
    VARR (MIR_var_t) *vs = pass == 0 ? func->vars : func->global_vars;
    if (vs == NULL) continue;
    for (size_t i = 0; i < VARR_LENGTH (MIR_var_t, vs) && n < 16384; i++) {
      const char *nm = VARR_GET (MIR_var_t, vs, i).name;
      volatile long reg = -1;
      volatile int back = 0;
      err_armed = 1;
      if (setjmp (err_jmp) == 0) {
        reg = (long) MIR_reg (ctx, nm, func);
        const char *nm2 = MIR_reg_name (ctx, (MIR_reg_t) reg, func);
        back = nm2 != NULL && strcmp (nm2, nm) == 0;
      }
      err_armed = 0;
      if (reg < 0) continue; /* not declared (any more) */
      e[n].h = name_hash (nm);
      e[n].reg = reg;
      e[n].back = back;
      n++;
    }
  }
  for (int i = 1; i < n; i++) /* by register number */
    for (int j = i; j > 0 && e[j - 1].reg > e[j].reg; j--) {
      __typeof__ (e[0]) t = e[j];
      e[j] = e[j - 1];
      e[j - 1] = t;
    }
  for (int i = 0; i < n; i++) printf ("%s%x.%ld%s", i ? "," : "", e[i].h, e[i].reg, e[i].back ? "" : "!");
}
static void print_func (MIR_func_t func, int assign) {
  print_insn_list (func, DLIST_HEAD (MIR_insn_t, func->insns), assign);
  printf ("/");
  print_insn_list (func, DLIST_HEAD (MIR_insn_t, func->original_insns), 0);
  printf ("/");
  for (size_t i = 0; i < VARR_LENGTH (MIR_var_t, func->vars); i++)
    printf ("%s%" PRIx64, i ? "," : "",
            text_hash (VARR_GET (MIR_var_t, func->vars, i).name,
                       strlen (VARR_GET (MIR_var_t, func->vars, i).name)) & 0xffffffffull);
  printf ("/%zu/", func->original_vars_num);
  int first = 1;
  for (MIR_lref_data_t l = func->first_lref; l != NULL; l = l->next) {
    printf ("%s%d,%d,%d,%d", first ? "" : ":", id_of (l->label), l->label2 ? id_of (l->label2) : -1,
            l->orig_label ? id_of (l->orig_label) : -1, l->orig_label2 ? id_of (l->orig_label2) : -1);
    first = 0;
  }
  printf ("/");
  if (func->global_vars != NULL)
    for (size_t i = 0; i < VARR_LENGTH (MIR_var_t, func->global_vars); i++)
      printf ("%s%x", i ? "," : "", name_hash (VARR_GET (MIR_var_t, func->global_vars, i).name));
  printf ("/");
  print_regtab (func);
}
static MIR_insn_t nth_insn (MIR_func_t func, int n) {
  MIR_insn_t i = DLIST_HEAD (MIR_insn_t, func->insns);
  while (i != NULL && n-- > 0) i = DLIST_NEXT (MIR_insn_t, i);
  return i;
}
static MIR_insn_t rnd_label (MIR_func_t func) { /* a label of the working list, or NULL */
  int n = 0;
  for (MIR_insn_t i = DLIST_HEAD (MIR_insn_t, func->insns); i != NULL; i = DLIST_NEXT (MIR_insn_t, i))
    n += i->code == MIR_LABEL;
  if (n == 0) return NULL;
  int k = rnd (n);
  for (MIR_insn_t i = DLIST_HEAD (MIR_insn_t, func->insns); i != NULL; i = DLIST_NEXT (MIR_insn_t, i))
    if (i->code == MIR_LABEL && k-- == 0) return i;
  return NULL;
}
static int label_referenced (MIR_func_t func, MIR_insn_t lab) {
  for (MIR_insn_t i = DLIST_HEAD (MIR_insn_t, func->insns); i != NULL; i = DLIST_NEXT (MIR_insn_t, i))
    for (size_t k = 0; k < i->nops; k++)
      if (i->ops[k].mode == MIR_OP_LABEL && i->ops[k].u.label == lab) return 1;
  for (MIR_lref_data_t l = func->first_lref; l != NULL; l = l->next)
    if (l->label == lab || l->label2 == lab) return 1;
  return 0;
}
static void print_refs (MIR_insn_t i) {
  int fr = 1;
  for (size_t k = 0; k < i->nops; k++)
    if (i->ops[k].mode == MIR_OP_LABEL) {
      printf ("%s%d", fr ? "" : ",", id_of (i->ops[k].u.label));
      fr = 0;
    }
}

static void MIR_NO_RETURN p_err_func (MIR_error_type_t t, const char *fmt, ...) {
  if (err_armed) longjmp (err_jmp, 1);
  va_list ap;
  va_start (ap, fmt);
  printf (" ERROR:");
  vprintf (fmt, ap);
  va_end (ap);
  printf ("\n");
  fflush (stdout);
  _exit (0);
}

static void do_P (char *line) {
  char *w[8];
  int nw = split_words (line, w, 8);
  if (nw != 5 && nw != 6) {
    printf ("BAD\n");
    return;
  }
  int interp_first = nw == 6; /* P file func seed nedits i: the function runs in the interpreter first */
  pz_poison = 1;
  ctx = MIR_init2 (&pz_alloc, NULL);
  MIR_set_error_func (ctx, p_err_func);
  load_externals ();
  printf ("P");
  fflush (stdout);
  if (!prog_scan (w[1])) {
    printf (" NOFILE\n");
    return;
  }
  for (int k = 0; k < p_nmods; k++) prog_load_module (k);
  MIR_link (ctx, MIR_set_interp_interface, NULL);
  int fi = find_func (w[2]);
  if (fi < 0) {
    printf (" NOFUNC\n");
    return;
  }
  MIR_item_t item = p_funcs[fi];
  MIR_func_t func = item->u.func;
  lcg = strtoull (w[3], NULL, 10) * 2654435761u + 12345;
  int nedits = atoi (w[4]);
  if (interp_first) { /* prepared for interpretation and run (all arguments zero) */
    MIR_val_t args[64], res[8];
    memset (args, 0, sizeof (args));
    memset (res, 0, sizeof (res));
    if (!func->vararg_p && func->nargs <= 64 && func->nres <= 8)
      MIR_interp_arr (ctx, item, res, func->nargs, args);
  }
  printf (" init=");
  print_func (func, 1);
  size_t nvars0 = VARR_LENGTH (MIR_var_t, func->vars);
  _MIR_duplicate_func_insns (ctx, item);
  printf (" dup=");
  print_func (func, 1);
  printf (" script=");
  int added = 0;
  char added_names[64][24];
  for (int e = 0; e < nedits; e++) {
    int len = (int) DLIST_LENGTH (MIR_insn_t, func->insns);
    unsigned kind = rnd (100);
    if (e) printf (";");
    if (kind < 30) { /* insert a new insn */
      int pos = rnd (len + 1);
      MIR_insn_t ni, lab;
      unsigned what = rnd (3);
      if (what == 0)
        ni = MIR_new_label (ctx);
      else if (what == 1 && (lab = rnd_label (func)) != NULL)
        ni = MIR_new_insn (ctx, MIR_JMP, MIR_new_label_op (ctx, lab));
      else {
        MIR_reg_t r = _MIR_new_temp_reg (ctx, MIR_T_I64, func);
        /* a temp register is itself an edit: report it first */
        const char *nm = MIR_reg_name (ctx, r, func);
        printf ("V%" PRIx64 ";", text_hash (nm, strlen (nm)) & 0xffffffffull);
        if (added < 64) strncpy (added_names[added++], nm, 23);
        ni = MIR_new_insn (ctx, MIR_MOV, MIR_new_reg_op (ctx, r), MIR_new_int_op (ctx, (int64_t) rnd (1000)));
      }
      MIR_insn_t at = nth_insn (func, pos);
      if (at == NULL)
        MIR_append_insn (ctx, item, ni);
      else
        MIR_insert_insn_before (ctx, item, at, ni);
      new_id (ni);
      printf ("I%d.%d.%" PRIx64 ".", pos, ni->code == MIR_LABEL, payload (func, ni));
      print_refs (ni);
    } else if (kind < 50 && len > 0) { /* remove (never a label something still refers to) */
      int pos = rnd (len);
      MIR_insn_t at = nth_insn (func, pos);
      if (at->code == MIR_LABEL && label_referenced (func, at)) {
        printf ("N");
        continue;
      }
      int id = id_of (at);
      MIR_remove_insn (ctx, item, at);
      if (id >= 0) id_ptr[id] = NULL;
      printf ("R%d", pos);
    } else if (kind < 65 && len > 0) { /* rewrite in place */
      int pos = rnd (len);
      MIR_insn_t at = nth_insn (func, pos), lab;
      int done = 0;
      for (size_t k = 0; k < at->nops && !done; k++)
        if (at->ops[k].mode == MIR_OP_LABEL && at->code != MIR_LABEL && (lab = rnd_label (func)) != NULL) {
          at->ops[k].u.label = lab;
          done = 1;
        } else if (at->ops[k].mode == MIR_OP_INT && at->code != MIR_LABEL) {
          at->ops[k].u.i ^= 0x55;
          done = 1;
        }
      if (!done) {
        printf ("N");
        continue;
      }
      printf ("W%d.%" PRIx64 ".", pos, payload (func, at));
      print_refs (at);
    } else if (kind < 75 && len > 1) { /* move */
      int from = rnd (len), to = rnd (len);
      MIR_insn_t at = nth_insn (func, from);
      DLIST_REMOVE (MIR_insn_t, func->insns, at);
      MIR_insn_t dst = nth_insn (func, to);
      if (dst == NULL)
        DLIST_APPEND (MIR_insn_t, func->insns, at);
      else
        DLIST_INSERT_BEFORE (MIR_insn_t, func->insns, dst, at);
      printf ("M%d.%d", from, to);
    } else if (kind < 90) { /* new register */
      char nm[24];
      MIR_reg_t r;
      if (rnd (2)) {
        r = _MIR_new_temp_reg (ctx, rnd (2) ? MIR_T_I64 : MIR_T_D, func);
        strncpy (nm, MIR_reg_name (ctx, r, func), 23);
      } else {
        snprintf (nm, sizeof (nm), "gen_v%d", e);
        MIR_new_func_reg (ctx, func, MIR_T_I64, nm);
      }
      if (added < 64) strncpy (added_names[added++], nm, 23);
      printf ("V%" PRIx64, text_hash (nm, strlen (nm)) & 0xffffffffull);
    } else { /* retarget an lref */
      int nl = 0;
      for (MIR_lref_data_t l = func->first_lref; l != NULL; l = l->next) nl++;
      MIR_insn_t lab = rnd_label (func);
      if (nl == 0 || lab == NULL) {
        printf ("N");
        continue;
      }
      int k = rnd (nl), kk = k;
      MIR_lref_data_t l = func->first_lref;
      while (kk-- > 0) l = l->next;
      l->label = lab;
      /* the second label is re-pointed or CLEARED (remove_unreachable_bbs clears the labels of an lref whose
         label stands in unreachable code): ERetarget k lab None of the model */
      if (l->label2 != NULL) l->label2 = rnd (3) == 0 ? NULL : rnd_label (func);
      printf ("T%d.%d.%d", k, id_of (l->label), l->label2 ? id_of (l->label2) : -1);
    }
  }
  printf (" work=");
  print_func (func, 0);
  _MIR_restore_func_insns (ctx, item);
  printf (" final=");
  print_func (func, 0);
  /* registers the "generator" added must be gone from the tables: declaring them again must work */
  int readd = VARR_LENGTH (MIR_var_t, func->vars) == nvars0;
  for (int k = 0; k < added && readd; k++) {
    /* ... with another type than the generator used, and the number must lead back to the new
       declaration (nothing of the dropped register may be left in the number -> descriptor table) */
    MIR_type_t ty = k % 2 ? MIR_T_D : MIR_T_F;
    err_armed = 1;
    if (setjmp (err_jmp) == 0) {
      MIR_reg_t r = MIR_new_func_reg (ctx, func, ty, added_names[k]);
      const char *nm = MIR_reg_name (ctx, r, func);
      if (nm == NULL || strcmp (nm, added_names[k]) != 0 || MIR_reg_type (ctx, r, func) != ty
          || MIR_reg (ctx, added_names[k], func) != r)
        readd = 0;
    } else
      readd = 0;
    err_armed = 0;
  }
  printf (" readd=%s\n", readd ? "ok" : "FAIL");
}

/* ------------------------------------------------------------------ G: end to end */
struct base {
  int have;
  uint64_t text, idents, ltext;
  size_t nvars;
  void *mc;
} base[MAXFN];
static int p_loaded[MAXFN];

static uint64_t item_text_hash (MIR_item_t it) {
  char *buf = NULL;
  size_t len = 0;
  FILE *f = open_memstream (&buf, &len);
  MIR_output_item (ctx, f, it);
  fclose (f);
  uint64_t h = text_hash (buf, len);
  free (buf);
  return h;
}
/* the lref data items that belong to the function (their labels are labels of the function: MIR_link
   chains them at func->first_lref), as MIR_output_item prints them, plus the displacement field */
static uint64_t lref_text_hash (MIR_item_t func_item, int *null_label) {
  uint64_t h = 1469598103934665603ull;
  for (MIR_item_t it = DLIST_HEAD (MIR_item_t, func_item->module->items); it != NULL;
       it = DLIST_NEXT (MIR_item_t, it)) {
    if (it->item_type != MIR_lref_data_item) continue;
    int mine = 0;
    for (MIR_lref_data_t l = func_item->u.func->first_lref; l != NULL; l = l->next)
      if (l == it->u.lref_data) mine = 1;
    if (!mine) continue;
    if (it->u.lref_data->label == NULL) { /* MIR_output_item would dereference it */
      *null_label = 1;
      continue;
    }
    h ^= item_text_hash (it) + (uint64_t) it->u.lref_data->disp * 31 + (it->u.lref_data->label2 != NULL);
    h *= 1099511628211ull;
  }
  return h;
}
static uint64_t ident_hash (MIR_func_t func) {
  uint64_t h = 1469598103934665603ull;
  for (MIR_insn_t i = DLIST_HEAD (MIR_insn_t, func->insns); i != NULL; i = DLIST_NEXT (MIR_insn_t, i)) {
    h ^= (uint64_t) (uintptr_t) i;
    h *= 1099511628211ull;
  }
  for (MIR_lref_data_t l = func->first_lref; l != NULL; l = l->next) {
    h ^= (uint64_t) (uintptr_t) l->label + 3 * (uint64_t) (uintptr_t) l->label2;
    h *= 1099511628211ull;
  }
  return h;
}
static void snap (void) {
  printf (" snap[");
  for (int i = 0; i < p_nfuncs; i++) {
    if (!p_loaded[i]) continue;
    MIR_func_t func = p_funcs[i]->u.func;
    uint64_t t = item_text_hash (p_funcs[i]), id = ident_hash (func);
    size_t nv = VARR_LENGTH (MIR_var_t, func->vars);
    int lnull = 0;
    uint64_t lt = lref_text_hash (p_funcs[i], &lnull);
    if (!base[i].have) {
      base[i].have = 1;
      base[i].ltext = lt;
      base[i].text = t;
      base[i].idents = id;
      base[i].nvars = nv;
      base[i].mc = func->machine_code;
    }
    int lorig = 0;
    for (MIR_lref_data_t l = func->first_lref; l != NULL; l = l->next)
      lorig |= l->orig_label != NULL || l->orig_label2 != NULL;
    const char *mc = "ok";
    if (base[i].mc != NULL && func->machine_code != base[i].mc) mc = "MC-CHANGED";
    if (func->machine_code != NULL && func->call_addr == NULL) mc = "NO-CALL-ADDR";
    if (base[i].mc == NULL && func->machine_code != NULL) base[i].mc = func->machine_code;
    printf (" %s:%016" PRIx64 ":%s%s%s%s%s%s%s%s:%s", func->name, t, t == base[i].text ? "" : "TEXT-CHANGED,",
            lt == base[i].ltext ? "" : "LREF-TEXT-CHANGED,", lnull ? "LREF-LABEL-NULL," : "",
            id == base[i].idents ? "" : "INSNS-REPLACED,", nv == base[i].nvars ? "" : "VARS-CHANGED,",
            DLIST_HEAD (MIR_insn_t, func->original_insns) == NULL ? "" : "ORIGINAL-INSNS-LEFT,",
            lorig ? "LREF-ORIG-LEFT," : "", p_funcs[i]->addr == p_addr0[i] ? "" : "ADDR-CHANGED,", mc);
  }
  printf (" ]");
}

static void do_G (char *line) {
  char *bar = strchr (line, '|');
  if (bar == NULL) {
    printf ("BAD\n");
    return;
  }
  *bar = 0;
  char *w[4];
  if (split_words (line, w, 4) != 2) {
    printf ("BAD\n");
    return;
  }
  /* C16_POISON=1: never-reuse allocator (deterministic dangling reads; today the generator itself
     trips over it: gen_setup_lrefs reads the deleted label of an lref whose jmpi became unreachable,
     fixed since by fixes/C03-4.patch) */
  ctx = getenv ("C16_POISON") != NULL ? MIR_init2 (&pz_alloc, NULL) : MIR_init ();
  if (getenv ("C16_POISON") != NULL && getenv ("C16_POISON")[0] == '2') pz_poison = 1; /* and fill freed blocks */
  MIR_set_error_func (ctx, prog_err_func);
  MIR_gen_init (ctx);
  trace_generator ();
  load_externals ();
  printf ("G");
  fflush (stdout);
  if (!prog_scan (w[1])) {
    printf (" NOFILE\n");
    return;
  }
  char *save;
  for (char *op = strtok_r (bar + 1, ";", &save); op != NULL; op = strtok_r (NULL, ";", &save)) {
    char *v[24];
    int n = split_words (op, v, 24);
    if (n == 0) continue;
    if (strcmp (v[0], "load") == 0 && n == 2) {
      char *s2;
      for (char *m = strtok_r (v[1], ",", &s2); m != NULL; m = strtok_r (NULL, ",", &s2)) {
        int k = atoi (m);
        if (k < 0 || k >= p_nmods) continue;
        prog_load_module (k);
        for (int i = 0; i < p_nfuncs; i++)
          if (p_funcs[i]->module == p_mods[k]) p_loaded[i] = 1;
      }
    } else if (strcmp (v[0], "link") == 0 && n == 2) {
      MIR_link (ctx, iface_of (v[1]), NULL);
    } else if (strcmp (v[0], "opt") == 0 && n == 2) {
      MIR_gen_set_optimize_level (ctx, atoi (v[1]));
    } else if (strcmp (v[0], "gen") == 0 && n == 2) {
      int i = find_func (v[1]);
      if (i < 0) {
        printf (" NOFUNC");
        continue;
      }
      void *d0 = p_funcs[i]->data; /* the interpreter's code for this function, if it ran there */
      void *a = MIR_gen (ctx, p_funcs[i]);
      printf (" %s", a == p_addr0[i] && a == p_funcs[i]->addr ? "g" : "GEN-RETURNED-OTHER-ADDR");
      if (p_funcs[i]->data != d0) printf (" INTERP-STATE-LOST");
    } else if ((strcmp (v[0], "call") == 0 || strcmp (v[0], "icall") == 0) && n >= 3) {
      int i = find_func (v[1]);
      if (i < 0) {
        printf (" NOFUNC");
        continue;
      }
      fflush (stdout);
      printf (" r=");
      call_entry (i, v[2], v + 3, n - 3, v[0][0] == 'i');
    } else if (strcmp (v[0], "snap") == 0) {
      snap ();
    } else
      printf (" BADOP");
    fflush (stdout);
  }
  printf (" | log=%016" PRIx64 ":%ld mem=%016" PRIx64 "\n", log_hash, log_n, mem_hash ());
}

static void do_line (char *line) {
  if (line[0] == 'P')
    do_P (line);
  else if (line[0] == 'G')
    do_G (line);
  else
    printf ("BAD\n");
}

int main (void) {
  per_line_fork (do_line);
  return 0;
}

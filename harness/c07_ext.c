/* C07 part B: functions that live on the other side of the compiler boundary.  gcc builds this file
   into libc07ext.so, which the c2m run loads (c2m prog.c -L<dir> -lc07ext ...): the generated program
   (compiled by c2m) calls these, and they call back into c2m-compiled code through function pointers.
   For the reference run the same file is simply linked into the gcc-built program. */
struct ext_p { int a; long b; };
struct ext_q { short s; unsigned char c; long long l; double d; };
struct ext_big { long v[5]; };

int ext_add3 (int a, long b, short c) { return (int) ((unsigned) a + (unsigned) b * 3u + (unsigned) c * 7u); }

unsigned long long ext_mix8 (signed char a, unsigned short b, int c, unsigned d, long e, unsigned long f,
                             long long g, unsigned char h) {
  unsigned long long r = 1469598103934665603ULL;
  r = (r ^ (unsigned long long) a) * 1099511628211ULL;
  r = (r ^ (unsigned long long) b) * 1099511628211ULL;
  r = (r ^ (unsigned long long) c) * 1099511628211ULL;
  r = (r ^ (unsigned long long) d) * 1099511628211ULL;
  r = (r ^ (unsigned long long) e) * 1099511628211ULL;
  r = (r ^ (unsigned long long) f) * 1099511628211ULL;
  r = (r ^ (unsigned long long) g) * 1099511628211ULL;
  r = (r ^ (unsigned long long) h) * 1099511628211ULL;
  return r;
}

struct ext_p ext_mkp (int a, long b) {
  struct ext_p p;
  p.a = a ^ 0x5a5a;
  p.b = (long) ((unsigned long) b + 17u);
  return p;
}

long ext_sum_p (struct ext_p p) { return (long) ((unsigned long) p.a * 31u + (unsigned long) p.b); }

struct ext_q ext_mkq (short s, unsigned char c, long long l) {
  struct ext_q q;
  q.s = s;
  q.c = (unsigned char) (c + 1);
  q.l = l ^ 0x1234567;
  q.d = (double) c + 0.5;
  return q;
}

long long ext_sum_q (struct ext_q q) {
  return (long long) ((unsigned long long) q.s + (unsigned long long) q.c * 3u + (unsigned long long) q.l * 5u
                      + (unsigned long long) (q.d * 2.0));
}

struct ext_big ext_mkbig (long a) {
  struct ext_big b;
  for (int i = 0; i < 5; i++) b.v[i] = (long) ((unsigned long) a * (unsigned long) (i + 1));
  return b;
}

long ext_sum_big (struct ext_big b) {
  unsigned long s = 0;
  for (int i = 0; i < 5; i++) s = s * 3u + (unsigned long) b.v[i];
  return (long) s;
}

long ext_apply (long (*cb) (long, int), long x, int y) {
  return (long) ((unsigned long) cb (x, y) + (unsigned long) cb ((long) ((unsigned long) x + 1u), y ^ 1));
}

long ext_apply_p (long (*cb) (struct ext_p), int a, long b) {
  struct ext_p p;
  p.a = a;
  p.b = b;
  return (long) ((unsigned long) cb (p) ^ 0x77u);
}

_Bool ext_isodd (unsigned x) { return x & 1u; }
unsigned char ext_lowbyte (long x) { return (unsigned char) x; }

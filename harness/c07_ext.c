/* C07 part B: functions that live on the other side of the compiler boundary.  gcc builds this file
   into libc07ext.so, which the c2m run loads (c2m prog.c -L<dir> -lc07ext ...): the generated program
   (compiled by c2m) calls these, and they call back into c2m-compiled code through function pointers.
   For the reference run the same file is simply linked into the gcc-built program. */
struct ext_p { int a; long b; };
struct ext_q { short s; unsigned char c; long long l; double d; };
struct ext_big { long v[5]; };

int ext_add3 (int a, long b, short c) { return (int) ((unsigned) a + (unsigned) b * 3u + (unsigned) c * 7u); }

unsigned long long ext_mix8 (signed char a, unsigned short b, int c, unsigned d, long e, unsigned long f,
                             long long g, unsigned char h) {
  unsigned long long r = 1469598103934665603ULL;
  r = (r ^ (unsigned long long) a) * 1099511628211ULL;
  r = (r ^ (unsigned long long) b) * 1099511628211ULL;
  r = (r ^ (unsigned long long) c) * 1099511628211ULL;
  r = (r ^ (unsigned long long) d) * 1099511628211ULL;
  r = (r ^ (unsigned long long) e) * 1099511628211ULL;
  r = (r ^ (unsigned long long) f) * 1099511628211ULL;
  r = (r ^ (unsigned long long) g) * 1099511628211ULL;
  r = (r ^ (unsigned long long) h) * 1099511628211ULL;
  return r;
}

struct ext_p ext_mkp (int a, long b) {
  struct ext_p p;
  p.a = a ^ 0x5a5a;
  p.b = (long) ((unsigned long) b + 17u);
  return p;
}

long ext_sum_p (struct ext_p p) { return (long) ((unsigned long) p.a * 31u + (unsigned long) p.b); }

struct ext_q ext_mkq (short s, unsigned char c, long long l) {
  struct ext_q q;
  q.s = s;
  q.c = (unsigned char) (c + 1);
  q.l = l ^ 0x1234567;
  q.d = (double) c + 0.5;
  return q;
}

long long ext_sum_q (struct ext_q q) {
  return (long long) ((unsigned long long) q.s + (unsigned long long) q.c * 3u + (unsigned long long) q.l * 5u
                      + (unsigned long long) (q.d * 2.0));
}

struct ext_big ext_mkbig (long a) {
  struct ext_big b;
  for (int i = 0; i < 5; i++) b.v[i] = (long) ((unsigned long) a * (unsigned long) (i + 1));
  return b;
}

long ext_sum_big (struct ext_big b) {
  unsigned long s = 0;
  for (int i = 0; i < 5; i++) s = s * 3u + (unsigned long) b.v[i];
  return (long) s;
}

long ext_apply (long (*cb) (long, int), long x, int y) {
  return (long) ((unsigned long) cb (x, y) + (unsigned long) cb ((long) ((unsigned long) x + 1u), y ^ 1));
}

long ext_apply_p (long (*cb) (struct ext_p), int a, long b) {
  struct ext_p p;
  p.a = a;
  p.b = b;
  return (long) ((unsigned long) cb (p) ^ 0x77u);
}

_Bool ext_isodd (unsigned x) { return x & 1u; }
unsigned char ext_lowbyte (long x) { return (unsigned char) x; }

/* round 3: aggregates with floating ARRAY members and nested aggregates (every eightbyte is classified from all the
   scalars lying in it), passed and returned by value across the compiler boundary */
struct ext_d2 { double d[2]; };
struct ext_f3 { float f[3]; };
struct ext_tf { int tag; float f[3]; };
struct ext_nf { struct { float x, y; } p; float z; char c; };
union ext_uf { float f[4]; int i; };

struct ext_d2 ext_mkd2 (int a, int b) {
  struct ext_d2 v;
  v.d[0] = (double) a + 0.5;
  v.d[1] = (double) b - 0.25;
  return v;
}
long ext_sum_d2 (struct ext_d2 v) { return (long) (v.d[0] * 4.0) + (long) (v.d[1] * 8.0) * 3; }

struct ext_f3 ext_mkf3 (short a, short b, short c) {
  struct ext_f3 v;
  v.f[0] = (float) a;
  v.f[1] = (float) b + 0.5f;
  v.f[2] = (float) c * 2.0f;
  return v;
}
long ext_sum_f3 (struct ext_f3 v, int k) { return (long) (v.f[0] * 2.0f) + (long) (v.f[1] * 2.0f) * 5 + (long) v.f[2] * 7 + k; }

struct ext_tf ext_mktf (int tag, short a) {
  struct ext_tf v;
  v.tag = tag ^ 0x33;
  v.f[0] = (float) a;
  v.f[1] = (float) a * 0.5f;
  v.f[2] = 1.25f;
  return v;
}
long ext_sum_tf (long pre, struct ext_tf v) {
  return (long) ((unsigned long) pre * 3u + (unsigned long) v.tag) + (long) (v.f[0] * 2.0f) + (long) (v.f[1] * 4.0f) * 3 + (long) (v.f[2] * 4.0f);
}

struct ext_nf ext_mknf (short a, signed char c) {
  struct ext_nf v;
  v.p.x = (float) a + 0.25f;
  v.p.y = (float) c;
  v.z = (float) a - (float) c;
  v.c = (char) (c & 0x3f);
  return v;
}
long ext_sum_nf (struct ext_nf v) { return (long) (v.p.x * 4.0f) + (long) v.p.y * 3 + (long) v.z * 5 + v.c; }

union ext_uf ext_mkuf (short a) {
  union ext_uf v;
  for (int i = 0; i < 4; i++) v.f[i] = (float) a + (float) i;
  return v;
}
long ext_sum_uf (union ext_uf v) { return (long) v.f[0] + (long) v.f[1] * 2 + (long) v.f[2] * 3 + (long) v.f[3] * 5; }

long ext_apply_f3 (struct ext_f3 (*cb) (struct ext_f3, int), short a) {
  struct ext_f3 v = ext_mkf3 (a, (short) (a / 2), 3), r = cb (v, 9);
  return ext_sum_f3 (r, 1) * 3 + ext_sum_f3 (v, 0);
}

#!/usr/bin/env python3
# tr_c02_addr: regenerate coq/gen/AddrTable.v from the checked tree:
#  * mir.c simplify_op -- the instructions inserted for a memory operand disp(base, index, scale) (MOV of the displacement,
#    MOV of the scale + the instruction scaling the index, the two sums), each with the condition it is inserted under;
#  * mir-gen.c update_addr_p -- the guard in front of var_mult_const in the base step, the displacement update of the
#    index step, the way the scale of the index is multiplied by a further constant.
# Anything not recognised becomes AUnknown / SU_unknown / false: the theorems of coq/C02/AddrLowering.v then fail (never skipped).
import sys, os, re
sys.path.insert(0, os.path.dirname(os.path.abspath(__file__)))
import vlib


def strip_comments(s):
    return re.sub(r'/\*.*?\*/', ' ', s, flags=re.S)


def norm(s):
    return re.sub(r'\s+', ' ', s).strip()


def func_body(src, name):
    m = re.search(r'\n(?:static\s+)?[\w \*]+\b%s\s*\([^;{]*\)\s*\{' % re.escape(name), src)
    if m is None:
        return None
    i = m.end() - 1
    j = match_brace(src, i)
    return src[i + 1:j] if j is not None else None


def match_brace(s, i):
    d = 0
    for k in range(i, len(s)):
        if s[k] == '{':
            d += 1
        elif s[k] == '}':
            d -= 1
            if d == 0:
                return k
    return None


def split_args(s):
    out, d, cur = [], 0, ''
    for ch in s:
        if ch in '([':
            d += 1
        elif ch in ')]':
            d -= 1
        if ch == ',' and d == 0:
            out.append(cur.strip())
            cur = ''
        else:
            cur += ch
    out.append(cur.strip())
    return out


def call_at(s, i):
    """s[i] is the '(' of a call: -> (argument text, index after ')')"""
    d = 0
    for k in range(i, len(s)):
        if s[k] == '(':
            d += 1
        elif s[k] == ')':
            d -= 1
            if d == 0:
                return s[i + 1:k], k + 1
    return None, None


REGS = {'disp_reg': 'RDisp', 'scale_ind_reg': 'RScaleInd', 'base_ind_reg': 'RBaseInd', 'addr_reg': 'RAddr',
        'op->u.mem.index': 'RIndex', 'base_reg': 'RBase', 'op->u.mem.base': 'RBase'}
CONDS = {'op->u.mem.disp != 0': 'CDisp', 'scale_ind_reg != 0 && op->u.mem.scale > 1': 'CScale',
         'base_reg != 0 && scale_ind_reg != 0': 'CBaseInd'}
GLUE = ['scale_ind_reg = op->u.mem.index', 'base_reg = op->u.mem.base', 'base_ind_reg = base_reg != 0 ? base_reg : scale_ind_reg;',
        'addr_reg = disp_reg;', 'addr_reg = base_ind_reg;', 'mem_op.u.mem.base = addr_reg;']


def lowering(repo):
    """-> (rows [(cond, opcode, dest, arg1, arg2)], None) or (None, reason)"""
    src = strip_comments(open(os.path.join(repo, 'mir.c')).read())
    body = func_body(src, 'simplify_op')
    if body is None:
        return None, 'no function simplify_op'
    a = body.find('int after_p')
    b = body.find('mem_op.u.mem.base = addr_reg;')
    if a < 0 or b < 0:
        return None, 'simplify_op: the address part (int after_p ... mem_op.u.mem.base = addr_reg) is not there'
    # the enclosing else-block starts at the last '{' before `int after_p`
    start = body.rfind('{', 0, a)
    reg = body[start:b + len('mem_op.u.mem.base = addr_reg;')]
    nreg = norm(reg)
    for g in GLUE:
        if g not in nreg:
            return None, 'simplify_op: expected `%s`' % g
    if not re.search(r'addr_reg = vn_add_val \(ctx, func, MIR_T_I64, MIR_ADD, base_ind_op, disp_op\);', nreg):
        return None, 'simplify_op: the address register of the final sum is not a fresh value'
    # operand variables: the latest textual definition before the use
    defs = [(m.start(), m.group(1), m.group(2), m.end())
            for m in re.finditer(r'\b(\w+)\s*=\s*(MIR_new_int_op|MIR_new_reg_op)\s*(?=\()', reg)]

    def resolve(txt, pos):
        txt = txt.strip()
        m = re.match(r'^(MIR_new_int_op|MIR_new_reg_op)\s*\(', txt)
        if m:
            arg, _ = call_at(txt, m.end() - 1)
            return operand(m.group(1), arg)
        if re.match(r'^\w+$', txt):
            best = None
            for (p, var, fn, paren) in defs:
                if var == txt and p < pos:
                    best = (fn, paren)
            if best is not None:
                arg, _ = call_at(reg, best[1])
                return operand(best[0], arg)
        return 'AUnknown'

    def operand(fn, arg):
        f = split_args(arg)
        if len(f) != 2 or f[0] != 'ctx':
            return 'AUnknown'
        e = norm(f[1])
        if fn == 'MIR_new_int_op':
            return {'op->u.mem.disp': 'AConstDisp', 'op->u.mem.scale': 'AConstScale'}.get(e, 'AUnknown')
        if e in REGS:
            return '(AReg %s)' % REGS[e]
        if re.match(r'^vn_add_val \(ctx, func, MIR_T_I64, MIR_INSN_BOUND, scale_int_op, scale_int_op\)$', e):
            return '(AReg RScaleC)'
        return 'AUnknown'

    def condition(pos):
        """the condition of the innermost block around pos"""
        d = 0
        for k in range(pos, -1, -1):
            if reg[k] == '}':
                d += 1
            elif reg[k] == '{':
                if d == 0:
                    head = norm(reg[:k])
                    m = re.search(r'if \((.*)\)$', head)
                    if m:
                        # the last `if (` whose parentheses close at the end
                        j = head.rfind('if (')
                        while j >= 0:
                            arg, e = call_at(head, j + 3)
                            if e == len(head):
                                return CONDS.get(norm(arg))
                            j = head.rfind('if (', 0, j)
                        return None
                    if head.endswith('else'):
                        if re.search(r'if \(base_ind_reg == 0\) \{[^{}]*\} else if \(disp_reg == 0\) \{[^{}]*\} else$', head):
                            return 'CSum'
                        return None
                    return None
                d -= 1
        return None
    rows = []
    for m in re.finditer(r'MIR_new_insn\s*\(', reg):
        arg, _ = call_at(reg, m.end() - 1)
        f = split_args(arg)
        if len(f) not in (4, 5) or f[0] != 'ctx' or not re.match(r'^MIR_[A-Z0-9]+$', f[1]):
            return None, 'simplify_op: unreadable MIR_new_insn (%s)' % norm(arg)[:80]
        cond = condition(m.start())
        if cond is None:
            return None, 'simplify_op: instruction %s inserted under a condition that is not recognised' % f[1]
        dest = resolve(f[2], m.start())
        dm = re.match(r'^\(AReg (\w+)\)$', dest)
        if not dm:
            return None, 'simplify_op: destination of %s is not a known register' % f[1]
        a1 = resolve(f[3], m.start())
        a2 = resolve(f[4], m.start()) if len(f) == 5 else 'ANone'
        rows.append((cond, f[1][4:], dm.group(1), a1, a2))
    return rows, None


def combiner(repo):
    """-> dict(guard=bool, scaled=bool, su='SU_…', notes=[…])"""
    src = strip_comments(open(os.path.join(repo, 'mir-gen.c')).read())
    r = dict(guard=False, scaled=False, su='SU_unknown', notes=[])
    body = func_body(src, 'update_addr_p')
    vm = func_body(src, 'var_mult_const')
    if body is None or vm is None:
        r['notes'].append('no function update_addr_p / var_mult_const')
        return r
    nb, nvm = norm(body), norm(vm)
    ranged = 'if (*c < 0 || *c > MIR_MAX_SCALE) return FALSE;' in nvm
    if not ranged:
        r['notes'].append('var_mult_const does not restrict the constant to 0..MIR_MAX_SCALE')
    if not re.search(r'\bint64_t c;', nb):
        r['notes'].append('update_addr_p: c is not an int64_t')
        return r
    m = re.search(r'else if \(((?:(?!else if).)*?)var_mult_const \(gen_ctx, addr_info->base->data, from_bb, &addr_info->base, &c\)\) \{ (.*?) \} else if', nb)
    if m is None:
        r['notes'].append('update_addr_p: base step with var_mult_const not found')
    else:
        g = m.group(1).strip()
        swap = m.group(2).strip()
        okswap = swap == ('if (c != 1) { SWAP (addr_info->base, addr_info->index, temp_op_ref); SWAP (stop_base_p, stop_index_p, temp_int); '
                          'addr_info->scale = (MIR_scale_t) c; }')
        if not okswap:
            r['notes'].append('update_addr_p: unexpected body of the base * constant step: ' + swap[:100])
        elif g == 'addr_info->scale == 1 &&':
            r['guard'] = True
        elif g == '':
            r['notes'].append('update_addr_p: base * constant is swapped into the index slot whatever the scale of the index')
        else:
            r['notes'].append('update_addr_p: unexpected guard of the base * constant step: ' + g[:80])
    m = re.search(r'if \(var_plus_const \(gen_ctx, addr_info->index->data, from_bb, &addr_info->index, &c\)\) \{ (.*?) \} else if '
                  r'\(var_mult_const \(gen_ctx, addr_info->index->data, from_bb, &addr_info->index, &c\)\) \{ (.*?) \} else \{', nb)
    if m is None:
        r['notes'].append('update_addr_p: index step not found')
        return r
    plus, mult = m.group(1).strip(), m.group(2).strip()
    if plus == 'addr_info->disp += c * addr_info->scale;':
        r['scaled'] = True
    else:
        r['notes'].append('update_addr_p: index + constant updates the displacement by: ' + plus[:80])
    prod = r'(?:c \* \(int64_t\) addr_info->scale|\(int64_t\) addr_info->scale \* c|c \* addr_info->scale|addr_info->scale \* c)'
    if mult == 'addr_info->scale *= (MIR_scale_t) c;' or mult == 'addr_info->scale *= c;':
        r['su'] = 'SU_wrap8'
        r['notes'].append('update_addr_p: the product of two scales is kept in MIR_scale_t (8 bits)')
    elif ranged and re.match(r'^if \(%s > (?:MIR_MAX_SCALE|255)\) \{ \*addr_info = temp_addr_info; return change_p; \} '
                             r'addr_info->scale = \(MIR_scale_t\) \(%s\);$' % (prod, prod), mult):
        r['su'] = 'SU_checked'
    else:
        r['notes'].append('update_addr_p: unexpected scale update: ' + mult[:120])
    return r


def emit(rows, why, cb):
    s = '(* GENERATED on every run by tools/tr_c02_addr.py from mir.c / mir-gen.c of the checked tree. *)\n'
    s += 'From Coq Require Import ZArith List.\nFrom MirV Require Import Mir.Opcode C02.AddrDefs.\nImport ListNotations.\nLocal Open Scope Z_scope.\n\n'
    s += '(* simplify_op: instructions inserted for a memory operand disp(base, index, scale), in order *)\n'
    if rows is None:
        s += '(* NOT READABLE: %s *)\nDefinition simplify_addr_insns : list ainsn := [].\n' % why.replace('*)', '* )')
    else:
        s += 'Definition simplify_addr_insns : list ainsn :=\n  [ ' + '\n  ; '.join('(%s, %s, %s, %s, %s)' % r for r in rows) + ' ].\n'
    s += '\n(* update_addr_p *)\n'
    for n in cb['notes']:
        s += '(* %s *)\n' % n.replace('*)', '* )').replace('(*', '( *')
    s += 'Definition combiner_base_mult_needs_scale1 : bool := %s.\n' % ('true' if cb['guard'] else 'false')
    s += 'Definition combiner_index_plus_scales_disp : bool := %s.\n' % ('true' if cb['scaled'] else 'false')
    s += 'Definition combiner_index_mult : scale_update := %s.\n' % cb['su']
    return s


def main():
    import tr_opcodes
    rows, why = lowering(vlib.REPO)
    if rows is not None:
        known = set(n for n in tr_opcodes.opcodes())
        for r in rows:
            if r[1] not in known:
                rows, why = None, 'simplify_op inserts an unknown opcode MIR_%s' % r[1]
                break
    cb = combiner(vlib.REPO)
    out = os.path.join(vlib.COQDIR, 'gen', 'AddrTable.v')
    os.makedirs(os.path.dirname(out), exist_ok=True)
    txt = emit(rows, why, cb)
    old = open(out).read() if os.path.exists(out) else None
    if old != txt:
        open(out + '.tmp%d' % os.getpid(), 'w').write(txt)
        os.rename(out + '.tmp%d' % os.getpid(), out)
    print('AddrTable simplify_op: %s' % (' '.join('%s:%s' % (r[0], r[1]) for r in rows) if rows is not None else 'NOT READABLE: ' + why))
    print('AddrTable update_addr_p: scale==1 guard %s, index+c scales disp %s, scale product %s%s' % (
        cb['guard'], cb['scaled'], cb['su'], ('; ' + '; '.join(cb['notes'])) if cb['notes'] else ''))
    return dict(rows=rows, why=why, combiner=cb)


if __name__ == '__main__':
    main()

#!/usr/bin/env python3
# C12 parameter translator: evaluates the _REDUCE_* defines of mir-reduce.h and the hash constants of
# mir-hash.h of the *current tree* ($VERIF_REPO) by compiling and running a tiny C program against
# those headers, and (re)writes coq/gen/ReduceParams.v (git-ignored; regenerated on every check run).
# The Coq model coq/C12/*.v takes every constant from that file, and coq/C12/ParamsOk.v re-proves the
# side conditions the theorems need, so changing a constant re-checks the proofs against the new value.
import sys, os, tempfile, shutil
sys.path.insert(0, os.path.dirname(os.path.abspath(__file__)))
import vlib

PROG = r'''
#include <stdio.h>
#include <inttypes.h>
#include "mir-reduce.h"
int main (void) {
  const char *p = _REDUCE_DATA_PREFIX;
  printf ("SYMB_TAG_LEN %llu\n", (unsigned long long) _REDUCE_SYMB_TAG_LEN);
  printf ("SYMB_TAG_LONG %llu\n", (unsigned long long) _REDUCE_SYMB_TAG_LONG);
  printf ("REF_TAG_LEN %llu\n", (unsigned long long) _REDUCE_REF_TAG_LEN);
  printf ("REF_TAG_LONG %llu\n", (unsigned long long) _REDUCE_REF_TAG_LONG);
  printf ("START_LEN %llu\n", (unsigned long long) _REDUCE_START_LEN);
  printf ("BUF_LEN %llu\n", (unsigned long long) _REDUCE_BUF_LEN);
  printf ("TABLE_SIZE %llu\n", (unsigned long long) _REDUCE_TABLE_SIZE);
  printf ("MAX_SYMB_LEN %llu\n", (unsigned long long) _REDUCE_MAX_SYMB_LEN);
  printf ("HASH_SEED %llu\n", (unsigned long long) _REDUCE_HASH_SEED);
  printf ("CHECK_HASH_SEED %llu\n", (unsigned long long) _REDUCE_CHECK_HASH_SEED);
  printf ("HASH_P1 %llu\n", (unsigned long long) mir_hash_p1);
  printf ("HASH_P2 %llu\n", (unsigned long long) mir_hash_p2);
  printf ("HASH_UNALIGNED_ACCESS %d\n", MIR_HASH_UNALIGNED_ACCESS);
  printf ("LITTLE_ENDIAN %d\n", MIR_LITTLE_ENDIAN);
  printf ("PREFIX");
  for (; *p; p++) printf (" %d", (unsigned char) *p);
  printf ("\n");
  return 0;
}
'''

ORDER = ['SYMB_TAG_LEN', 'SYMB_TAG_LONG', 'REF_TAG_LEN', 'REF_TAG_LONG', 'START_LEN', 'BUF_LEN', 'TABLE_SIZE',
         'MAX_SYMB_LEN', 'HASH_SEED', 'CHECK_HASH_SEED', 'HASH_P1', 'HASH_P2', 'HASH_UNALIGNED_ACCESS', 'LITTLE_ENDIAN']


def params(repo=None):
    repo = repo or vlib.REPO
    d = tempfile.mkdtemp(prefix='c12p-', dir='/var/tmp')
    try:
        src = os.path.join(d, 'p.c')
        open(src, 'w').write(PROG)
        exe = os.path.join(d, 'p')
        rc, out, err = vlib.sh(['gcc', '-std=gnu11', '-w', '-DNDEBUG', '-I' + repo, src, '-o', exe], timeout=120)
        if rc != 0:
            raise vlib.BuildError('tr_c12_params: cannot compile against %s/mir-reduce.h:\n%s' % (repo, err[-2000:]))
        rc, out, err = vlib.sh([exe], timeout=30)
        if rc != 0:
            raise vlib.BuildError('tr_c12_params: parameter program failed: %s' % err[-500:])
    finally:
        shutil.rmtree(d, ignore_errors=True)
    p = {}
    for line in out.split('\n'):
        w = line.split()
        if not w:
            continue
        p[w[0]] = [int(x) for x in w[1:]] if w[0] == 'PREFIX' else int(w[1])
    return p


def emit(p):
    s = '(* GENERATED on every run by tools/tr_c12_params.py from mir-reduce.h / mir-hash.h of the checked\n'
    s += '   tree (values printed by a C program compiled against those headers). Do not edit. *)\n'
    s += 'From Coq Require Import NArith List.\nImport ListNotations.\nLocal Open Scope N_scope.\n\n'
    for k in ORDER:
        s += 'Definition %s : N := %d.\n' % (k, p[k])
    s += 'Definition PREFIX : list N := [%s].\n' % '; '.join(str(x) for x in p['PREFIX'])
    return s


def regenerate(repo=None):
    """write coq/gen/ReduceParams.v if its content changed; returns the parameter dict"""
    p = params(repo)
    txt = emit(p)
    d = os.path.join(vlib.COQDIR, 'gen')
    os.makedirs(d, exist_ok=True)
    path = os.path.join(d, 'ReduceParams.v')
    with vlib.Lock('c12-params'):
        old = open(path).read() if os.path.exists(path) else None
        if old != txt:
            tmp = path + '.tmp%d' % os.getpid()
            open(tmp, 'w').write(txt)
            os.rename(tmp, path)
    return p


if __name__ == '__main__':
    p = regenerate()
    print(emit(p))

# Common machinery for /verif checks: build /repo sources, build Coq targets, build extracted
# OCaml drivers, known findings, evidence, violation protocol.
import os, sys, json, hashlib, subprocess, time, fcntl, shutil, re, random, glob

VERIF = os.path.dirname(os.path.dirname(os.path.abspath(__file__)))
REPO = os.environ.get('VERIF_REPO', '/repo')
BUILD = os.path.join(VERIF, 'build')
COQDIR = os.path.join(VERIF, 'coq')
EVID = os.path.join(VERIF, 'evidence')
REPLAY = os.path.join(VERIF, 'replay')
NCPU = os.cpu_count() or 4

CFLAGS_COMMON = ['-std=gnu11', '-fsigned-char', '-fPIC', '-fno-tree-sra', '-fno-ipa-cp-clone', '-w', '-g',
                 '-DMIR_VERIF']
VARIANTS = {
    # name -> (compiler, flags)
    'plain': ('gcc', ['-O1', '-DNDEBUG']),
    'dbg': ('gcc', ['-O1']),  # asserts on
    'asan': ('gcc', ['-O1', '-DNDEBUG', '-fsanitize=address,undefined', '-fno-sanitize=alignment', '-fno-sanitize-recover=undefined',
                     '-fno-omit-frame-pointer']),
    'tsan': ('gcc', ['-O1', '-DNDEBUG', '-fsanitize=thread']),
    'O0': ('gcc', ['-O0', '-DNDEBUG']),
}


def sh(cmd, timeout=None, cwd=None, env=None, input=None, check=False):
    """run a command list; returns (rc, stdout, stderr) as text (errors='replace')"""
    e = dict(os.environ)
    if env:
        e.update(env)
    try:
        p = subprocess.run(cmd, cwd=cwd, env=e, input=input, stdout=subprocess.PIPE, stderr=subprocess.PIPE,
                           timeout=timeout)
        rc, out, err = p.returncode, p.stdout, p.stderr
    except subprocess.TimeoutExpired as ex:
        rc, out, err = 124, ex.stdout or b'', (ex.stderr or b'') + b'\n[timeout]'
    if isinstance(out, bytes):
        out = out.decode('utf-8', 'replace')
    if isinstance(err, bytes):
        err = err.decode('utf-8', 'replace')
    if check and rc != 0:
        raise RuntimeError('command failed (%d): %s\n%s\n%s' % (rc, ' '.join(map(str, cmd)), out[-4000:], err[-4000:]))
    return rc, out, err


class Lock:
    def __init__(self, name):
        os.makedirs(BUILD, exist_ok=True)
        self.path = os.path.join(BUILD, '.lock-' + name)

    def __enter__(self):
        self.f = open(self.path, 'w')
        fcntl.flock(self.f, fcntl.LOCK_EX)
        return self

    def __exit__(self, *a):
        fcntl.flock(self.f, fcntl.LOCK_UN)
        self.f.close()


def file_hash(paths, extra=''):
    h = hashlib.sha256()
    h.update(extra.encode())
    for p in sorted(paths):
        h.update(p.encode())
        try:
            with open(p, 'rb') as f:
                h.update(f.read())
        except OSError:
            h.update(b'<missing>')
    return h.hexdigest()[:16]


def repo_sources():
    pats = ['*.c', '*.h', 'c2mir/*.c', 'c2mir/*.h', 'c2mir/x86_64/*', 'mir2c/*.c', 'mir2c/*.h', 'mir-utils/*.c',
            'mir-utils/*.h']
    out = []
    for p in pats:
        out += glob.glob(os.path.join(REPO, p))
    return [p for p in out if os.path.isfile(p)]


def repo_hash():
    return file_hash(repo_sources())


def _prune_cache(keep=40, min_age_s=3 * 3600):
    """drop old cached builds of other trees: only directories not used for min_age_s, beyond the
    `keep` most recent (several checks / scratch worktrees may be in use concurrently)"""
    try:
        ds = [os.path.join(BUILD, d) for d in os.listdir(BUILD) if d.startswith('repo-')]
        ds.sort(key=lambda d: os.path.getmtime(d), reverse=True)
        now = time.time()
        for d in ds[keep:]:
            if now - os.path.getmtime(d) > min_age_s:
                shutil.rmtree(d, ignore_errors=True)
    except OSError:
        pass


# units of the library that checks may link against
UNITS = {
    'mir': 'mir.c',
    'mir-gen': 'mir-gen.c',
    'c2mir': 'c2mir/c2mir.c',
    'mir2c': 'mir2c/mir2c.c',
}


def build_repo(variant='plain', units=('mir', 'mir-gen'), defs=()):
    """Compile units of /repo's *current working tree*; cached by content hash of all sources.
    Returns (dir, [object paths])."""
    comp, vflags = VARIANTS[variant]
    key = repo_hash()
    tag = variant + ('-' + hashlib.sha1(' '.join(defs).encode()).hexdigest()[:8] if defs else '')
    d = os.path.join(BUILD, 'repo-' + key, tag)
    objs = []
    with Lock('repo-' + key + '-' + tag):
        os.makedirs(d, exist_ok=True)
        os.utime(os.path.join(BUILD, 'repo-' + key))
        procs = []
        for u in units:
            o = os.path.join(d, u + '.o')
            objs.append(o)
            if os.path.exists(o):
                continue
            cmd = [comp] + CFLAGS_COMMON + vflags + list(defs) + ['-I' + REPO, '-c', os.path.join(REPO, UNITS[u]),
                                                                   '-o', o + '.tmp']
            procs.append((u, o, cmd, subprocess.Popen(cmd, stdout=subprocess.PIPE, stderr=subprocess.STDOUT)))
        for u, o, cmd, p in procs:
            out, _ = p.communicate()
            if p.returncode != 0:
                raise BuildError('compiling %s (%s) failed:\n%s' % (u, variant, out.decode('utf-8', 'replace')[-3000:]))
            os.rename(o + '.tmp', o)
    _prune_cache()
    return d, objs


class BuildError(Exception):
    pass


def build_harness(name, sources, variant='plain', units=('mir', 'mir-gen'), defs=(), libs=('-lm', '-ldl', '-lpthread'),
                  extra_flags=()):
    """Compile harness C file(s) (under /verif/harness unless absolute) against the current /repo tree."""
    comp, vflags = VARIANTS[variant]
    d, objs = build_repo(variant, units, defs) if units else (os.path.join(BUILD, 'repo-' + repo_hash(), variant), [])
    os.makedirs(d, exist_ok=True)
    srcs = [s if os.path.isabs(s) else os.path.join(VERIF, 'harness', s) for s in sources]
    hh = file_hash(srcs, ' '.join(extra_flags) + ' '.join(defs))
    exe = os.path.join(d, '%s-%s' % (name, hh))
    with Lock('h-' + os.path.basename(os.path.dirname(d)) + '-' + name):
        if not os.path.exists(exe):
            cmd = [comp] + CFLAGS_COMMON + vflags + list(defs) + list(extra_flags) + ['-I' + REPO, '-I' + os.path.join(VERIF, 'harness')] \
                  + srcs + objs + ['-o', exe + '.tmp'] + list(libs)
            rc, out, err = sh(cmd, timeout=600)
            if rc != 0:
                raise BuildError('building harness %s failed:\n%s' % (name, (out + err)[-3000:]))
            os.rename(exe + '.tmp', exe)
    return exe


# ---------------------------------------------------------------- Coq

def coq_files():
    vs = sorted(glob.glob(os.path.join(COQDIR, '**', '*.v'), recursive=True))
    return [os.path.relpath(v, COQDIR) for v in vs if '/.' not in v]


def coq_setup():
    """write coq/_CoqProject (for coqchk / interactive use); the checks build with coq_make below"""
    proj = '-Q . MirV\n-arg -w -arg -all\n' + '\n'.join(coq_files()) + '\n'
    pp = os.path.join(COQDIR, '_CoqProject')
    old = open(pp).read() if os.path.exists(pp) else ''
    if old != proj:
        open(pp + '.tmp%d' % os.getpid(), 'w').write(proj)
        os.rename(pp + '.tmp%d' % os.getpid(), pp)


def coq_deps(vfiles):
    """{file.v: [local dep .v files]} for the transitive closure of vfiles, via coqdep"""
    deps = {}
    todo = list(vfiles)
    while todo:
        batch = [f for f in todo if f not in deps]
        todo = []
        if not batch:
            break
        rc, out, err = sh(['coqdep', '-Q', '.', 'MirV'] + batch, cwd=COQDIR)
        for line in out.split('\n'):
            m = re.match(r'^(\S+)\.vo\b[^:]*:\s*(.*)$', line)
            if not m:
                continue
            f = os.path.normpath(m.group(1) + '.v')
            ds = [os.path.normpath(d[:-3] + '.v') for d in m.group(2).split() if d.endswith('.vo')]
            ds = [d for d in ds if d != f and not d.startswith('/') and not d.startswith('..')]
            deps[f] = ds
            todo += [d for d in ds if d not in deps]
        for f in batch:
            deps.setdefault(f, [])
    return deps


def _coqc_one(f, deps, timeout):
    """compile coq/f if stale (full .vo); returns (ok, log)"""
    src = os.path.join(COQDIR, f)
    vo = src[:-2] + '.vo'
    with Lock('coq-' + f.replace('/', '_')):
        if os.path.exists(vo):
            t = os.path.getmtime(vo)
            fresh = os.path.getmtime(src) <= t and all(
                os.path.exists(os.path.join(COQDIR, d[:-2] + '.vo')) and os.path.getmtime(os.path.join(COQDIR, d[:-2] + '.vo')) <= t
                for d in deps)
            if fresh:
                return True, ''
        t0 = time.time()
        rc, out, err = sh(['timeout', str(timeout), 'coqc', '-q', '-w', '-all', '-Q', '.', 'MirV', f], cwd=COQDIR)
        log = 'COQC %s (%.1fs)\n%s%s' % (f, time.time() - t0, out, err)
        if rc != 0:
            try:
                os.remove(vo)
            except OSError:
                pass
            if rc == 124:
                log += '\n[coqc timed out after %ss]' % timeout
        return rc == 0 and os.path.exists(vo), log


def coq_make(targets, timeout=3000, jobs=None):
    """Build the given .vo targets (paths relative to coq/) and everything they depend on, in
    parallel, each file under its own lock (so concurrent checks never build one file twice at
    once).  Full .vo compilation with coqc; never -vos.  Returns {target: (ok, log)}."""
    from concurrent.futures import ThreadPoolExecutor
    coq_setup()
    vfiles = [os.path.normpath(t[:-3] + '.v') for t in targets]
    deps = coq_deps(vfiles)
    status = {}  # f -> (ok, log)
    order = []
    seen = set()

    def visit(f):
        if f in seen:
            return
        seen.add(f)
        for d in deps.get(f, []):
            visit(d)
        order.append(f)
    for f in vfiles:
        visit(f)
    pending = list(order)
    futures = {}
    with ThreadPoolExecutor(max_workers=jobs or NCPU) as ex:
        while pending or futures:
            progressed = False
            for f in list(pending):
                ds = deps.get(f, [])
                if any(d in status and not status[d][0] for d in ds):
                    status[f] = (False, 'SKIPPED %s: a dependency failed\n' % f)
                    pending.remove(f)
                    progressed = True
                elif all(d in status for d in ds):
                    futures[f] = ex.submit(_coqc_one, f, ds, timeout)
                    pending.remove(f)
                    progressed = True
            done = [f for f, fu in futures.items() if fu.done()]
            for f in done:
                status[f] = futures.pop(f).result()
                progressed = True
            if not progressed:
                time.sleep(0.05)
    res = {}
    for t, f in zip(targets, vfiles):
        closure = []

        def clo(x):
            if x in closure:
                return
            for d in deps.get(x, []):
                clo(d)
            closure.append(x)
        clo(f)
        log = ''.join(status[x][1] for x in closure if x in status)
        res[t] = (status.get(f, (False, ''))[0], log)
    return res


def coq_gate(files=None):
    """The no-axiom / no-admit gate (comments stripped) over the given .v files (paths relative to
    coq/), default the whole development."""
    bad = []
    pat = re.compile(r'\b(Admitted|admit|Axiom|Axioms|Parameter|Parameters|Conjecture|Conjectures|Admit Obligations|'
                     r'Unset Guard Checking|Unset Positivity Checking|Unset Universe Checking|bypass_check|'
                     r'type-in-type|impredicative-set)\b')
    allv = glob.glob(os.path.join(COQDIR, '**', '*.v'), recursive=True) if files is None else [
        os.path.join(COQDIR, f) for f in files]
    for v in allv:
        if not os.path.exists(v):
            continue
        txt = strip_coq_comments(open(v, errors='replace').read())
        stack = []
        for i, line in enumerate(txt.split('\n'), 1):
            m = pat.search(line)
            if m:
                bad.append('%s:%d: %s' % (os.path.relpath(v, VERIF), i, m.group(0)))
            m = re.match(r'\s*(Section|Module\s+Type|Module)\s+([A-Za-z0-9_\']+)', line)
            if m and ':=' not in line:
                stack.append(('S' if m.group(1) == 'Section' else 'M', m.group(2)))
            m = re.match(r'\s*End\s+([A-Za-z0-9_\']+)\s*\.', line)
            if m and stack and stack[-1][1] == m.group(1):
                stack.pop()
            if re.match(r'\s*(Variable|Variables|Hypothesis|Hypotheses|Context)\b', line):
                if not any(k == 'S' for k, _ in stack):
                    bad.append('%s:%d: %s outside a Section' % (os.path.relpath(v, VERIF), i, line.strip()[:40]))
    return bad


def strip_coq_comments(s):
    out = []
    depth = 0
    i = 0
    instr = False
    while i < len(s):
        if not instr and s.startswith('(*', i):
            depth += 1
            i += 2
            continue
        if not instr and depth > 0 and s.startswith('*)', i):
            depth -= 1
            i += 2
            continue
        c = s[i]
        if depth == 0:
            if c == '"':
                instr = not instr
            out.append(c)
        elif c == '\n':
            out.append(c)
        i += 1
    return ''.join(out)


def parse_theorems(vfile):
    """names of Theorem statements in a Properties file"""
    txt = strip_coq_comments(open(vfile).read())
    return re.findall(r'^\s*Theorem\s+([A-Za-z0-9_\']+)', txt, re.M)


def parse_assumptions(log):
    """Collect the axioms printed by `Print Assumptions` in a coqc log."""
    axioms = set()
    closed = 0
    cur = False
    for line in log.split('\n'):
        if 'Closed under the global context' in line:
            closed += 1
            cur = False
        elif line.startswith('Axioms:'):
            cur = True
        elif cur:
            m = re.match(r'^([A-Za-z_][A-Za-z0-9_\.\']*)\s*(:.*)?$', line)
            if m:
                axioms.add(m.group(1))  # the type may start on this line or continue on indented lines
            elif line and not line.startswith(' '):
                cur = False
    return closed, sorted(axioms)


def coq_prove(prop_file, timeout=3000):
    """Build coq/<prop_file>.vo; return dict(obligations, discharged, ok, log, axioms, theorems)."""
    vpath = os.path.join(COQDIR, prop_file + '.v')
    thms = parse_theorems(vpath)
    # force re-run of the property file itself so Print Assumptions output is captured
    for ext in ('.vo', '.glob', '.vos', '.vok'):
        try:
            os.remove(os.path.join(COQDIR, prop_file + ext))
        except OSError:
            pass
    r = coq_make([prop_file + '.vo'], timeout=timeout)
    ok, log = r[prop_file + '.vo']
    closed, axioms = parse_assumptions(log)
    closure = sorted(coq_deps([prop_file + '.v']).keys())  # the property file and everything it depends on
    gate = coq_gate(closure)
    discharged = len(thms) if ok else 0
    if gate:
        ok = False
        discharged = 0
        log += '\nGATE FAILURES:\n' + '\n'.join(gate)
    return dict(obligations=len(thms), discharged=discharged, ok=ok, log=log, axioms=axioms, theorems=thms,
                checker_cmd='coqc -Q coq MirV coq/%s.v and its dependency closure (Coq 8.16.1, full .vo, Print Assumptions per theorem; tools/vlib.py coq_make)' % prop_file)


def coq_failed_units(log):
    return sorted(set(re.findall(r'File "\./([^"]+)", line (\d+)', log)))


# ---------------------------------------------------------------- OCaml extraction

def ocaml_build(name, extract_v, ml_modules, driver_ml, timeout=1800):
    """extract_v: path (rel. to coq/, no ext) of a .v file whose compilation writes the extracted
    <module>.ml/.mli files (Extraction "x.ml" ...) into coq/ (cwd of coqc by make = coq/).
    ml_modules: extracted module basenames in link order; driver_ml: /verif/ocaml/<file>.
    Returns exe path. Rebuilds when inputs change."""
    r = coq_make([extract_v + '.vo'], timeout=timeout)
    ok, log = r[extract_v + '.vo']
    if not ok:
        raise BuildError('extraction %s failed:\n%s' % (extract_v, log[-3000:]))
    outd = os.path.join(BUILD, 'ocaml', name)
    os.makedirs(outd, exist_ok=True)
    srcs = []
    for m in ml_modules:
        for ext in ('.mli', '.ml'):
            p = os.path.join(COQDIR, m + ext)
            if os.path.exists(p):
                srcs.append(p)
    drv = driver_ml if os.path.isabs(driver_ml) else os.path.join(VERIF, 'ocaml', driver_ml)
    hh = file_hash(srcs + [drv])
    exe = os.path.join(outd, name + '-' + hh)
    with Lock('ocaml-' + name):
        if not os.path.exists(exe):
            for s in srcs + [drv]:
                shutil.copy(s, outd)
            names = [os.path.basename(s) for s in srcs + [drv]]
            rc, out, err = sh(['ocamlfind', 'ocamlopt', '-O3', '-w', '-a', '-package', 'str', '-linkpkg'] + names
                              + ['-o', exe + '.tmp'], cwd=outd, timeout=timeout)
            if rc != 0:
                raise BuildError('ocaml build %s failed:\n%s' % (name, (out + err)[-3000:]))
            os.rename(exe + '.tmp', exe)
            for old in glob.glob(os.path.join(outd, name + '-*')):
                if old != exe and not old.endswith('.tmp'):
                    os.remove(old)
    return exe


# ---------------------------------------------------------------- known findings

def known_findings(prop):
    """returns (known: list of (signature, text), fixed: list of text) for the property"""
    known, fixed = [], []
    p = os.path.join(VERIF, 'KNOWN_FINDINGS.txt')
    if os.path.exists(p):
        for line in open(p):
            line = line.strip()
            if not line or line.startswith('#'):
                continue
            m = re.match(r'known:\s+property=(\S+)\s+sig=(\S+)\s+(.*)', line)
            if m and m.group(1) == prop:
                known.append((m.group(2), m.group(3)))
            m = re.match(r'fixed:\s+property=(\S+)\s+(.*)', line)
            if m and m.group(1) == prop:
                fixed.append(m.group(2))
    return known, fixed


# ---------------------------------------------------------------- a check run

class Check:
    def __init__(self, prop, tier, seed, level='proof'):
        self.prop, self.tier, self.seed, self.level = prop, tier, seed, level
        self.t0 = time.time()
        self.cov = dict(evaluations=0, distinct_nontrivial=0, rule='', samples=[], obligations=0, discharged=0,
                        checker_cmd='', trusted_base=[])
        self.assumptions = []
        self.violations = []  # (replay_path, tail)
        self.known_hits = {}
        self.known, self.fixed = known_findings(prop)
        self._distinct = set()
        self.notes = []
        os.makedirs(EVID, exist_ok=True)
        os.makedirs(REPLAY, exist_ok=True)

    def rng(self, salt=''):
        return random.Random('%s/%s/%s' % (self.prop, self.seed, salt))

    def log(self, *a):
        print('[%s %6.1fs]' % (self.prop, time.time() - self.t0), *a, flush=True)

    # --- proofs
    def prove(self, prop_file=None, timeout=3000):
        prop_file = prop_file or ('Properties_' + self.prop)
        r = coq_prove(prop_file, timeout)
        self.cov['obligations'] += r['obligations']
        self.cov['discharged'] += r['discharged']
        self.cov['checker_cmd'] = r['checker_cmd']
        self.cov.setdefault('theorems', [])
        self.cov['theorems'] += r['theorems']
        tb = set(self.cov['trusted_base'])
        tb.add('Coq 8.16.1 kernel (coqc, vm_compute; no native_compute)')
        for a in r['axioms']:
            tb.add('axiom (Print Assumptions): ' + a)
        if not r['axioms']:
            tb.add('Print Assumptions: all property theorems closed under the global context')
        self.cov['trusted_base'] = sorted(tb)
        self.log('proofs %s: %d/%d discharged' % (prop_file, r['discharged'], r['obligations']))
        self.proof = r
        return r

    # --- correspondence bookkeeping
    def count(self, case_key, nontrivial=True, n=1):
        self.cov['evaluations'] += n
        if nontrivial:
            h = hashlib.sha1(repr(case_key).encode()).digest()[:8]
            self._distinct.add(h)

    def sample(self, s, limit=8):
        if len(self.cov['samples']) < limit:
            self.cov['samples'].append(s)

    def dist(self, key, k, n=1):
        d = self.cov.setdefault(key, {})
        d[str(k)] = d.get(str(k), 0) + n

    # --- outcomes
    def finding(self, signature, replay_obj, what, no_input=False):
        """A failing case. signature: short stable id of the failing input/site. If it is listed as
        known in KNOWN_FINDINGS.txt it is reported as KNOWN-FINDING, else as a VIOLATION."""
        for sig, text in self.known:
            if sig == signature:
                self.known_hits[sig] = text
                return False
        hh = hashlib.sha1((signature + json.dumps(replay_obj, sort_keys=True, default=str)).encode()).hexdigest()[:10]
        path = os.path.join(REPLAY, '%s-%s.json' % (self.prop, hh))
        with open(path, 'w') as f:
            json.dump(dict(property=self.prop, signature=signature, what=what, seed=self.seed, tier=self.tier,
                           repo=REPO, replay=replay_obj), f, indent=1, default=str)
        self.violations.append((path, ' no-failing-input-found' if no_input else '', what))
        return True

    def proof_broken(self, r=None, searched=''):
        """call when the proof/tie failed and the search found no failing input"""
        r = r or self.proof
        self.finding('proof-broken', dict(theorems=r['theorems'], broken=coq_failed_units(r['log']),
                                          log_tail=r['log'][-3000:], searched=searched),
                     'proof obligation or source tie no longer checks: ' + ', '.join(
                         '%s:%s' % x for x in coq_failed_units(r['log'])[:5]), no_input=True)

    def finish(self):
        self.cov['distinct_nontrivial'] = len(self._distinct)
        if not self.cov['samples']:
            self.cov['samples'] = ['(no cases run)']
        ev = dict(property_id=self.prop, tier=self.tier, seed=self.seed, level=self.level, coverage=self.cov,
                  assumptions=self.assumptions, wall_s=round(time.time() - self.t0, 2),
                  violations=len(self.violations), notes=self.notes, repo=REPO, repo_hash=repo_hash())
        tmp = os.path.join(EVID, self.prop + '.json.tmp')
        with open(tmp, 'w') as f:
            json.dump(ev, f, indent=1, default=str)
        os.rename(tmp, os.path.join(EVID, self.prop + '.json'))
        for sig, text in self.known:
            # a known finding is printed when it reproduced in this run
            if sig in self.known_hits:
                print('KNOWN-FINDING: property=%s %s' % (self.prop, text), flush=True)
            else:
                self.log('note: known finding %s did not reproduce in this run' % sig)
        seen = set()
        for path, tail, what in self.violations:
            if path in seen:
                continue
            seen.add(path)
            print('# %s' % what, flush=True)
            print('VIOLATION property=%s replay=%s%s' % (self.prop, path, tail), flush=True)
        self.log('done: evaluations=%d distinct=%d obligations=%d/%d violations=%d' % (
            self.cov['evaluations'], self.cov['distinct_nontrivial'], self.cov['discharged'], self.cov['obligations'],
            len(seen)))
        return 1 if self.violations else 0


# ---------------------------------------------------------------- differential helpers

def run_lines(exe, lines, timeout=600, env=None):
    """feed lines to exe's stdin, return (rc, list of output lines, stderr)"""
    rc, out, err = sh([exe], input=('\n'.join(lines) + '\n').encode(), timeout=timeout, env=env)
    return rc, out.split('\n')[:-1] if out.endswith('\n') else out.split('\n'), err


def shrink_list(items, fails, max_steps=400):
    """delta debugging: smallest sublist (order kept) for which fails(sublist) is still True"""
    items = list(items)
    n = 2
    steps = 0
    while len(items) >= 2 and steps < max_steps:
        chunk = max(1, len(items) // n)
        reduced = False
        for i in range(0, len(items), chunk):
            cand = items[:i] + items[i + chunk:]
            steps += 1
            if cand and fails(cand):
                items = cand
                n = max(n - 1, 2)
                reduced = True
                break
        if not reduced:
            if chunk == 1:
                break
            n = min(len(items), n * 2)
    return items

#!/bin/sh
# coordinator only: apply a fix patch to /repo, rebuild, run the repo's own suite, commit as "fix:"
# usage: tools/apply_fix.sh fixes/Cxx-n.patch "fix: <message>"
set -e
P=$(realpath "$1"); MSG="$2"
cd /repo
git apply --check "$P"
git apply "$P"
cmake --build _build -- -k 0 > /var/tmp/fixbuild.log 2>&1 || true
if ctest --test-dir _build -j8 --timeout 900 > /var/tmp/fixtest.log 2>&1; then
  tail -3 /var/tmp/fixtest.log
  git commit -qam "$MSG"
  git log --oneline | head -1
else
  tail -20 /var/tmp/fixtest.log
  echo "TESTS FAILED: reverting"; git checkout -- .
  exit 1
fi

#!/usr/bin/env python3
# tr_c02_smt: equivalence of two integer CExpr rows for ALL 64-bit operand patterns, decided by an SMT solver
# (QF_BV: decidable, no bounded search).  Used by the C02 translators when a row extracted from the checked
# tree is not literally the canonical row (corpus/c02_canon_*.json, the rows the Coq recognisers are known to
# accept): if `row == canonical row` holds for all operands (and the row is defined wherever the canonical one
# is), the canonical row is what goes to Coq, and the tie of that row is this SMT equivalence instead of the
# syntactic identity (trusted base += z3/cvc5 + this encoder).  "different" (with the solver's model = operand
# values on which the rows differ) and "unknown" (timeout, floats, unsupported syntax) leave the extracted row
# as it is, so that the Coq recogniser decides -- an unrecognised row still makes the theorem fail.
#
# The encoding mirrors MirV.Mir.CExpr.ceval on integer types: operand n = 64-bit pattern p<n>, read at type t as
# its low bits; integer promotions, usual arithmetic conversions, shifts at the promoted left type, wrap-around
# arithmetic, comparisons yield int; undefined: x/0, x%0, MIN/-1, MIN%-1, shift count < 0 or >= width; only the
# selected arm of ?: is evaluated.
import os, re, subprocess, tempfile, json

TY = {'CI8': (True, 8), 'CU8': (False, 8), 'CI16': (True, 16), 'CU16': (False, 16), 'CI32': (True, 32), 'CU32': (False, 32),
      'CI64': (True, 64), 'CU64': (False, 64)}
TIMEOUT = 25


class NoSmt(Exception):
    pass


def promote(t):
    return 'CI32' if t in ('CI8', 'CU8', 'CI16', 'CU16') else t


def arith_conv(a, b):
    for t in ('CU64', 'CI64', 'CU32'):
        if a == t or b == t:
            return t
    return 'CI32'


def bvconst(v, n):
    return '(_ bv%d %d)' % (v % (1 << n), n)


def resize(term, frm, to):
    (s1, n1), (s2, n2) = TY[frm], TY[to]
    if n2 == n1:
        return term
    if n2 < n1:
        return '((_ extract %d 0) %s)' % (n2 - 1, term)
    return '((_ %s %d) %s)' % ('sign_extend' if s1 else 'zero_extend', n2 - n1, term)


def conj(*xs):
    xs = [x for x in xs if x != 'true']
    if not xs:
        return 'true'
    if len(xs) == 1:
        return xs[0]
    return '(and %s)' % ' '.join(xs)


class Enc:
    def __init__(self):
        self.vars = set()
        self.defs = []       # (define-fun ...) lines: shared subterms are named once (terms are DAGs, not trees)
        self.cache = {}
        self.keep = []

    def truth(self, t, term):
        return '(not (= %s %s))' % (term, bvconst(0, TY[t][1]))

    def enc(self, e):
        """-> (ctype, bit-vector term, definedness term)"""
        key = id(e)
        if key in self.cache:
            return self.cache[key]
        t, term, d = self.enc1(e)
        if len(term) > 40:
            name = 'x%d' % len(self.defs)
            self.defs.append('(define-fun %s () (_ BitVec %d) %s)' % (name, TY[t][1], term))
            term = name
        if len(d) > 40:
            name = 'x%d' % len(self.defs)
            self.defs.append('(define-fun %s () Bool %s)' % (name, d))
            d = name
        self.cache[key] = (t, term, d)
        self.keep.append(e)
        return t, term, d

    def enc1(self, e):
        k = e[0]
        if k == 'EVar':
            n, t = e[1], e[2]
            if t not in TY:
                raise NoSmt('non-integer operand type ' + t)
            self.vars.add(n)
            return t, resize('p%d' % n, 'CU64', t), 'true'
        if k == 'EConst':
            if e[2] not in TY:
                raise NoSmt('non-integer constant')
            return e[2], bvconst(e[1], TY[e[2]][1]), 'true'
        if k == 'ECast':
            t = e[1]
            ta, a, da = self.enc(e[2])
            if t not in TY:
                raise NoSmt('cast to ' + t)
            return t, resize(a, ta, t), da
        if k == 'EUn':
            ta, a, da = self.enc(e[2])
            if e[1] == 'Ulnot':
                return 'CI32', '(ite (= %s %s) %s %s)' % (a, bvconst(0, TY[ta][1]), bvconst(1, 32), bvconst(0, 32)), da
            p = promote(ta)
            a = resize(a, ta, p)
            return p, '(%s %s)' % ('bvneg' if e[1] == 'Uneg' else 'bvnot', a), da
        if k == 'EBin':
            o = e[1]
            ta, a, da = self.enc(e[2])
            tb, b, db = self.enc(e[3])
            if o in ('Oshl', 'Oshr'):
                p = promote(ta)
                sp, np_ = TY[p]
                x = resize(a, ta, p)
                sb, nb = TY[tb]
                kk = bvconst(np_, nb)
                inrange = '(and (bvsge %s %s) (bvslt %s %s))' % (b, bvconst(0, nb), b, kk) if sb else '(bvult %s %s)' % (b, kk)
                cnt = resize(b, tb, p)
                op = 'bvshl' if o == 'Oshl' else ('bvashr' if sp else 'bvlshr')
                return p, '(%s %s %s)' % (op, x, cnt), conj(da, db, inrange)
            t = arith_conv(promote(ta), promote(tb))
            st, nt = TY[t]
            x, y = resize(a, ta, t), resize(b, tb, t)
            d = conj(da, db)
            simple = {'Oadd': 'bvadd', 'Osub': 'bvsub', 'Omul': 'bvmul', 'Oand': 'bvand', 'Oor': 'bvor', 'Oxor': 'bvxor'}
            if o in simple:
                return t, '(%s %s %s)' % (simple[o], x, y), d
            if o in ('Odiv', 'Omod'):
                nz = '(not (= %s %s))' % (y, bvconst(0, nt))
                if st:
                    ok = '(and %s (not (and (= %s %s) (= %s %s))))' % (nz, x, bvconst(1 << (nt - 1), nt), y, bvconst(-1, nt))
                    op = 'bvsdiv' if o == 'Odiv' else 'bvsrem'
                else:
                    ok = nz
                    op = 'bvudiv' if o == 'Odiv' else 'bvurem'
                return t, '(%s %s %s)' % (op, x, y), conj(d, ok)
            cmpops = {'Oeq': ('=', '='), 'One': None, 'Olt': ('bvslt', 'bvult'), 'Ole': ('bvsle', 'bvule'),
                      'Ogt': ('bvsgt', 'bvugt'), 'Oge': ('bvsge', 'bvuge')}
            if o in cmpops:
                if o == 'One':
                    c = '(not (= %s %s))' % (x, y)
                else:
                    c = '(%s %s %s)' % (cmpops[o][0 if st else 1], x, y)
                return 'CI32', '(ite %s %s %s)' % (c, bvconst(1, 32), bvconst(0, 32)), d
            raise NoSmt('operator ' + o)
        if k == 'ECond':
            tc, c, dc = self.enc(e[1])
            ta, a, da = self.enc(e[2])
            tb, b, db = self.enc(e[3])
            if ta != tb:
                raise NoSmt('arms of ?: have different types')
            tr = self.truth(tc, c)
            arms = 'true' if da == 'true' and db == 'true' else '(ite %s %s %s)' % (tr, da, db)
            return ta, '(ite %s %s %s)' % (tr, a, b), conj(dc, arms)
        raise NoSmt('expression %r' % (k,))


def run_solver(text, timeout=TIMEOUT):
    """-> ('unsat' | 'sat' | 'unknown', model dict)"""
    with tempfile.NamedTemporaryFile('w', suffix='.smt2', delete=False) as f:
        f.write(text)
        path = f.name
    try:
        for cmd in (['z3', '-smt2', '-T:%d' % timeout, path], ['cvc5', '--produce-models', '--tlimit=%d' % (timeout * 1000), path]):
            try:
                p = subprocess.run(cmd, capture_output=True, text=True, timeout=timeout + 10)
            except (OSError, subprocess.TimeoutExpired):
                continue
            out = p.stdout
            first = out.strip().split('\n')[0].strip() if out.strip() else ''
            if first == 'unsat':
                return 'unsat', {}
            if first == 'sat':
                model = {}
                for m in re.finditer(r'\(define-fun\s+p(\d+)\s+\(\)\s+\(_ BitVec 64\)\s+(#x[0-9a-fA-F]+|#b[01]+)\)', out):
                    v = m.group(2)
                    model[int(m.group(1))] = int(v[2:], 16 if v[1] == 'x' else 2)
                return 'sat', model
        return 'unknown', {}
    finally:
        os.remove(path)


def query(enc, goal_false):
    """is `goal_false` satisfiable?  (goal_false = the negation of what must hold)"""
    text = '(set-logic QF_BV)\n(set-option :produce-models true)\n'
    for n in sorted(enc.vars):
        text += '(declare-const p%d (_ BitVec 64))\n' % n
    text += '\n'.join(enc.defs) + '\n'
    text += '(assert %s)\n(check-sat)\n(get-model)\n' % goal_false
    return run_solver(text)


def same_value(enc, t, row_e, can_e):
    """negated claim: canonical defined and not (row defined and equal as objects of type t)"""
    tr, r, dr = enc.enc(row_e)
    tc, c, dc = enc.enc(can_e)
    if t not in TY:
        raise NoSmt('store type ' + t)
    return '(and %s (not (and %s (= %s %s))))' % (dc, dr, resize(r, tr, t), resize(c, tc, t))


def same_truth(enc, row_e, can_e, negate=False):
    tr, r, dr = enc.enc(row_e)
    tc, c, dc = enc.enc(can_e)
    a, b = enc.truth(tr, r), enc.truth(tc, c)
    if negate:
        b = '(not %s)' % b
    return '(and %s (not (and %s (= %s %s))))' % (dc, dr, a, b)


def equivalent(row, canon):
    """row, canon: statement tuples (SAssign t e | SBranch e | SOvf t e sf uf).
    -> ('equiv', None) | ('different', {operand: value}) | ('unknown', reason)"""
    try:
        if row[0] != canon[0]:
            return 'unknown', 'different statement kinds'
        goals = []
        enc = Enc()
        if row[0] == 'SAssign':
            if row[1] != canon[1]:
                return 'unknown', 'different result types'
            goals.append(same_value(enc, row[1], row[2], canon[2]))
        elif row[0] == 'SBranch':
            goals.append(same_truth(enc, row[1], canon[1]))
        elif row[0] == 'SOvf':
            if row[1] != canon[1]:
                return 'unknown', 'different result types'
            goals.append(same_value(enc, row[1], row[2], canon[2]))
            for rf, cf in ((row[3], canon[3]), (row[4], canon[4])):
                if cf is None:
                    continue        # the canonical row does not define this flag: nothing is claimed about it
                if rf is None:
                    return 'different', {}
                goals.append(same_truth(enc, rf, cf))
        else:
            return 'unknown', 'statement kind ' + row[0]
        for g in goals:
            r, model = query(enc, g)
            if r == 'sat':
                return 'different', model
            if r != 'unsat':
                return 'unknown', 'solver gave no answer in %d s' % TIMEOUT
        return 'equiv', None
    except NoSmt as e:
        return 'unknown', str(e)


def subst(e, m):
    """replace operand reads EVar n (n in m) by m[n] converted to the read type"""
    k = e[0]
    if k == 'EVar':
        return ('ECast', e[2], m[e[1]]) if e[1] in m else e
    if k == 'EConst':
        return e
    if k == 'ECast':
        return ('ECast', e[1], subst(e[2], m))
    if k == 'EUn':
        return ('EUn', e[1], subst(e[2], m))
    if k == 'EBin':
        return ('EBin', e[1], subst(e[2], m), subst(e[3], m))
    if k == 'ECond':
        return ('ECond', subst(e[1], m), subst(e[2], m), subst(e[3], m))
    raise NoSmt('expression %r' % (k,))


def tuplify(x):
    return tuple(tuplify(y) for y in x) if isinstance(x, list) else x


def load_canon(name):
    p = os.path.join(os.path.dirname(os.path.dirname(os.path.abspath(__file__))), 'corpus', name)
    if not os.path.exists(p):
        return {}
    return {k: tuplify(v) for k, v in json.load(open(p)).items()}


HINTS = os.path.join(os.path.dirname(os.path.dirname(os.path.abspath(__file__))), 'build', 'c02_smt_hints.json')


def write_hints(tag, hints):
    """operand values on which an extracted row differs from the canonical one: aimed cases for the run"""
    os.makedirs(os.path.dirname(HINTS), exist_ok=True)
    try:
        allh = json.load(open(HINTS))
    except (OSError, ValueError):
        allh = {}
    allh[tag] = hints
    json.dump(allh, open(HINTS + '.tmp%d' % os.getpid(), 'w'))
    os.rename(HINTS + '.tmp%d' % os.getpid(), HINTS)


NOTES = os.path.join(os.path.dirname(HINTS), 'c02_smt_notes.json')


def write_notes(tag, notes):
    """rows that went to Coq as the canonical row on the strength of an SMT equivalence (reported in the evidence)"""
    os.makedirs(os.path.dirname(NOTES), exist_ok=True)
    try:
        alln = json.load(open(NOTES))
    except (OSError, ValueError):
        alln = {}
    alln[tag] = notes
    json.dump(alln, open(NOTES + '.tmp%d' % os.getpid(), 'w'))
    os.rename(NOTES + '.tmp%d' % os.getpid(), NOTES)

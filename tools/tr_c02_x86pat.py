#!/usr/bin/env python3
# tr_c02_x86pat: regenerate coq/gen/X86Patterns.v from mir-gen-x86_64.c of the CURRENT tree:
#  * patterns[] (after gcc -E -P of mir-gen.c, so the local IOP/CMP/BCMP/... macros are expanded by the
#    real preprocessor): every row (code, operand pattern, replacement template), tokenised;
#  * target_get_early_clobbered_hard_regs: the opcodes for which DX is early-clobbered;
#  * target_machinize: the compare opcodes after which a UEXT8 of the result is inserted.
# The tokens carry no semantics here; MirV.C02.X86Sem gives them their meaning.  Tokens the model does not
# know become Tother / Pother (the row then has no decoding; rows of in-scope opcodes must decode).
import sys, os, re
sys.path.insert(0, os.path.dirname(os.path.abspath(__file__)))
import vlib
import tr_opcodes
from tr_c02_clib import find_function


def preprocess(repo):
    rc, out, err = vlib.sh(['gcc', '-E', '-P', '-DMIR_VERIF', '-DNDEBUG', '-I' + repo, os.path.join(repo, 'mir-gen.c')], check=True)
    return out


def rows(src):
    i = src.index('static struct pattern patterns[] = {')
    j = src.index('};', i)
    body = src[i:j]
    out = []
    for m in re.finditer(r'\{\s*MIR_(\w+)\s*,\s*((?:"[^"]*"\s*)+),\s*((?:"[^"]*"\s*)+)(?:,\s*\d+\s*)?\}', body):
        cat = lambda x: ''.join(re.findall(r'"([^"]*)"', x))
        out.append((m.group(1), cat(m.group(2)), cat(m.group(3))))
    return out


def coq_str(s):
    return '"' + s.replace('"', '""') + '"'


def pat_tokens(p):
    out = []
    for t in p.split():
        if t == 'r':
            out.append('PR')
        elif re.match(r'^h\d+$', t):
            out.append('(PH %d)' % int(t[1:]))
        elif t == 'z':
            out.append('PZ')
        elif re.match(r'^i[0-3]$', t):
            out.append('(PI %d)' % int(t[1]))
        elif t == 's':
            out.append('PS')
        elif re.match(r'^c\d+$', t):
            out.append('(PC %d)' % int(t[1:]))
        elif re.match(r'^m[0-3]$', t):
            out.append('(PM None %d)' % int(t[1]))
        elif re.match(r'^ms[0-3]$', t):
            out.append('(PM (Some true) %d)' % int(t[2]))
        elif re.match(r'^mu[0-3]$', t):
            out.append('(PM (Some false) %d)' % int(t[2]))
        elif t == 'l':
            out.append('(PLab true)')
        elif t == 'L':
            out.append('(PLab false)')
        elif re.match(r'^\d$', t):
            out.append('(PSame %d)' % int(t))
        else:
            out.append('(Pother %s)' % coq_str(t))
    return '[' + '; '.join(out) + ']'


def tmpl_tokens(r):
    insns = []
    for ins in r.split(';'):
        toks = []
        for t in ins.split():
            if t in ('X', 'Y', 'Z'):
                toks.append('T' + t)
            elif re.match(r'^[0-9A-F]{2}$', t):
                toks.append('(TB %d)' % int(t, 16))
            elif re.match(r'^[rRSmiIJlL][0-2]$', t):
                toks.append('(T%s %d)' % (t[0], int(t[1])))
            elif re.match(r'^/[0-7]$', t):
                toks.append('(TSl %d)' % int(t[1]))
            elif t in ('ap', 'am'):
                toks.append('T' + t)
            elif re.match(r'^v[0-9A-Fa-f]+$', t):
                toks.append('(Tv %d)' % int(t[1:], 16))
            elif re.match(r'^V[0-9A-Fa-f]+$', t):
                toks.append('(TV %d)' % int(t[1:], 16))
            elif re.match(r'^\+[0-2]$', t):
                toks.append('(TPlus %d)' % int(t[1]))
            else:
                toks.append('(Tother %s)' % coq_str(t))
        insns.append('[' + '; '.join(toks) + ']')
    return '[' + '; '.join(insns) + ']'


def code_list(body, regvar):
    """opcodes tested in the `if (code == MIR_A || ...)` that assigns regvar (e.g. `*hr1 = DX_HARD_REG`)"""
    out = []
    for m in re.finditer(r'if\s*\(((?:\s*code\s*==\s*MIR_\w+\s*\|\|)*\s*code\s*==\s*MIR_\w+\s*)\)\s*\{([^}]*)\}', body):
        if re.search(regvar, m.group(2)) and not re.search(r'AX_HARD_REG', m.group(2)):
            out += re.findall(r'MIR_(\w+)', m.group(1))
    return out


def uext8_codes(src):
    r = find_function(src, 'target_machinize')
    if r is None:
        return []
    body = r[1]
    m = re.search(r'((?:case\s+MIR_\w+\s*:\s*)+)\{\s*new_insn\s*=\s*MIR_new_insn\s*\(ctx,\s*MIR_UEXT8,\s*insn->ops\[0\],\s*insn->ops\[0\]\);\s*'
                  r'gen_add_insn_after\s*\(gen_ctx,\s*insn,\s*new_insn\);', body)
    return re.findall(r'MIR_(\w+)', m.group(1)) if m else []


def selection_order_problems(src):
    """the model's x86_select = first matching row of the opcode in table order; that rests on two small
    pieces of code, checked textually"""
    problems = []
    squash = lambda t: re.sub(r'\s+', '', t)
    f = find_function(src, 'find_insn_pattern')
    body = squash(f[1]) if f else ''
    # an increasing scan of the opcode's slice of pattern_indexes that returns at the first match:
    #   for (i = 0; i < info.num; i++) ind = ...(pattern_indexes, info.start + i)      or
    #   for (i = info.start; i < info.bound; i++) ind = ...(pattern_indexes, i)
    shape = (r'for\(i=(?:0|info\.\w+);i<info\.\w+;i\+\+\)\{ind=[^;]*pattern_indexes,(?:info\.\w+\+i|i\+info\.\w+|i)\)+;pat=&patterns\[ind\];'
             r'if\(pattern_match_p\(gen_ctx,pat,insn,[^;{]*\)\)\{(?:if\([^;{]*\)[^;{]*;)?returnind;\}\}return-1;$')
    if not re.search(shape, body):
        problems.append('find_insn_pattern no longer returns the first matching row of the opcode in table order')
    c = find_function(src, 'pattern_index_cmp')
    if not c or squash('return c1 != c2 ? c1 - c2 : (long) i1 - (long) i2;') not in squash(c[1]):
        problems.append('pattern_index_cmp no longer keeps table order among the rows of one opcode')
    return problems


def main():
    repo = vlib.REPO
    src = preprocess(repo)
    ops = set(tr_opcodes.opcodes(repo))
    allrows = rows(src)
    problems = selection_order_problems(src)
    i = src.index('static struct pattern patterns[] = {')
    nbraces = src[i:src.index('};', i)].count('{') - 1
    if nbraces != len(allrows):
        problems.append('patterns[]: %d initialisers but %d rows understood' % (nbraces, len(allrows)))
    rs = [r for r in allrows if r[0] in ops]
    ec = find_function(src, 'target_get_early_clobbered_hard_regs')
    early = code_list(ec[1], r'\*hr1\s*=\s*DX_HARD_REG') if ec else []
    ue = uext8_codes(src)
    s = '(* GENERATED on every run by tools/tr_c02_x86pat.py from mir-gen-x86_64.c of the checked tree. *)\n'
    s += 'From Coq Require Import ZArith List String.\nFrom MirV Require Import Mir.Opcode C02.X86Sem.\n'
    s += 'Import ListNotations.\nLocal Open Scope Z_scope.\nLocal Open Scope string_scope.\n\n'
    s += 'Definition x86_table : list xrow :=\n  [ '
    s += '\n  ; '.join('(%s, %s, %s)' % (c, pat_tokens(p), tmpl_tokens(r)) for c, p, r in rs) + ' ].\n\n'
    s += '(* opcodes whose inputs may not live in DX (target_get_early_clobbered_hard_regs) *)\n'
    s += 'Definition early_dx : list opcode := [' + '; '.join(early) + '].\n\n'
    s += '(* compare opcodes after which target_machinize inserts `uext8 res, res` *)\n'
    s += 'Definition cmp_uext8 : list opcode := [' + '; '.join(c for c in ue if c in ops) + '].\n'
    out = os.path.join(vlib.COQDIR, 'gen', 'X86Patterns.v')
    os.makedirs(os.path.dirname(out), exist_ok=True)
    old = open(out).read() if os.path.exists(out) else None
    if old != s:
        open(out + '.tmp%d' % os.getpid(), 'w').write(s)
        os.rename(out + '.tmp%d' % os.getpid(), out)
    print('X86Patterns: %d rows, %d early-DX opcodes, %d compare opcodes with uext8' % (len(rs), len(early), len(ue)))
    return problems


if __name__ == '__main__':
    main()

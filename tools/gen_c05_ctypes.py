# C05 (round 3, wave v): C aggregate TYPES for the c2m <-> native stage.
# A prototype's block argument `blkK:size` used to stand for ONE fixed C struct per class (gen_c05_cfile.struct_def):
# flat structs, never a member aggregate sharing an eightbyte with scalar siblings.  Here: type trees (struct / union /
# array / anonymous members at any depth, scalars of both register classes), their SysV layout and eightbyte classes
# computed independently of c2mir (validated on every run against gcc: direction g of checks/c05.py: c2m_run), rendered
# as C text.  The MIR block type (`blk1` INTEGER.., `blk2` SSE.., `blk3` INTEGER,SSE, `blk4` SSE,INTEGER, `blk` MEMORY)
# follows from the classes; the values stay opaque bytes, so every comparison of the stage applies unchanged.
# Type tree:  ('s', cname) | ('S', [(type, anon)]) | ('U', [(type, anon)]) | ('A', type, n)

SCAL = {'char': (1, 'I'), 'signed char': (1, 'I'), 'unsigned char': (1, 'I'), 'short': (2, 'I'), 'unsigned short': (2, 'I'),
        'int': (4, 'I'), 'unsigned': (4, 'I'), 'long': (8, 'I'), 'unsigned long': (8, 'I'), 'void *': (8, 'I'),
        'float': (4, 'X'), 'double': (8, 'X')}


def S(*ms):
    return ('S', [m if isinstance(m, tuple) and len(m) == 2 and isinstance(m[1], bool) else (m, False) for m in ms])


def U(*ms):
    return ('U', [m if isinstance(m, tuple) and len(m) == 2 and isinstance(m[1], bool) else (m, False) for m in ms])


def A(t, n):
    return ('A', t, n)


def sc(n):
    return ('s', n)


def anon(t):
    return (t, True)


def size_align(t):
    k = t[0]
    if k == 's':
        s = SCAL[t[1]][0]
        return s, s
    if k == 'A':
        s, a = size_align(t[1])
        return s * t[2], a
    size, al = 0, 1
    for m, _ in t[1]:
        s, a = size_align(m)
        al = max(al, a)
        if k == 'S':
            size = (size + a - 1) // a * a + s
        else:
            size = max(size, s)
    return (size + al - 1) // al * al, al


def scalars(t, off=0):
    """[(offset, size, class)] of every scalar of t placed at off"""
    k = t[0]
    if k == 's':
        s, c = SCAL[t[1]]
        return [(off, s, c)]
    if k == 'A':
        s, _ = size_align(t[1])
        out = []
        for i in range(t[2]):
            out += scalars(t[1], off + i * s)
        return out
    out, o = [], 0
    for m, _ in t[1]:
        s, a = size_align(m)
        if k == 'S':
            o = (o + a - 1) // a * a
            out += scalars(m, off + o)
            o += s
        else:
            out += scalars(m, off)
    return out


def classes(t):
    """per eightbyte 'I' / 'X' (psABI 3.2.3 merge: INTEGER wins), or None = MEMORY / not usable"""
    size, _ = size_align(t)
    if size > 16 or size == 0:
        return None
    cl = [None] * ((size + 7) // 8)
    for o, s, c in scalars(t):
        q = o // 8
        assert (o + s - 1) // 8 == q
        cl[q] = 'I' if 'I' in (cl[q], c) else 'X'
    return None if None in cl else cl


def blk_type(t):
    """MIR block type text for a by-value argument of C type t (top level struct/union)"""
    size, _ = size_align(t)
    cl = classes(t)
    if cl is None:
        return 'blk:%d' % size if size > 16 else None
    k = {'I': 'blk1', 'X': 'blk2', 'II': 'blk1', 'XX': 'blk2', 'IX': 'blk3', 'XI': 'blk4'}[''.join(cl)]
    return '%s:%d' % (k, size)


def res_types(t):
    cl = classes(t)
    return None if cl is None else ['i64' if c == 'I' else 'd' for c in cl]


def ctext(t, name='', ctr=None):
    """C declaration text of `name` with type t (name '' = abstract type); member names are unique over the whole
    tree (anonymous members inject theirs into the enclosing scope)"""
    if ctr is None:
        ctr = [0]
    k = t[0]
    if k == 's':
        return (t[1] + ' ' + name).strip() if name else t[1]
    if k == 'A':
        return ctext(t[1], '%s[%d]' % (name, t[2]), ctr)
    body = []
    for m, an in t[1]:
        if an and m[0] in 'SU':
            body.append(ctext(m, '', ctr) + ';')
        else:
            ctr[0] += 1
            body.append(ctext(m, 'm%d' % ctr[0], ctr) + ';')
    return ('%s { %s } %s' % ('struct' if k == 'S' else 'union', ' '.join(body), name)).strip()


def depth(t):
    if t[0] == 's':
        return 0
    if t[0] == 'A':
        return depth(t[1])
    return 1 + max(depth(m) for m, _ in t[1])


def shares_eightbyte(t):
    """does a member aggregate (depth >= 2) put scalars into an eightbyte that also holds scalars of another class
    coming from outside that member aggregate?  (the boundary this family is aimed at)"""
    if t[0] not in 'SU':
        return False
    per = []
    o = 0
    for m, _ in t[1]:
        s, a = size_align(m)
        if t[0] == 'S':
            o = (o + a - 1) // a * a
            per.append((m, scalars(m, o)))
            o += s
        else:
            per.append((m, scalars(m, 0)))
    for i, (m, ss) in enumerate(per):
        if m[0] == 's':
            continue
        mine = {(x[0] // 8, x[2]) for x in ss}
        for j, (m2, ss2) in enumerate(per):
            if i != j and any((x[0] // 8, c) in mine for x in ss2 for c in 'IX' if c != x[2]):
                return True
    return any(shares_eightbyte(m) for m, _ in t[1] if m[0] in 'SU') or any(shares_eightbyte(m[1]) for m, _ in t[1] if m[0] == 'A')


# ---------------------------------------------------------------- aimed shapes

def wrappers(b):
    """member aggregates consisting of the scalar b only"""
    return [('struct', S(sc(b))), ('union', U(sc(b))), ('array', A(sc(b), 1)), ('struct2', S(S(sc(b)))),
            ('arr-in-struct', S(A(sc(b), 1))), ('anon', anon(S(sc(b)))), ('anon-union', anon(U(sc(b)))),
            ('struct-arr', A(S(sc(b)), 1)), ('union-of-struct', U(S(sc(b)), sc(b)))]


def aimed_shapes():
    """[(description, type)]: a scalar of one class and a member aggregate of the same / the other class in ONE eightbyte
    (first or second eightbyte, both orders, every wrapper), members overlapping in unions, deeper nestings"""
    out = []
    for a, b in (('int', 'float'), ('float', 'int'), ('float', 'float'), ('int', 'int'), ('short', 'float'), ('float', 'short')):
        for wn, w in wrappers(b):
            out.append(('%s+%s(%s)' % (a, wn, b), S(sc(a), w)))
            for lead in ('double', 'long'):
                out.append(('%s,%s+%s(%s)' % (lead, a, wn, b), S(sc(lead), sc(a), w)))
        for wn, w in wrappers(a)[:4]:
            out.append(('%s(%s)+%s' % (wn, a, b), S(w, sc(b))))
            out.append(('%s(%s)+%s(%s)' % (wn, a, wn, b), S(w, dict(wrappers(b))[wn])))
    # the eightbyte of the member aggregate is shared with several smaller siblings
    out.append(('double,short,struct(float)', S(sc('double'), sc('short'), S(sc('float')))))
    out.append(('char,char,short,struct(float)', S(sc('char'), sc('char'), sc('short'), S(sc('float')))))
    out.append(('struct(float),char', S(S(sc('float')), sc('char'))))
    out.append(('float,struct(char)', S(sc('float'), S(sc('char')))))
    out.append(('struct(char,short)+struct(float)', S(S(sc('char'), sc('short')), S(sc('float')))))
    out.append(('struct(float)+struct(char[3])', S(S(sc('float')), S(A(sc('char'), 3)))))
    out.append(('float[3]+struct(int)', S(A(sc('float'), 3), S(sc('int')))))
    out.append(('int[3]+struct(float)', S(A(sc('int'), 3), S(sc('float')))))
    out.append(('struct(int,float)[2]', S(A(S(sc('int'), sc('float')), 2))))
    out.append(('struct(float,int)[2]', S(A(S(sc('float'), sc('int')), 2))))
    out.append(('struct(struct(float),int)[2]', S(A(S(S(sc('float')), sc('int')), 2))))
    out.append(('struct(int,struct(float))[2]', S(A(S(sc('int'), S(sc('float'))), 2))))
    # a member aggregate that starts inside the first eightbyte and ends in the second
    for a in ('int', 'float'):
        for b, c in (('float', 'float'), ('float', 'int'), ('int', 'float'), ('int', 'int')):
            out.append(('%s+struct(%s,%s)' % (a, b, c), S(sc(a), S(sc(b), sc(c)))))
            out.append(('%s+%s[2]-in-struct' % (a, c), S(sc(a), S(A(sc(c), 2)))))
            out.append(('%s+struct(%s)[2]' % (a, c), S(sc(a), A(S(sc(c)), 2))))
            out.append(('%s+struct(%s,struct(%s))' % (a, b, c), S(sc(a), S(sc(b), S(sc(c))))))
            out.append(('%s+union{struct(%s,%s);%s}' % (a, b, c, b), S(sc(a), U(S(sc(b), sc(c)), sc(b)))))
            out.append(('%s+anon-struct(%s,%s)' % (a, b, c), S(sc(a), anon(S(sc(b), sc(c))))))
    out.append(('short+struct(short,float,float)', S(sc('short'), S(sc('short'), sc('float'), sc('float')))))
    out.append(('float+struct(float,short,char)', S(sc('float'), S(sc('float'), sc('short'), sc('char')))))
    # overlaps in unions
    for x, y in (('long', 'double'), ('double', 'long'), ('int', 'float'), ('float', 'int'), ('double', 'double'), ('long', 'long')):
        for wn, w in wrappers(y)[:6]:
            out.append(('union{%s;%s(%s)}' % (x, wn, y), U(sc(x), w)))
            out.append(('union{%s(%s);%s}' % (wn, y, x), U(w, sc(x))))
    out.append(('union{long[2];struct(double,double)}', U(A(sc('long'), 2), S(sc('double'), sc('double')))))
    out.append(('union{struct(double,double);long}', U(S(sc('double'), sc('double')), sc('long'))))
    out.append(('union{struct(double,double);struct(double,long)}', U(S(sc('double'), sc('double')), S(sc('double'), sc('long')))))
    out.append(('union{struct(long,double);struct(double,double)}', U(S(sc('long'), sc('double')), S(sc('double'), sc('double')))))
    out.append(('struct{int;union{float;struct(float)}}', S(sc('int'), U(sc('float'), S(sc('float'))))))
    out.append(('struct{union{int;float};struct(float)}', S(U(sc('int'), sc('float')), S(sc('float')))))
    out.append(('struct{union{float;struct(float)};int}', S(U(sc('float'), S(sc('float'))), sc('int'))))
    out.append(('struct{double;union{struct(float,float);long}}', S(sc('double'), U(S(sc('float'), sc('float')), sc('long')))))
    out.append(('struct{long;union{struct(float,float);double}}', S(sc('long'), U(S(sc('float'), sc('float')), sc('double')))))
    # depth 3 and 4
    out.append(('int+struct(struct(struct(float)))', S(sc('int'), S(S(S(sc('float')))))))
    out.append(('struct(struct(int))+struct(struct(float))', S(S(S(sc('int'))), S(S(sc('float'))))))
    out.append(('struct(int,struct(float))+struct(struct(float),int)', S(S(sc('int'), S(sc('float'))), S(S(sc('float')), sc('int')))))
    out.append(('struct(struct(float),int)+struct(float,struct(float))', S(S(S(sc('float')), sc('int')), S(sc('float'), S(sc('float'))))))
    # memory class with the same inner shapes (nothing may reach a register)
    out.append(('long,int+struct(float),double', S(sc('long'), sc('int'), S(sc('float')), sc('double'))))
    out.append(('struct(int,struct(float))[3]', S(A(S(sc('int'), S(sc('float'))), 3))))
    seen, res = set(), []
    for d, t in out:
        if blk_type(t) is not None and ctext(t) not in seen:
            seen.add(ctext(t))
            res.append((d, t))
    return res


# ---------------------------------------------------------------- random shapes

WEIGHTED = (['char'] * 2 + ['unsigned char', 'short', 'short', 'unsigned short'] + ['int'] * 4 + ['unsigned'] + ['float'] * 7 +
            ['long'] * 2 + ['double'] * 3 + ['void *'])


def gen_tree(rng, d, top=True):
    r = rng.random()
    if not top and (d <= 0 or r < 0.45):
        t = sc(rng.choice(WEIGHTED))
        if rng.random() < 0.15:
            t = A(t, rng.choice([1, 2, 2, 3]))
        return t
    if not top and r < 0.55:
        return A(gen_tree(rng, d - 1, False), rng.choice([1, 2]))
    n = rng.choice([1, 2, 2, 2, 3, 3, 4])
    ms = []
    for _ in range(n):
        m = gen_tree(rng, d - 1, False)
        ms.append((m, m[0] in 'SU' and rng.random() < 0.2))
    return ('U' if rng.random() < 0.25 else 'S', ms)


def gen_shape(rng, want_regs=True):
    """a random top-level struct/union; want_regs: size <= 16 (register classes), else 17..40 bytes (MEMORY)"""
    for _ in range(400):
        t = gen_tree(rng, rng.choice([1, 2, 2, 3, 3, 4]))
        size, _ = size_align(t)
        if want_regs and (size > 16 or classes(t) is None):
            continue
        if not want_regs and not 17 <= size <= 40:
            continue
        if want_regs and depth(t) >= 2 and not shares_eightbyte(t) and rng.random() < 0.7:
            continue
        if want_regs and depth(t) < 2 and rng.random() < 0.8:
            continue
        return t
    return S(sc('int'), S(sc('float')))

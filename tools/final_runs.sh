#!/bin/bash
# coordinator: final seeded matrix + harmless runs for the given properties, one after another
# (properties that share generated Coq tables must be given to the same invocation, never run concurrently).
# usage: tools/final_runs.sh <tag> Cxx...    -> /var/tmp/final-<tag>-seeded.log, /var/tmp/final-<tag>-harmless.log
cd /verif
tag=$1; shift
so=/var/tmp/final-$tag-seeded.log; ho=/var/tmp/final-$tag-harmless.log
: > $so; : > $ho
for p in "$@"; do
  for d in seeded/$p-[a-z]*; do
    [ -f $d/patch.diff ] || continue
    st=$(python3 -c "import json;print(json.load(open('$d/meta.json')).get('status',''))")
    case "$st" in obsolete-code-removed) continue;; esac
    timeout 3600 python3 tools/run_seeded.py $d >> $so 2>&1
  done
  for d in seeded/harmless/$p-h*; do
    [ -f $d/patch.diff ] || continue
    k=$(basename $d); k=${k#*-}
    rm -rf /var/tmp/hfinal/$p/$k; mkdir -p /var/tmp/hfinal/$p/$k; cp $d/patch.diff $d/meta.json /var/tmp/hfinal/$p/$k/
    timeout 3600 python3 tools/run_harmless.py /var/tmp/hfinal/$p/$k >> $ho 2>&1
  done
done
echo DONE >> $so

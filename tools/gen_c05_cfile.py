# C05/C06: generate C source with gcc-compiled callers and callees for MIR prototypes that are
# expressible in C (the three-way validation: SysV model <-> platform compiler <-> MIR).
#   void gcaller_<k> (void *fn) : calls fn through the C prototype with the argument values found in
#                                 c05_vals (same layout as the MIR caller uses), stores the result in c05_seen
#   RET  callee_<k> (params)    : stores every parameter into c05_seen at the layout offsets (variadic
#                                 tail via va_arg) and returns values taken from c05_ret
import gen_c05_cases as G

CT = {'i8': 'signed char', 'u8': 'unsigned char', 'i16': 'short', 'u16': 'unsigned short', 'i32': 'int',
      'u32': 'unsigned int', 'i64': 'long', 'u64': 'unsigned long', 'p': 'void *', 'f': 'float', 'd': 'double',
      'ld': 'long double'}


def struct_def(t):
    """C struct with the psABI class that MIR block type t stands for, or None"""
    k, s = t.split(':')
    s = int(s)
    if k == 'blk':
        if s >= 17:
            return 'struct { char b[%d]; }' % s
        if s >= 3:  # unaligned member => class MEMORY
            return 'struct __attribute__ ((packed)) { char c; short s; %s}' % ('char b[%d]; ' % (s - 3) if s > 3 else '')
        return None
    if k == 'blk1':
        return 'struct { char b[%d]; }' % s
    if k == 'blk2':
        return {4: 'struct { float a; }', 8: 'struct { double a; }', 12: 'struct { float a, b, c; }',
                16: 'struct { double a, b; }'}.get(s)
    if k == 'blk3':
        return {12: 'struct { int a, b; float c; }', 16: 'struct { long a; double b; }'}.get(s)
    if k == 'blk4':
        if s == 16:
            return 'struct { double a; long b; }'
        if s == 12:
            return 'struct { float a, b; int c; }'
        if 9 <= s <= 15:
            return 'struct __attribute__ ((packed)) { double a; char b[%d]; }' % (s - 8)
    return None


def expressible(p, callee_side=False):
    """-> dict(ret=C type text or None, sret=bool, args=[C types], tail start) or None"""
    args = list(p['args'])
    nf = p['nfixed']
    sret = None
    if args and args[0].startswith('rblk'):
        if nf < 1 or p['res']:
            return None
        s = int(args[0].split(':')[1])
        if s < 17:
            return None
        sret = 'struct { char b[%d]; }' % s
    if any(a.startswith('rblk') for a in args[1:]):
        return None
    if p['vararg'] and nf - (1 if sret else 0) < 1:
        return None
    cts = []
    for i, a in enumerate(args):
        if i == 0 and sret:
            continue
        if G.is_blk(a):
            d = struct_def(a)
            if d is None:
                return None
            cts.append(d)
        else:
            if i >= nf and a not in ('i64', 'd', 'ld'):
                return None
            cts.append(CT[a])
    res = p['res']
    if sret:
        ret = sret
    elif len(res) == 0:
        ret = 'void'
    elif len(res) == 1:
        ret = CT[res[0]]
    elif len(res) == 2:
        pair = tuple('i' if r in ('i64', 'u64', 'p') else r for r in res)
        ret = {('i', 'i'): 'struct { long a, b; }', ('d', 'd'): 'struct { double a, b; }',
               ('i', 'd'): 'struct { long a; double b; }', ('d', 'i'): 'struct { double a; long b; }',
               ('ld', 'ld'): '_Complex long double'}.get(pair)
        if ret is None:
            return None
    else:
        return None
    return dict(ret=ret, sret=bool(sret), cts=cts)


def gen_cfile(protos):
    """protos: list of prototypes; returns (C text, [index of expressible protos])"""
    L = ['#include <string.h>', '#include <stdarg.h>', '#include <stdint.h>',
         'extern unsigned char *c05_vals, *c05_seen; extern unsigned char c05_ret[80];',
         'struct c05_gen_entry { const char *name; void *addr; };']
    ok = []
    tab = []
    for k, p in enumerate(protos):
        e = expressible(p)
        if e is None:
            continue
        ok.append(k)
        offs, _ = G.layout(p)
        args = p['args'][1:] if e['sret'] else p['args']
        aoffs = offs[1:] if e['sret'] else offs
        nf = p['nfixed'] - (1 if e['sret'] else 0)
        L.append('/* %d: %s */' % (k, G.proto_sig(p)))
        for i, ct in enumerate(e['cts']):
            L.append('typedef %s T%d_%d;' % (ct, k, i))
        L.append('typedef %s R%d;' % (e['ret'], k))
        params = ', '.join('T%d_%d a%d' % (k, i, i) for i in range(nf))
        ptypes = ', '.join('T%d_%d' % (k, i) for i in range(nf))
        if p['vararg']:
            params += ', ...'
            ptypes += ', ...'
        if not params:
            params = ptypes = 'void'
        # caller
        L.append('void gcaller_%d (void *fn) {' % k)
        for i in range(len(args)):
            L.append('  T%d_%d v%d; memcpy (&v%d, c05_vals + %d, sizeof (v%d));' % (k, i, i, i, aoffs[i], i))
        call = '((R%d (*) (%s)) fn) (%s)' % (k, ptypes, ', '.join('v%d' % i for i in range(len(args))))
        if e['ret'] == 'void':
            L.append('  %s;' % call)
        else:
            L.append('  R%d r = %s; memcpy (c05_seen + 2048, &r, sizeof (r));' % (k, call))
        L.append('}')
        # callee
        L.append('R%d callee_%d (%s) {' % (k, k, params))
        for i in range(nf):
            L.append('  memcpy (c05_seen + %d, &a%d, sizeof (a%d));' % (aoffs[i], i, i))
        if p['vararg']:
            L.append('  va_list ap; va_start (ap, a%d);' % (nf - 1))
            for i in range(nf, len(args)):
                L.append('  { T%d_%d t = va_arg (ap, T%d_%d); memcpy (c05_seen + %d, &t, sizeof (t)); }' % (k, i, k, i, aoffs[i]))
            L.append('  va_end (ap);')
        res = p['res']
        if e['sret']:
            L.append('  R%d r; memset (&r, 0x5a, sizeof (r)); return r;' % k)
        elif len(res) == 1:
            src = {'f': 16, 'd': 16, 'ld': 32}.get(res[0], 0)
            L.append('  R%d r; memcpy (&r, c05_ret + %d, sizeof (r)); return r;' % (k, src))
        elif len(res) == 2:
            cls = ['x' if r == 'd' else 'l' if r == 'ld' else 'i' for r in res]
            src = []
            cnt = {'i': 0, 'x': 0, 'l': 0}
            for c in cls:
                src.append({'i': [0, 8], 'x': [16, 24], 'l': [32, 48]}[c][cnt[c]])
                cnt[c] += 1
            if res[0] == 'ld':
                L.append('  long double re, im; memcpy (&re, c05_ret + 32, 10); memcpy (&im, c05_ret + 48, 10);')
                L.append('  R%d r; __real__ r = re; __imag__ r = im; return r;' % k)
            else:
                L.append('  R%d r; memcpy (&r.a, c05_ret + %d, 8); memcpy (&r.b, c05_ret + %d, 8); return r;' % (k, src[0], src[1]))
        L.append('}')
        tab.append('  {"gcaller%d", (void *) gcaller_%d}, {"callee%d", (void *) callee_%d},' % (k, k, k, k))
    L.append('struct c05_gen_entry c05_gen_table[] = {')
    L += tab
    L.append('  {0, 0}};')
    return '\n'.join(L) + '\n', ok

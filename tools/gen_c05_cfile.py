# C05/C06: generate C source with gcc-compiled callers and callees for MIR prototypes that are
# expressible in C (the three-way validation: SysV model <-> platform compiler <-> MIR).
#   void gcaller_<k> (void *fn) : calls fn through the C prototype with the argument values found in
#                                 c05_vals (same layout as the MIR caller uses), stores the result in c05_seen
#   RET  callee_<k> (params)    : stores every parameter into c05_seen at the layout offsets (variadic
#                                 tail via va_arg) and returns values taken from c05_ret
import gen_c05_cases as G

CT = {'i8': 'signed char', 'u8': 'unsigned char', 'i16': 'short', 'u16': 'unsigned short', 'i32': 'int',
      'u32': 'unsigned int', 'i64': 'long', 'u64': 'unsigned long', 'p': 'void *', 'f': 'float', 'd': 'double',
      'ld': 'long double'}


def struct_def(t):
    """C struct with the psABI class that MIR block type t stands for, or None"""
    k, s = t.split(':')
    s = int(s)
    if k == 'blk':
        if s >= 17:
            return 'struct { char b[%d]; }' % s
        if s >= 3:  # unaligned member => class MEMORY
            return 'struct __attribute__ ((packed)) { char c; short s; %s}' % ('char b[%d]; ' % (s - 3) if s > 3 else '')
        return None
    if k == 'blk1':
        return 'struct { char b[%d]; }' % s
    if k == 'blk2':
        return {4: 'struct { float a; }', 8: 'struct { double a; }', 12: 'struct { float a, b, c; }',
                16: 'struct { double a, b; }'}.get(s)
    if k == 'blk3':
        return {12: 'struct { int a, b; float c; }', 16: 'struct { long a; double b; }'}.get(s)
    if k == 'blk4':
        if s == 16:
            return 'struct { double a; long b; }'
        if s == 12:
            return 'struct { float a, b; int c; }'
        if 9 <= s <= 15:
            return 'struct __attribute__ ((packed)) { double a; char b[%d]; }' % (s - 8)
    return None


def expressible(p, callee_side=False):
    """-> dict(ret=C type text or None, sret=bool, args=[C types], tail start) or None"""
    args = list(p['args'])
    nf = p['nfixed']
    sret = None
    if args and args[0].startswith('rblk'):
        if nf < 1 or p['res']:
            return None
        s = int(args[0].split(':')[1])
        if s < 17:
            return None
        sret = 'struct { char b[%d]; }' % s
    if any(a.startswith('rblk') for a in args[1:]):
        return None
    if p['vararg'] and nf - (1 if sret else 0) < 1:
        return None
    cts = []
    cty = p.get('cty') or [None] * len(args)   # per argument: C type text overriding the menu (gen_c05_ctypes shapes)
    for i, a in enumerate(args):
        if i == 0 and sret:
            continue
        if G.is_blk(a):
            d = cty[i] or struct_def(a)
            if d is None:
                return None
            cts.append(d)
        else:
            if i >= nf and a not in ('i64', 'd', 'ld'):
                return None
            cts.append(CT[a])
    res = p['res']
    if sret:
        ret = sret
    elif p.get('rcty'):   # aggregate result of 1 / 2 eightbytes with classes res (i64 = INTEGER, d = SSE), size rsize
        if not 1 <= len(res) <= 2 or any(r not in ('i64', 'd') for r in res):
            return None
        ret = p['rcty']
    elif len(res) == 0:
        ret = 'void'
    elif len(res) == 1:
        ret = CT[res[0]]
    elif len(res) == 2:
        pair = tuple('i' if r in ('i64', 'u64', 'p') else r for r in res)
        ret = {('i', 'i'): 'struct { long a, b; }', ('d', 'd'): 'struct { double a, b; }',
               ('i', 'd'): 'struct { long a; double b; }', ('d', 'i'): 'struct { double a; long b; }',
               ('ld', 'ld'): '_Complex long double'}.get(pair)
        if ret is None:
            return None
    else:
        return None
    return dict(ret=ret, sret=bool(sret), cts=cts)


def gen_cfile(protos):
    """protos: list of prototypes; returns (C text, [index of expressible protos])"""
    L = ['#include <string.h>', '#include <stdarg.h>', '#include <stdint.h>',
         'extern unsigned char *c05_vals, *c05_seen; extern unsigned char c05_ret[80];',
         'struct c05_gen_entry { const char *name; void *addr; };']
    ok = []
    tab = []
    for k, p in enumerate(protos):
        e = expressible(p)
        if e is None:
            continue
        ok.append(k)
        offs, _ = G.layout(p)
        args = p['args'][1:] if e['sret'] else p['args']
        aoffs = offs[1:] if e['sret'] else offs
        nf = p['nfixed'] - (1 if e['sret'] else 0)
        L.append('/* %d: %s */' % (k, G.proto_sig(p)))
        for i, ct in enumerate(e['cts']):
            L.append('typedef %s T%d_%d;' % (ct, k, i))
        L.append('typedef %s R%d;' % (e['ret'], k))
        params = ', '.join('T%d_%d a%d' % (k, i, i) for i in range(nf))
        ptypes = ', '.join('T%d_%d' % (k, i) for i in range(nf))
        if p['vararg']:
            params += ', ...'
            ptypes += ', ...'
        if not params:
            params = ptypes = 'void'
        # caller
        L.append('void gcaller_%d (void *fn) {' % k)
        for i in range(len(args)):
            L.append('  T%d_%d v%d; memcpy (&v%d, c05_vals + %d, sizeof (v%d));' % (k, i, i, i, aoffs[i], i))
        call = '((R%d (*) (%s)) fn) (%s)' % (k, ptypes, ', '.join('v%d' % i for i in range(len(args))))
        if e['ret'] == 'void':
            L.append('  %s;' % call)
        else:
            L.append('  R%d r = %s; memcpy (c05_seen + 2048, &r, sizeof (r));' % (k, call))
        L.append('}')
        # callee
        L.append('R%d callee_%d (%s) {' % (k, k, params))
        for i in range(nf):
            L.append('  memcpy (c05_seen + %d, &a%d, sizeof (a%d));' % (aoffs[i], i, i))
        if p['vararg']:
            L.append('  va_list ap; va_start (ap, a%d);' % (nf - 1))
            for i in range(nf, len(args)):
                L.append('  { T%d_%d t = va_arg (ap, T%d_%d); memcpy (c05_seen + %d, &t, sizeof (t)); }' % (k, i, k, i, aoffs[i]))
            L.append('  va_end (ap);')
        res = p['res']
        if e['sret']:
            L.append('  R%d r; memset (&r, 0x5a, sizeof (r)); return r;' % k)
        elif p.get('rcty'):
            L += [l.replace('R r;', 'R%d r;' % k) for l in _ret_fill(p, e)]
        elif len(res) == 1:
            src = {'f': 16, 'd': 16, 'ld': 32}.get(res[0], 0)
            L.append('  R%d r; memcpy (&r, c05_ret + %d, sizeof (r)); return r;' % (k, src))
        elif len(res) == 2:
            cls = ['x' if r == 'd' else 'l' if r == 'ld' else 'i' for r in res]
            src = []
            cnt = {'i': 0, 'x': 0, 'l': 0}
            for c in cls:
                src.append({'i': [0, 8], 'x': [16, 24], 'l': [32, 48]}[c][cnt[c]])
                cnt[c] += 1
            if res[0] == 'ld':
                L.append('  long double re, im; memcpy (&re, c05_ret + 32, 10); memcpy (&im, c05_ret + 48, 10);')
                L.append('  R%d r; __real__ r = re; __imag__ r = im; return r;' % k)
            else:
                L.append('  R%d r; memcpy (&r.a, c05_ret + %d, 8); memcpy (&r.b, c05_ret + %d, 8); return r;' % (k, src[0], src[1]))
        L.append('}')
        tab.append('  {"gcaller%d", (void *) gcaller_%d}, {"callee%d", (void *) callee_%d},' % (k, k, k, k))
    L.append('struct c05_gen_entry c05_gen_table[] = {')
    L += tab
    L.append('  {0, 0}};')
    return '\n'.join(L) + '\n', ok


# ---------------------------------------------------------------- C sources compiled by c2mir (round 3)
# The same prototypes, but the CALLER (or the callee) is compiled by c2mir inside the harness (mode c2m): this puts
# c2mir's own argument classification (c2mir/x86_64/cx86_64-ABI-code.c: which aggregates travel in registers given
# the registers the earlier arguments really used) under the same image / value comparison.

C2M_DECLS = ['extern unsigned char *c05_vals, *c05_seen; extern unsigned char c05_ret[80];',
             'extern void *memcpy (void *, const void *, unsigned long); extern void *memset (void *, int, unsigned long);']


def c2m_expressible(p):
    """expressible() restricted to what c2mir accepts (no attributes, no _Complex)"""
    e = expressible(p)
    if e is None:
        return None
    if any('__attribute__' in ct for ct in e['cts']) or '_Complex' in e['ret'] or '__attribute__' in e['ret']:
        return None
    return e


def _typedefs(e):
    L = ['typedef %s T%d;' % (ct, i) for i, ct in enumerate(e['cts'])]
    L.append('typedef %s R;' % e['ret'])
    return L


def _ret_fill(p, e):
    """statements that build the callee's return value from c05_ret (as gen_cfile's callee does)"""
    res = p['res']
    if e['sret']:
        return ['  R r; memset (&r, 0x5a, sizeof (r)); return r;']
    if p.get('rcty'):   # eightbyte k of the object comes from the k-th preset register of its class
        cnt = {'i': 0, 'x': 0}
        L = ['  R r;']
        for k, r in enumerate(res):
            c = 'x' if r == 'd' else 'i'
            L.append('  memcpy ((char *) &r + %d, c05_ret + %d, %d);' % (8 * k, {'i': [0, 8], 'x': [16, 24]}[c][cnt[c]],
                                                                        min(8, p['rsize'] - 8 * k)))
            cnt[c] += 1
        return L + ['  return r;']
    if len(res) == 1:
        return ['  R r; memcpy (&r, c05_ret + %d, sizeof (r)); return r;' % {'f': 16, 'd': 16, 'ld': 32}.get(res[0], 0)]
    if len(res) == 2:
        cnt = {'i': 0, 'x': 0}
        src = []
        for r in res:
            c = 'x' if r == 'd' else 'i'
            src.append({'i': [0, 8], 'x': [16, 24]}[c][cnt[c]])
            cnt[c] += 1
        return ['  R r; memcpy (&r.a, c05_ret + %d, 8); memcpy (&r.b, c05_ret + %d, 8); return r;' % (src[0], src[1])]
    return []


def c2m_caller_source(p):
    """C translation unit for c2mir: `void caller (void)` loads the argument values from c05_vals (layout of
    gen_c05_cases.layout), calls the external `probe` through the C prototype, stores the result at c05_seen+2048"""
    e = c2m_expressible(p)
    if e is None:
        return None
    offs, _ = G.layout(p)
    args = p['args'][1:] if e['sret'] else p['args']
    aoffs = offs[1:] if e['sret'] else offs
    nf = p['nfixed'] - (1 if e['sret'] else 0)
    L = list(C2M_DECLS) + _typedefs(e)
    ptypes = ', '.join('T%d' % i for i in range(nf))
    if p['vararg']:
        ptypes += ', ...'
    L.append('extern R probe (%s);' % (ptypes or 'void'))
    L.append('void caller (void) {')
    for i in range(len(args)):
        L.append('  T%d v%d; memcpy (&v%d, c05_vals + %d, sizeof (v%d));' % (i, i, i, aoffs[i], i))
    call = 'probe (%s)' % ', '.join('v%d' % i for i in range(len(args)))
    if e['ret'] == 'void':
        L.append('  %s;' % call)
    else:
        L.append('  R r = %s; memcpy (c05_seen + 2048, &r, sizeof (r));' % call)
    L.append('}')
    return '\n'.join(L) + '\n'


def c2m_callee_source(p):
    """C translation unit for c2mir: `R callee (params)` stores every parameter into c05_seen at the layout
    offsets (variadic tail via va_arg) and returns values taken from c05_ret"""
    e = c2m_expressible(p)
    if e is None:
        return None
    offs, _ = G.layout(p)
    args = p['args'][1:] if e['sret'] else p['args']
    aoffs = offs[1:] if e['sret'] else offs
    nf = p['nfixed'] - (1 if e['sret'] else 0)
    L = ['#include <stdarg.h>'] + list(C2M_DECLS) + _typedefs(e)
    params = ', '.join('T%d a%d' % (i, i) for i in range(nf))
    if p['vararg']:
        params += ', ...'
    L.append('R callee (%s) {' % (params or 'void'))
    for i in range(nf):
        L.append('  memcpy (c05_seen + %d, &a%d, sizeof (a%d));' % (aoffs[i], i, i))
    if p['vararg']:
        L.append('  va_list ap; va_start (ap, a%d);' % (nf - 1))
        for i in range(nf, len(args)):
            L.append('  { T%d t = va_arg (ap, T%d); memcpy (c05_seen + %d, &t, sizeof (t)); }' % (i, i, aoffs[i]))
        L.append('  va_end (ap);')
    L += _ret_fill(p, e)
    L.append('}')
    return '\n'.join(L) + '\n'


def c_result_bytes(p, rets):
    """[(offset in the C result object, bytes)] a C caller must find in its result when the callee left the
    preset register values `rets` (gen_c05_cases.gen_values) - via the probe or via a callee filled from c05_ret"""
    res = p['res']
    if p['args'] and p['args'][0].startswith('rblk'):
        return []
    reg = {'i': [rets['rax'].to_bytes(8, 'little'), rets['rdx'].to_bytes(8, 'little')],
           'x': [rets['xmm0'].to_bytes(8, 'little'), rets['xmm1'].to_bytes(8, 'little')],
           'l': [rets['st0'], rets['st1']]}
    cls = lambda t: 'x' if t in ('f', 'd') else 'l' if t == 'ld' else 'i'
    size = lambda t: {'i8': 1, 'u8': 1, 'i16': 2, 'u16': 2, 'i32': 4, 'u32': 4, 'f': 4, 'ld': 10}.get(t, 8)
    if p.get('rcty'):
        cnt = {'i': 0, 'x': 0}
        out = []
        for k, t in enumerate(res):
            out.append((8 * k, reg[cls(t)][cnt[cls(t)]][:min(8, p['rsize'] - 8 * k)]))
            cnt[cls(t)] += 1
        return out
    if len(res) == 1:
        return [(0, reg[cls(res[0])][0][:size(res[0])])]
    if len(res) == 2 and 'ld' not in res:
        cnt = {'i': 0, 'x': 0}
        out = []
        for k, t in enumerate(res):
            out.append((8 * k, reg[cls(t)][cnt[cls(t)]][:8]))
            cnt[cls(t)] += 1
        return out
    return []

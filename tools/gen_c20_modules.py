# Seeded generator of well-defined single-result MIR modules (as MIR text) for the C20 compile-and-run
# correspondence: data sections (single and multi-item, bss, strings, refs), prototypes, MIR->MIR
# calls with narrow / unsigned parameters, calls to logging externals (incl. variadic), switch, loops,
# compare-and-branch insns of every kind, overflow insns with their branches, integer / float / double
# arithmetic with whole-valued FP immediates, memory operands into the data sections.
import random

M64 = (1 << 64) - 1
BLK_ARGS = True       # block arguments (by value since fix C20-11, /repo f6e1814b)
INT_TYPES = ['i8', 'u8', 'i16', 'u16', 'i32', 'u32', 'i64', 'u64']
SIZE = {'i8': 1, 'u8': 1, 'i16': 2, 'u16': 2, 'i32': 4, 'u32': 4, 'i64': 8, 'u64': 8, 'f': 4, 'd': 8, 'p': 8}


def sint(v, bits):
    v &= (1 << bits) - 1
    return v - (1 << bits) if v >> (bits - 1) else v


class Gen:
    def __init__(self, rng, features=None):
        self.rng = rng
        self.lines = []
        self.nlab = 0
        self.sections = []     # (name, size in bytes, [(offset, type)] loadable cells, writable)
        self.features = features or {}
        self.chunks = []       # (name, kind, index of its first line): data sections and functions, contiguous up to endmodule

    def chunk(self, name, kind):
        self.chunks.append((name, kind, len(self.lines)))

    def lab(self, p='L'):
        self.nlab += 1
        return '%s%d' % (p, self.nlab)

    def emit(self, s, label=None):
        self.lines.append('%-8s %s' % ((label + ':') if label else '', s))

    # ------------------------------------------------------------ data
    def data_value(self, ty):
        r = self.rng
        if ty == 'f':
            return r.choice(['1.5f', '-2.0f', '0.25f', '3.0f', '100.0f', '-0.5f'])
        if ty == 'd':
            return r.choice(['1.5', '-2.0', '0.25', '3.0', '1e10', '-0.125', '4.0'])
        bits = 8 * SIZE[ty]
        v = r.choice([0, 1, 2, 127, 128, 255, 256, 32767, 32768, 65535, r.getrandbits(bits), r.getrandbits(bits)])
        v &= (1 << bits) - 1
        if ty[0] == 'i':
            return str(sint(v, bits))
        if ty == 'u64' and v >= 1 << 63:
            v >>= 1     # the text scanner re-reads larger unsigned literals as signed ints (a C10 matter)
        return str(v)

    def gen_data(self):
        r = self.rng
        nsec = r.randint(2, 4)
        for si in range(nsec):
            name = 'dat%d' % si
            self.chunk(name, 'data')
            nitems = r.choice([1, 1, 2, 3, 4]) if self.features.get('multi', True) else 1
            off = 0
            cells = []
            first = True
            for k in range(nitems):
                kind = r.random()
                lab = name if first else None
                if first and nitems > 1 and r.random() < 0.15:
                    kind = 0.8       # a section headed by a zero hole, initialised members after it
                if kind < 0.7 or (k == nitems - 1 and nitems > 1 and first is False and not cells):
                    ty = r.choice(INT_TYPES + ['f', 'd', 'i32', 'i64'])
                    nel = r.choice([1, 1, 2, 3, 5])
                    vals = [self.data_value(ty) for _ in range(nel)]
                    self.emit('%s %s' % (ty, ', '.join(vals)), lab)
                    for j in range(nel):
                        cells.append((off + j * SIZE[ty], ty))
                    off += nel * SIZE[ty]
                elif kind < 0.85:
                    n = r.choice([1, 3, 8, 16])
                    self.emit('bss %d' % n, lab)
                    off += n
                else:
                    s = r.choice(['abc', 'hello world', 'x', 'MIR\\n'])
                    self.emit('string "%s"' % s, lab)
                    off += len(s.replace('\\n', 'n')) + 1
                first = False
            self.sections.append((name, off, cells, False))
        # a writable scratch area and a reference to a data section
        self.chunk('wbuf', 'data')
        self.emit('bss 64', 'wbuf')
        self.sections.append(('wbuf', 64, [], True))
        tgt = r.choice([s for s in self.sections if s[1] >= 8 and not s[3]] or [self.sections[0]])
        self.refdisp = r.choice([0, 1, 4]) if tgt[1] > 4 else 0
        self.reftgt = tgt
        self.chunk('ref0', 'data')
        self.emit('ref %s, %d' % (tgt[0], self.refdisp), 'ref0')

    # ------------------------------------------------------------ code helpers
    def acc(self, reg):
        self.emit('mul acc, acc, 31')
        self.emit('add acc, acc, %s' % reg)

    def int_src(self, regs):
        r = self.rng
        if r.random() < 0.3:
            return str(r.choice([0, 1, -1, 2, 7, 255, 65536, 2147483647, -2147483648, 4294967296, 123456789012, r.getrandbits(31)]))
        return r.choice(regs)

    def int_op(self, regs, dst):
        r = self.rng
        k = r.random()
        a, b = r.choice(regs), self.int_src(regs)
        if k < 0.35:
            op = r.choice(['add', 'sub', 'mul', 'and', 'or', 'xor', 'adds', 'subs', 'muls', 'ands', 'ors', 'xors'])
            self.emit('%s %s, %s, %s' % (op, dst, a, b))
            if op.endswith('s'):
                self.emit('ext32 %s, %s' % (dst, dst))
        elif k < 0.5:
            op = r.choice(['lsh', 'rsh', 'ursh', 'lshs', 'rshs', 'urshs'])
            cnt = r.randrange(32 if op.endswith('s') else 64)
            self.emit('%s %s, %s, %d' % (op, dst, a, cnt))
            if op.endswith('s'):
                self.emit(('uext32' if op == 'urshs' else 'ext32') + ' %s, %s' % (dst, dst))
        elif k < 0.62:
            op = r.choice(['div', 'mod', 'udiv', 'umod', 'divs', 'mods', 'udivs', 'umods'])
            dv = r.choice([1, 2, 3, 7, 10, 1000, 65537, 2147483647, -3, -7]) if not op.startswith('u') else r.choice([1, 2, 3, 10, 4096, 2147483647])
            self.emit('%s %s, %s, %d' % (op, dst, a, dv))
            if op.endswith('s'):
                self.emit('ext32 %s, %s' % (dst, dst))
        elif k < 0.74:
            op = r.choice(['ext8', 'ext16', 'ext32', 'uext8', 'uext16', 'uext32', 'neg', 'negs'])
            self.emit('%s %s, %s' % (op, dst, a))
            if op == 'negs':
                self.emit('ext32 %s, %s' % (dst, dst))
        else:
            op = r.choice(['eq', 'ne', 'lt', 'le', 'gt', 'ge', 'ult', 'ule', 'ugt', 'uge',
                           'eqs', 'nes', 'lts', 'les', 'gts', 'ges', 'ults', 'ules', 'ugts', 'uges'])
            self.emit('%s %s, %s, %s' % (op, dst, a, b))
            if op.endswith('s'):
                self.emit('uext32 %s, %s' % (dst, dst))

    def fp_block(self, regs):
        r = self.rng
        a = r.choice(regs)
        self.emit('and t9, %s, 1048575' % a)
        self.emit('i2d d0, t9')
        for _ in range(r.randint(1, 3)):
            op = r.choice(['dadd', 'dsub', 'dmul', 'ddiv'])
            imm = r.choice(['1.0', '4.0', '0.5', '3.0', '2.0', '8.0', '0.25', '10.0'])
            if r.random() < 0.5:
                self.emit('%s d0, d0, %s' % (op, imm))
            else:
                self.emit('%s d0, %s, d1' % (op, imm)) if op != 'ddiv' else self.emit('ddiv d0, d0, %s' % imm)
        if r.random() < 0.5:     # both operands whole-valued immediates (must stay floating constants in C)
            self.emit('%s d2, %s, %s' % (r.choice(['ddiv', 'dmul', 'dsub', 'dadd']), r.choice(['1.0', '3.0', '7.0', '10.0']),
                                        r.choice(['4.0', '2.0', '8.0', '3.0'])))
            self.emit('dadd d0, d0, d2')
            self.emit('%s f1, %s, %s' % (r.choice(['fdiv', 'fmul', 'fsub']), r.choice(['1.0f', '5.0f']), r.choice(['4.0f', '2.0f', '3.0f'])))
            self.emit('f2d d2, f1')
            self.emit('dadd d0, d0, d2')
        if r.random() < 0.4:     # long double: conversions, arithmetic with an immediate, compare
            self.emit('d2ld l0, d0')
            self.emit('%s l0, l0, %s' % (r.choice(['ldadd', 'ldsub', 'ldmul', 'lddiv']), r.choice(['1.0L', '2.5L', '4.0L', '0.5L'])))
            self.emit('ldmov l1, l0')
            self.emit('ldneg l1, l1')
            self.emit('%s t9, l0, l1' % r.choice(['ldlt', 'ldge', 'ldeq', 'ldne']))
            self.acc('t9')
            self.emit('ld2d d2, l0')
            self.emit('dadd d0, d0, d2')
            self.emit('and t9, %s, 65535' % a)
            self.emit('i2ld l1, t9')
            self.emit('ld2i t9, l1')
            self.acc('t9')
        self.emit('dmov d1, d0')
        c = r.random()
        if c < 0.3:
            self.emit('d2f f0, d0')
            self.emit('fadd f0, f0, 1.0f')
            self.emit('fmul f0, f0, 0.5f')
            self.emit('f2d d0, f0')
        elif c < 0.5:
            self.emit('i2f f0, t9')
            self.emit('fdiv f0, f0, 4.0f')
            self.emit('f2i t9, f0')
            self.acc('t9')
        # bounded: |d0| < 2^40 by construction unless divided by a tiny d1; clamp through a compare
        self.emit('dlt t8, d0, 1e15')
        self.emit('dgt t7, d0, -1e15')
        self.emit('and t8, t8, t7')
        l = self.lab()
        self.emit('bf %s, t8' % l)
        self.emit('d2i t9, d0')
        self.acc('t9')
        self.emit('', l) if False else self.lines.append('%s:' % l)
        self.emit('%s t9, d0, d1' % r.choice(['deq', 'dne', 'dlt', 'dle', 'dgt', 'dge']))
        self.acc('t9')

    def mem_block(self, regs):
        r = self.rng
        secs = [s for s in self.sections if s[2]]
        if secs and r.random() < 0.7:
            name, size, cells, _ = r.choice(secs)
            off, ty = r.choice(cells)
            self.emit('mov p0, %s' % name)
            form = r.random()
            if ty in ('f', 'd'):
                self.emit('%smov %s0, %s:%d(p0)' % (ty, ty, ty, off))
                self.emit('%s t9, %s0' % ('f2i' if ty == 'f' else 'd2i', ty)) if False else None
                self.emit('%s t9, %s0, %s' % ('flt' if ty == 'f' else 'dlt', ty, '1.0f' if ty == 'f' else '1.0'))
            elif form < 0.5:
                self.emit('mov t9, %s:%d(p0)' % (ty, off))
            else:
                sc = r.choice([1, 2, 4, 8])
                idx = r.choice([0, 1, 2])
                self.emit('mov t8, %d' % idx)
                self.emit('mov t9, %s:%d(p0, t8, %d)' % (ty, off - idx * sc, sc))
            self.acc('t9')
        else:
            ty = r.choice(INT_TYPES)
            off = r.randrange(0, 64 - 8)
            a = r.choice(regs)
            self.emit('mov p0, wbuf')
            if r.random() < 0.45:
                # no base register: index * scale [+ disp] is the whole address (index = (address - disp) / scale, so the
                # access lands at most scale - 1 bytes below wbuf + off: inside the buffer)
                sc = r.choice([1, 2, 4, 8])
                disp = r.choice([0, 0, sc, -sc, 16, -24, 4096, -65536])
                off = r.randrange(8, 40)
                self.emit('add t8, p0, %d' % (off - disp))
                self.emit('udiv t8, t8, %d' % sc)
                m = '%s:%s(, t8%s)' % (ty, disp if disp else '', ', %d' % sc if sc != 1 or r.random() < 0.5 else '')
                self.emit('mov %s, %s' % (m, a))
                self.emit('mov t9, %s' % m)
                self.acc('t9')
                return
            self.emit('mov %s:%d(p0), %s' % (ty, off, a))
            self.emit('mov t9, %s:%d(p0)' % (ty, off))
            self.acc('t9')

    def call_block(self, regs):
        r = self.rng
        k = r.random()
        a, b = r.choice(regs), r.choice(regs)
        if k < 0.25:
            self.emit('call p_exti, ext_i, t9, %s, %s' % (a, self.int_src(regs)))
        elif k < 0.4:
            self.emit('and t8, %s, 65535' % a)
            self.emit('i2d d2, t8')
            self.emit('call p_extd, ext_d, d2, d2, %s' % b)
            self.emit('dlt t9, d2, 1000.0')
        elif k < 0.5:
            self.emit('call p_extf, ext_f, f1, 2.5f, 0.5f')
            self.emit('fgt t9, f1, 1.0f')
        elif k < 0.65:
            n = r.randint(0, 4)
            al = [self.int_src(regs) for _ in range(n)]
            if n and r.random() < 0.35:   # a negative 32-bit literal as the first variadic argument (a bare C `int`)
                al[0] = str(r.choice([-1, -5, -2147483648, -r.getrandbits(30) - 1]))
            args = ''.join(', %s' % x for x in al)
            self.emit('call p_extv, ext_v, t9, %d%s' % (n, args))
        elif k < 0.8:
            name, size, cells, _ = r.choice(self.sections[:-1])
            self.emit('mov p0, %s' % name)
            self.emit('call p_extp, ext_p, t9, p0, %d' % size)
        elif k < 0.9:
            self.emit('call p_h1, h1, t9, %s, %s, %s, %s' % (a, b, r.choice(regs), r.choice(regs)))
        else:
            self.emit('and t8, %s, 4095' % a)
            self.emit('i2d d2, t8')
            self.emit('call p_h2, h2, d2, d2, 1.5f')
            self.emit('d2i t9, d2')
        self.acc('t9')

    def branch_block(self, regs, depth):
        r = self.rng
        op = r.choice(['beq', 'bne', 'blt', 'ble', 'bgt', 'bge', 'ublt', 'uble', 'ubgt', 'ubge',
                       'beqs', 'bnes', 'blts', 'bles', 'bgts', 'bges', 'ublts', 'ubles', 'ubgts', 'ubges', 'bt', 'bf', 'bts', 'bfs'])
        l1, l2 = self.lab(), self.lab()
        a = r.choice(regs)
        if op in ('bt', 'bf', 'bts', 'bfs'):
            self.emit('%s %s, %s' % (op, l1, a))
        else:
            self.emit('%s %s, %s, %s' % (op, l1, a, self.int_src(regs)))
        self.emit('add acc, acc, %d' % r.randint(1, 1000))
        if depth > 0 and r.random() < 0.4:
            self.block(regs, depth - 1, 2)
        self.emit('jmp %s' % l2)
        self.lines.append('%s:' % l1)
        self.emit('xor acc, acc, %d' % r.randint(1, 1 << 30))
        self.lines.append('%s:' % l2)

    def ovf_block(self, regs):
        r = self.rng
        op = r.choice(['addo', 'subo', 'mulo', 'umulo', 'addos', 'subos', 'mulos', 'umulos'])
        brs = {'mulo': ['bo', 'bno'], 'mulos': ['bo', 'bno'], 'umulo': ['ubo', 'ubno'], 'umulos': ['ubo', 'ubno']}.get(op, ['bo', 'bno', 'ubo', 'ubno'])
        l1, l2 = self.lab(), self.lab()
        a = r.choice(regs)
        b = r.choice(regs + [str(r.choice([1, 2, -1, 2147483647, 4294967296, 9223372036854775807, -9223372036854775808]))])
        dst = r.choice(['t9', a]) if a not in ('a', 'b') else 't9'
        self.emit('%s %s, %s, %s' % (op, dst, a, b))
        self.emit('%s %s' % (r.choice(brs), l1))
        self.emit('add acc, acc, 17')
        self.emit('jmp %s' % l2)
        self.lines.append('%s:' % l1)
        self.emit('add acc, acc, 29')
        self.lines.append('%s:' % l2)
        if op.endswith('s'):
            self.emit('ext32 %s, %s' % (dst, dst))
        self.acc(dst)

    def switch_block(self, regs):
        r = self.rng
        n = r.choice([1, 2, 4, 8])
        a = r.choice(regs)
        self.emit('and t9, %s, %d' % (a, n - 1))
        labs = [self.lab('S') for _ in range(n)]
        end = self.lab('SE')
        self.emit('switch t9, %s' % ', '.join(labs))
        for i, l in enumerate(labs):
            self.lines.append('%s:' % l)
            self.emit('add acc, acc, %d' % (100 + 7 * i))
            if r.random() < 0.8:
                self.emit('jmp %s' % end)
        self.lines.append('%s:' % end)

    def loop_block(self, regs, depth):
        r = self.rng
        i = 'i%d' % depth
        l = self.lab()
        self.emit('mov %s, 0' % i)
        self.lines.append('%s:' % l)
        self.block(regs + [i], depth - 1, r.randint(1, 3))
        self.emit('add %s, %s, 1' % (i, i))
        self.emit('blt %s, %s, %d' % (l, i, r.randint(1, 4)))

    def alloca_block(self, regs):
        r = self.rng
        n = r.choice([8, 16, 24, 40, 100, 4096])
        scoped = r.random() < 0.4
        if scoped:
            self.emit('bstart p2')
        if r.random() < 0.5:
            self.emit('alloca p1, %d' % n)
        else:
            self.emit('mov t8, %d' % n)
            self.emit('alloca p1, t8')
        self.emit('and t9, p1, 15')       # alignment of the target ABI
        self.acc('t9')
        for _ in range(r.randint(1, 3)):
            ty = r.choice(INT_TYPES)
            off = r.randrange(0, n - SIZE[ty] + 1)
            self.emit('mov %s:%d(p1), %s' % (ty, off, self.int_src(regs)))
            self.emit('mov t9, %s:%d(p1)' % (ty, off))
            self.acc('t9')
        # a second area: both are written at their first and last word, then the first one is read again (overlap shows)
        n2 = r.choice([8, 16, 24, 40])
        self.emit('mov i64:0(p1), %s' % r.choice(regs))
        self.emit('mov i64:%d(p1), %s' % (n - 8, r.choice(regs)))
        self.emit('alloca p0, %d' % n2)
        self.emit('mov i64:0(p0), 1311768467463790320')
        self.emit('mov i64:%d(p0), 81985529216486895' % (n2 - 8))
        self.emit('mov t9, i64:0(p1)')
        self.acc('t9')
        self.emit('mov t9, i64:%d(p1)' % (n - 8))
        self.acc('t9')
        self.emit('mov t9, i64:%d(p0)' % (n2 - 8))
        self.acc('t9')
        if scoped:
            self.emit('bend p2')

    def alloca_loop_block(self, regs):
        """the SAME alloca insn executed several times in one activation while the earlier blocks are still in use: every
        execution must give a fresh block (MIR.md: the memory is freed at function return / bend, not before).  Shapes: a
        linked list of stack nodes walked afterwards (bounded walk: a self-loop ends after 8 steps), or a table of block
        addresses kept in the scratch buffer and read back after the loop.  Sizes: constant, register, growing per iteration."""
        r = self.rng
        cnt = r.choice(['2', '3', '5', 'var'])
        if cnt == 'var':
            self.emit('and t7, %s, 3' % r.choice(regs))
            self.emit('add t7, t7, %d' % r.choice([0, 1, 2]))       # 0..5 iterations of a do-while: at least one
        else:
            self.emit('mov t7, %s' % cnt)
        szk = r.choice(['const', 'const', 'reg', 'grow'])
        n = r.choice([16, 16, 24, 32, 48, 256])
        seedreg = r.choice(regs)
        l, w, we = self.lab(), self.lab(), self.lab()
        table = r.random() < 0.4
        scoped = r.random() < 0.25
        if scoped:
            self.emit('bstart p0')
        self.emit('mov p2, 0')
        self.emit('mov i3, 0')
        if table:
            self.emit('mov p3, wbuf')
        if szk == 'reg':
            self.emit('mov t8, %d' % n)
        self.lines.append('%s:' % l)
        if r.random() < 0.5:
            self.emit('add t9, i3, 1')
        if szk == 'const':
            self.emit('alloca p1, %d' % n)
        elif szk == 'reg':
            self.emit('alloca p1, t8')
        else:
            self.emit('lsh t8, i3, 4')
            self.emit('add t8, t8, %d' % n)
            self.emit('alloca p1, t8')
        self.emit('eq t9, p1, p2')                 # never the block of the previous execution
        self.acc('t9')
        self.emit('and t9, p1, 15')
        self.acc('t9')
        self.emit('mov i64:0(p1), p2')
        self.emit('mul t9, i3, 1000003')
        self.emit('add t9, t9, %s' % seedreg)
        self.emit('mov i64:8(p1), t9')
        if n >= 24:
            self.emit('mov i64:%d(p1), i3' % (n - 8))    # the last word of the block
        if table:
            self.emit('mov i64:0(p3, i3, 8), p1')
        self.emit('mov p2, p1')
        self.emit('add i3, i3, 1')
        self.emit('blt %s, i3, t7' % l)
        if table:
            # read every block back through the table, first to last, and clear the table (no stack address in the dump)
            self.emit('mov i3, 0')
            self.lines.append('%s:' % w)
            self.emit('mov p1, i64:0(p3, i3, 8)')
            self.emit('mov i64:0(p3, i3, 8), 0')
            self.emit('mov t9, i64:8(p1)')
            self.acc('t9')
            if n >= 24:
                self.emit('mov t9, i64:%d(p1)' % (n - 8))
                self.acc('t9')
            self.emit('add i3, i3, 1')
            self.emit('blt %s, i3, t7' % w)
        # walk the list from the last node: payloads in reverse order, number of nodes
        self.emit('mov i3, 0')
        self.lines.append('%sb:' % w)
        self.emit('bf %s, p2' % we)
        self.emit('mov t9, i64:8(p2)')
        self.acc('t9')
        self.emit('mov p2, i64:0(p2)')
        self.emit('add i3, i3, 1')
        self.emit('blt %sb, i3, 8' % w)
        self.lines.append('%s:' % we)
        self.acc('i3')
        if scoped:
            self.emit('bend p0')

    def addr_block(self, regs):
        r = self.rng
        self.emit('mov v0, %s' % r.choice(regs))
        k = r.random()
        if k < 0.35:
            self.emit('addr p1, v0')
            self.emit('mov t9, i64:(p1)')
            self.acc('t9')
            ty = r.choice(INT_TYPES)
            self.emit('mov %s:(p1), %s' % (ty, self.int_src(regs)))      # a store through the pointer changes the variable
            self.acc('v0')
        elif k < 0.75:
            op, ty = r.choice([('addr8', 'i8'), ('addr8', 'u8'), ('addr16', 'i16'), ('addr16', 'u16'), ('addr32', 'i32'), ('addr32', 'u32')])
            self.emit('%s p1, v0' % op)
            self.emit('mov t9, %s:(p1)' % ty)
            self.acc('t9')
            self.emit('mov %s:(p1), %s' % (ty, self.int_src(regs)))
            self.acc('v0')
        else:
            self.emit('and t9, v0, 1048575')
            self.emit('i2d dv, t9')
            self.emit('addr p1, dv')
            self.emit('mov t9, i64:(p1)')       # the bits of the double
            self.acc('t9')
            self.emit('dmov d:(p1), 2.5')
            self.emit('dlt t9, dv, 3.0')
            self.acc('t9')

    def laddr_block(self, regs):
        r = self.rng
        l1, l2, l3 = self.lab('A'), self.lab('A'), self.lab('A')
        self.emit('laddr t8, %s' % l1)
        self.emit('and t9, %s, 1' % r.choice(regs))
        self.emit('bf %s, t9' % l3)
        self.emit('laddr t8, %s' % l2)
        self.lines.append('%s:' % l3)
        if r.random() < 0.5:                      # the address travels through memory
            self.emit('mov p0, wbuf')
            self.emit('mov i64:8(p0), t8')
            self.emit('mov t8, 0')
            self.emit('jmpi i64:8(p0)')
        else:
            self.emit('jmpi t8')
        self.emit('add acc, acc, 1000')           # never executed
        self.lines.append('%s:' % l1)
        self.emit('add acc, acc, 11')
        self.lines.append('%s:' % l2)
        self.emit('add acc, acc, 5')
        if r.random() < 0.5:                      # leave no code address behind in the dumped scratch area
            pass
        self.emit('mov p0, wbuf')
        self.emit('mov i64:8(p0), 0')

    def vararg_block(self, regs):
        """call of the variadic MIR function hva: per argument a 2-bit tag (0 int, 1 double, 3 long double)"""
        r = self.rng
        n = r.randint(0, 6)
        tags, args = 0, []
        self.emit('and t8, %s, 65535' % r.choice(regs))
        self.emit('i2d d2, t8')
        self.emit('i2ld l1, t8')
        for i in range(n):
            k = r.choice([0, 0, 1, 3])
            tags |= k << (2 * i)
            if k == 0:
                args.append(self.int_src(regs))
            elif k == 1:
                args.append(r.choice(['d2', '3.0', '1024.0', '-7.0']))
            else:
                args.append(r.choice(['l1', '5.0L', '-3.0L']))
        self.emit('call p_hva, hva, t9, %d, %d%s' % (n, tags, ''.join(', %s' % a for a in args)))
        self.acc('t9')

    def blk_block(self, regs):
        """block arguments (by value): to a MIR function that also writes to its copy, and to a variadic one"""
        r = self.rng
        a, b = r.choice(regs), r.choice(regs)
        self.emit('alloca p1, 16')
        self.emit('mov i64:(p1), %s' % a)
        self.emit('mov i64:8(p1), %s' % b)
        if r.random() < 0.5:
            self.emit('call p_hblk, hblk, t9, %s, blk:16(p1)' % self.int_src(regs))
        else:
            self.emit('call p_hvblk, hvblk, t9, 1, blk:16(p1)')
        self.acc('t9')
        self.emit('mov t9, i64:(p1)')             # the caller's block is unchanged
        self.acc('t9')

    def block(self, regs, depth, n, top=False):
        r = self.rng
        for _ in range(n):
            if top:
                self.lines.append('# ---')      # self-contained unit: the shrinker removes whole units only
            k = r.random()
            dst = r.choice(['t0', 't1', 't2', 't3'])
            if k < 0.05:
                self.alloca_loop_block(regs)
            elif k < 0.3:
                self.int_op(regs, dst)
                self.acc(dst)
            elif k < 0.42:
                self.fp_block(regs)
            elif k < 0.55:
                self.mem_block(regs)
            elif k < 0.68:
                self.call_block(regs)
            elif k < 0.76:
                self.branch_block(regs, depth)
            elif k < 0.80:
                self.ovf_block(regs)
            elif k < 0.83:
                self.switch_block(regs)
            elif k < 0.865:
                self.alloca_block(regs)
            elif k < 0.90:
                self.addr_block(regs)
            elif k < 0.92:
                self.laddr_block(regs)
            elif k < 0.95:
                self.vararg_block(regs)
            elif k < 0.97 and self.features.get('blk', BLK_ARGS):
                self.blk_block(regs)
            elif depth > 0:
                self.loop_block(regs, depth)
            else:
                self.int_op(regs, dst)
                self.acc(dst)

    def layout(self):
        """module-level order: every data section and helper function is placed before `entry` (as always before) or
        AFTER it behind a `forward` declaration -- callers before callees, uses before definitions --, exported or not, the
        `export` before the forward, after it, or after the definition; now and then a (redundant) forward after the
        definition or two forwards of one name.  The content of the items does not change."""
        r = random.Random(self.rng.getrandbits(32))
        ch = self.chunks
        first = ch[0][2]
        head = self.lines[:first]
        body = {}
        for k, (name, kind, start) in enumerate(ch):
            end = ch[k + 1][2] if k + 1 < len(ch) else len(self.lines)
            body[name] = self.lines[start:end]
        early, late, decl = [], [], []
        place = {}
        for name, kind, _ in ch:
            if kind == 'entry':
                continue
            islate = r.random() < (0.5 if kind == 'func' else 0.35)
            if name == 'ref0':
                # a reference item stays before entry and behind the definition or the forward of the item it refers to
                # (mir2c prints a forwarded data item at its forward: a `ref` to an item still undeclared there is not
                # translatable -- recorded in design/C20.md, not generated)
                islate = False
            place[name] = 'late' if islate else 'early'
            exp = r.choice(['no', 'no', 'before', 'after', 'afterdef'])
            fw = '%-8s forward %s' % ('', name)
            ex = '%-8s export %s' % ('', name)
            lines = list(body[name])
            if islate:
                d = {'no': [fw], 'before': [ex, fw], 'after': [fw, ex], 'afterdef': [fw]}[exp]
                if r.random() < 0.1:
                    d = d + [fw]                   # declared twice
                decl.append(d)
                late.append(lines + ([ex] if exp == 'afterdef' else []))
            else:
                k2 = r.random()
                pre = [fw] if k2 < 0.15 else []
                post = [fw] if 0.15 <= k2 < 0.3 else []
                if exp in ('before', 'after'):
                    pre = ([ex] + pre) if exp == 'before' else (pre + [ex])
                elif exp == 'afterdef':
                    post = post + [ex]
                if name == 'ref0':
                    refchunk = pre + lines + post
                    continue
                early.append(pre + lines + post)
        # forward declarations anywhere among the early items (before entry)
        for d in decl:
            early.insert(r.randint(0, len(early)), d)
        early.append(refchunk)
        out = list(head)
        for c in early:
            out += c
        out += body['entry']
        r.shuffle(late)
        for c in late:
            out += c
        self.lines = out
        self.placed = place

    def module(self, name='m_c20'):
        r = self.rng
        self.emit('module', name)
        self.emit('export entry')
        self.emit('import ext_i, ext_d, ext_f, ext_p, ext_v')
        self.emit('proto i64, i64:a, i64:b', 'p_exti')
        self.emit('proto d, d:x, i64:n', 'p_extd')
        self.emit('proto f, f:x, f:y', 'p_extf')
        self.emit('proto i64, i64:addr, i64:len', 'p_extp')
        self.emit('proto i64, i64:n, ...', 'p_extv')
        self.emit('proto i64, i64:n, i64:tags, ...', 'p_hva')
        if self.features.get('blk', BLK_ARGS):
            self.emit('proto i64, i64:n, blk:16(s)', 'p_hblk')
            self.emit('proto i64, i64:n, ...', 'p_hvblk')
        pt = [r.choice(INT_TYPES) for _ in range(4)]
        self.emit('proto i64, %s:a, %s:b, %s:c, %s:d' % tuple(pt), 'p_h1')
        self.emit('proto d, d:x, f:y', 'p_h2')
        self.gen_data()
        # helper with narrow / unsigned integer parameters feeding conversions and arithmetic
        self.chunk('h1', 'func')
        self.emit('func i64, %s:a, %s:b, %s:c, %s:d' % tuple(pt), 'h1')
        self.emit('local i64:r, d:x, f:y, i64:t')
        self.emit('i2d x, d')
        self.emit('dlt r, x, 0.0')
        self.emit('ui2d x, a')
        self.emit('dgt t, x, 1e18')
        self.emit('lsh r, r, 1')
        self.emit('or r, r, t')
        self.emit('i2f y, c')
        self.emit('flt t, y, 0.0f')
        self.emit('lsh r, r, 1')
        self.emit('or r, r, t')
        self.emit('lsh r, r, 8')
        self.emit('add t, a, b')
        self.emit('xor r, r, t')
        self.emit('mul t, c, d')
        self.emit('add r, r, t')
        self.emit('ret r')
        self.emit('endfunc')
        self.chunk('h2', 'func')
        self.emit('func d, d:x, f:y', 'h2')
        self.emit('local d:z')
        self.emit('f2d z, y')
        self.emit('dmul z, z, x')
        self.emit('dadd z, z, 1.0')
        self.emit('ret z')
        self.emit('endfunc')
        # variadic MIR function: va_start / va_arg of i64, d and ld arguments / va_end
        self.chunk('hva', 'func')
        self.emit('func i64, i64:n, i64:tags, ...', 'hva')
        self.emit('local i64:va, i64:s, i64:i, i64:p, i64:q, i64:t, d:x, ld:l')
        self.emit('alloca va, 32')
        self.emit('va_start va')
        self.emit('mov s, 0')
        self.emit('mov q, 0')
        self.emit('mov i, 0')
        self.lines.append('hva_lp:')
        self.emit('bge hva_fin, i, n')
        self.emit('and t, tags, 3')
        self.emit('ursh tags, tags, 2')
        self.emit('beq hva_d, t, 1')
        self.emit('beq hva_ld, t, 3')
        self.emit('va_arg p, va, i64:0')
        self.emit('add s, s, i64:(p)')
        # the pointer of the PREVIOUS execution of this va_arg insn is still valid and still points to the previous
        # argument (every execution yields its own object: fix C20-13)
        self.emit('bf hva_nq, q')
        self.emit('mul t, i64:(q), 7')
        self.emit('add s, s, t')
        self.lines.append('hva_nq:')
        self.emit('mov q, p')
        self.emit('jmp hva_nx')
        self.lines.append('hva_d:')
        self.emit('va_arg p, va, d:0')
        self.emit('dmov x, d:(p)')
        self.emit('d2i t, x')
        self.emit('add s, s, t')
        self.emit('jmp hva_nx')
        self.lines.append('hva_ld:')
        self.emit('va_arg p, va, ld:0')
        self.emit('ldmov l, ld:(p)')
        self.emit('ld2i t, l')
        self.emit('add s, s, t')
        self.lines.append('hva_nx:')
        self.emit('mul s, s, 3')
        self.emit('add i, i, 1')
        self.emit('jmp hva_lp')
        self.lines.append('hva_fin:')
        self.emit('va_end va')
        self.emit('ret s')
        self.emit('endfunc')
        if self.features.get('blk', BLK_ARGS):
            self.chunk('hblk', 'func')
            self.emit('func i64, i64:n, blk:16(s)', 'hblk')
            self.emit('local i64:t')
            self.emit('add t, i64:(s), i64:8(s)')
            self.emit('mov i64:(s), 99')
            self.emit('add t, t, n')
            self.emit('add t, t, i64:(s)')
            self.emit('ret t')
            self.emit('endfunc')
            self.chunk('hvblk', 'func')
            self.emit('func i64, i64:n, ...', 'hvblk')
            self.emit('local i64:va, i64:a, i64:t')
            self.emit('alloca va, 32')
            self.emit('alloca a, 16')
            self.emit('va_start va')
            self.emit('va_block_arg a, va, 16, 0')
            self.emit('add t, i64:(a), i64:8(a)')
            self.emit('va_end va')
            self.emit('ret t')
            self.emit('endfunc')
        self.chunk('entry', 'entry')
        self.emit('func i64, i64:a, i64:b', 'entry')
        self.emit('local i64:acc, i64:t0, i64:t1, i64:t2, i64:t3, i64:t7, i64:t8, i64:t9, i64:p0, i64:p1, i64:p2, i64:v0, i64:i1, i64:i2, i64:i3, i64:p3, d:d0, d:d1, d:d2, d:dv, f:f0, f:f1, ld:l0, ld:l1')
        self.emit('mov acc, 7')
        self.emit('mov t0, a')
        self.emit('mov t1, b')
        self.emit('add t2, a, b')
        self.emit('xor t3, a, 305419896')
        for reg in ('t7', 't8', 't9', 'p0', 'p1', 'p2', 'p3', 'v0', 'i1', 'i2', 'i3'):     # every register is defined: any sub-sequence of the body stays well-defined
            self.emit('mov %s, 0' % reg)
        self.emit('dmov d0, 1.0')
        self.emit('dmov d1, 2.0')
        self.emit('dmov d2, 0.5')
        self.emit('dmov dv, 0.0')
        self.emit('fmov f0, 1.0f')
        self.emit('fmov f1, 2.0f')
        self.emit('ldmov l0, 1.0L')
        self.emit('ldmov l1, 2.0L')
        # the reference item holds the address of another section
        self.emit('mov p0, ref0')
        self.emit('mov p0, p:(p0)')
        self.emit('mov t9, u8:(p0)')
        self.acc('t9')
        regs = ['a', 'b', 't0', 't1', 't2', 't3']
        self.block(regs, 2, r.randint(6, 14), top=True)
        for name, size, cells, wr in self.sections:      # every section byte for byte: layout, padding, initialisers
            self.lines.append('# ---')
            self.emit('mov p0, %s' % name)
            self.emit('call p_extp, ext_p, t9, p0, %d' % size)
            for off, ty in cells[:3]:
                if ty in ('f', 'd'):
                    continue
                self.emit('mov t9, %s:%d(p0)' % (ty, off))
                self.acc('t9')
        self.lines.append('# ---')
        self.emit('ret acc')
        self.emit('endfunc')
        if self.features.get('forward', True):
            self.layout()
        self.emit('endmodule')
        # the text scanner of /repo rejects a label-only line that is followed by a comment-only or empty line ("insn should
        # start with label or insn name"): give such labels an instruction of their own
        out = []
        for i, l in enumerate(self.lines):
            nxt = self.lines[i + 1].strip() if i + 1 < len(self.lines) else ''
            if l.rstrip().endswith(':') and ' ' not in l.strip() and (nxt == '' or nxt.startswith('#')):
                l = '%-8s mov t7, t7' % l.strip()
            out.append(l)
        return '\n'.join(out) + '\n'


def gen_module(rng, features=None):
    return Gen(rng, features).module()


ARGS = [(0, 0), (1, 2), (M64, 1), (1 << 63, M64), (0x7fffffff, 0x80000000), (0x123456789abcdef0, 0xfedcba9876543210),
        (0xffffffff00000000, 0xff), (5, 0x8000000000000001)]

# Seeded generator of one-instruction test cases for the C02 / C20 correspondence harness
# (harness/c02_insn.c) over the boundary grid named by the property text, plus the computation of the
# expected observation from the extracted DocSpec oracle (ocaml/driver_c02.ml).
import random

M64 = (1 << 64) - 1


def int_grid():
    g = [0, 1, 2, 3, 7, 8, 0xff, 0x100, 0x7f, 0x80, 0xffff, 0x8000, 0x7fff, 0x10000]
    g += [M64, M64 - 1, 1 << 63, (1 << 63) - 1, (1 << 63) + 1, 1 << 31, (1 << 31) - 1, (1 << 31) + 1,
          (1 << 32) - 1, 1 << 32, (1 << 32) + 1, M64 ^ 0x7fffffff, M64 ^ 0x80000000, 0xffffffff80000000,
          0xffffffff7fffffff, 0x00000000ffffffff, 0xffffffff00000000, 0xdeadbeef00000001, 0x12345678ffffffff,
          0xaaaaaaaa80000000, 0x5555555500000000]
    g += [M64 - 127, M64 - 128, M64 - 0x7fff, M64 - 0x8000]          # -128 -129 -32768 -32769
    for k in (1, 2, 4, 5, 8, 15, 16, 30, 31, 32, 33, 47, 62, 63):
        g += [1 << k, ((1 << k) - 1) & M64, ((1 << k) + 1) & M64, (-(1 << k)) & M64]
    out = []
    for v in g:
        if v not in out:
            out.append(v)
    return out


SHIFT_COUNTS = [0, 1, 2, 7, 8, 15, 16, 30, 31, 32, 33, 47, 62, 63]

F_GRID = [0x00000000, 0x80000000, 0x3f800000, 0xbf800000, 0x7f800000, 0xff800000, 0x7fc00000, 0xffc00000, 0x7f800001,
          0x7fa00000, 0x00000001, 0x80000001, 0x007fffff, 0x00800000, 0x7f7fffff, 0xff7fffff, 0x3f000000, 0x3fc00000,
          0x40000000, 0x4b800000, 0x4b800001, 0x4b7fffff, 0x4f000000, 0xcf000000, 0x5f000000, 0xdf000000, 0x5effffff,
          0x5f800000, 0x5f7fffff, 0x3f7fffff, 0x3f800001, 0x40490fdb, 0xc0490fdb, 0x33800000, 0x34000000, 0x7e967699]
D_GRID = [0x0000000000000000, 0x8000000000000000, 0x3ff0000000000000, 0xbff0000000000000, 0x7ff0000000000000,
          0xfff0000000000000, 0x7ff8000000000000, 0xfff8000000000000, 0x7ff0000000000001, 0x7ff4000000000000,
          0x0000000000000001, 0x8000000000000001, 0x000fffffffffffff, 0x0010000000000000, 0x7fefffffffffffff,
          0xffefffffffffffff, 0x3fe0000000000000, 0x3ff8000000000000, 0x4000000000000000, 0x4340000000000000,
          0x4340000000000001, 0x433fffffffffffff, 0x43e0000000000000, 0xc3e0000000000000, 0x43dfffffffffffff,
          0xc3e0000000000001, 0x43f0000000000000, 0x43efffffffffffff, 0x41e0000000000000, 0x41dfffffffc00000,
          0xc1e0000000000000, 0x3ff0000010000000, 0x3ff0000010000001, 0x3ff000002fffffff, 0x3ff0000030000000,
          0x47efffffe0000000, 0x47effffff0000000, 0x47f0000000000000, 0x36a0000000000000, 0x3690000000000000,
          0x3690000000000001, 0x380fffffc0000000, 0x3810000000000000, 0x400921fb54442d18, 0x3cb0000000000000]
# x87 80-bit patterns: 1.0, -1.0, +0, -0, inf, -inf, qNaN, 2.0, 0.5, pi, max, min normal, a denormal, 2^63, 2^64
LD_GRID = [0x3fff8000000000000000, 0xbfff8000000000000000, 0, 0x80000000000000000000, 0x7fff8000000000000000,
           0xffff8000000000000000, 0x7fffc000000000000000, 0x40008000000000000000, 0x3ffe8000000000000000,
           0x4000c90fdaa22168c235, 0x7ffeffffffffffffffff, 0x00018000000000000000, 0x00000000000000000001,
           0x403e8000000000000000, 0x403f8000000000000000, 0x403dfffffffffffffffe, 0xc03e8000000000000000,
           0x3fff8000000000000001, 0x3fffffffffffffffffff, 0x4034a000000000000800]

MEM_INT_TYPES = ['i8', 'u8', 'i16', 'u16', 'i32', 'u32', 'i64', 'u64', 'p']
FORMS = ['b', 'd', 'bd', 'bi', 'bid', 'i', 'id']
KIND_MEM = {'f': ['f'], 'd': ['d'], 'l': ['ld']}
KIND_SIZE = {'i': 8, 'f': 4, 'd': 8, 'l': 10}
TYPE_SIZE = {'i8': 1, 'u8': 1, 'i16': 2, 'u16': 2, 'i32': 4, 'u32': 4, 'i64': 8, 'u64': 8, 'p': 8, 'f': 4, 'd': 8, 'ld': 10}


def grid_for(kind, rng, opname='', pos=0):
    if kind == 'i':
        g = int_grid()
        if pos == 1 and ('SH' in opname):
            g = SHIFT_COUNTS + [c | (rng.getrandbits(16) << 32) for c in (1, 31)]   # garbage above the low word
        return g
    return {'f': F_GRID, 'd': D_GRID, 'l': LD_GRID}[kind]


def rand_val(kind, rng, opname='', pos=0):
    if kind == 'i':
        if pos == 1 and 'SH' in opname:
            return rng.randrange(64)
        k = rng.random()
        if k < 0.3:
            return rng.getrandbits(64)
        if k < 0.5:
            return rng.getrandbits(32)
        if k < 0.65:
            return (-rng.getrandbits(31)) & M64
        if k < 0.8:
            return rng.getrandbits(8)
        return rng.choice(int_grid())
    if kind == 'f':
        return rng.getrandbits(32) if rng.random() < 0.5 else rng.choice(F_GRID)
    if kind == 'd':
        return rng.getrandbits(64) if rng.random() < 0.5 else rng.choice(D_GRID)
    return rng.choice(LD_GRID)


# MIR allows every scale 1..255 (MIR_scale_t, MIR_MAX_SCALE); only 1/2/4/8 exist in hardware, all the others go through the
# index*scale lowering of simplify_op and the address combiner.  C20 (shared generator) keeps its own stream.
WIDE_SCALES = [False]
EDGE_SCALES = [3, 5, 6, 7, 9, 10, 12, 15, 16, 17, 24, 31, 32, 33, 63, 64, 65, 100, 127, 128, 129, 192, 253, 254, 255]


def pick_scale(rng):
    if not WIDE_SCALES[0]:
        return rng.choice([1, 2, 4, 8])
    x = rng.random()
    if x < 0.4:
        return rng.choice([1, 2, 4, 8])
    if x < 0.65:
        return rng.choice(EDGE_SCALES)
    return rng.randint(1, 255)


def mem_desc(rng, ty, forms=FORMS):
    form = rng.choice(forms)
    scale = pick_scale(rng)
    disp = rng.choice([0, 8, -8, 24, 1000, -129, -128, 0x7fffffff, -0x80000000, 0x80000000, -0x80000001, 0xffffffff, 127, 128, 1 << 33,
                       -(1 << 40) + 3]) if 'd' in form else 0
    index = rng.choice([0, 1, -1, 3, -5, 1000, 0x7fffffff, -0x80000000, 1 << 32]) if 'i' in form else 0
    if 'b' in form and 'i' in form and rng.random() < 0.15:
        index = (1 << 61) * rng.choice([1, 3, -1]) + rng.choice([0, 1, -7])     # index * scale wraps modulo 2^64
    return 'm%s,%s,%d,%d,%d' % (ty, form, scale, disp, index)


def baseless(line):
    """does the case line have a memory operand without a base register (forms d, i, id)?"""
    import re
    return re.search(r'\bm\w+,(?:d|i|id),', line) is not None


class Info:
    def __init__(self, name, num, line):
        self.name, self.num = name, num
        d = dict(x.split('=') for x in line.split())
        self.res, self.args, self.mask = d['res'], d['args'], int(d['mask'], 16)
        self.doc = d['doc'] == '1'
        self.ovfdef = d['ovfdef']


def opcode_infos(oracle_lines, ops):
    """ops: opcode names in enum order; oracle_lines: function list-of-requests -> list-of-answers"""
    ans = oracle_lines(['info %d' % i for i in range(len(ops))])
    return [Info(n, i, a) for i, (n, a) in enumerate(zip(ops, ans))]


OVF = ['ADDO', 'ADDOS', 'SUBO', 'SUBOS', 'MULO', 'MULOS', 'UMULO', 'UMULOS']
OBR = ['BO', 'BNO', 'UBO', 'UBNO']


def testable(info):
    """value insns (incl. LD ones), compare-and-branches, overflow insns"""
    n = info.name
    if n in OBR or n == 'JMP':
        return False
    return info.args != '' and (info.res != '-' or n.startswith('B') or n[1:].startswith('B') or n[2:].startswith('B'))


def operand_text(kind, shape, val, rng, c20=False):
    """shape letter: r i u m"""
    if shape == 'r':
        return 'r:%x' % val
    if shape in 'iu':
        return '%s:%x' % (shape, val)
    tys = MEM_INT_TYPES if kind == 'i' else KIND_MEM[kind]
    ty = rng.choice(tys)
    # C20 too: base-less forms embed absolute addresses in the translated C; the harness keeps the block at a fixed address
    # in its emitc / runso modes (c20_select_block) and derives the displacement / index from it (fix_disps_c20)
    return mem_desc(rng, ty, FORMS) + ':%x' % (val & ((1 << (8 * TYPE_SIZE[ty])) - 1))


def gen_case(info, rng, cid, vals=None, shapes=None, dst=None, br=None, c20=False, pre=None, post=None, prime=None, press=None, far=None,
             bover=None, optexts=None):
    """returns the case line for the harness"""
    kinds = (info.res if info.res != '-' else '-') + info.args + ('-' if len(info.args) == 1 else '')
    nsrc = len(info.args)
    if vals is None:
        vals = [rand_val(k, rng, info.name, i) for i, k in enumerate(info.args)]
    if shapes is None:
        shapes = []
        for i, k in enumerate(info.args):
            x = rng.random()
            if x < 0.45:
                shapes.append('r')
            elif x < 0.75:
                shapes.append('i' if (k != 'i' or rng.random() < 0.8) else 'u')
            else:
                shapes.append('m')
    ops = [operand_text(k, s, v, rng, c20) for k, s, v in zip(info.args, shapes, vals)]
    if optexts is not None:          # operand texts given by the caller (aimed operand classes)
        ops = list(optexts)
    if nsrc == 1:
        ops.append('-')
    if info.res == '-':
        d = 'r'
    elif dst is not None:
        d = dst
    else:
        x = rng.random()
        cands = ['r']
        if shapes[0] == 'r' and info.args[0] == info.res:
            cands.append('x')
        if nsrc == 2 and shapes[1] == 'r' and info.args[1] == info.res:
            cands.append('y')
        if shapes[0] == 'm' and info.res == 'i' and info.args[0] == 'i' and not (pre or post) and rng.random() < 0.4:
            d = 'X'                   # in place: op m, m, y (the "m 0 ..." instruction patterns)
        elif x < 0.6:
            d = 'r'
        elif x < 0.8:
            d = rng.choice(cands)
        else:
            tys = MEM_INT_TYPES if info.res == 'i' else KIND_MEM[info.res]
            d = mem_desc(rng, rng.choice(tys), FORMS)
    line = '%s %s %s %s %s %s' % (cid, info.name, kinds, d, ops[0], ops[1])
    if c20 and baseless(line) and rng.random() < 0.4:
        line += ' hiblk=1'       # the block (hence every absolute address of the case) lies above 2^32
    if info.name in OVF:
        if br is None:
            sd, ud = info.ovfdef[0] == '1', info.ovfdef[1] == '1'
            br = rng.choice((['BO', 'BNO'] if sd else []) + (['UBO', 'UBNO'] if ud else []))
        line += ' br=' + br
    if pre:
        line += ' pre=' + pre
    if post:
        line += ' post=' + post
    if prime is not None:
        line += ' prime=%d' % prime
    branchy = info.res == '-' or info.name in OVF
    if branchy and (bover if bover is not None else rng.random() < 0.4):
        line += ' bover=1'       # the branch jumps over an unconditional jump (rewritten with the reversed branch)
    if far is None:
        far = (branchy or (post or '').startswith('B')) and rng.random() < 0.15
    if far and (branchy or (post or '').startswith('B')):
        line += ' far=1'         # the branch target is more than 128 bytes away (rel32 forms of the branch patterns)
    if (press is None and d in ('r', 'x') and shapes[0] == 'r' and info.res == 'i' and info.args[0] == 'i' and not (pre or post)
            and rng.random() < 0.05):
        press = rng.choice([14, 20, 28])
    if press:
        # register pressure: the instruction is also applied to x+1 .. x+press, all live at once (spilled operands ->
        # the memory forms of the instruction patterns); pmask = the defined result bits
        line += ' press=%d pmask=%x' % (press, info.mask)
    return line


# ---------------------------------------------------------------- far branches, special cases
FAR_STEPS = 24
FILL8 = 0xA5A5A5A5A5A5A5A5


def far_value():
    """what harness far_filler leaves in block[240..248)"""
    t = FILL8
    for i in range(FAR_STEPS):
        c = 0x1234567 + i * 0x10101
        t = (t + c) & M64 if i % 2 == 0 else t ^ c
    return t


def far_executed(c, flag):
    """is the filler on the executed path?  plain shape: on the fall-through path; bover shape: on the taken path"""
    return (flag == 1) if c.get('bover') in ('1', 1) else (flag == 0)


LD_ONE, LD_TWO = 0x3fff8000000000000000, 0x40008000000000000000


def special_lines(rng, quick, c20=False):
    """cases around instructions whose documented effect is not a function of operand values: stack allocation,
    block start/end, switch, label address + indirect jump, calls (also the long double result registers)"""
    out = []
    n = [0]

    def add(op, dst, x, y, extra=''):
        n[0] += 1
        out.append('z%d @%s iii %s %s %s%s' % (n[0], op, dst, x, y, extra))
    sizes = [16, 24, 4096, 100000] if quick else [16, 17, 24, 31, 32, 33, 100, 4095, 4096, 4097, 65536, 100000, 1 << 20]
    for sz in sizes:
        v = rng.getrandbits(64)
        add('ALLOCA', 'r', 'r:%x' % sz, 'r:%x' % v)
        add('ALLOCA', 'r', 'i:%x' % sz, 'i:%x' % (v & 0x7fffffff))
    for sz, cnt in ([(16, 1), (4096, 200), (24, 1000)] if quick else [(16, 1), (16, 2), (4096, 200), (24, 1000), (65536, 50), (40, 5000)]):
        add('BLOCK', 'r', 'r:%x' % sz, 'r:%x' % cnt)
        add('BLOCK', 'r', 'i:%x' % sz, 'r:%x' % cnt)
    for sel in range(5):
        add('SWITCH', 'r', 'r:%x' % sel, 'r:0')
        add('SWITCH', 'r', 'r:%x' % sel, 'r:0', ' far=1')
    for sel in (0, 1, 5):
        for viamem in (0, 1):
            add('JMPI', 'r', 'r:%x' % sel, 'r:%x' % viamem)
    for _ in range(3 if quick else 12):
        a, b = rng.choice(int_grid()), rng.getrandbits(64)
        for dst in 'rx':
            add('CALL', dst, 'r:%x' % a, 'r:%x' % b)
            add('CALL', dst, 'i:%x' % (a & 0x7fffffff), 'r:%x' % b)
    if not c20:          # multiple results cannot be translated to C; long double results are a C02 concern (st0 / st1)
        for v in (LD_ONE, 0x4000c90fdaa22168c235, 0, 0x7fff8000000000000000):
            add('CALLLD', 'r', 'r:%x' % v, 'r:0')
            add('CALLLD2', 'r', 'r:%x' % v, 'r:0')
    out += memseq_lines(rng, quick, c20)
    if not c20:          # absolute addresses carried by scaled registers: not for the translated C of C20
        out += addr_lines(rng, quick)
    return out


# ---------------------------------------------------------------- sequences of accesses to one cell (@MEMSEQ)
MS_INT = ['i8', 'u8', 'i16', 'u16', 'i32', 'u32', 'i64', 'u64', 'p']
MS_K, MS_VMUL, MS_VADD = 1000003, 5, 0x1234567


def memseq_lines(rng, quick, c20=False):
    """several memory accesses of DIFFERENT types (signedness, size) to the SAME address in one function: load-load,
    store-load, load-store-load, longer mixes with partially overlapping offsets, straight-line / across a block boundary /
    all loads before all uses.  Cell patterns with the top bit of every byte set, clear, and random.  (An optimiser that
    identifies two accesses by address and size only -- value numbering of memory, load forwarding -- gives the second
    access the extension of the first.)  c20: the emitted C must not break C's aliasing rules at -O2, so only types of one
    size (signed / unsigned variants may alias) and 8-bit types are mixed there."""
    out = []
    n = [0]
    top = 0xf1e2d3c4b5a69788
    pats = [top, 0x7f6e5d4c3b2a1908, 0x80, 0x8000, 0x80000000, 1 << 63]

    def ok(tys):
        if not c20:
            return True
        sizes = set(TYPE_SIZE[t] for t in tys if TYPE_SIZE[t] != 1)
        return len(sizes) <= 1

    def add(steps, cell=None, val=None):
        n[0] += 1
        cell = rng.choice(pats + [rng.getrandbits(64)]) if cell is None else cell
        val = (rng.getrandbits(64) | 0x8080808080808080) if val is None else val
        form = 'b'
        out.append('ms%d @MEMSEQ iii r mi64,%s,1,0,0:%x r:%x seq=%s' % (n[0], form, cell, val, ','.join(steps)))

    def deco(steps, k):
        """variant k of a step list: plain, uses deferred, a block boundary between the accesses"""
        k %= 4
        if k == 1:
            return steps + ['X']
        if k == 2:
            return steps[:1] + ['B'] + steps[1:]
        if k == 3:
            return steps[:1] + ['B'] + steps[1:] + ['X']
        return steps
    k = 0
    for t1 in MS_INT:
        for t2 in MS_INT:
            if not ok([t1, t2]):
                continue
            k += 1
            # load-load (also t1 == t2: the legitimately redundant load)
            add(deco(['L' + t1, 'L' + t2], k), cell=top if k % 3 else None)
            if not quick or k % 2:
                add(deco(['L' + t1, 'L' + t2], k + 1), cell=rng.choice(pats))
            # store-load and store-load-load
            add(deco(['S' + t1, 'L' + t2], k))
            if not quick or k % 3 == 0:
                add(deco(['S' + t1, 'L' + t2, 'L' + t1], k + 2))
    for _ in range(64 if quick else 600):        # load-store-load, the store of any type
        t1, t2, t3 = rng.choice(MS_INT), rng.choice(MS_INT), rng.choice(MS_INT)
        if rng.random() < 0.6:                   # first and last access: same size, opposite signedness
            t3 = {'i': 'u', 'u': 'i'}.get(t1[0], 'i') + (t1[1:] if t1 != 'p' else '64')
        if ok([t1, t2, t3]):
            add(deco(['L' + t1, 'S' + t2, 'L' + t3], rng.randrange(4)))
    for _ in range(80 if quick else 1500):       # longer mixes, partially overlapping accesses inside the 16-byte cell
        steps, tys = [], []
        for _ in range(rng.randint(3, 8)):
            t = rng.choice(MS_INT)
            off = rng.choice([0, 0, 0, 1, 2, 4, 8 - TYPE_SIZE[t], 8])
            tys.append(t)
            steps.append(('L' if rng.random() < 0.65 else 'S') + t + ('@%d' % off if off else ''))
            if rng.random() < 0.15:
                steps.append('B')
        if rng.random() < 0.3:
            steps.append('X')
        if ok(tys):
            add(steps)
    return out


def memseq_parse(c):
    """-> list of (kind 'L'|'S', type, offset) of a @MEMSEQ case"""
    st = []
    for t in c['seq'].split(','):
        if t in ('B', 'X'):
            continue
        body, _, off = t.partition('@')
        st.append((body[0], body[1:], int(off) if off else 0))
    return st


def memseq_store_requests(c):
    """oracle requests (documented truncating stores) of the successive stored values"""
    v = c['y']['val']
    req = []
    for kind, ty, off in memseq_parse(c):
        if kind == 'S':
            req.append('st %s %x' % (ty, v))
            v = (v * MS_VMUL + MS_VADD) & M64
    return req


def memseq_load_requests(c, stans):
    """runs the sequence on the cell with the oracle's store bytes; -> oracle requests (documented extending loads) of
    the successive loads; c['ms_final'] = final content of the cell"""
    cell = le_bytes(c['x']['val'], 16) + [0xA5] * 16
    req = []
    k = 0
    for kind, ty, off in memseq_parse(c):
        if kind == 'S':
            bs = stans[k].split()[1]
            k += 1
            for i in range(len(bs) // 2):
                cell[off + i] = int(bs[2 * i:2 * i + 2], 16)
        else:
            req.append('ld %s %x' % (ty, sum(b << (8 * i) for i, b in enumerate(cell[off:off + TYPE_SIZE[ty]]))))
    c['ms_final'] = cell[:16]
    return req


def memseq_expect(c, ldans):
    e = dict(ret=0, retmask=M64, writes={}, nan=None, dontcare=set())
    r = 7
    for a in ldans:
        r = (r * MS_K + int(a.split()[1], 16)) & M64
    e['ret'] = r
    e['init'] = {128 + i: b for i, b in enumerate(le_bytes(c['x']['val'], 16))}
    for i, b in enumerate(c['ms_final']):
        e['writes'][128 + i] = b
    return e


def ld_double(v):
    """x87 pattern of v + v for the few values special_lines uses (exponent + 1 for normal numbers)"""
    e = (v >> 64) & 0x7fff
    if e == 0 or e == 0x7fff:
        return v
    return v + (1 << 64)


def special_expect(c):
    """expected observation of a special case (see harness build_special)"""
    k = c['op'][1:]
    x, y = c['x']['val'], c['y']['val']
    e = dict(ret=0, retmask=M64, writes={}, nan=None, dontcare=set())

    def put(off, v, n=8):
        for i, b in enumerate(le_bytes(v, n)):
            e['writes'][off + i] = b
    if k == 'ALLOCA':
        e['ret'] = (y + 3 * (y + 1) + 5 * (y + 2) + 7 * (y + 3)) & M64
        put(96, 0)
        put(112, 1)
    elif k == 'BLOCK':
        r = 0
        for i in range(y):
            r = (r * 3 + i) & M64
        e['ret'] = r
    elif k == 'SWITCH':
        e['ret'] = 100 + 7 * x
        if c.get('far') in ('1', 1):
            put(240, far_value())
    elif k == 'JMPI':
        e['ret'] = 2 if x != 0 else 1
        if y != 0:
            e['dontcare'] |= set(range(200, 208))      # a code address
    elif k == 'CALL':
        e['ret'] = (x * 3 + y) & M64
    elif k in ('CALLLD', 'CALLLD2'):
        put(96, ld_double(x), 10)
        if k == 'CALLLD2':
            put(192, x, 10)
    else:
        return None
    return e


# ---------------------------------------------------------------- address arithmetic feeding a memory operand (@ADDR)
ADDR_MAX_K = 65536
ADDR_CONSTS = [2, 3, 4, 5, 7, 8, 9, 12, 16, 31, 32, 33, 63, 64, 65, 127, 128, 129, 130, 193, 255]
ADDR_VALS = [1, 2, 3, -1, -2, 5, -7, 11, 20, -13, 100, -100, 6, 9]


def addr_wrap_pairs():
    """(c1, c2), both 2..255, whose product is not a scale (> 255) but is one modulo 256 (a product kept in 8 bits)"""
    return [(a, b) for a in range(2, 256) for b in range(2, 256) if a * b > 255 and (a * b) & 0xff in (1, 2, 4, 8)]


class AddrBuilder:
    """registers 0 = a (address carrier), 1..3 = given values, 4.. = steps; every register is the linear form k*a + d
    modulo 2^64 (documented ADD / SUB / MUL / LSH on 64 bits)"""

    def __init__(self, vals):
        self.vals = list(vals)
        self.lin = [(1, 0)] + [(0, v & M64) for v in vals]
        self.steps = []

    def _new(self, k, d, text):
        self.lin.append((k & M64, d & M64))
        self.steps.append(text)
        return len(self.lin) - 1

    def mul(self, s, c, how='M'):
        k, d = self.lin[s]
        return self._new(k * c, d * c, '%s%d.%d' % (how, s, c))

    def lsh(self, s, n):
        k, d = self.lin[s]
        return self._new(k << n, d << n, 'L%d.%d' % (s, n))

    def add(self, s, t):
        return self._new(self.lin[s][0] + self.lin[t][0], self.lin[s][1] + self.lin[t][1], 'A%d.%d' % (s, t))

    def addc(self, s, c, how='P'):
        k, d = self.lin[s]
        return self._new(k, d - c if how == 'Q' else d + c, '%s%d.%d' % (how, s, c))

    def copy(self, s):
        k, d = self.lin[s]
        return self._new(k, d, 'C%d.0' % s)

    def bb(self):
        self.steps.append('B')

    def scaled(self, rng, s, c):
        """s * c in one of the ways an address combiner recognises (or should leave alone)"""
        x = rng.random()
        if c > 0 and c & (c - 1) == 0 and x < 0.45:
            return self.lsh(s, c.bit_length() - 1)
        if x < 0.6:
            return self.mul(s, c, 'M')
        if x < 0.8:
            return self.mul(s, c, 'm')
        return self.mul(s, c, 'K')

    def deco(self, rng, s):
        """harmless detours the combiner looks through: a copy, + constant, a block boundary"""
        x = rng.random()
        if x < 0.12:
            return self.copy(s)
        if x < 0.3:
            return self.addc(s, rng.choice([1, 8, -8, 3, 1000, -129, 0x7fffffff, -0x80000000]), rng.choice('PpQ'))
        if x < 0.38:
            self.bb()
        return s

    def line(self, cid, acc, ty, disp, base, index, scale, cell, val):
        k, r = 0, disp
        if base is not None:
            k += self.lin[base][0]
            r += self.lin[base][1]
        if index is not None:
            k += self.lin[index][0] * scale
            r += self.lin[index][1] * scale
        k &= M64
        r &= M64
        if not 1 <= k <= ADDR_MAX_K:
            return None
        rs = r - (1 << 64) if r >> 63 else r
        if abs(rs) > 1 << 50:
            return None
        seq = '%x;%x;%s;%s;%s%s.%d.%s.%s.%d' % (k, r, ','.join('%d' % v for v in self.vals), ','.join(self.steps) or 'C0.0', acc, ty, disp,
                                             '-' if base is None else '%d' % base, '-' if index is None else '%d' % index, scale)
        if len(seq) > 380:
            return None
        return '%s @ADDR iii r mi64,b,1,0,0:%x r:%x seq=%s' % (cid, cell, val, seq)


def addr_lines(rng, quick):
    """loads / stores whose ADDRESS is computed by chains of add / sub / mul / lsh by constants and then used as base and /
    or index (any scale 1..255) of a memory operand -- what the -O2/-O3 address combiner folds back into
    base + index*scale + disp and what simplify_op lowers: sums of two and three scaled registers in every association, a
    scaled base with a scaled index, an index scaled twice (products of scales up to 255*255, in particular the products
    that are a hardware scale modulo 256), constants added at every level, copies, block boundaries; positive and negative
    register values; every term takes its turn as the one that carries the address."""
    out = []
    n = [0]
    tys = MEM_INT_TYPES

    def emit(b, base, index, scale, disp=None):
        acc = 'L' if rng.random() < 0.7 else 'S'
        ty = rng.choice(tys)
        if disp is None:
            disp = rng.choice([0, 0, 0, 8, -8, 3, 127, -129, 1000, 0x7fffffff, -0x80000000])
        n[0] += 1
        l = b.line('ad%d' % n[0], acc, ty, disp, base, index, scale, rng.getrandbits(128) | (0x80 << 56) | 0x80, rng.getrandbits(64) | 0x8080)
        if l is not None:
            out.append(l)
        return l is not None

    def regs(k):
        """k distinct input registers, the carrier among them at a random position"""
        rs = rng.sample([1, 2, 3], k - 1)
        rs.insert(rng.randrange(k), 0)
        return rs

    def builder():
        return AddrBuilder([rng.choice(ADDR_VALS) for _ in range(3)])

    def const():
        return rng.choice(ADDR_CONSTS) if rng.random() < 0.7 else rng.randint(2, 255)

    def hw():
        return rng.choice([2, 4, 8])
    reps = 1 if quick else 8
    # A: sum of two scaled registers, no plain base
    for c1 in [2, 4, 8, 3, 16, 129]:
        for c2 in [2, 4, 8, 5, 255]:
            for _ in range(reps * 2):
                b = builder()
                r1, r2 = regs(2)
                t1, t2 = b.deco(rng, b.scaled(rng, r1, c1)), b.deco(rng, b.scaled(rng, r2, c2))
                a = b.add(t1, t2) if rng.random() < 0.5 else b.add(t2, t1)
                emit(b, b.deco(rng, a), None, 1)
    # B: scaled base, plain index with a scale; C: plain base, scaled index with a scale; D: both scaled
    for fam in 'BCD' * (40 if quick else 400):
        b = builder()
        r1, r2 = regs(2)
        sc = rng.choice([hw(), hw(), const(), 1])
        base = b.deco(rng, b.scaled(rng, r1, rng.choice([hw(), const()]))) if fam in 'BD' else r1
        index = b.deco(rng, b.scaled(rng, r2, rng.choice([hw(), const()]))) if fam in 'CD' else r2
        emit(b, base, index, sc)
    # C': products of two scales that are a hardware scale modulo 256: operand scale * multiplier, and an index scaled twice
    pairs = addr_wrap_pairs()
    for c1, c2 in (rng.sample(pairs, 70) if quick else pairs):
        for twice in (0, 1):
            b = builder()
            r1, r2 = regs(2)
            if twice:
                t = b.scaled(rng, b.deco(rng, b.scaled(rng, r2, c2)), c1)
                if rng.random() < 0.5:
                    emit(b, r1, t, 1)
                else:
                    emit(b, b.add(r1, t) if rng.random() < 0.5 else b.add(t, r1), None, 1)
            else:
                emit(b, r1, b.deco(rng, b.scaled(rng, r2, c2)), c1)
    # E: three terms in both associations, each term plain or scaled; used as base only or split into base + index
    for _ in range(120 if quick else 1500):
        b = builder()
        rs = regs(3)
        ts = [b.deco(rng, b.scaled(rng, r, rng.choice([hw(), hw(), const()]))) if rng.random() < 0.7 else r for r in rs]
        x = rng.random()
        if x < 0.35:
            emit(b, b.add(b.deco(rng, b.add(ts[0], ts[1])), ts[2]), None, 1)
        elif x < 0.7:
            emit(b, b.add(ts[0], b.deco(rng, b.add(ts[1], ts[2]))), None, 1)
        else:
            emit(b, b.deco(rng, b.add(ts[0], ts[1])), ts[2], rng.choice([1, hw(), const()]))
    # F: longer random chains over one or two registers (scale of scale of scale, constants in between)
    for _ in range(100 if quick else 1500):
        b = builder()
        r1, r2 = regs(2)
        t = r2
        for _ in range(rng.randint(1, 3)):
            t = b.deco(rng, b.scaled(rng, t, rng.choice([2, 2, 3, 4, 8, const()])))
        if rng.random() < 0.5:
            emit(b, r1, t, rng.choice([1, hw(), const()]))
        else:
            u = b.deco(rng, b.scaled(rng, r1, rng.choice([1, 1, hw(), const()]))) if rng.random() < 0.5 else r1
            emit(b, b.add(u, t) if rng.random() < 0.5 else b.add(t, u), None, 1)
    return out


def addr_parse(c):
    f = c['seq'].split(';')
    acc = f[4][0]
    ty, disp, base, index, scale = f[4][1:].split('.')
    return acc, ty


# ---------------------------------------------------------------- expectation
def parse_operand(tok):
    """-> dict(kind, val, ty)"""
    if tok == '-' or tok in ('r', 'x', 'y', 'X'):
        return dict(kind=tok)
    if tok[0] in 'riuk':
        return dict(kind=tok[0], val=int(tok[2:], 16))
    body, _, val = tok[1:].partition(':')
    f = body.split(',')
    return dict(kind='m', ty=f[0], form=f[1], val=int(val, 16) if val else 0)


def parse_case(line):
    w = line.split()
    c = dict(id=w[0], op=w[1], kinds=w[2], dst=parse_operand(w[3]), x=parse_operand(w[4]), y=parse_operand(w[5]), br=None,
             pre=None, post=None, prime=None, line=line)
    for t in w[6:]:
        k, _, v = t.partition('=')
        c[k] = int(v) if k == 'prime' else v
    return c


def is_special(c):
    return c['op'].startswith('@')


def parse_obs(tok):
    """'<ret>,<off>:<hex>;...' -> (ret, {offset: byte})"""
    if tok.startswith('ERR'):
        return None
    ret, _, ch = tok.partition(',')
    d = {}
    if ch:
        for run in ch.split(';'):
            off, _, hx = run.partition(':')
            off = int(off)
            for i in range(0, len(hx), 2):
                d[off + i // 2] = int(hx[i:i + 2], 16)
    return int(ret, 16), d


def parse_result_line(line):
    w = line.split()
    out = {}
    for t in w[1:]:
        eng, _, v = t.partition('=')
        out[eng] = v
    return w[0], out


def le_bytes(v, n):
    return [(v >> (8 * i)) & 0xff for i in range(n)]


EXTS = ['EXT8', 'EXT16', 'EXT32', 'UEXT8', 'UEXT16', 'UEXT32']
PRE64 = EXTS + ['NEG', 'MOV']           # unary insns with a fully defined 64-bit result
POST_ANY = EXTS + ['NEGS', 'BTS', 'BFS']  # look only at the low 32 bits (or less) of their operand
POST64 = ['NEG', 'BT', 'BF']


def overflow_boundary_pairs(w):
    """operand pairs whose exact sum / difference / product sits at or next to the w-bit signed and
    unsigned limits"""
    m = (1 << w) - 1
    mn, mx = 1 << (w - 1), (1 << (w - 1)) - 1
    neg = lambda v: (-v) & m
    base = [0, 1, m, 2, neg(2), 3, mn, mx, mn + 1, mx - 1, 1 << (w // 2), neg(1 << (w // 2)), (1 << (w // 2)) - 1,
            1 << (w - 2), neg(1 << (w - 2)), (1 << (w // 2)) + 1]
    pairs = [(a, b) for a in base for b in base]
    for i in range(0, w):
        j = w - 1 - i
        pairs += [(neg(1 << i), 1 << j), (1 << j, neg(1 << i)), (1 << i, 1 << j), (neg(1 << i), neg(1 << j))]
        if i > 0:
            pairs += [(1 << i, 1 << (w - i)), ((1 << i) - 1, (1 << (w - i)) + 1), (neg(1 << i), (1 << (j)) + 1),
                      (neg((1 << i) + 1), 1 << j)]
    out, seen = [], set()
    for p in pairs:
        if p not in seen:
            seen.add(p)
            out.append(p)
    return out


def overflow_exact_pairs(name, w, rng):
    """operand pairs whose exact result is exactly at, or one past, a signed or unsigned limit"""
    m = (1 << w) - 1
    smax, smin = (1 << (w - 1)) - 1, -(1 << (w - 1))
    limits = [m, m + 1, smax, smax + 1, smin, smin - 1, 0, -1]
    xs = [0, 1, 2, smax, smax - 1, 1 << (w - 1), (1 << (w - 1)) + 1, m, m - 1, rng.getrandbits(w), rng.getrandbits(w - 2)]
    out = []
    if name.startswith('ADD') or name.startswith('SUB'):
        for L in limits:
            for x in xs:
                for xv in (x, x - (1 << w) if x >> (w - 1) else x):      # unsigned and signed reading of x
                    y = (L - xv) if name.startswith('ADD') else (xv - L)
                    if -(1 << w) < y < (1 << w):
                        out.append((x & m, y & m))
    else:
        for i in range(0, w + 1):
            for j in (w - 1 - i, w - i, w - 2 - i):
                if 0 <= j <= w:
                    a, b = (1 << i) & m, (1 << j) & m
                    out += [(a, b), ((-a) & m, b), (a, (-b) & m), ((-a) & m, (-b) & m), ((a - 1) & m, b), (a, (b + 1) & m)]
    seen, res = set(), []
    for p in out:
        if p not in seen:
            seen.add(p)
            res.append(p)
    return res


# ---------------------------------------------------------------- conversions at their rounding boundaries (round 3)
# The operands are DERIVED FROM THE FORMATS (significand width, exponent range) instead of being picked from a list of
# "interesting" constants: a conversion into a format with p significant bits is a rounding at bit position
# ulp = 2^(e+1-p) of an operand in the binade [2^e, 2^(e+1)); the boundary of its case split is the midpoint
# k*ulp + ulp/2 (ties to even: both parities of k), its immediate neighbours (midpoint +- the least operand bit: lost by
# any detour through a format that keeps fewer operand bits, e.g. uint64 -> double -> float), midpoint +- 2^j (bits kept
# by a wider intermediate format and those that are not), the exactly representable neighbours, the last significand
# before a carry into the next binade, overflow to infinity, the denormal range where the rounding position moves, and
# underflow to zero.  float -> integer conversions truncate: integers, integers +- the least operand bit, +-2^63.
FMT_F = dict(name='f', p=24, emin=-126, emax=127)
FMT_D = dict(name='d', p=53, emin=-1022, emax=1023)
FMT_LD = dict(name='l', p=64, emin=-16382, emax=16383)
FMT = {'f': FMT_F, 'd': FMT_D, 'l': FMT_LD}


def fp_encode(fmt, sign, m, e):
    """bit pattern of (-1)^sign * m * 2^e in the format, None when not exactly representable (m >= 0 integer)"""
    p, emin, emax = fmt['p'], fmt['emin'], fmt['emax']
    if m == 0:
        bits_e, frac, intbit = 0, 0, 0
    else:
        while m % 2 == 0:
            m //= 2
            e += 1
        n = m.bit_length()
        top = e + n - 1                      # exponent of the leading bit
        if n > p or top > emax:
            return None
        if top >= emin:                      # normal
            frac = (m << (p - n)) & ((1 << (p - 1)) - 1)
            bits_e, intbit = top - emin + 1, 1
        else:                                # denormal: multiples of 2^(emin-p+1)
            sh = e - (emin - p + 1)
            if sh < 0:
                return None
            frac, bits_e, intbit = m << sh, 0, 0
    if fmt['name'] == 'f':
        return (sign << 31) | (bits_e << 23) | frac
    if fmt['name'] == 'd':
        return (sign << 63) | (bits_e << 52) | frac
    return (sign << 79) | (bits_e << 64) | (intbit << 63) | frac


def fp_specials(fmt):
    """zeros, infinities, NaNs (quiet, signalling, negative), least / greatest denormal, least / greatest normal"""
    n = fmt['name']
    if n == 'f':
        return [0, 0x80000000, 0x7f800000, 0xff800000, 0x7fc00000, 0xffc00000, 0x7f800001, 0x7fbfffff, 1, 0x80000001, 0x007fffff,
                0x00800000, 0x80800000, 0x7f7fffff, 0xff7fffff, 0x00400000, 0x00000002, 0x00000003]
    if n == 'd':
        return [0, 1 << 63, 0x7ff0000000000000, 0xfff0000000000000, 0x7ff8000000000000, 0xfff8000000000000, 0x7ff0000000000001,
                0x7ff7ffffffffffff, 1, (1 << 63) | 1, 0x000fffffffffffff, 0x0010000000000000, 0x8010000000000000, 0x7fefffffffffffff,
                0xffefffffffffffff, 0x0008000000000000, 2, 3]
    return [0, 1 << 79, 0x7fff8000000000000000, 0xffff8000000000000000, 0x7fffc000000000000000, 0xffffc000000000000000,
            0x7fffa000000000000000, 0x7fff8000000000000001, 1, (1 << 79) | 1, 0x00007fffffffffffffff, 0x00018000000000000000,
            0x80018000000000000000, 0x7ffeffffffffffffffff, 0xfffeffffffffffffffff]


def _fracs(depth, rng, quick):
    """offsets (in units of the least operand bit) inside one target ulp of 2^depth operand units, tagged"""
    if depth <= 0:
        return [(0, 'exact')]
    h = 1 << (depth - 1)
    out = [(0, 'exact'), (h, 'tie')]
    if depth >= 2:
        out += [(h - 1, 'tie-1'), (h + 1, 'tie+1'), (1, 'exact+1'), ((1 << depth) - 1, 'next-1')]
    js = list(range(1, depth - 1))
    if quick and len(js) > 2:
        js = sorted(set([rng.choice(js), js[-1]]))
    for j in js:
        out += [(h - (1 << j), 'tie-2^j'), (h + (1 << j), 'tie+2^j')]
    if depth >= 3 and (not quick or rng.random() < 0.3):
        r = rng.getrandbits(depth - 1) | 1
        out += [(h - r if r < h else 1, 'tie-rnd'), (h + r if h + r < (1 << depth) else h + 1, 'tie+rnd')]
    return out


def _signif(nbits, rng, which):
    """a significand of exactly nbits bits: 'lo' = 100..0, 'hi' = 11..1 (rounding up carries into the next binade),
    'odd' / 'even' = random with that parity (the two directions of ties-to-even)"""
    if nbits <= 0:
        return 0
    if nbits == 1:
        return 1
    top = 1 << (nbits - 1)
    if which == 'lo':
        return top
    if which == 'hi':
        return (1 << nbits) - 1
    r = top | rng.getrandbits(nbits - 1)
    return (r | 1) if which == 'odd' else (r & ~1)


def int2fp_boundaries(p, signed, rng, quick):
    """[(64-bit operand pattern, tag)]: integers at the rounding boundaries of a conversion to p significant bits"""
    out = []
    width = 63 if signed else 64
    for e in range(p, width):                      # operands with e+1 significant bits; ulp = 2^(e+1-p)
        depth = e + 1 - p
        kinds = ['odd', 'even'] if not quick else [rng.choice(['odd', 'even'])]
        if not quick or e % 4 == rng.randrange(4) or e == width - 1:
            kinds += ['hi', 'lo']
        for kd in kinds:
            k = _signif(p, rng, kd)
            for fr, tag in _fracs(depth, rng, quick):
                x = (k << depth) + fr
                tg = 'e%d:%s:%s' % (e, kd, tag)
                if x < (1 << width):
                    out.append((x, tg))
                    if signed:
                        out.append(((-x) & M64, '-' + tg))
    # exactly representable values of every width up to p bits, the limits of the integer type
    for n in sorted(set([1, 2, p - 1, p, p + 1] + ([rng.randrange(1, p)] if quick else list(range(1, p + 2))))):
        if n > width:
            continue
        x = _signif(n, rng, 'odd')
        out.append((x, 'exact%d' % n))
        if signed:
            out.append(((-x) & M64, '-exact%d' % n))
        sh = rng.randrange(0, width - n + 1)
        out.append(((x << sh) & M64, 'exact%d<<%d' % (n, sh)))
    out += [(0, 'zero'), (M64, 'allones'), (1 << 63, 'minint'), ((1 << 63) - 1, 'maxint'), ((1 << 63) + 1, 'minint+1'),
            (M64 - 1, 'allones-1')]
    return out


def fp2fp_boundaries(src, tgt, rng, quick):
    """[(operand pattern in format src, tag)]: operands at the rounding boundaries of a conversion to format tgt"""
    out = [(v, 'special') for v in fp_specials(src)]
    ps, p = src['p'], tgt['p']
    if p >= ps and tgt['emin'] <= src['emin']:      # widening: exact, every class of operand
        bins = [src['emin'], src['emin'] + 1, -1, 0, 1, src['emax']] + [rng.randrange(src['emin'], src['emax'] + 1) for _ in range(4 if quick else 40)]
        for e in bins:
            for kd in ('lo', 'hi', 'odd', 'even'):
                v = fp_encode(src, rng.getrandbits(1), _signif(ps, rng, kd), e - ps + 1)
                if v is not None:
                    out.append((v, 'normal:' + kd))
        for n in (range(1, ps) if not quick else rng.sample(range(1, ps), 6)):       # denormals with n significant bits
            for kd in ('lo', 'hi', 'odd'):
                sh = rng.randrange(0, ps - n)
                v = fp_encode(src, rng.getrandbits(1), _signif(n, rng, kd) << sh, src['emin'] - ps + 1)
                if v is not None:
                    out.append((v, 'denormal%d' % n))
        return out
    emin, emax = tgt['emin'], tgt['emax']
    lowest = emin - p + 1                            # exponent of the least target denormal
    normal = [emin, emin + 1, -1, 0, 1, 23, 24, 52, 53, 62, 63, 64, emax - 1, emax]
    normal += [rng.randrange(emin, emax + 1) for _ in range(3 if quick else 30)]
    denorm = list(range(lowest - 2, emin))           # the rounding position is fixed at 2^lowest here
    if quick:
        denorm = sorted(set([lowest - 2, lowest - 1, lowest, lowest + 1, emin - 1] + rng.sample(denorm, 4)))
    over = [emax + 1, src['emax']] if src['emax'] > emax else []
    for e in sorted(set(normal + denorm + over)):
        if not src['emin'] - ps + 1 <= e <= src['emax']:
            continue
        ue = max(e, emin) - p + 1                    # target ulp = 2^ue in this binade
        se = max(e, src['emin']) - ps + 1            # least operand bit = 2^se
        depth = ue - se
        nk = e - ue + 1                              # bits of the target significand k in this binade (<= 0: below the least denormal)
        kinds = ['odd', 'even', 'hi', 'lo'] if (not quick or e in (emin, emax, lowest, 0)) else [rng.choice(['odd', 'even']), rng.choice(['hi', 'lo'])]
        for kd in kinds:
            k = _signif(nk, rng, kd) if nk > 0 else 0
            frs = _fracs(depth, rng, quick)
            if nk <= 0:                              # [2^e, 2^(e+1)) lies inside the first target ulp
                lo = 1 << (e - se)
                frs = [(lo, 'lo'), (lo + 1, 'lo+1'), (2 * lo - 1, 'hi'), (lo + (rng.getrandbits(e - se) if e > se else 0), 'rnd')]
            for fr, tag in frs:
                m = (k << depth) + fr if depth > 0 else k
                for sg in ((0, 1) if not quick or rng.random() < 0.3 else (rng.getrandbits(1),)):
                    v = fp_encode(src, sg, m, se)
                    if v is not None:
                        out.append((v, 'e%d:%s:%s' % (e, kd, tag)))
    return out


def fp2int_boundaries(src, rng, quick):
    """[(operand pattern, tag)] for the truncating conversions to int64: integers and their nearest non-integer
    neighbours in every binade, values below 1, the limits +-2^63 and their neighbours, out-of-range and non-finite"""
    out = [(v, 'special') for v in fp_specials(src)]
    ps = src['p']
    bins = list(range(-3, 66))
    if quick:
        bins = sorted(set([-1, 0, 1, ps - 2, ps - 1, ps, 31, 32, 62, 63, 64] + rng.sample(bins, 8)))
    for e in bins:
        se = e - ps + 1                              # least operand bit 2^se
        for kd in ('lo', 'hi', 'odd', 'even'):
            ms = [_signif(ps, rng, kd)]
            if se < 0:                               # fraction bits: n, n + least bit, n + 1/2, n + 1 - least bit
                ip = _signif(max(e + 1, 0), rng, kd) if e >= 0 else 0
                one = 1 << (-se)
                ms = [ip * one, ip * one + 1, ip * one + one // 2, ip * one + one - 1]
                ms = [m for m in ms if m.bit_length() == ps or e < 0]
            for m in ms:
                for sg in (0, 1):
                    v = fp_encode(src, sg, m, se)
                    if v is not None and m != 0:
                        out.append((v, 'e%d:%s' % (e, kd)))
    for sg, m, e in [(0, 1, 63), (1, 1, 63), (0, (1 << ps) - 1, 63 - ps), (1, (1 << ps) - 1, 63 - ps), (1, (1 << (ps - 1)) + 1, 63 - ps + 1),
                     (0, 1, 64), (1, 1, 64), (0, (1 << ps) - 1, 64 - ps), (0, 1, 62), (1, 1, 62), (0, (1 << ps) - 1, 62 - ps)]:
        v = fp_encode(src, sg, m, e)
        if v is not None:
            out.append((v, 'limit'))
    return out


CONVERSIONS = {   # opcode -> (operand kind, generator)
    'I2F': ('i', lambda rng, q: int2fp_boundaries(24, True, rng, q)), 'UI2F': ('i', lambda rng, q: int2fp_boundaries(24, False, rng, q)),
    'I2D': ('i', lambda rng, q: int2fp_boundaries(53, True, rng, q)), 'UI2D': ('i', lambda rng, q: int2fp_boundaries(53, False, rng, q)),
    'I2LD': ('i', lambda rng, q: int2fp_boundaries(64, True, rng, q)), 'UI2LD': ('i', lambda rng, q: int2fp_boundaries(64, False, rng, q)),
    'F2I': ('f', lambda rng, q: fp2int_boundaries(FMT_F, rng, q)), 'D2I': ('d', lambda rng, q: fp2int_boundaries(FMT_D, rng, q)),
    'LD2I': ('l', lambda rng, q: fp2int_boundaries(FMT_LD, rng, q)),
    'F2D': ('f', lambda rng, q: fp2fp_boundaries(FMT_F, FMT_D, rng, q)), 'F2LD': ('f', lambda rng, q: fp2fp_boundaries(FMT_F, FMT_LD, rng, q)),
    'D2LD': ('d', lambda rng, q: fp2fp_boundaries(FMT_D, FMT_LD, rng, q)),
    'D2F': ('d', lambda rng, q: fp2fp_boundaries(FMT_D, FMT_F, rng, q)), 'LD2F': ('l', lambda rng, q: fp2fp_boundaries(FMT_LD, FMT_F, rng, q)),
    'LD2D': ('l', lambda rng, q: fp2fp_boundaries(FMT_LD, FMT_D, rng, q)),
}


def conversion_values(name, rng, quick):
    """deduplicated [(operand pattern, tag)] for conversion opcode name"""
    kind, g = CONVERSIONS[name]
    seen, out = set(), []
    for v, tag in g(rng, quick):
        if v not in seen:
            seen.add(v)
            out.append((v, tag))
    return kind, out

# Seeded generator of one-instruction test cases for the C02 / C20 correspondence harness
# (harness/c02_insn.c) over the boundary grid named by the property text, plus the computation of the
# expected observation from the extracted DocSpec oracle (ocaml/driver_c02.ml).
import random

M64 = (1 << 64) - 1


def int_grid():
    g = [0, 1, 2, 3, 7, 8, 0xff, 0x100, 0x7f, 0x80, 0xffff, 0x8000, 0x7fff, 0x10000]
    g += [M64, M64 - 1, 1 << 63, (1 << 63) - 1, (1 << 63) + 1, 1 << 31, (1 << 31) - 1, (1 << 31) + 1,
          (1 << 32) - 1, 1 << 32, (1 << 32) + 1, M64 ^ 0x7fffffff, M64 ^ 0x80000000, 0xffffffff80000000,
          0xffffffff7fffffff, 0x00000000ffffffff, 0xffffffff00000000, 0xdeadbeef00000001, 0x12345678ffffffff,
          0xaaaaaaaa80000000, 0x5555555500000000]
    g += [M64 - 127, M64 - 128, M64 - 0x7fff, M64 - 0x8000]          # -128 -129 -32768 -32769
    for k in (1, 2, 4, 5, 8, 15, 16, 30, 31, 32, 33, 47, 62, 63):
        g += [1 << k, ((1 << k) - 1) & M64, ((1 << k) + 1) & M64, (-(1 << k)) & M64]
    out = []
    for v in g:
        if v not in out:
            out.append(v)
    return out


SHIFT_COUNTS = [0, 1, 2, 7, 8, 15, 16, 30, 31, 32, 33, 47, 62, 63]

F_GRID = [0x00000000, 0x80000000, 0x3f800000, 0xbf800000, 0x7f800000, 0xff800000, 0x7fc00000, 0xffc00000, 0x7f800001,
          0x7fa00000, 0x00000001, 0x80000001, 0x007fffff, 0x00800000, 0x7f7fffff, 0xff7fffff, 0x3f000000, 0x3fc00000,
          0x40000000, 0x4b800000, 0x4b800001, 0x4b7fffff, 0x4f000000, 0xcf000000, 0x5f000000, 0xdf000000, 0x5effffff,
          0x5f800000, 0x5f7fffff, 0x3f7fffff, 0x3f800001, 0x40490fdb, 0xc0490fdb, 0x33800000, 0x34000000, 0x7e967699]
D_GRID = [0x0000000000000000, 0x8000000000000000, 0x3ff0000000000000, 0xbff0000000000000, 0x7ff0000000000000,
          0xfff0000000000000, 0x7ff8000000000000, 0xfff8000000000000, 0x7ff0000000000001, 0x7ff4000000000000,
          0x0000000000000001, 0x8000000000000001, 0x000fffffffffffff, 0x0010000000000000, 0x7fefffffffffffff,
          0xffefffffffffffff, 0x3fe0000000000000, 0x3ff8000000000000, 0x4000000000000000, 0x4340000000000000,
          0x4340000000000001, 0x433fffffffffffff, 0x43e0000000000000, 0xc3e0000000000000, 0x43dfffffffffffff,
          0xc3e0000000000001, 0x43f0000000000000, 0x43efffffffffffff, 0x41e0000000000000, 0x41dfffffffc00000,
          0xc1e0000000000000, 0x3ff0000010000000, 0x3ff0000010000001, 0x3ff000002fffffff, 0x3ff0000030000000,
          0x47efffffe0000000, 0x47effffff0000000, 0x47f0000000000000, 0x36a0000000000000, 0x3690000000000000,
          0x3690000000000001, 0x380fffffc0000000, 0x3810000000000000, 0x400921fb54442d18, 0x3cb0000000000000]
# x87 80-bit patterns: 1.0, -1.0, +0, -0, inf, -inf, qNaN, 2.0, 0.5, pi, max, min normal, a denormal, 2^63, 2^64
LD_GRID = [0x3fff8000000000000000, 0xbfff8000000000000000, 0, 0x80000000000000000000, 0x7fff8000000000000000,
           0xffff8000000000000000, 0x7fffc000000000000000, 0x40008000000000000000, 0x3ffe8000000000000000,
           0x4000c90fdaa22168c235, 0x7ffeffffffffffffffff, 0x00018000000000000000, 0x00000000000000000001,
           0x403e8000000000000000, 0x403f8000000000000000, 0x403dfffffffffffffffe, 0xc03e8000000000000000,
           0x3fff8000000000000001, 0x3fffffffffffffffffff, 0x4034a000000000000800]

MEM_INT_TYPES = ['i8', 'u8', 'i16', 'u16', 'i32', 'u32', 'i64', 'u64', 'p']
FORMS = ['b', 'd', 'bd', 'bi', 'bid', 'i', 'id']
KIND_MEM = {'f': ['f'], 'd': ['d'], 'l': ['ld']}
KIND_SIZE = {'i': 8, 'f': 4, 'd': 8, 'l': 10}
TYPE_SIZE = {'i8': 1, 'u8': 1, 'i16': 2, 'u16': 2, 'i32': 4, 'u32': 4, 'i64': 8, 'u64': 8, 'p': 8, 'f': 4, 'd': 8, 'ld': 10}


def grid_for(kind, rng, opname='', pos=0):
    if kind == 'i':
        g = int_grid()
        if pos == 1 and ('SH' in opname):
            g = SHIFT_COUNTS + [c | (rng.getrandbits(16) << 32) for c in (1, 31)]   # garbage above the low word
        return g
    return {'f': F_GRID, 'd': D_GRID, 'l': LD_GRID}[kind]


def rand_val(kind, rng, opname='', pos=0):
    if kind == 'i':
        if pos == 1 and 'SH' in opname:
            return rng.randrange(64)
        k = rng.random()
        if k < 0.3:
            return rng.getrandbits(64)
        if k < 0.5:
            return rng.getrandbits(32)
        if k < 0.65:
            return (-rng.getrandbits(31)) & M64
        if k < 0.8:
            return rng.getrandbits(8)
        return rng.choice(int_grid())
    if kind == 'f':
        return rng.getrandbits(32) if rng.random() < 0.5 else rng.choice(F_GRID)
    if kind == 'd':
        return rng.getrandbits(64) if rng.random() < 0.5 else rng.choice(D_GRID)
    return rng.choice(LD_GRID)


def mem_desc(rng, ty, forms=FORMS):
    form = rng.choice(forms)
    scale = rng.choice([1, 2, 4, 8])
    disp = rng.choice([0, 8, -8, 24, 1000, -129, -128, 0x7fffffff, -0x80000000, 0x80000000, -0x80000001, 0xffffffff, 127, 128, 1 << 33,
                       -(1 << 40) + 3]) if 'd' in form else 0
    index = rng.choice([0, 1, -1, 3, -5, 1000, 0x7fffffff, -0x80000000, 1 << 32]) if 'i' in form else 0
    if 'b' in form and 'i' in form and rng.random() < 0.15:
        index = (1 << 61) * rng.choice([1, 3, -1]) + rng.choice([0, 1, -7])     # index * scale wraps modulo 2^64
    return 'm%s,%s,%d,%d,%d' % (ty, form, scale, disp, index)


class Info:
    def __init__(self, name, num, line):
        self.name, self.num = name, num
        d = dict(x.split('=') for x in line.split())
        self.res, self.args, self.mask = d['res'], d['args'], int(d['mask'], 16)
        self.doc = d['doc'] == '1'
        self.ovfdef = d['ovfdef']


def opcode_infos(oracle_lines, ops):
    """ops: opcode names in enum order; oracle_lines: function list-of-requests -> list-of-answers"""
    ans = oracle_lines(['info %d' % i for i in range(len(ops))])
    return [Info(n, i, a) for i, (n, a) in enumerate(zip(ops, ans))]


OVF = ['ADDO', 'ADDOS', 'SUBO', 'SUBOS', 'MULO', 'MULOS', 'UMULO', 'UMULOS']
OBR = ['BO', 'BNO', 'UBO', 'UBNO']


def testable(info):
    """value insns (incl. LD ones), compare-and-branches, overflow insns"""
    n = info.name
    if n in OBR or n == 'JMP':
        return False
    return info.args != '' and (info.res != '-' or n.startswith('B') or n[1:].startswith('B') or n[2:].startswith('B'))


def operand_text(kind, shape, val, rng, c20=False):
    """shape letter: r i u m"""
    if shape == 'r':
        return 'r:%x' % val
    if shape in 'iu':
        return '%s:%x' % (shape, val)
    tys = MEM_INT_TYPES if kind == 'i' else KIND_MEM[kind]
    ty = rng.choice(tys)
    forms = ['b', 'bd', 'bi', 'bid'] if c20 else FORMS
    return mem_desc(rng, ty, forms) + ':%x' % (val & ((1 << (8 * TYPE_SIZE[ty])) - 1))


def gen_case(info, rng, cid, vals=None, shapes=None, dst=None, br=None, c20=False, pre=None, post=None, prime=None, press=None, far=None,
             bover=None, optexts=None):
    """returns the case line for the harness"""
    kinds = (info.res if info.res != '-' else '-') + info.args + ('-' if len(info.args) == 1 else '')
    nsrc = len(info.args)
    if vals is None:
        vals = [rand_val(k, rng, info.name, i) for i, k in enumerate(info.args)]
    if shapes is None:
        shapes = []
        for i, k in enumerate(info.args):
            x = rng.random()
            if x < 0.45:
                shapes.append('r')
            elif x < 0.75:
                shapes.append('i' if (k != 'i' or rng.random() < 0.8) else 'u')
            else:
                shapes.append('m')
    ops = [operand_text(k, s, v, rng, c20) for k, s, v in zip(info.args, shapes, vals)]
    if optexts is not None:          # operand texts given by the caller (aimed operand classes)
        ops = list(optexts)
    if nsrc == 1:
        ops.append('-')
    if info.res == '-':
        d = 'r'
    elif dst is not None:
        d = dst
    else:
        x = rng.random()
        cands = ['r']
        if shapes[0] == 'r' and info.args[0] == info.res:
            cands.append('x')
        if nsrc == 2 and shapes[1] == 'r' and info.args[1] == info.res:
            cands.append('y')
        if shapes[0] == 'm' and info.res == 'i' and info.args[0] == 'i' and not (pre or post) and rng.random() < 0.4:
            d = 'X'                   # in place: op m, m, y (the "m 0 ..." instruction patterns)
        elif x < 0.6:
            d = 'r'
        elif x < 0.8:
            d = rng.choice(cands)
        else:
            tys = MEM_INT_TYPES if info.res == 'i' else KIND_MEM[info.res]
            d = mem_desc(rng, rng.choice(tys), ['b', 'bd', 'bi', 'bid'] if c20 else FORMS)
    line = '%s %s %s %s %s %s' % (cid, info.name, kinds, d, ops[0], ops[1])
    if info.name in OVF:
        if br is None:
            sd, ud = info.ovfdef[0] == '1', info.ovfdef[1] == '1'
            br = rng.choice((['BO', 'BNO'] if sd else []) + (['UBO', 'UBNO'] if ud else []))
        line += ' br=' + br
    if pre:
        line += ' pre=' + pre
    if post:
        line += ' post=' + post
    if prime is not None:
        line += ' prime=%d' % prime
    branchy = info.res == '-' or info.name in OVF
    if branchy and (bover if bover is not None else rng.random() < 0.4):
        line += ' bover=1'       # the branch jumps over an unconditional jump (rewritten with the reversed branch)
    if far is None:
        far = (branchy or (post or '').startswith('B')) and rng.random() < 0.15
    if far and (branchy or (post or '').startswith('B')):
        line += ' far=1'         # the branch target is more than 128 bytes away (rel32 forms of the branch patterns)
    if (press is None and d in ('r', 'x') and shapes[0] == 'r' and info.res == 'i' and info.args[0] == 'i' and not (pre or post)
            and rng.random() < 0.05):
        press = rng.choice([14, 20, 28])
    if press:
        # register pressure: the instruction is also applied to x+1 .. x+press, all live at once (spilled operands ->
        # the memory forms of the instruction patterns); pmask = the defined result bits
        line += ' press=%d pmask=%x' % (press, info.mask)
    return line


# ---------------------------------------------------------------- far branches, special cases
FAR_STEPS = 24
FILL8 = 0xA5A5A5A5A5A5A5A5


def far_value():
    """what harness far_filler leaves in block[240..248)"""
    t = FILL8
    for i in range(FAR_STEPS):
        c = 0x1234567 + i * 0x10101
        t = (t + c) & M64 if i % 2 == 0 else t ^ c
    return t


def far_executed(c, flag):
    """is the filler on the executed path?  plain shape: on the fall-through path; bover shape: on the taken path"""
    return (flag == 1) if c.get('bover') in ('1', 1) else (flag == 0)


LD_ONE, LD_TWO = 0x3fff8000000000000000, 0x40008000000000000000


def special_lines(rng, quick, c20=False):
    """cases around instructions whose documented effect is not a function of operand values: stack allocation,
    block start/end, switch, label address + indirect jump, calls (also the long double result registers)"""
    out = []
    n = [0]

    def add(op, dst, x, y, extra=''):
        n[0] += 1
        out.append('z%d @%s iii %s %s %s%s' % (n[0], op, dst, x, y, extra))
    sizes = [16, 24, 4096, 100000] if quick else [16, 17, 24, 31, 32, 33, 100, 4095, 4096, 4097, 65536, 100000, 1 << 20]
    for sz in sizes:
        v = rng.getrandbits(64)
        add('ALLOCA', 'r', 'r:%x' % sz, 'r:%x' % v)
        add('ALLOCA', 'r', 'i:%x' % sz, 'i:%x' % (v & 0x7fffffff))
    for sz, cnt in ([(16, 1), (4096, 200), (24, 1000)] if quick else [(16, 1), (16, 2), (4096, 200), (24, 1000), (65536, 50), (40, 5000)]):
        add('BLOCK', 'r', 'r:%x' % sz, 'r:%x' % cnt)
        add('BLOCK', 'r', 'i:%x' % sz, 'r:%x' % cnt)
    for sel in range(5):
        add('SWITCH', 'r', 'r:%x' % sel, 'r:0')
        add('SWITCH', 'r', 'r:%x' % sel, 'r:0', ' far=1')
    for sel in (0, 1, 5):
        for viamem in (0, 1):
            add('JMPI', 'r', 'r:%x' % sel, 'r:%x' % viamem)
    for _ in range(3 if quick else 12):
        a, b = rng.choice(int_grid()), rng.getrandbits(64)
        for dst in 'rx':
            add('CALL', dst, 'r:%x' % a, 'r:%x' % b)
            add('CALL', dst, 'i:%x' % (a & 0x7fffffff), 'r:%x' % b)
    if not c20:          # multiple results cannot be translated to C; long double results are a C02 concern (st0 / st1)
        for v in (LD_ONE, 0x4000c90fdaa22168c235, 0, 0x7fff8000000000000000):
            add('CALLLD', 'r', 'r:%x' % v, 'r:0')
            add('CALLLD2', 'r', 'r:%x' % v, 'r:0')
    return out


def ld_double(v):
    """x87 pattern of v + v for the few values special_lines uses (exponent + 1 for normal numbers)"""
    e = (v >> 64) & 0x7fff
    if e == 0 or e == 0x7fff:
        return v
    return v + (1 << 64)


def special_expect(c):
    """expected observation of a special case (see harness build_special)"""
    k = c['op'][1:]
    x, y = c['x']['val'], c['y']['val']
    e = dict(ret=0, retmask=M64, writes={}, nan=None, dontcare=set())

    def put(off, v, n=8):
        for i, b in enumerate(le_bytes(v, n)):
            e['writes'][off + i] = b
    if k == 'ALLOCA':
        e['ret'] = (y + 3 * (y + 1) + 5 * (y + 2) + 7 * (y + 3)) & M64
        put(96, 0)
        put(112, 1)
    elif k == 'BLOCK':
        r = 0
        for i in range(y):
            r = (r * 3 + i) & M64
        e['ret'] = r
    elif k == 'SWITCH':
        e['ret'] = 100 + 7 * x
        if c.get('far') in ('1', 1):
            put(240, far_value())
    elif k == 'JMPI':
        e['ret'] = 2 if x != 0 else 1
        if y != 0:
            e['dontcare'] |= set(range(200, 208))      # a code address
    elif k == 'CALL':
        e['ret'] = (x * 3 + y) & M64
    elif k in ('CALLLD', 'CALLLD2'):
        put(96, ld_double(x), 10)
        if k == 'CALLLD2':
            put(192, x, 10)
    else:
        return None
    return e


# ---------------------------------------------------------------- expectation
def parse_operand(tok):
    """-> dict(kind, val, ty)"""
    if tok == '-' or tok in ('r', 'x', 'y', 'X'):
        return dict(kind=tok)
    if tok[0] in 'riu':
        return dict(kind=tok[0], val=int(tok[2:], 16))
    body, _, val = tok[1:].partition(':')
    f = body.split(',')
    return dict(kind='m', ty=f[0], form=f[1], val=int(val, 16) if val else 0)


def parse_case(line):
    w = line.split()
    c = dict(id=w[0], op=w[1], kinds=w[2], dst=parse_operand(w[3]), x=parse_operand(w[4]), y=parse_operand(w[5]), br=None,
             pre=None, post=None, prime=None, line=line)
    for t in w[6:]:
        k, _, v = t.partition('=')
        c[k] = int(v) if k == 'prime' else v
    return c


def is_special(c):
    return c['op'].startswith('@')


def parse_obs(tok):
    """'<ret>,<off>:<hex>;...' -> (ret, {offset: byte})"""
    if tok.startswith('ERR'):
        return None
    ret, _, ch = tok.partition(',')
    d = {}
    if ch:
        for run in ch.split(';'):
            off, _, hx = run.partition(':')
            off = int(off)
            for i in range(0, len(hx), 2):
                d[off + i // 2] = int(hx[i:i + 2], 16)
    return int(ret, 16), d


def parse_result_line(line):
    w = line.split()
    out = {}
    for t in w[1:]:
        eng, _, v = t.partition('=')
        out[eng] = v
    return w[0], out


def le_bytes(v, n):
    return [(v >> (8 * i)) & 0xff for i in range(n)]


EXTS = ['EXT8', 'EXT16', 'EXT32', 'UEXT8', 'UEXT16', 'UEXT32']
PRE64 = EXTS + ['NEG', 'MOV']           # unary insns with a fully defined 64-bit result
POST_ANY = EXTS + ['NEGS', 'BTS', 'BFS']  # look only at the low 32 bits (or less) of their operand
POST64 = ['NEG', 'BT', 'BF']


def overflow_boundary_pairs(w):
    """operand pairs whose exact sum / difference / product sits at or next to the w-bit signed and
    unsigned limits"""
    m = (1 << w) - 1
    mn, mx = 1 << (w - 1), (1 << (w - 1)) - 1
    neg = lambda v: (-v) & m
    base = [0, 1, m, 2, neg(2), 3, mn, mx, mn + 1, mx - 1, 1 << (w // 2), neg(1 << (w // 2)), (1 << (w // 2)) - 1,
            1 << (w - 2), neg(1 << (w - 2)), (1 << (w // 2)) + 1]
    pairs = [(a, b) for a in base for b in base]
    for i in range(0, w):
        j = w - 1 - i
        pairs += [(neg(1 << i), 1 << j), (1 << j, neg(1 << i)), (1 << i, 1 << j), (neg(1 << i), neg(1 << j))]
        if i > 0:
            pairs += [(1 << i, 1 << (w - i)), ((1 << i) - 1, (1 << (w - i)) + 1), (neg(1 << i), (1 << (j)) + 1),
                      (neg((1 << i) + 1), 1 << j)]
    out, seen = [], set()
    for p in pairs:
        if p not in seen:
            seen.add(p)
            out.append(p)
    return out


def overflow_exact_pairs(name, w, rng):
    """operand pairs whose exact result is exactly at, or one past, a signed or unsigned limit"""
    m = (1 << w) - 1
    smax, smin = (1 << (w - 1)) - 1, -(1 << (w - 1))
    limits = [m, m + 1, smax, smax + 1, smin, smin - 1, 0, -1]
    xs = [0, 1, 2, smax, smax - 1, 1 << (w - 1), (1 << (w - 1)) + 1, m, m - 1, rng.getrandbits(w), rng.getrandbits(w - 2)]
    out = []
    if name.startswith('ADD') or name.startswith('SUB'):
        for L in limits:
            for x in xs:
                for xv in (x, x - (1 << w) if x >> (w - 1) else x):      # unsigned and signed reading of x
                    y = (L - xv) if name.startswith('ADD') else (xv - L)
                    if -(1 << w) < y < (1 << w):
                        out.append((x & m, y & m))
    else:
        for i in range(0, w + 1):
            for j in (w - 1 - i, w - i, w - 2 - i):
                if 0 <= j <= w:
                    a, b = (1 << i) & m, (1 << j) & m
                    out += [(a, b), ((-a) & m, b), (a, (-b) & m), ((-a) & m, (-b) & m), ((a - 1) & m, b), (a, (b + 1) & m)]
    seen, res = set(), []
    for p in out:
        if p not in seen:
            seen.add(p)
            res.append(p)
    return res

#!/usr/bin/env python3
# tr_c02_peephole: regenerate coq/gen/Peephole.v from two value-changing rewrites of the CURRENT tree:
#  (1) the link-time algebraic shortcuts of simplify_func (mir.c): `op r,x,C -> mov r,x` for the opcode
#      sets tested against an integer immediate 1 resp. 0;
#  (2) transform_mul_div (mir-gen.c): mul/udiv/div by a power of two 2^sh -> shift sequences: the
#      opcode map, the guards on sh per opcode and the instruction sequences built with MIR_new_insn.
# Unknown shape => an `Unknown` entry that the Coq recogniser rejects (theorem fails).
import sys, os, re, json
sys.path.insert(0, os.path.dirname(os.path.abspath(__file__)))
import vlib
from tr_c02_clib import find_function, Unsupported, parse_expr_text
import tr_c02_smt as SMT
import tr_c02_peval as PE

NOTES = []      # constructs tied by symbolic execution + SMT instead of by their literal text
CANON = os.path.join(vlib.VERIF, 'corpus', 'c02_canon_peephole.json')


def canon():
    try:
        return json.load(open(CANON))
    except (OSError, ValueError):
        return {}


def norm(s):
    return re.sub(r'\s+', ' ', s).strip()


def shortcuts(repo):
    src = open(os.path.join(repo, 'mir.c')).read()
    r = find_function(src, 'simplify_func')
    if r is None:
        return None, 'simplify_func not found'
    body = re.sub(r'/\*.*?\*/', ' ', r[1], flags=re.S)
    out = []
    # ((code == A || code == B ...) && insn->ops[2].mode == MIR_OP_INT && insn->ops[2].u.i == C)
    pat = re.compile(r'\(\(((?:code\s*==\s*MIR_\w+\s*\|\|\s*)*code\s*==\s*MIR_\w+)\)\s*&&\s*insn->ops\[2\]\.mode\s*==\s*MIR_OP_INT\s*'
                     r'&&\s*insn->ops\[2\]\.u\.i\s*==\s*(\d+)\)')
    ms = list(pat.finditer(body))
    if not ms:
        return shortcuts_symbolic(repo)
    for m in ms:
        for op in re.findall(r'MIR_(\w+)', m.group(1)):
            out.append((op, int(m.group(2))))
    # the replacement must be the plain move of operand 1
    tail = body[ms[-1].end():ms[-1].end() + 600]
    if not re.search(r'MIR_new_insn\s*\(ctx,\s*MIR_MOV,\s*insn->ops\[0\],\s*insn->ops\[1\]\)', tail):
        return None, 'shortcut replacement is not `mov ops[0], ops[1]`'
    return out, None


def enclosing_condition(body, pos):
    """text of COND of the innermost `if (COND) {` / `else if (COND) {` whose block contains position pos"""
    depth = 0
    i = pos
    while i > 0:
        i -= 1
        ch = body[i]
        if ch == '}':
            depth += 1
        elif ch == '{':
            if depth:
                depth -= 1
                continue
            # the block containing pos opens here: what precedes it?
            j = i - 1
            while j >= 0 and body[j] in ' \t\r\n':
                j -= 1
            if j < 0 or body[j] != ')':
                continue            # a block of another statement: look further out
            k, d = j, 0
            while k >= 0:
                d += {')': 1, '(': -1}.get(body[k], 0)
                if d == 0:
                    break
                k -= 1
            head = body[:k].rstrip()
            if head.endswith('if'):
                return body[k + 1:j]
    return None


def shortcuts_symbolic(repo):
    """the shortcut condition is not in the literal form: execute it symbolically (helper functions, switch) for every
    opcode with the constant of operand 2 as the unknown, and let the SMT solver enumerate the constants"""
    import tr_opcodes, tr_c02_interp
    src = tr_c02_interp.preprocess(repo)
    r = find_function(src, 'simplify_func')
    if r is None:
        return None, 'simplify_func not found'
    body = r[1]
    m = re.search(r'MIR_new_insn\s*\(ctx,\s*MIR_MOV,\s*insn->ops\[0\],\s*insn->ops\[1\]\)', body)
    if not m:
        return None, 'shortcut replacement `mov ops[0], ops[1]` not found'
    inner = enclosing_condition(body, m.start())       # if (!MIR_op_eq_p (...))
    cond = None
    if inner is not None and 'MIR_op_eq_p' in inner:
        pos = body.rfind(inner, 0, m.start())
        cond = enclosing_condition(body, body.rfind('if', 0, pos))
    if cond is None:
        return None, 'condition guarding the shortcut not found'
    enums = PE.parse_enums(src)
    ops = tr_opcodes.opcodes(repo)
    modes = sorted(n for n in enums if re.match(r'^MIR_OP_[A-Z_]+$', n) and n != 'MIR_OP_BOUND')
    if 'MIR_OP_INT' not in modes:
        return None, 'MIR_OP_INT not found'
    try:
        ce = parse_expr_text(cond, {'MIR_insn_t', 'MIR_context_t', 'MIR_item_t', 'MIR_insn_code_t', 'MIR_op_t', 'size_t'})
    except Unsupported as e:
        return None, 'shortcut condition: %s' % e
    out = []
    cvar = ('EVar', 1, 'CI64')
    cur = {}
    o2 = ('index', ('arrow', ('id', 'insn'), 'ops'), ('num', '2'))

    def ext(e, fr):
        if e == ('id', 'code') or e == ('arrow', ('id', 'insn'), 'code'):
            return PE.V('CI32', c=enums['MIR_' + cur['op']])
        if e == ('id', 'insn'):
            return PE.V('OPAQUE', e='insn')
        if e == ('id', 'ctx'):
            return PE.V('OPAQUE', e='ctx')
        if e == ('member', o2, 'mode'):
            return PE.V('CI32', c=enums[cur['mode']])
        if e == ('member', ('member', o2, 'u'), 'i'):
            return PE.V('CI64', e=cvar)
        if e == ('member', ('member', o2, 'u'), 'u'):
            return PE.V('CU64', e=('ECast', 'CU64', cvar))
        if e == ('arrow', ('id', 'insn'), 'nops'):
            return PE.V('CU64', c=3)
        return None
    pe = PE.PEval(src, enums, {'MIR_insn_t', 'MIR_context_t', 'MIR_item_t', 'MIR_insn_code_t', 'MIR_op_t', 'size_t', 'int64_t'}, ext)
    for op in ops:
        if 'MIR_' + op not in enums:
            return None, 'enumerator MIR_%s not found' % op
        for mode in modes:
            cur['op'], cur['mode'] = op, mode
            try:
                v = pe.eval(ce, PE.Frame(), True)
            except Unsupported as e:
                return None, 'shortcut condition for %s: %s' % (op, e)
            t = PE.truthy(v)
            if t is False:
                continue
            if mode != 'MIR_OP_INT':
                return None, 'the shortcut also applies to operand mode %s' % mode
            if t is True:
                return None, 'the shortcut applies to %s with any constant' % op
            found = []
            try:
                for _ in range(5):
                    enc = SMT.Enc()
                    ty, term, d = enc.enc(t)
                    excl = ' '.join('(not (= p1 %s))' % SMT.bvconst(c, 64) for c in found)
                    res, model = SMT.query(enc, '(and %s %s %s)' % (d, enc.truth(ty, term), excl or 'true'))
                    if res == 'unsat':
                        break
                    if res != 'sat' or len(found) == 4:
                        return None, 'constants of the shortcut for %s could not be enumerated' % op
                    found.append(model.get(1, 0))
            except SMT.NoSmt as e:
                return None, 'shortcut condition for %s: %s' % (op, e)
            for c in found:
                out.append((op, c - (1 << 64) if c >= 1 << 63 else c))
    if not out:
        return None, 'no shortcut found'
    NOTES.append('simplify_func shortcut condition (executed symbolically per opcode, constants enumerated by SMT)')
    return out, None


def classify_const(text, body):
    """an immediate built by transform_mul_div that is not in one of the literal forms: a local assigned once is
    replaced by its definition; then, with sh the unknown and op_ref->u.i = 2^sh, the SMT solver decides for all
    0 <= sh <= 62 whether it is sh or 2^sh - 1"""
    text = text.strip()
    if re.match(r'^[A-Za-z_]\w*$', text):
        defs = re.findall(r'(?<![\w.>])%s\s*=(?!=)\s*([^;]+);' % re.escape(text), body)
        if len(defs) != 1:
            return None
        text = defs[0]
    sh = ('EVar', 1, 'CI32')
    pow2 = ('EBin', 'Oshl', ('EConst', 1, 'CI64'), sh)

    def ext(e, fr):
        if e == ('id', 'sh'):
            return PE.V('CI32', e=sh)
        if e == ('member', ('arrow', ('id', 'op_ref'), 'u'), 'i'):
            return PE.V('CI64', e=pow2)
        return None
    try:
        ce = parse_expr_text(text, {'int64_t', 'uint64_t'})
        pe = PE.PEval('', {}, {'int64_t', 'uint64_t'}, ext)
        v = PE.conv('CI64', pe.eval(ce, PE.Frame(), True))
    except Unsupported:
        return None
    if v.c is not None:
        return '(PConst (CNum %d))' % v.c if v.c >= 0 else None
    pre = ('ECond', ('EBin', 'Oge', sh, ('EConst', 0, 'CI32')), ('EBin', 'Ole', sh, ('EConst', 62, 'CI32')), PE.ZERO)
    for name, target in (('CSh', ('ECast', 'CI64', sh)), ('CPow2m1', ('EBin', 'Osub', pow2, ('EConst', 1, 'CI64')))):
        ok, _ = PE.holds_for_all(pe, ('ECond', pre, ('EBin', 'Oeq', v.e, target), PE.ONE))
        if ok:
            NOTES.append('transform_mul_div immediate `%s` = %s for all 0 <= sh <= 62 (SMT)' % (norm(text), {'CSh': 'sh', 'CPow2m1': '2^sh - 1'}[name]))
            return '(PConst %s)' % name
    return None


def log2_problem(src):
    """gen_int_log2 (i) >= 0 only for i = 2^k, k <= 62, and then it is k: known text, or symbolic execution + SMT"""
    g = find_function(src, 'gen_int_log2')
    if g is None:
        return 'gen_int_log2 not found'
    text = norm(re.sub(r'/\*.*?\*/', ' ', g[1], flags=re.S))
    if text == canon().get('gen_int_log2'):
        return None
    try:
        pe = PE.PEval(re.sub(r'/\*.*?\*/', ' ', src, flags=re.S), {}, {'int64_t', 'uint64_t'})
        i = ('EVar', 1, 'CI64')
        r = pe.call('gen_int_log2', [PE.V('CI64', e=i)], True).expr()
        claim = ('ECond', ('EBin', 'Oge', r, ('EConst', 0, 'CI64')),
                 ('ECond', ('EBin', 'Ole', r, ('EConst', 62, 'CI64')), ('EBin', 'Oeq', i, ('EBin', 'Oshl', ('EConst', 1, 'CI64'), r)), PE.ZERO), PE.ONE)
        ok, why = PE.holds_for_all(pe, claim)
    except Unsupported as e:
        return 'gen_int_log2: %s' % e
    if not ok:
        return 'gen_int_log2 may return k >= 0 for a constant that is not 2^k (%s)' % (why,)
    NOTES.append('gen_int_log2 (executed symbolically; result >= 0 only for 2^k, k <= 62, and then k: SMT)')
    return None


def operand(tok, local):
    tok = tok.strip()
    m = re.match(r'^temp\[(\d+)\]$', tok)
    if m:
        return '(PTemp %d)' % int(m.group(1))
    if tok == 'insn->ops[1]':
        return 'PSrc'
    if tok == 'insn->ops[0]':
        return 'PDst'
    m = re.match(r'^MIR_new_int_op\s*\(ctx,\s*(.*)\)$', tok)
    if m:
        a = norm(m.group(1))
        if re.match(r'^\d+$', a):
            return '(PConst (CNum %s))' % a
        if a == 'sh':
            return '(PConst CSh)'
        if a == 'op_ref->u.i - 1':
            return '(PConst CPow2m1)'
        if local is not None:
            return classify_const(a, local)
    return None


def insn_list(text, body=None):
    """MIR_new_insn (ctx, CODE, dst, srcs...) calls of a block, in order -> [(code, dst, [srcs])] or None"""
    out = []
    for m in re.finditer(r'new_insns\[(\d+)\]\s*=\s*MIR_new_insn\s*\(ctx,\s*(MIR_\w+|new_code)\s*,', text):
        i = m.end()
        depth = 1
        j = i
        while depth and j < len(text):
            depth += {'(': 1, ')': -1}.get(text[j], 0)
            j += 1
        args = []
        cur = ''
        d = 0
        for ch in text[i:j - 1]:
            if ch == ',' and d == 0:
                args.append(cur)
                cur = ''
            else:
                d += {'(': 1, ')': -1}.get(ch, 0)
                cur += ch
        args.append(cur)
        ops = [operand(a, body) for a in args]
        if any(o is None for o in ops):
            return None
        out.append((int(m.group(1)), m.group(2), ops[0], ops[1:]))
    out.sort(key=lambda x: x[0])
    return [(c, d, s) for _, c, d, s in out]


def muldiv(repo):
    src = open(os.path.join(repo, 'mir-gen.c')).read()
    r = find_function(src, 'transform_mul_div')
    if r is None:
        return None, 'transform_mul_div not found'
    body = re.sub(r'/\*.*?\*/', ' ', r[1], flags=re.S)
    cmap = dict(re.findall(r'case MIR_(\w+):\s*new_code\s*=\s*MIR_(\w+);\s*break;', body))
    if not cmap:
        return None, 'opcode map not found'
    # power2_int_op/gen_int_log2: sh = log2 of a positive int64 power of two (so sh <= 62)
    lp = log2_problem(src)
    if lp is not None:
        return None, lp
    bounds = {op: 63 for op in cmap}
    # guards of the form (insn->code == A || insn->code == B) && sh >= N  ... return insn;
    for m in re.finditer(r'\(?((?:insn->code\s*==\s*MIR_\w+\s*\|\|\s*)*insn->code\s*==\s*MIR_\w+)\)?\s*&&\s*sh\s*>=\s*(\d+)', body):
        for op in re.findall(r'MIR_(\w+)', m.group(1)):
            if op in bounds:
                bounds[op] = min(bounds[op], int(m.group(2)))
    # the three shapes: sh == 0 -> mov; non-division -> one shift; division -> bias sequence
    i0 = body.find('if (sh == 0)')
    i1 = body.find('else if (insn->code != MIR_DIV && insn->code != MIR_DIVS)')
    i2 = body.find('if (insn->code == MIR_DIV) {', i1)
    if min(i0, i1, i2) < 0:
        return None, 'unexpected structure of transform_mul_div'
    mov = insn_list(body[i0:i1], body)
    shift = insn_list(body[i1:i2], body)
    i3 = body.find('} else {', i2)
    i4 = body.find('}', i3 + 8)
    div64 = insn_list(body[i2:i3], body)
    div32 = insn_list(body[i3:i4], body)
    rest = insn_list(body[i4:body.find('for (int i = 0; i < 7; i++)', i4)], body)
    if None in (mov, shift, div64, div32, rest) or not div64 or not div32:
        return None, 'an instruction sequence of transform_mul_div could not be read'
    rows = []
    for op, new in cmap.items():
        def subst(seq):
            return [(new if c == 'new_code' else c[4:], d, s) for c, d, s in seq]
        if op in ('DIV', 'DIVS'):
            seq = subst((div64 if op == 'DIV' else div32) + rest)
        else:
            seq = subst(shift)
        rows.append((op, bounds[op], subst(mov), seq))
    return rows, None


def coq_seq(seq):
    return '[' + '; '.join('(%s, %s, [%s])' % (c, d, '; '.join(s)) for c, d, s in seq) + ']'


def snapshot():
    src = open(os.path.join(vlib.REPO, 'mir-gen.c')).read()
    g = find_function(src, 'gen_int_log2')
    json.dump({'gen_int_log2': norm(re.sub(r'/\*.*?\*/', ' ', g[1], flags=re.S))}, open(CANON, 'w'), indent=0)
    print('wrote', CANON)


def main():
    repo = vlib.REPO
    if '--snapshot' in sys.argv:
        return snapshot()
    del NOTES[:]
    sc, e1 = shortcuts(repo)
    md, e2 = muldiv(repo)
    s = '(* GENERATED on every run by tools/tr_c02_peephole.py from mir.c / mir-gen.c of the checked tree. *)\n'
    s += 'From Coq Require Import ZArith List String.\nFrom MirV Require Import Mir.Opcode C02.PeepholeDefs.\n'
    s += 'Import ListNotations.\nLocal Open Scope Z_scope.\n\n'
    s += '(* simplify_func: `op r, x, C` is replaced by `mov r, x` *)\n'
    if sc is None:
        s += 'Definition shortcut_table : list (opcode * Z) := [(INVALID_INSN, 0)].  (* %s *)\n\n' % e1
    else:
        s += 'Definition shortcut_table : list (opcode * Z) :=\n  [ ' + '; '.join('(%s, %d)' % x for x in sc) + ' ].\n\n'
    s += '(* transform_mul_div: (opcode, exclusive bound on sh, sequence for sh = 0, sequence for 0 < sh < bound) *)\n'
    if md is None:
        s += 'Definition muldiv_table : list (opcode * Z * list pinsn * list pinsn) := [(INVALID_INSN, 0, [], [])].  (* %s *)\n' % e2
    else:
        s += 'Definition muldiv_table : list (opcode * Z * list pinsn * list pinsn) :=\n  [ '
        s += '\n  ; '.join('(%s, %d, %s,\n     %s)' % (op, b, coq_seq(mv), coq_seq(sq)) for op, b, mv, sq in md) + ' ].\n'
    out = os.path.join(vlib.COQDIR, 'gen', 'Peephole.v')
    os.makedirs(os.path.dirname(out), exist_ok=True)
    old = open(out).read() if os.path.exists(out) else None
    if old != s:
        open(out + '.tmp%d' % os.getpid(), 'w').write(s)
        os.rename(out + '.tmp%d' % os.getpid(), out)
    SMT.write_notes('peephole', list(NOTES))
    print('Peephole: %s shortcuts, %s mul/div rewrites%s%s' % (len(sc) if sc else 'UNKNOWN', len(md) if md else 'UNKNOWN',
                                                              (' [' + (e1 or '') + ' ' + (e2 or '') + ']') if (e1 or e2) else '',
                                                              ('; tied by symbolic execution + SMT: ' + '; '.join(NOTES)) if NOTES else ''))


if __name__ == '__main__':
    main()

#!/usr/bin/env python3
# tr_c02_peephole: regenerate coq/gen/Peephole.v from two value-changing rewrites of the CURRENT tree:
#  (1) the link-time algebraic shortcuts of simplify_func (mir.c): `op r,x,C -> mov r,x` for the opcode
#      sets tested against an integer immediate 1 resp. 0;
#  (2) transform_mul_div (mir-gen.c): mul/udiv/div by a power of two 2^sh -> shift sequences: the
#      opcode map, the guards on sh per opcode and the instruction sequences built with MIR_new_insn.
# Unknown shape => an `Unknown` entry that the Coq recogniser rejects (theorem fails).
import sys, os, re
sys.path.insert(0, os.path.dirname(os.path.abspath(__file__)))
import vlib
from tr_c02_clib import find_function


def norm(s):
    return re.sub(r'\s+', ' ', s).strip()


def shortcuts(repo):
    src = open(os.path.join(repo, 'mir.c')).read()
    r = find_function(src, 'simplify_func')
    if r is None:
        return None, 'simplify_func not found'
    body = re.sub(r'/\*.*?\*/', ' ', r[1], flags=re.S)
    out = []
    # ((code == A || code == B ...) && insn->ops[2].mode == MIR_OP_INT && insn->ops[2].u.i == C)
    pat = re.compile(r'\(\(((?:code\s*==\s*MIR_\w+\s*\|\|\s*)*code\s*==\s*MIR_\w+)\)\s*&&\s*insn->ops\[2\]\.mode\s*==\s*MIR_OP_INT\s*'
                     r'&&\s*insn->ops\[2\]\.u\.i\s*==\s*(\d+)\)')
    ms = list(pat.finditer(body))
    if not ms:
        return None, 'shortcut condition not found'
    for m in ms:
        for op in re.findall(r'MIR_(\w+)', m.group(1)):
            out.append((op, int(m.group(2))))
    # the replacement must be the plain move of operand 1
    tail = body[ms[-1].end():ms[-1].end() + 600]
    if not re.search(r'MIR_new_insn\s*\(ctx,\s*MIR_MOV,\s*insn->ops\[0\],\s*insn->ops\[1\]\)', tail):
        return None, 'shortcut replacement is not `mov ops[0], ops[1]`'
    return out, None


def operand(tok, local):
    tok = tok.strip()
    m = re.match(r'^temp\[(\d+)\]$', tok)
    if m:
        return '(PTemp %d)' % int(m.group(1))
    if tok == 'insn->ops[1]':
        return 'PSrc'
    if tok == 'insn->ops[0]':
        return 'PDst'
    m = re.match(r'^MIR_new_int_op\s*\(ctx,\s*(.*)\)$', tok)
    if m:
        a = norm(m.group(1))
        if re.match(r'^\d+$', a):
            return '(PConst (CNum %s))' % a
        if a == 'sh':
            return '(PConst CSh)'
        if a == 'op_ref->u.i - 1':
            return '(PConst CPow2m1)'
    return None


def insn_list(text):
    """MIR_new_insn (ctx, CODE, dst, srcs...) calls of a block, in order -> [(code, dst, [srcs])] or None"""
    out = []
    for m in re.finditer(r'new_insns\[(\d+)\]\s*=\s*MIR_new_insn\s*\(ctx,\s*(MIR_\w+|new_code)\s*,', text):
        i = m.end()
        depth = 1
        j = i
        while depth and j < len(text):
            depth += {'(': 1, ')': -1}.get(text[j], 0)
            j += 1
        args = []
        cur = ''
        d = 0
        for ch in text[i:j - 1]:
            if ch == ',' and d == 0:
                args.append(cur)
                cur = ''
            else:
                d += {'(': 1, ')': -1}.get(ch, 0)
                cur += ch
        args.append(cur)
        ops = [operand(a, None) for a in args]
        if any(o is None for o in ops):
            return None
        out.append((int(m.group(1)), m.group(2), ops[0], ops[1:]))
    out.sort(key=lambda x: x[0])
    return [(c, d, s) for _, c, d, s in out]


def muldiv(repo):
    src = open(os.path.join(repo, 'mir-gen.c')).read()
    r = find_function(src, 'transform_mul_div')
    if r is None:
        return None, 'transform_mul_div not found'
    body = re.sub(r'/\*.*?\*/', ' ', r[1], flags=re.S)
    cmap = dict(re.findall(r'case MIR_(\w+):\s*new_code\s*=\s*MIR_(\w+);\s*break;', body))
    if not cmap:
        return None, 'opcode map not found'
    # power2_int_op/gen_int_log2: sh = log2 of a positive int64 power of two (so sh <= 62)
    g = find_function(src, 'gen_int_log2')
    if g is None or 'if (i <= 0) return -1;' not in norm(g[1]):
        return None, 'gen_int_log2 does not reject non-positive constants'
    bounds = {op: 63 for op in cmap}
    # guards of the form (insn->code == A || insn->code == B) && sh >= N  ... return insn;
    for m in re.finditer(r'\(?((?:insn->code\s*==\s*MIR_\w+\s*\|\|\s*)*insn->code\s*==\s*MIR_\w+)\)?\s*&&\s*sh\s*>=\s*(\d+)', body):
        for op in re.findall(r'MIR_(\w+)', m.group(1)):
            if op in bounds:
                bounds[op] = min(bounds[op], int(m.group(2)))
    # the three shapes: sh == 0 -> mov; non-division -> one shift; division -> bias sequence
    i0 = body.find('if (sh == 0)')
    i1 = body.find('else if (insn->code != MIR_DIV && insn->code != MIR_DIVS)')
    i2 = body.find('if (insn->code == MIR_DIV) {', i1)
    if min(i0, i1, i2) < 0:
        return None, 'unexpected structure of transform_mul_div'
    mov = insn_list(body[i0:i1])
    shift = insn_list(body[i1:i2])
    i3 = body.find('} else {', i2)
    i4 = body.find('}', i3 + 8)
    div64 = insn_list(body[i2:i3])
    div32 = insn_list(body[i3:i4])
    rest = insn_list(body[i4:body.find('for (int i = 0; i < 7; i++)', i4)])
    if None in (mov, shift, div64, div32, rest) or not div64 or not div32:
        return None, 'an instruction sequence of transform_mul_div could not be read'
    rows = []
    for op, new in cmap.items():
        def subst(seq):
            return [(new if c == 'new_code' else c[4:], d, s) for c, d, s in seq]
        if op in ('DIV', 'DIVS'):
            seq = subst((div64 if op == 'DIV' else div32) + rest)
        else:
            seq = subst(shift)
        rows.append((op, bounds[op], subst(mov), seq))
    return rows, None


def coq_seq(seq):
    return '[' + '; '.join('(%s, %s, [%s])' % (c, d, '; '.join(s)) for c, d, s in seq) + ']'


def main():
    repo = vlib.REPO
    sc, e1 = shortcuts(repo)
    md, e2 = muldiv(repo)
    s = '(* GENERATED on every run by tools/tr_c02_peephole.py from mir.c / mir-gen.c of the checked tree. *)\n'
    s += 'From Coq Require Import ZArith List String.\nFrom MirV Require Import Mir.Opcode C02.PeepholeDefs.\n'
    s += 'Import ListNotations.\nLocal Open Scope Z_scope.\n\n'
    s += '(* simplify_func: `op r, x, C` is replaced by `mov r, x` *)\n'
    if sc is None:
        s += 'Definition shortcut_table : list (opcode * Z) := [(INVALID_INSN, 0)].  (* %s *)\n\n' % e1
    else:
        s += 'Definition shortcut_table : list (opcode * Z) :=\n  [ ' + '; '.join('(%s, %d)' % x for x in sc) + ' ].\n\n'
    s += '(* transform_mul_div: (opcode, exclusive bound on sh, sequence for sh = 0, sequence for 0 < sh < bound) *)\n'
    if md is None:
        s += 'Definition muldiv_table : list (opcode * Z * list pinsn * list pinsn) := [(INVALID_INSN, 0, [], [])].  (* %s *)\n' % e2
    else:
        s += 'Definition muldiv_table : list (opcode * Z * list pinsn * list pinsn) :=\n  [ '
        s += '\n  ; '.join('(%s, %d, %s,\n     %s)' % (op, b, coq_seq(mv), coq_seq(sq)) for op, b, mv, sq in md) + ' ].\n'
    out = os.path.join(vlib.COQDIR, 'gen', 'Peephole.v')
    os.makedirs(os.path.dirname(out), exist_ok=True)
    old = open(out).read() if os.path.exists(out) else None
    if old != s:
        open(out + '.tmp%d' % os.getpid(), 'w').write(s)
        os.rename(out + '.tmp%d' % os.getpid(), out)
    print('Peephole: %s shortcuts, %s mul/div rewrites%s' % (len(sc) if sc else 'UNKNOWN', len(md) if md else 'UNKNOWN',
                                                              (' [' + (e1 or '') + ' ' + (e2 or '') + ']') if (e1 or e2) else ''))


if __name__ == '__main__':
    main()

# Seeded generator of MIR module descriptions for the C10/C11 correspondence runs, in the
# description language of harness/c11_io.c / ocaml/driver_c11.ml (one case = one line).
# Every random choice comes from the rng passed in.
import re

INT_T = ['i8', 'u8', 'i16', 'u16', 'i32', 'u32', 'i64', 'u64', 'p']
REG_T = ['i64', 'f', 'd', 'ld']
HARD_I = ['rbx', 'r12', 'r13', 'r14', 'r15', 'rsi', 'rdi', 'r8', 'r9', 'rcx', 'rdx', 'rax']
HARD_F = ['xmm10', 'xmm11', 'xmm12', 'xmm13', 'xmm14', 'xmm15', 'xmm0', 'xmm7']
MODE = {0: 'undef', 1: 'reg', 3: 'int', 5: 'f', 6: 'd', 7: 'ld', 12: 'label'}
TWIDTH = {'i8': 8, 'u8': 8, 'i16': 16, 'u16': 16, 'i32': 32, 'u32': 32, 'i64': 64, 'u64': 64, 'p': 64}
KEYWORDS = {'module', 'endmodule', 'proto', 'func', 'endfunc', 'export', 'import', 'forward', 'bss', 'ref', 'lref',
            'expr', 'string', 'local', 'global'}


def parse_table(lines):
    """`c11_io table` output -> {name: [(mode, out)]} in opcode order"""
    tab = []
    for l in lines:
        w = l.split()
        if not w or w[0] == 'modes':
            continue
        ops = []
        for m in w[2:]:
            out = m.endswith('o')
            ops.append((MODE[int(m.rstrip('o'))], out))
        tab.append((int(w[0]), w[1], ops))
    return tab


def interesting_ints(rng):
    k = rng.random()
    if k < 0.25:
        return rng.choice([0, 1, -1, 2, 127, 128, -128, -129, 255, 256, 65535, 65536, 2**31 - 1, 2**31, -2**31,
                           -2**31 - 1, 2**32 - 1, 2**32, 2**63 - 1, -2**63, -2**63 + 1])
    if k < 0.6:
        e = rng.randint(0, 63)
        v = (1 << e) + rng.choice([-1, 0, 1])
        return max(-2**63, min(2**63 - 1, v if rng.random() < 0.6 else -v))
    if k < 0.8:
        return rng.randint(-300, 300)
    return rng.randint(-2**63, 2**63 - 1)


def interesting_uints(rng, text_safe):
    lim = 2**63 - 1 if text_safe else 2**64 - 1
    k = rng.random()
    if k < 0.3:
        return min(lim, rng.choice([0, 1, 126, 127, 128, 129, 255, 256, 65535, 65536, 2**24 - 1, 2**24, 2**32 - 1, 2**32,
                                    2**40, 2**48 - 1, 2**56, 2**63 - 1, 2**63, 2**64 - 1]))
    if k < 0.7:
        e = rng.randint(0, 64)
        return max(0, min(lim, (1 << e) + rng.choice([-1, 0, 1])))
    return rng.randint(0, lim)


def _roundtrips(v, digits, mant_bits):
    """does the positive rational v (a binary float with mant_bits of precision, normal range) survive printing with
    `digits` significant decimal digits and reading back to the nearest float?  (exact arithmetic)"""
    from fractions import Fraction
    e10 = len(str(v.numerator // v.denominator)) - 1 if v >= 1 else -len(str(v.denominator // v.numerator))
    while Fraction(10) ** e10 > v:
        e10 -= 1
    while Fraction(10) ** (e10 + 1) <= v:
        e10 += 1
    scale = Fraction(10) ** (digits - 1 - e10)
    dec = Fraction(round(v * scale)) / scale
    e2 = dec.numerator.bit_length() - dec.denominator.bit_length()
    while Fraction(2) ** e2 > dec:
        e2 -= 1
    while Fraction(2) ** (e2 + 1) <= dec:
        e2 += 1
    ulp = Fraction(2) ** (e2 - (mant_bits - 1))
    return round(dec / ulp) * ulp == v


def hungry_f32(rng):
    """a float that needs all FLT_DECIMAL_DIG = 9 significant digits (about 1.5% of the floats)"""
    from fractions import Fraction
    for _ in range(4000):
        ex = rng.randint(127 - 40, 127 + 40)
        mant = rng.getrandbits(23)
        v = Fraction((1 << 23) | mant) * Fraction(2) ** (ex - 127 - 23)
        if not _roundtrips(v, 8, 24):
            return (rng.getrandbits(1) << 31) | (ex << 23) | mant
    return 0x3c47ce0c                      # 1.0f / 82


def hungry_f80(rng):
    """an x87 long double that needs all LDBL_DECIMAL_DIG = 21 significant digits (about 1% of them)"""
    from fractions import Fraction
    for _ in range(4000):
        ex = rng.randint(16383 - 40, 16383 + 40)
        mant = (1 << 63) | rng.getrandbits(63)
        v = Fraction(mant) * Fraction(2) ** (ex - 16383 - 63)
        if not _roundtrips(v, 20, 64):
            return (rng.getrandbits(1) << 79) | (ex << 64) | mant
    return 0x3ffbf0f0f0f0f0f0f0f1          # 2.0L / 17


def f32_bits(rng, finite):
    k = rng.random()
    if k > 0.8:
        return hungry_f32(rng)
    if k < 0.15:
        return rng.choice([0, 0x80000000, 0x3f800000, 0xbf800000, 1, 0x007fffff, 0x00800000, 0x7f7fffff, 0x3dcccccd])
    if not finite and k < 0.4:
        return rng.choice([0x7f800000, 0xff800000, 0x7fc00000, 0xffc00000, 0x7f800001, 0x7fc12345, 0xffabcdef & 0xffffffff,
                           0x7fffffff])
    while True:
        b = rng.getrandbits(32)
        if not finite or ((b >> 23) & 0xff) != 0xff:
            return b


def f64_bits(rng, finite):
    k = rng.random()
    if k < 0.15:
        return rng.choice([0, 1 << 63, 0x3ff0000000000000, 0xbff0000000000000, 1, 0x000fffffffffffff,
                           0x0010000000000000, 0x7fefffffffffffff, 0x400921fb54442d18, 0x3fb999999999999a])
    if not finite and k < 0.4:
        return rng.choice([0x7ff0000000000000, 0xfff0000000000000, 0x7ff8000000000000, 0xfff8000000000000,
                           0x7ff0000000000001, 0x7ff8000000000123, 0xfff4deadbeef0001, 0x7fffffffffffffff])
    while True:
        b = rng.getrandbits(64)
        if not finite or ((b >> 52) & 0x7ff) != 0x7ff:
            return b


def f80_bits(rng, finite):
    """x87 patterns with a canonical integer bit (normal numbers, zeros, inf, NaNs)"""
    k = rng.random()
    if k < 0.15:
        return rng.choice([0, 1 << 79, 0x3fff8000000000000000, 0xbfff8000000000000000, 0x3fff8000000000000001,
                           0x4000c000000000000000, 0x3ffd_aaaa_aaaa_aaaa_aaab])
    if not finite and k < 0.4:
        return rng.choice([0x7fff8000000000000000, 0xffff8000000000000000, 0x7fffc000000000000000,
                           0xffffc000000000000000, 0x7fff8000000000000001, 0x7fffc00000000000beef,
                           0xffffdeadbeefdeadbeef | (1 << 63)])
    if k > 0.8:
        return hungry_f80(rng)
    sign = rng.getrandbits(1)
    # keep decimal exponents moderate: the exact printf model is slow on the extremes
    ex = rng.choice([rng.randint(16383 - 70, 16383 + 70), rng.randint(16383 - 1100, 16383 + 1100)])
    mant = (1 << 63) | rng.getrandbits(63)
    return (sign << 79) | (ex << 64) | mant


def rand_bytes(rng, text_safe):
    k = rng.random()
    n = rng.choice([0, 1, 2, 3, 5, 8, 17, 40]) if k < 0.9 else rng.randint(100, 400)
    mode = rng.random()
    if mode < 0.3:
        b = [rng.choice(b'abcXYZ019 _-+*/') for _ in range(n)]
    elif mode < 0.45:
        b = [rng.choice([0, 7, 8, 9, 10, 11, 12, 13, 27, 34, 39, 92, 127, 128, 255, 0x5c, 0x22, 0x3f]) for _ in range(n)]
    elif mode < 0.6:
        # escapes followed by characters that could be swallowed by a longer escape
        b = []
        while len(b) < n:
            b.append(rng.choice([0, 1, 2, 7, 27, 31, 63, 64, 127, 200, 255, 92, 34, 13]))
            b.append(rng.choice(b'01234567890abfnrtvxX\\"\''))
        b = b[:n]
    else:
        b = [rng.randint(0, 255) for _ in range(n)]
    if text_safe and n > 0:
        b[-1] = 0          # the scanner appends a NUL to a non-empty string that lacks one
    return bytes(b)


# item kinds (by the prefix passed to ModGen.fresh) that may get a reserved temporary name .lc<N>
LC_PREFIXES = {'d', 'b', 's', 'r', 'lr', 'lq', 'xd', 'xb', 'xr', 'xe'}
# names that look reserved but are not canonical: strtoul reads 007 as 7, stops at x, reads nothing,
# wraps modulo 2^32 (process_reserved_name keeps the value in a uint32_t)
LC_EDGE = ['.lc007', '.lc12x', '.lc', '.lc4294967297', '.lc0', '.lcx']


class ModGen:
    def __init__(self, rng, table, text_safe=True, label_base=0, big=False, canon_labels=False, split_ctx=0.0,
                 temp_names=0.0):
        self.rng, self.table, self.text_safe, self.big = rng, table, text_safe, big
        self.lowent = False
        self.pad_item = False          # emit one `data <name> u8 @PAD@` (the check substitutes a tuned number of elements)
        self.canon_labels = canon_labels
        self.split_ctx = split_ctx        # probability of a context break (newctx) between two modules
        self.temp_names = temp_names      # probability that a module uses reserved temporary names (.lc<N>, t<N>)
        self.lc_pool = []
        self.treg = False
        self.end_labels = 0.4             # probability that a generated function ends in labels (1..3, with or without a ret before)
        self.last_tail = []
        self.loaded = False
        self.prev_strings = []
        self.nlabels = label_base      # labels made so far in the context
        self.stmts = []
        self.closed = False
        self.names = set()
        self.items = []               # (name, kind) of named items usable as refs
        self.counter = 0

    # ------------------------------------------------------------ names
    def fresh(self, prefix):
        rng = self.rng
        if prefix in LC_PREFIXES and self.lc_pool and rng.random() < 0.7:
            n = self.lc_pool.pop()
            self.names.add(n)
            return n
        while True:
            self.counter += 1
            style = rng.random()
            if style < 0.7:
                n = '%s%d' % (prefix, self.counter)
            elif style < 0.85:
                n = '%s%s%d' % (prefix, rng.choice(['_', '.', '$', '%', '_x.', 'Z']), self.counter)
            else:
                n = '%s%d%s' % (prefix, self.counter, rng.choice(['_', '.a', '$1', '%%', 'q']))
            if n not in self.names and n not in KEYWORDS and not re.match(r'^(hr\d*|\.lc.*|t\d+)$', n):
                self.names.add(n)
                return n

    def emit(self, s):
        self.stmts.append(s)

    # ------------------------------------------------------------ items
    def gen_data(self, name=None):
        rng = self.rng
        t = rng.choice(INT_T + ['f', 'd', 'ld'] + ['u8'] * 3)
        n = rng.choice([1, 1, 2, 3, 5, 9, 17]) if not self.big else rng.randint(50, 3000)
        vals = []
        for _ in range(n):
            if t in TWIDTH:
                w = TWIDTH[t]
                if t.startswith('i'):
                    v = max(-2**(w - 1), min(2**(w - 1) - 1, interesting_ints(rng)))
                    if rng.random() < 0.3:
                        v = rng.choice([-2**(w - 1), 2**(w - 1) - 1, -1, 0])
                else:
                    v = interesting_uints(rng, False) & (2**w - 1)
                vals.append(str(v))
            elif t == 'f':
                vals.append('x%08x' % f32_bits(rng, self.text_safe))
            elif t == 'd':
                vals.append('x%016x' % f64_bits(rng, self.text_safe))
            else:
                vals.append('x%020x' % f80_bits(rng, self.text_safe))
        if t == 'u8' and rng.random() < 0.5:
            vals[-1] = '0'   # prints the string comment
        self.emit('data %s %s %s' % (name or '-', t, ' '.join(vals)))
        return t, vals

    def gen_sig(self, for_func):
        rng = self.rng
        # more than two results of one class cannot be linked on x86-64
        nres = rng.choice([0, 1, 1, 1, 2, 3]) if not self.closed else rng.choice([0, 1, 1, 2])
        res = [rng.choice(INT_T + ['f', 'd', 'ld', 'i64', 'i64']) for _ in range(nres)]
        nargs = rng.choice([0, 1, 2, 3, 5, 9])
        args = []
        for i in range(nargs):
            t = rng.choice(INT_T + ['f', 'd', 'ld', 'i64', 'blk0', 'blk1', 'blk2', 'blk3', 'blk4', 'rblk'])
            n = 'a%d%s' % (i, rng.choice(['', '_', 'x']))
            if t.startswith('blk') or t == 'rblk':
                # text: sizes up to 2^63-1 (larger ones print unsigned and scan as a negative literal)
                args.append('%s:%s:%d' % (t, n, rng.choice([0, 1, 8, 16, 24, 100, 2**31, 2**32 - 1, 2**32, 2**40 + 1, 2**63 - 1]
                                                               + ([] if self.text_safe else [2**63, 2**64 - 1]))))
            else:
                args.append('%s:%s' % (t, n))
        # a vararg prototype with results and NO named parameter (what c2m emits for a call of an unprototyped function) is its
        # own case of the text syntax (separator in front of the ellipsis): frequent enough to be in every run
        pv = 0.6 if not for_func and nargs == 0 and nres > 0 else 0.2
        vararg = 1 if (nargs > 0 or not for_func) and rng.random() < pv else 0
        return vararg, res, args

    # ------------------------------------------------------------ operands for a syntactic function
    def imm(self, mode):
        rng = self.rng
        if mode == 'int':
            if rng.random() < 0.6:
                return 'i:%d' % interesting_ints(rng)
            return 'u:%d' % interesting_uints(rng, self.text_safe)
        if mode == 'f':
            return 'f:%08x' % f32_bits(rng, self.text_safe)
        if mode == 'd':
            return 'd:%016x' % f64_bits(rng, self.text_safe)
        return 'ld:%020x' % f80_bits(rng, self.text_safe)

    def mem(self, fn, types):
        rng = self.rng
        t = rng.choice(types)
        ir = fn['regs']['int']
        form = rng.choice(['d', 'b', 'i', 'db', 'di', 'bi', 'dbi', 'none'])
        disp = interesting_ints(rng) if 'd' in form else 0
        if 'd' in form and disp == 0:
            disp = rng.choice([1, -1, 8])
        base = rng.choice(ir) if 'b' in form and ir else '-'
        index = rng.choice(ir) if 'i' in form and ir else '-'
        if index != '-':
            scale = rng.choice([1, 1, 2, 4, 8])
        else:
            scale = rng.choice([1, 1, 1, 0, 2, 8])
        al = na = '-'
        if rng.random() < 0.3:
            k = rng.random()
            # alias only / nonalias only / both (also the same name in both places); now and then names that look
            # like something else in the text syntax (a type, a label, a register of the function, a keyword)
            odd = ['i64', 'L1', 'local', 'u8'] + ir[:1] if rng.random() < 0.15 else []
            if k < 0.35:
                al = rng.choice(odd or ['A', 'al_1', 'x.y'])
            elif k < 0.7:
                na = rng.choice(odd or ['N', 'na_2', 'A'])
            else:
                al, na = rng.choice(odd or ['A', 'B2']), rng.choice(odd or ['N', 'A', 'B2'])
        return 'm:%s:%d:%s:%s:%d:%s:%s' % (t, disp, base, index, scale, al, na)

    def va_list_op(self, fn):
        """va_list operand: an int operand or (MIR.md) memory of undefined type"""
        if self.rng.random() < 0.5:
            return self.mem(fn, ['undef'])
        return self.operand(fn, 'int', False)

    def operand(self, fn, mode, out):
        rng = self.rng
        regs = fn['regs']
        if mode == 'label':
            return 'l:%d' % self.use_label(fn)
        if mode == 'reg':
            allr = regs['int'] + regs['f'] + regs['d'] + regs['ld']
            return 'r:' + rng.choice(allr)
        if mode == 'undef':
            mode = rng.choice(['int', 'f', 'd', 'ld'])
        memt = {'int': INT_T, 'f': ['f'], 'd': ['d'], 'ld': ['ld']}[mode]
        k = rng.random()
        if regs[mode] and k < 0.45:
            return 'r:' + rng.choice(regs[mode])
        if k < 0.7 or out:
            if not regs[mode] and out and rng.random() < 0.0:
                pass
            return self.mem(fn, memt)
        if mode == 'int' and k < 0.78 and self.items:
            return 'ref:' + rng.choice(self.items)[0]
        if mode == 'int' and k < 0.84:
            return 's:' + self.string_bytes().hex()
        return self.imm(mode)

    def string_bytes(self):
        """a string operand; now and then a pair of strings of equal length that agree up to an embedded NUL and differ
        after it (a string table comparing with strcmp/strncmp would merge them)"""
        rng = self.rng
        if rng.random() < 0.2:
            # the boundary of "a table string is a C string": NUL first, only NULs, a NUL right after a prefix that is
            # also a name of the module (names are stored in the same table with their NUL), one string a proper
            # prefix of another up to and including a NUL
            k = rng.random()
            tail = bytes(rng.choice(b'abcxyz01') for _ in range(rng.choice([1, 2, 5])))
            if k < 0.25:
                s = b'\0' * rng.choice([1, 1, 2, 3]) + tail + b'\0'
            elif k < 0.45:
                s = b'\0' * rng.choice([1, 2, 3, 4, 9])
            elif k < 0.75 and self.names:
                s = rng.choice(sorted(self.names)).encode() + b'\0' + (tail + b'\0' if rng.random() < 0.7 else b'')
            elif self.prev_strings:
                p, _ = rng.choice(self.prev_strings)
                s = p + tail + b'\0'
            else:
                s = tail + b'\0' + tail + b'\0'
            if len(s) >= 2:
                self.prev_strings.append((s, s.index(b'\0')))
            return s
        if self.prev_strings and rng.random() < 0.35:
            p, k = rng.choice(self.prev_strings)
            tail = bytes((c + 1 + rng.randint(0, 200)) % 256 for c in p[k + 1:len(p) - 1])
            s = p[:k + 1] + tail + p[len(p) - 1:]
            if s != p:
                return s
        s = rand_bytes(rng, self.text_safe)
        if len(s) >= 4 and rng.random() < 0.5:
            k = rng.randint(0, len(s) - 3)
            s = s[:k] + b'\0' + s[k + 1:]
            self.prev_strings.append((s, k))
        return s

    def new_labels(self, k):
        self.emit('mklabels %d' % k)
        labs = list(range(self.nlabels + 1, self.nlabels + k + 1))
        self.nlabels += k
        return labs

    def use_label(self, fn):
        """a label of this function (placed later if not yet)"""
        rng = self.rng
        if self.canon_labels:
            # numbering order = first occurrence order: the label is made at its first occurrence
            if fn['labels'] and (rng.random() < 0.6 or len(fn['labels']) >= fn['maxlabels']):
                return rng.choice(fn['labels'])
            l = self.new_labels(1)[0]
            fn['labels'].append(l)
            return l
        return rng.choice(fn['labels'])

    # ------------------------------------------------------------ functions
    def open_func(self, name, vararg, res, args, nlocals=None, nlabels=None, globals_ok=True):
        rng = self.rng
        self.emit('func %s %d %s' % (name, vararg, ' '.join(res + args)))
        regs = {'int': [], 'f': [], 'd': [], 'ld': []}
        for a in args:
            t, n = a.split(':')[:2]
            if t in ('f', 'd', 'ld'):
                regs[t].append(n)
            else:
                regs['int'].append(n)
        nl = rng.choice([0, 1, 3, 7, 8, 9, 17]) if nlocals is None else nlocals
        for i in range(nl):
            t = rng.choice(REG_T + ['i64'] * 3)
            n = 'v%d%s' % (i, rng.choice(['', '', '_', '.x', '$']))
            if self.treg and rng.random() < 0.4:
                n = 't%d' % rng.choice([1, 2, 3, 7, 10, 40 + i])      # looks like a temporary register of simplify
                if n in regs['int'] + regs['f'] + regs['d'] + regs['ld']:
                    n = 'v%d' % i
            self.emit('local %s %s' % (t, n))
            regs['int' if t == 'i64' else t].append(n)
        if globals_ok and rng.random() < 0.25:
            # one variable per hard register (a second one tied to the same register is the same variable)
            hi, hf = list(HARD_I), list(HARD_F[:6])
            rng.shuffle(hi)
            rng.shuffle(hf)
            for i in range(rng.choice([1, 2, 9])):
                t = rng.choice(['i64', 'f', 'd'])
                pool = hi if t == 'i64' else hf
                if not pool:
                    continue
                n = 'g%d' % i
                self.emit('global %s %s %s' % (t, n, pool.pop()))
                regs['int' if t == 'i64' else t].append(n)
        k = rng.choice([0, 1, 2, 5]) if nlabels is None else nlabels
        labs = [] if self.canon_labels or k == 0 else self.new_labels(k)
        if not self.canon_labels:
            rng.shuffle(labs)
        fn = dict(name=name, res=res, regs=regs, labels=labs, maxlabels=k, vararg=vararg, placed=set())
        return fn

    def place_label(self, fn, l):
        if l not in fn['placed']:
            fn['placed'].add(l)
            self.emit('label %d' % l)

    def gen_syntactic_func(self, pre_labels=()):
        rng = self.rng
        name = self.fresh('fn')
        vararg, res, args = self.gen_sig(True)
        args = [a for a in args if not a.startswith('rblk')] if rng.random() < 0.5 else args
        fn = self.open_func(name, vararg, res, args)
        fn['labels'] = list(pre_labels) + fn['labels']
        fn['maxlabels'] += len(pre_labels)
        self.items.append((name, 'func'))
        regs = fn['regs']
        n = rng.choice([0, 1, 3, 8, 20]) if not self.big else rng.randint(200, 2000)
        usable = []
        for code, nm, ops in self.table:
            if nm in ('label', 'unspec', 'use', 'phi', 'invalid-insn', 'call', 'inline', 'jcall', 'ret', 'jret',
                      'switch', 'bo', 'ubo', 'bno', 'ubno'):
                continue
            if nm.startswith('va_') and not (vararg and nm in ('va_start', 'va_end', 'va_arg', 'va_block_arg')):
                continue
            if any(m == 'label' for m, _ in ops) and fn['maxlabels'] == 0:
                continue
            if any(m == 'reg' for m, _ in ops) and not any(regs.values()):
                continue
            usable.append((nm, ops))
        for _ in range(n):
            k = rng.random()
            pl = [l for l in fn['labels'] if l not in fn['placed']]
            if k < 0.12 and fn['maxlabels'] > 0:
                if self.canon_labels and (not pl or rng.random() < 0.3) and len(fn['labels']) < fn['maxlabels']:
                    l = self.new_labels(1)[0]
                    fn['labels'].append(l)
                    pl = [l]
                if pl:
                    self.place_label(fn, rng.choice(pl))
                continue
            if k < 0.2 and fn['maxlabels'] > 0:
                ops = ['r:' + rng.choice(regs['int']) if regs['int'] and rng.random() < 0.7 else 'i:%d' % rng.randint(0, 5)]
                ops += ['l:%d' % self.use_label(fn) for _ in range(rng.choice([1, 2, 5]))]
                self.emit('insn switch ' + ' '.join(ops))
                continue
            if k < 0.27 and self.protos:
                self.gen_call(fn)
                continue
            if k < 0.31 and regs['int']:
                # overflow insn followed by an overflow branch (MIR_finish_func requires the pair)
                o = rng.choice(['addo', 'addos', 'subo', 'subos', 'mulo', 'mulos', 'umulo', 'umulos'])
                if fn['maxlabels'] > 0:
                    self.emit('insn %s r:%s %s %s' % (o, rng.choice(regs['int']), self.operand(fn, 'int', False),
                                                      self.operand(fn, 'int', False)))
                    br = rng.choice(['ubo', 'ubno'] if o.startswith('u') else ['bo', 'bno']) if 'mul' in o else rng.choice(
                        ['bo', 'bno', 'ubo', 'ubno'])
                    self.emit('insn %s l:%d' % (br, self.use_label(fn)))
                continue
            nm, ops = rng.choice(usable)
            if nm == 'va_arg':
                o = [self.operand(fn, 'int', True), self.va_list_op(fn), self.mem(fn, INT_T + ['f', 'd', 'ld'])]
            elif nm in ('va_start', 'va_end'):
                o = [self.va_list_op(fn)]
            elif nm == 'va_block_arg':
                o = [self.operand(fn, 'int', False), self.va_list_op(fn), self.operand(fn, 'int', False),
                     self.operand(fn, 'int', False)]
            elif nm in ('prbeq', 'prbne'):
                o = ['l:%d' % self.use_label(fn), self.operand(fn, rng.choice(['int', 'd']), True), 'i:%d' % rng.randint(0, 9)]
            elif nm == 'prset':
                o = [self.operand(fn, rng.choice(['int', 'f']), True), 'i:%d' % rng.randint(0, 9)]
            else:
                o = [self.operand(fn, m, out) for m, out in ops]
            self.emit('insn %s %s' % (nm, ' '.join(o)))
        # the end of the function: `ret` last | `ret` [jmp] followed by 1..3 labels.  Labels that END a
        # function take their own way through both readers (collected while looking for the next insn, appended at
        # `endfunc`); they are the same objects as the ones branches / switch / laddr operands and lref items refer to.
        unplaced = [l for l in fn['labels'] if l not in fn['placed']]
        ntail = rng.choice([1, 1, 2, 3]) if rng.random() < self.end_labels else 0
        tail = []
        while len(tail) < ntail:
            if unplaced and rng.random() < 0.7:
                tail.append(unplaced.pop(rng.randrange(len(unplaced))))
            else:
                l = self.new_labels(1)[0]
                fn['labels'].append(l)
                tail.append(l)
        for l in unplaced:
            self.place_label(fn, l)
        for l in tail:
            # referenced from inside the function (an lref item may follow the function, see gen_module)
            k = rng.random()
            if k < 0.4:
                self.emit('insn jmp l:%d' % l)
            elif k < 0.6 and regs['int']:
                self.emit('insn laddr r:%s l:%d' % (rng.choice(regs['int']), l))
            elif k < 0.75:
                self.emit('insn switch i:%d %s' % (rng.randint(0, 2), ' '.join('l:%d' % rng.choice(tail + fn['labels'][:2])
                                                                             for _ in range(rng.choice([1, 3])))))
            elif k < 0.9:
                self.emit('insn bne l:%d i:%d i:%d' % (l, rng.randint(0, 3), rng.randint(0, 3)))
        # (a function without any ret gets one appended by MIR_finish_func unless its last insn is a jmp: a function that ends
        # in labels has its ret in front of them)
        rv = []
        for t in res:
            m = t if t in ('f', 'd', 'ld') else 'int'
            rv.append(self.operand(fn, m, False))
        self.emit('insn ret ' + ' '.join(rv))
        if tail and rng.random() < 0.3:
            self.emit('insn jmp l:%d' % rng.choice(tail + fn['labels'][:1]))
        for l in tail:
            self.place_label(fn, l)
        self.last_tail = tail
        self.emit('endfunc')
        return name

    def gen_call(self, fn):
        rng = self.rng
        pname, vararg, res, args = rng.choice(self.protos)
        callee = [i for i in self.items if i[1] in ('func', 'import', 'forward')]
        regs = fn['regs']
        if callee and rng.random() < 0.7:
            f = 'ref:' + rng.choice(callee)[0]
        elif regs['int']:
            f = 'r:' + rng.choice(regs['int'])
        else:
            return
        ops = ['ref:' + pname, f]
        for t in res:
            ops.append(self.operand(fn, t if t in ('f', 'd', 'ld') else 'int', True))
        for a in args:
            parts = a.split(':')
            t = parts[0]
            if t.startswith('blk') or t == 'rblk':
                b = rng.choice(regs['int']) if regs['int'] else '-'
                # the block size is the displacement of the argument memory and must equal the prototype's; a block
                # memory whose (signed) displacement is negative is rejected by MIR_finish_func: a prototype with a block
                # of 2^63 bytes or more cannot be called at all (it used to make the API reject whole - mostly the big -
                # cases)
                if int(parts[2]) >= 2**63:
                    return
                ops.append('m:%s:%s:%s:-:1:-:-' % (t, parts[2], b))
            else:
                ops.append(self.operand(fn, t if t in ('f', 'd', 'ld') else 'int', False))
        if vararg:
            for _ in range(rng.choice([0, 1, 3])):
                ops.append(self.operand(fn, rng.choice(['int', 'd']), False))
        self.emit('insn %s %s' % (rng.choice(['call', 'call', 'inline']), ' '.join(ops)))

    # ------------------------------------------------------------ an executable main
    def gen_exec_part(self):
        """helper function, data, and `main`, built only from constructs whose meaning does not depend on
        addresses; returns nothing, emits statements"""
        rng = self.rng
        ts = self.text_safe
        E = self.emit
        # data the program reads
        dname = self.fresh('xd')
        t, vals = self.gen_data(dname)
        self.items.append((dname, 'data'))
        bname = self.fresh('xb')
        E('bss %s 64' % bname)
        self.items.append((bname, 'bss'))
        rname = self.fresh('xr')
        rdisp = rng.randint(0, max(0, len(vals) - 1)) if t in ('u8', 'i8') else 0
        E('ref %s %s %d' % (rname, dname, rdisp))
        E('import ext_mix')
        pmix = self.fresh('pmix')
        E('proto %s 0 i64 i64:a i64:b' % pmix)
        # expr data from a constant function
        ename = self.fresh('xe')
        efn = self.fresh('ce')
        ev = interesting_ints(rng)
        E('func %s 0 i64' % efn)
        E('local i64 t')
        E('insn mov r:t i:%d' % ev)
        E('insn add r:t r:t i:%d' % rng.randint(-5, 5))
        E('insn ret r:t')
        E('endfunc')
        E('expr %s %s' % (ename, efn))
        # helper with a block argument and several results
        hname = self.fresh('hlp')
        hproto = self.fresh('ph')
        E('proto %s 0 i64 d i64:x blk0:s:16 d:y' % hproto)
        E('func %s 0 i64 d i64:x blk0:s:16 d:y' % hname)
        E('local i64 t')
        E('insn mov r:t m:i64:8:s:-:1:-:-')
        E('insn add r:t r:t r:x')
        E('insn add r:t r:t m:u8:0:s:-:1:A:-')
        E('insn ret r:t r:y')
        E('endfunc')
        # helper whose last insns are labels: the labels are targets of a branch, of laddr and of lref tables in front of and
        # behind the function; the tables are read at run time (distance of two labels of one function: the same number in
        # every context that holds the same function)
        endl = None
        if rng.random() < 0.75:
            endl, pe, tab = self.fresh('endl'), self.fresh('pe'), self.fresh('ltab')
            nt = rng.choice([1, 1, 2, 3])
            ls = self.new_labels(1)[0]
            tl = self.new_labels(nt)
            fin, body = self.new_labels(2)
            before = rng.random() < 0.6
            shape = rng.choice(['ret-last', 'jmp-last'])
            if before:
                E('lref %s %d %d 0' % (tab, tl[0], ls))
            E('proto %s 0 i64 i64:x' % pe)
            E('func %s 0 i64 i64:x' % endl)
            for r in ('a', 'b', 'r'):
                E('local i64 %s' % r)
            E('label %d' % ls)
            E('insn mov r:r r:x')
            if shape == 'jmp-last':
                E('insn jmp l:%d' % body)
                E('label %d' % fin)
                E('insn ret r:r')
                E('label %d' % body)
            if before:
                E('insn mov r:a ref:%s' % tab)
                E('insn mul r:r r:r i:31')
                E('insn add r:r r:r m:i64:0:a:-:1:-:-')
            for l in tl:
                k = rng.choice(['br', 'laddr', 'switch', 'none'])
                if k == 'br':
                    E('insn bgt l:%d r:x i:1000' % l)          # never taken: x < 1000
                elif k == 'laddr':
                    E('insn laddr r:a l:%d' % l)
                    E('insn laddr r:b l:%d' % ls)
                    E('insn sub r:a r:a r:b')
                    E('insn mul r:r r:r i:31')
                    E('insn add r:r r:r r:a')
                elif k == 'switch':
                    nx = self.new_labels(1)[0]
                    E('insn mov r:b i:0')
                    E('insn switch r:b l:%d l:%d' % (nx, l))        # always the first
                    E('label %d' % nx)
            after = (not before) or rng.random() < 0.5
            tab2 = self.fresh('ltab')
            if shape == 'jmp-last':
                E('insn jmp l:%d' % fin)
            else:
                E('insn ret r:r')
            for l in tl:
                E('label %d' % l)
            E('endfunc')
            if after:
                E('lref %s %d %d %d' % (tab2, rng.choice(tl), ls, rng.choice([0, 8])))
            self.endl = (endl, pe, tab2 if after else None)
        if rng.random() < 0.5:
            E('export main')
            self.exported.add('main')
        E('func main 0 i64')
        for r in ('acc', 't', 'p', 'q', 'ix'):
            E('local i64 %s' % r)
        E('local f ff')
        E('local d dd')
        E('local ld ll')
        def labs(k):
            l = self.new_labels(k)
            if not self.canon_labels:
                rng.shuffle(l)
            return l
        E('insn mov r:acc i:%d' % interesting_ints(rng))
        E('insn mov r:p ref:%s' % bname)
        if endl is not None:
            endl, pe, tab2 = self.endl
            E('insn call ref:%s ref:%s r:t i:%d' % (pe, endl, rng.randint(0, 999)))
            E('insn mul r:acc r:acc i:1000003')
            E('insn add r:acc r:acc r:t')
            if tab2 is not None:
                # filled when the code of the function exists (after its first call)
                E('insn mov r:q ref:%s' % tab2)
                E('insn mul r:acc r:acc i:1000003')
                E('insn add r:acc r:acc m:i64:0:q:-:1:-:-')

        def mix(src):
            E('insn mul r:acc r:acc i:1000003')
            E('insn add r:acc r:acc %s' % src)
        steps = rng.randint(4, 14) if not self.big else 40
        for _ in range(steps):
            k = rng.choice(['int', 'uint', 'f', 'd', 'ld', 'data', 'str', 'ref', 'expr', 'call', 'ext', 'br', 'switch',
                            'memform', 'memform', 'alias', 'negdisp'])
            if k == 'int':
                mix('i:%d' % interesting_ints(rng))
            elif k == 'uint':
                mix('u:%d' % interesting_uints(rng, ts))
            elif k == 'f':
                E('insn fmov r:ff f:%08x' % f32_bits(rng, ts))
                E('insn fmov m:f:0:p:-:1:-:- r:ff')
                mix('m:u32:0:p:-:1:-:-')
            elif k == 'd':
                E('insn dmov m:d:8:p:-:1:-:- d:%016x' % f64_bits(rng, ts))
                mix('m:i64:8:p:-:1:-:-')
            elif k == 'ld':
                E('insn ldmov r:ll ld:%020x' % f80_bits(rng, ts))
                E('insn ldmov m:ld:16:p:-:1:-:- r:ll')
                mix('m:i64:16:p:-:1:-:-')
                mix('m:u16:24:p:-:1:-:-')
            elif k == 'data':
                E('insn mov r:q ref:%s' % dname)
                i = rng.randint(0, len(vals) - 1)
                if t in TWIDTH:
                    mix('m:%s:%d:q:-:1:-:-' % (t, i * TWIDTH[t] // 8))
                elif t == 'f':
                    mix('m:u32:%d:q:-:1:-:-' % (i * 4))
                elif t == 'd':
                    mix('m:i64:%d:q:-:1:-:-' % (i * 8))
                else:
                    mix('m:i64:%d:q:-:1:-:-' % (i * 16))
                    mix('m:u16:%d:q:-:1:-:-' % (i * 16 + 8))
            elif k == 'str':
                s = self.string_bytes()
                if len(s) == 0:
                    s = b'\0'
                E('insn mov r:q s:%s' % s.hex())
                for i in sorted(set([0, len(s) - 1, rng.randint(0, len(s) - 1)])):
                    mix('m:u8:%d:q:-:1:-:-' % i)
            elif k == 'ref':
                E('insn mov r:q ref:%s' % rname)
                E('insn mov r:q m:p:0:q:-:1:-:-')
                if t in ('u8', 'i8'):
                    mix('m:%s:0:q:-:1:-:-' % t)
                else:
                    E('insn mov r:t ref:%s' % dname)
                    E('insn sub r:t r:q r:t')
                    mix('r:t')
            elif k == 'expr':
                E('insn mov r:q ref:%s' % ename)
                mix('m:i64:0:q:-:1:-:-')
            elif k == 'call':
                E('insn mov m:i64:32:p:-:1:-:- i:%d' % interesting_ints(rng))
                E('insn mov m:i64:40:p:-:1:-:- i:%d' % interesting_ints(rng))
                E('insn add r:q r:p i:32')
                E('insn call ref:%s ref:%s r:t r:dd i:%d m:blk0:16:q:-:1:-:- d:%016x' % (
                    hproto, hname, rng.randint(-9, 9), f64_bits(rng, ts)))
                mix('r:t')
                E('insn dmov m:d:8:p:-:1:-:- r:dd')
                mix('m:i64:8:p:-:1:-:-')
            elif k == 'ext':
                E('insn call ref:%s ref:ext_mix r:t r:acc u:%d' % (pmix, interesting_uints(rng, ts)))
                E('insn mov r:acc r:t')
            elif k == 'br':
                a, b = labs(2)
                c = rng.choice(['bt', 'bf', 'beq', 'bne', 'blt', 'ubge', 'bgts'])
                if c in ('bt', 'bf'):
                    E('insn %s l:%d r:acc' % (c, a))
                else:
                    E('insn %s l:%d r:acc i:%d' % (c, a, interesting_ints(rng)))
                mix('i:%d' % rng.randint(1, 99))
                E('insn jmp l:%d' % b)
                E('label %d' % a)
                mix('u:%d' % rng.randint(100, 199))
                E('label %d' % b)
            elif k == 'switch':
                a, b, c = labs(3)
                E('insn and r:ix r:acc i:1')
                E('insn switch r:ix l:%d l:%d' % (a, b))
                E('label %d' % a)
                mix('i:7')
                E('insn jmp l:%d' % c)
                E('label %d' % b)
                mix('i:11')
                E('label %d' % c)
            elif k == 'memform':
                # all address forms against the bss block: index/scale/disp combinations
                E('insn mov m:i64:48:p:-:1:-:- r:acc')
                E('insn mov r:ix i:%d' % rng.choice([1, 2, 3]))
                sc = rng.choice([1, 2, 4, 8])
                E('insn mov r:ix i:%d' % (48 // sc if 48 % sc == 0 else 6))
                sc = sc if 48 % sc == 0 else 8
                mix('m:i64:0:p:ix:%d:-:-' % sc)
                E('insn mov r:ix i:5')
                mix('m:u8:%d:p:ix:8:-:-' % 8)
            elif k == 'negdisp':
                # negative and large displacements, base + index * scale with every scale
                E('insn mov m:i64:24:p:-:1:-:- r:acc')
                E('insn add r:q r:p i:%d' % rng.choice([32, 40, 1000, 2**31]))
                d = rng.choice([32, 40, 1000, 2**31])
                E('insn add r:q r:p i:%d' % d)
                mix('m:i64:%d:q:-:1:-:-' % (24 - d))
                sc = rng.choice([1, 2, 4, 8])
                E('insn mov r:ix i:%d' % (-(d // sc)))
                E('insn add r:t r:q i:%d' % (d % sc))
                mix('m:u16:24:t:ix:%d:-:-' % sc)
            elif k == 'alias':
                E('insn mov m:i32:56:p:-:1:A:N r:acc')
                mix('m:i32:56:p:-:1:-:N')
        if rng.random() < 0.3:
            # main itself ends in a label (target of a branch that is not taken)
            e = self.new_labels(1)[0]
            E('insn mov r:ix i:0')
            E('insn bt l:%d r:ix' % e)
            E('insn ret r:acc')
            E('label %d' % e)
        else:
            E('insn ret r:acc')
        E('endfunc')
        self.items.append(('main', 'func'))

    # ------------------------------------------------------------ a module
    def gen_module(self, name, n_items, with_exec, closed=False):
        rng = self.rng
        self.closed = closed
        self.loaded = closed          # every module of an executed case is loaded: no huge bss there
        self.emit('module %s' % name)
        self.items = []
        self.protos = []
        self.names = set()
        self.exported = set()
        lref_cands = []
        self.lc_pool, self.treg = [], False
        if rng.random() < self.temp_names:
            # reserved names as c2m makes them (_MIR_get_temp_item_name), used in an order that is not the creation
            # order (c2m moves string data to the module start), sometimes with gaps
            k = rng.choice([2, 3, 5, 9])
            pool = list(range(1, k + 1))
            if rng.random() < 0.3:
                pool = [x * rng.choice([1, 2]) + rng.choice([0, 0, 3]) for x in pool]
            pool = ['.lc%d' % x for x in dict.fromkeys(pool)]
            mode = rng.random()
            if mode < 0.5:
                rng.shuffle(pool)
            elif mode < 0.75:
                pool.sort(key=lambda x: int(x[3:]))      # popped from the end: descending definitions
            if rng.random() < 0.25:
                pool.insert(rng.randint(0, len(pool)), rng.choice(LC_EDGE))
            self.lc_pool = pool
            self.treg = rng.random() < 0.5
        if self.pad_item:
            # a u8 table whose number of elements the check tunes until the UNCOMPRESSED binary image of the context has
            # an exact length (every element below 128 is one byte of the stream)
            self.emit('data %s u8 @PAD@' % self.fresh('pad'))
            self.pad_item = False
        if self.big:
            # several KiB without any repetition: literal runs of maximal length in the compression layer
            self.emit('data %s u64 %s' % (self.fresh('rnd'), ' '.join(str(rng.getrandbits(64)) for _ in range(rng.randint(300, 900)))))
            self.emit('data - u8 %s' % ' '.join(str(rng.randint(128, 255)) for _ in range(rng.randint(1100, 2500))))
            if self.lowent:
                # a large table of low/medium-entropy values: far more than 65536 mostly-literal/short-match dictionary
                # entries inside ONE compression buffer and, after the compressor's element pool has run dry, very many
                # re-occurrences of 4-byte sequences (references found through recycled dictionary elements)
                # (measured against a compressor that mishandles recycled elements: 24..100 distinct one-byte values
                # and >= 110000 elements exhaust the pool AND re-reference through it every time; 16 values or two-byte
                # values often do not)
                k = rng.choice([24, 32, 48, 64, 100])
                alpha = rng.sample(range(0, 128), k)
                self.emit('data %s u8 %s' % (self.fresh('tbl'), ' '.join(str(rng.choice(alpha))
                                                                           for _ in range(rng.randint(110000, 200000)))))
                self.lowent = False    # one per case
        for _ in range(n_items):
            k = rng.choice(['import', 'export', 'forward', 'bss', 'data', 'data', 'ref', 'proto', 'func', 'func', 'lref',
                            'string'])
            if closed and k in ('import', 'forward'):
                continue
            if k in ('import', 'forward'):
                n = self.fresh('im' if k == 'import' else 'fw')
                self.emit('%s %s' % (k, n))
                self.items.append((n, k))
            elif k == 'export':
                defs = [i for i in self.items if i[1] in ('func', 'data', 'bss') and i[0] not in self.exported]
                if defs and rng.random() < 0.6:
                    d = rng.choice(defs)[0]
                    self.exported.add(d)
                    self.emit('export %s' % d)
                elif not closed:
                    n = self.fresh('ex')
                    self.emit('export %s' % n)
                    self.items.append((n, 'export'))
            elif k == 'bss':
                named = rng.random() < 0.7
                n = self.fresh('b') if named else None
                lens = [0, 1, 8, 127, 128, 4096, 2**20]
                if not self.loaded:
                    lens += [2**31, 2**32 - 1, 2**32, 2**32 + 5, 2**40 + 1, 2**63 - 1] + ([] if self.text_safe else [2**63, 2**64 - 1])
                self.emit('bss %s %d' % (n or '-', rng.choice(lens)))
                if named:
                    self.items.append((n, 'bss'))
            elif k == 'data':
                named = rng.random() < 0.7
                n = self.fresh('d') if named else None
                self.gen_data(n)
                if named:
                    self.items.append((n, 'data'))
            elif k == 'string':
                named = rng.random() < 0.7
                n = self.fresh('s') if named else None
                s = rand_bytes(rng, False)
                if s:
                    self.emit('data %s u8 %s' % (n or '-', ' '.join(str(b) for b in s)))
                    if named:
                        self.items.append((n, 'data'))
            elif k == 'ref' and self.items:
                named = rng.random() < 0.7
                n = self.fresh('r') if named else None
                self.emit('ref %s %s %d' % (n or '-', rng.choice(self.items)[0], interesting_ints(rng)))
                if named:
                    self.items.append((n, 'ref'))
            elif k == 'proto':
                n = self.fresh('p')
                vararg, res, args = self.gen_sig(False)
                self.emit('proto %s %d %s' % (n, vararg, ' '.join(res + args)))
                self.protos.append((n, vararg, res, args))
            elif k == 'func':
                pre = []
                if rng.random() < 0.15:
                    # an lref item in front of the function that owns its labels
                    pre = self.new_labels(rng.choice([1, 2]))
                    self.emit('lref %s %d %s %d' % (self.fresh('lq') if rng.random() < 0.7 else '-', pre[0],
                                                    pre[1] if len(pre) > 1 else '-', rng.choice([0, 0, 16])))
                before = len(self.stmts)
                self.gen_syntactic_func(pre)
                placed = [int(s.split()[1]) for s in self.stmts[before:] if s.startswith('label ')]
                if placed:
                    lref_cands.append(placed)
                if self.last_tail and rng.random() < 0.5:
                    # a table over the labels that end the function (e.g. its code size: end label - first label)
                    l1 = rng.choice(self.last_tail)
                    l2 = rng.choice(placed) if rng.random() < 0.6 else None
                    if rng.random() < 0.3 and l2 is not None:
                        l1, l2 = l2, l1
                    n = self.fresh('le') if rng.random() < 0.7 else None
                    self.emit('lref %s %d %s %d' % (n or '-', l1, l2 if l2 is not None else '-', rng.choice([0, 0, 8])))
                    if n:
                        self.items.append((n, 'lref'))
            elif k == 'lref' and lref_cands:
                labs = rng.choice(lref_cands)
                named = rng.random() < 0.7
                n = self.fresh('lr') if named else None
                l1 = rng.choice(labs)
                l2 = rng.choice(labs) if rng.random() < 0.5 else None
                disp = rng.choice([0, 0, 1, -8, 2**40])
                self.emit('lref %s %d %s %d' % (n or '-', l1, l2 if l2 is not None else '-', disp))
                if named:
                    self.items.append((n, 'lref'))
        if with_exec:
            self.gen_exec_part()
        self.emit('endmodule')

    def case(self, nmodules=1, n_items=6, with_exec=True):
        for i in range(nmodules):
            if i > 0 and self.rng.random() < self.split_ctx:
                self.emit('newctx')
                self.nlabels = 0
            self.gen_module('m%d%s' % (i, self.rng.choice(['', '_', '.x'])), n_items, with_exec and i == nmodules - 1,
                            closed=with_exec)
        if with_exec:
            self.emit('exec')
        return ' ; '.join(self.stmts)

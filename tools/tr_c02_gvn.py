#!/usr/bin/env python3
# tr_c02_gvn: regenerate coq/gen/GvnFoldTable.v from the constant folder of the generator (GVN pass of
# mir-gen.c, function gvn_modify: the GVN_EXT/GVN_IOP*/GVN_UOP*/GVN_ICMP* macros, the get_gvn_*ops
# helpers and the `switch (insn->code)`), after gcc -E -P.  Each case is executed symbolically: the
# constant operand values fetched by get_gvn_op are the instruction operands $1 $2 (int64_t), the
# value left in `val` is the folded result (value insns: the constant the insn is replaced by;
# branches: taken iff val != 0).  Unknown syntax => SUnknown row (theorem fails, never skipped).
import sys, os, re
sys.path.insert(0, os.path.dirname(os.path.abspath(__file__)))
import vlib
from tr_c02_clib import *
import tr_opcodes
from tr_c02_interp import Exec

TYPEDEFS = {'MIR_insn_t', 'bb_insn_t', 'ssa_edge_t', 'MIR_op_t', 'size_t', 'gen_ctx_t', 'MIR_context_t', 'bb_t', 'edge_t'}


def preprocess(repo):
    rc, out, err = vlib.sh(['gcc', '-E', '-P', '-DMIR_VERIF', '-DNDEBUG', '-I' + repo, os.path.join(repo, 'mir-gen.c')], check=True)
    return out


def check_primitives(src):
    """the operand fetchers must be the plain wrappers the executor assumes"""
    def norm(s):
        return re.sub(r'\s+', ' ', s).strip()
    r = find_function(src, 'get_gvn_2ops')
    if r is None or norm(r[1]) != 'return get_gvn_op (insn, 1, val1);':
        raise Unsupported('get_gvn_2ops is not `return get_gvn_op (insn, 1, val1);`')
    r = find_function(src, 'get_gvn_3ops')
    if r is None or norm(r[1]) != 'if (get_gvn_op (insn, 1, val1) && get_gvn_op (insn, 2, val2)) return 1; return 0;':
        raise Unsupported('get_gvn_3ops has an unexpected body: ' + (norm(r[1]) if r else ''))
    r = find_function(src, 'get_gvn_op')
    if r is None or not re.search(r'\*val = def_bb_insn->gvn_val;\s*return 1;', r[1]) or 'insn->ops[nop]' not in r[1]:
        raise Unsupported('get_gvn_op has an unexpected body')


class GvnExec(Exec):
    def __init__(self, src, opcode):
        Exec.__init__(self, src, {})
        self.opcode = opcode
        self.val = None
        self.guard = None
        self.typedefs = TYPEDEFS

    def bind(self, target, fr, k):
        v = ('rv', ('EVar', k, 'CI64'))
        if target[0] == 'addr' and target[1] == ('id', 'val') and 'val' not in fr:
            self.val = v[1]
        elif target[0] == 'addr' and target[1][0] == 'id' and target[1][1] in fr:
            fr[target[1][1]]['val'] = v
        elif target[0] == 'id' and target[1] in fr and fr[target[1]]['val'] is not None and fr[target[1]]['val'][0] == 'localptr':
            p = fr[target[1]]['val']
            p[1][p[2]]['val'] = v
        elif target[0] == 'id' and target[1] in fr and fr[target[1]]['val'] == ('valptr',):
            self.val = v[1]
        else:
            raise Unsupported('operand fetched into %r' % (target,))

    def eval(self, e, fr):
        k = e[0]
        if k == 'id' and e[1] == 'val' and 'val' not in fr:
            if self.val is None:
                raise Unsupported('val read before it is set')
            return ('rv', self.val)
        if k == 'id' and e[1] == 'const_p':
            return ('static', True)
        if k == 'id' and e[1] == 'insn':
            return ('insn',)
        if k == 'id' and e[1].startswith('MIR_') and e[1] not in fr:
            return ('code', e[1][4:])
        if k == 'arrow' and e[1] == ('id', 'insn') and e[2] == 'code':
            return ('code', self.opcode)
        if k == 'addr' and e[1] == ('id', 'val') and 'val' not in fr:
            return ('valptr',)
        if k == 'bin' and e[1] in ('==', '!='):
            a = self.eval(e[2], fr)
            if a[0] == 'code':
                b = self.eval(e[3], fr)
                return ('static', (a == b) == (e[1] == '=='))
        if k == 'bin' and e[1] == '&&':
            a = self.eval(e[2], fr)
            if a == ('static', False):
                return a
            if a != ('static', True):
                raise Unsupported('non-static left operand of &&')
            b = self.eval(e[3], fr)
            if b[0] == 'static':
                return b
            return ('guard', self.rv(b))
        if k == 'un' and e[1] == '!':
            a = self.eval(e[2], fr)
            if a[0] == 'static':
                return ('static', not a[1])
            return ('rv', ('EUn', 'Ulnot', self.rv(a)))
        if k == 'call' and e[1][0] == 'id':
            f = e[1][1]
            if f == 'get_gvn_op':
                n = e[2][1]
                if n[0] != 'num':
                    raise Unsupported('get_gvn_op with a non-literal operand number')
                self.bind(e[2][2], fr, int(n[1]))
                return ('static', True)
            if f == 'get_gvn_2ops':
                self.bind(e[2][1], fr, 1)
                return ('static', True)
            if f == 'get_gvn_3ops':
                self.bind(e[2][1], fr, 1)
                self.bind(e[2][2], fr, 2)
                return ('static', True)
            if f in ('set_alloca_based_flag',):
                return ('void',)
        if k == 'assign' and e[1] == ('id', 'const_p'):
            v = self.eval(e[2], fr)
            if v != ('static', True):
                raise Unsupported('const_p assigned a non-constant')
            return v
        if k == 'assign' and e[1] == ('id', 'val') and 'val' not in fr:
            v = self.eval(e[2], fr)
            self.val = self.rv(v)
            return v
        return Exec.eval(self, e, fr)

    def stmt(self, s, fr):
        k = s[0]
        if k == 'if':
            c = self.eval(s[1], fr)
            if c == ('static', True):
                return self.stmt(s[2], fr)
            if c == ('static', False):
                return self.stmt(s[3], fr) if s[3] is not None else None
            if c[0] == 'guard':
                if self.guard is not None or s[3] is not None:
                    raise Unsupported('nested guards')
                self.guard = c[1]
                return self.stmt(s[2], fr)
            raise Unsupported('non-static condition')
        if k == 'goto' or k == 'label':
            return None
        if k == 'return':
            v = self.eval(s[1], fr)
            if v[0] == 'num':
                return ('static', v[1] != '0')
            if v[0] == 'rv' and v[1][0] == 'EConst':
                return ('static', v[1][1] != 0)
            return v
        return Exec.stmt(self, s, fr)


def switch_groups(src):
    r = find_function(src, 'gvn_modify')
    if r is None:
        raise Unsupported('gvn_modify not found')
    body = r[1]
    ms = list(re.finditer(r'switch\s*\(\s*insn->code\s*\)\s*\{', body))
    if not ms:
        raise Unsupported('switch (insn->code) not found in gvn_modify')
    groups = []
    for m in ms:
        i = m.end()
        depth = 1
        j = i
        while depth and j < len(body):
            depth += {'{': 1, '}': -1}.get(body[j], 0)
            j += 1
        toks = tokenize(body[i:j - 1])
        k = 0
        while k < len(toks):
            labels = []
            while k < len(toks) and toks[k] in (('id', 'case'), ('id', 'default')):
                if toks[k][1] == 'default':
                    labels.append('default')
                    k += 2
                else:
                    labels.append(toks[k + 1][1])
                    k += 3
            st = []
            depth = 0
            ended = False
            while k < len(toks):
                t = toks[k]
                if depth == 0 and t in (('id', 'case'), ('id', 'default')):
                    break
                depth += {'{': 1, '}': -1}.get(t[1], 0) if t[0] == 'op' else 0
                st.append(t)
                k += 1
                if depth == 0 and t == ('op', ';') and len(st) >= 2 and st[-2] in (('id', 'break'), ('id', 'continue')):
                    ended = True
                    break
                if depth == 0 and t == ('op', ';') and len(st) >= 3 and st[-3] == ('id', 'goto'):
                    ended = True
                    break
            if labels:
                groups.append((labels, st, ended))
    return groups


def translate(repo):
    src = preprocess(repo)
    ops = tr_opcodes.opcodes(repo)
    rows = []
    try:
        check_primitives(src)
    except Unsupported as e:
        return [('MOV', None, ('SUnknown', str(e)))]
    value_ops = set(ops[:ops.index('LADDR')])
    for labels, toks, ended in switch_groups(src):
        names = [l[4:] for l in labels if l.startswith('MIR_') and l[4:] in value_ops]
        text = ' '.join(t[1] for t in toks)
        if 'GVN' not in text and not re.search(r'\bget_gvn_\w+', text):
            continue
        # only the leading value computation of a case matters; cut at the first statement that
        # is not part of it (address canonisation, memory handling)
        for n in names:
            if n in ('MOV', 'FMOV', 'DMOV', 'LDMOV', 'PHI'):
                continue
            ex = GvnExec(src, n)
            try:
                stmts = parse_stmts(text.replace('continue ;', 'break ;'), TYPEDEFS)
                for st in stmts:
                    if st[0] in ('break',):
                        break
                    if st[0] == 'if' and ex.val is not None:
                        # e.g. `if (!const_p) goto canon_expr;` after the fold
                        try:
                            ex.stmt(st, {})
                        except Unsupported:
                            break
                        continue
                    ex.stmt(st, {})
                if ex.val is None:
                    raise Unsupported('no folded value')
                e = ex.val
                if n.startswith('B') or n[1:2] == 'B' and n[0] in 'U':
                    row = ('SBranch', e)
                else:
                    row = ('SAssign', 'CI64', e)
            except Unsupported as err:
                row = ('SUnknown', '%s: %s' % (err, text[:80]))
            except (KeyError, IndexError, ValueError, TypeError) as err:
                row = ('SUnknown', 'translator error %r: %s' % (err, text[:80]))
            rows.append((n, ex.guard, row))
    order = {o: i for i, o in enumerate(ops)}
    rows.sort(key=lambda r: order[r[0]])
    return rows


def emit(rows):
    s = '(* GENERATED on every run by tools/tr_c02_gvn.py from mir-gen.c of the checked tree. *)\n'
    s += 'From Coq Require Import ZArith List String.\nFrom MirV Require Import Mir.Opcode Mir.DocSpec Mir.CExpr.\n'
    s += 'Import ListNotations.\nLocal Open Scope Z_scope.\nLocal Open Scope string_scope.\n\n'
    s += '(* (opcode, guard under which the folder folds, folded value / branch condition) *)\n'
    s += 'Definition gvn_table : list (opcode * option cexpr * cstmt) :=\n  [ '
    s += '\n  ; '.join('(%s, %s, %s)' % (o, coq_opt(g), coq_stmt(st)) for o, g, st in rows) + ' ].\n'
    return s


MEM_TYPES = ['I8', 'U8', 'I16', 'U16', 'I32', 'U32', 'I64', 'U64', 'F', 'D', 'LD', 'P']


def canonic_table(src):
    """canonic_mem_type() -- the type under which GVN identifies two accesses of one address (mem_expr_eq / mem_expr_hash /
    expr_eq) -- as a table over all memory types, read from the PREPROCESSED source (so `#if` / `#ifdef` selections are
    the ones the compiler sees).  Accepted shapes: a `switch (type)` of `case T: [case T2: ...] return T3;` groups with
    `default: return type;`, or a chain of `if (type == T [|| type == T2]) return T3;` ending in `return type;`.
    -> ([(type, canonical type)], note) or (None, reason)"""
    m = re.search(r'\bcanonic_mem_type\s*\(\s*MIR_type_t\s+(\w+)\s*\)\s*\{', src)
    if m is None:
        return None, 'no function canonic_mem_type (MIR_type_t)'
    par = m.group(1)
    i, depth = m.end(), 1
    while i < len(src) and depth:
        depth += {'{': 1, '}': -1}.get(src[i], 0)
        i += 1
    body = ' '.join(src[m.end():i - 1].split())
    canon = {}
    default = None
    text = ' '.join(re.sub(r'([(){};:|=])', r' \1 ', body).split()).replace('= =', '==').replace('| |', '||')
    sw = re.match(r'^switch \( %s \) \{ (.*) \}$' % par, text)
    if sw is not None:
        rest = sw.group(1)
        pat = re.compile(r'^((?:case MIR_T_\w+ : |default : )+)return (\w+) ; ')
        rest += ' '
        while rest.strip():
            g = pat.match(rest)
            if g is None:
                return None, 'unsupported statement in the switch of canonic_mem_type: ' + rest[:60]
            for lab in re.findall(r'case MIR_T_(\w+) :|(default) :', g.group(1)):
                if lab[1]:
                    default = g.group(2)
                else:
                    canon[lab[0]] = g.group(2)
            rest = rest[g.end():]
    else:
        rest = text + ' '
        pat = re.compile(r'^if \( ((?:%s == MIR_T_\w+ (?:\|\| )?)+)\) return (\w+) ; ' % par)
        while True:
            g = pat.match(rest)
            if g is None:
                break
            for t in re.findall(r'MIR_T_(\w+)', g.group(1)):
                canon.setdefault(t, g.group(2))
            rest = rest[g.end():]
        g = re.match(r'^return (\w+) ; $', rest)
        if g is None:
            return None, 'unsupported body of canonic_mem_type: ' + rest[:60]
        default = g.group(1)
    if default != par:
        return None, 'canonic_mem_type: the default is not the type itself'
    rows = []
    for t in MEM_TYPES:
        c = canon.get(t, par)
        if c == par:
            c = 'MIR_T_' + t
        if not c.startswith('MIR_T_') or c[6:] not in MEM_TYPES:
            return None, 'canonic_mem_type (MIR_T_%s) = %s is not a memory type' % (t, c)
        rows.append((t, c[6:]))
    return rows, None


def emit_canonic(rows, why):
    s = '\n(* canonic_mem_type of mir-gen.c (after preprocessing): GVN treats two accesses of one address as the same memory\n'
    s += '   expression when their types have the same canonical type. *)\n'
    if rows is None:
        s += '(* NOT READABLE: %s *)\nDefinition gvn_canonic_mem_type : list (mir_type * mir_type) := [].\n' % why.replace('*)', '* )')
    else:
        s += 'Definition gvn_canonic_mem_type : list (mir_type * mir_type) :=\n  [ '
        s += '; '.join('(T_%s, T_%s)' % r for r in rows) + ' ].\n'
    return s


CANON = 'c02_canon_gvn.json'


def canonicalise(rows, canon):
    """a fold row that is not literally the canonical one (corpus/c02_canon_gvn.json) but equal to it for all operand
    values, with an equal guard (SMT, see tools/tr_c02_smt.py), is replaced by the canonical row"""
    import tr_c02_smt as SMT
    out, notes, hints = [], [], []
    for o, g, st in rows:
        c = canon.get(o)
        if c is not None and (g, st) != (c[0], c[1]) and st[0] in ('SAssign', 'SBranch'):
            cg, cst = c
            ok = (g is None) == (cg is None)
            if ok and g is not None and g != cg:
                ok = SMT.equivalent(('SBranch', g), ('SBranch', cg))[0] == 'equiv'
            if ok:
                r, info = SMT.equivalent(st, cst)
                if r == 'equiv':
                    out.append((o, cg, cst))
                    notes.append('GVN fold of ' + o)
                    continue
                if r == 'different' and info:
                    hints.append(dict(op=o, args=[info.get(1, 0), info.get(2, 0)]))
        out.append((o, g, st))
    return out, notes, hints


def main():
    import tr_c02_smt as SMT
    import json
    rows = translate(vlib.REPO)
    if '--snapshot' in sys.argv:
        p = os.path.join(vlib.VERIF, 'corpus', CANON)
        json.dump({o: [g, st] for o, g, st in rows if st[0] != 'SUnknown'}, open(p, 'w'), indent=0)
        print('wrote', p)
        return
    rows, notes, hints = canonicalise(rows, SMT.load_canon(CANON))
    SMT.write_notes('gvn', notes)
    SMT.write_hints('gvn', hints)
    out = os.path.join(vlib.COQDIR, 'gen', 'GvnFoldTable.v')
    os.makedirs(os.path.dirname(out), exist_ok=True)
    crow, cwhy = canonic_table(preprocess(vlib.REPO))
    txt = emit(rows) + emit_canonic(crow, cwhy)
    old = open(out).read() if os.path.exists(out) else None
    if old != txt:
        open(out + '.tmp%d' % os.getpid(), 'w').write(txt)
        os.rename(out + '.tmp%d' % os.getpid(), out)
    unk = [o for o, g, st in rows if st[0] == 'SUnknown']
    print('GvnFoldTable canonic_mem_type: %s' % (' '.join('%s>%s' % r for r in crow if r[0] != r[1]) if crow is not None else 'NOT READABLE: ' + cwhy))
    print('GvnFoldTable: %d rows, %d unknown%s%s' % (len(rows), len(unk), (': ' + ' '.join(unk[:8])) if unk else '',
                                                     ('; tied by SMT equivalence with the canonical row: ' + '; '.join(notes)) if notes else ''))


if __name__ == '__main__':
    main()

#!/usr/bin/env python3
# Tie of coq/C07/Limits.v (committed) to c2mir/x86_64/cx86_64.h of the current tree: a probe program
# that includes the header prints the MIR_*_MAX limits, sizeof(mir_*) and char signedness; `check()`
# compares them with the numbers evaluated from Limits.v.  Used by checks/c07.py and checks/c09.py.
import sys, os, re, tempfile, shutil
sys.path.insert(0, os.path.dirname(os.path.abspath(__file__)))
import vlib

PROBE = r'''
#include <stdio.h>
#include <stdint.h>
#include "c2mir/x86_64/cx86_64.h"
int main (void) {
  printf ("char_bits %d\n", (int) sizeof (mir_char) * 8);
  printf ("short_bits %d\n", (int) sizeof (mir_short) * 8);
  printf ("int_bits %d\n", (int) sizeof (mir_int) * 8);
  printf ("long_bits %d\n", (int) sizeof (mir_long) * 8);
  printf ("llong_bits %d\n", (int) sizeof (mir_llong) * 8);
  printf ("char_signed %d\n", MIR_CHAR_MIN < 0);
  printf ("MIR_INT_MAX %llu\n", (unsigned long long) MIR_INT_MAX);
  printf ("MIR_UINT_MAX %llu\n", (unsigned long long) MIR_UINT_MAX);
  printf ("MIR_LONG_MAX %llu\n", (unsigned long long) MIR_LONG_MAX);
  printf ("MIR_ULONG_MAX %llu\n", (unsigned long long) MIR_ULONG_MAX);
  printf ("MIR_LLONG_MAX %llu\n", (unsigned long long) MIR_LLONG_MAX);
  printf ("MIR_ULLONG_MAX %llu\n", (unsigned long long) MIR_ULLONG_MAX);
  printf ("MIR_CHAR_MAX %llu\n", (unsigned long long) MIR_CHAR_MAX);
  printf ("MIR_UCHAR_MAX %llu\n", (unsigned long long) MIR_UCHAR_MAX);
  printf ("MIR_USHORT_MAX %llu\n", (unsigned long long) MIR_USHORT_MAX);
  return 0;
}
'''


def header_values(repo=None):
    repo = repo or vlib.REPO
    d = tempfile.mkdtemp(prefix='c07lim', dir='/var/tmp')
    try:
        src = os.path.join(d, 'p.c')
        open(src, 'w').write(PROBE)
        vlib.sh(['gcc', '-w', '-I' + repo, src, '-o', os.path.join(d, 'p')], check=True, timeout=120)
        rc, out, err = vlib.sh([os.path.join(d, 'p')], check=True, timeout=20)
    finally:
        shutil.rmtree(d, ignore_errors=True)
    return {l.split()[0]: int(l.split()[1]) for l in out.strip().split('\n')}


def coq_values():
    txt = vlib.strip_coq_comments(open(os.path.join(vlib.COQDIR, 'C07', 'Limits.v')).read())
    vals = {}
    for m in re.finditer(r'Definition\s+(\w+)\s*:\s*(Z|bool)\s*:=\s*([^.]*)\.', txt):
        name, ty, rhs = m.group(1), m.group(2), m.group(3).strip()
        if ty == 'bool':
            vals[name] = 1 if rhs == 'true' else 0
        else:
            vals[name] = int(eval(rhs.replace('^', '**'), {}, {}))
    return vals


def check(repo=None):
    """returns list of mismatches (empty = tie holds)"""
    h, c = header_values(repo), coq_values()
    bad = []
    for k in sorted(set(h) | set(c)):
        if h.get(k) != c.get(k):
            bad.append('%s: header %s, Limits.v %s' % (k, h.get(k), c.get(k)))
    return bad


if __name__ == '__main__':
    b = check()
    print('\n'.join(b) if b else 'Limits.v agrees with cx86_64.h')
    sys.exit(1 if b else 0)

# Seeded generator of MIR text modules with ARBITRARY control-flow graphs (used by tools/gen_c17_scen.py for the C17 /
# C18 API histories): every block may jump, branch, switch or jump indirectly (laddr + jmpi) to every other block, so
# loops with several entries (irreducible: a branch into the middle of a loop body), nested and overlapping loops,
# unreachable blocks, self loops, switch tables with repeated targets, blocks ending in ret all occur -- the shapes the
# generator's CFG / loop-tree / SSA / register-allocation code has early exits and special cases for.
# Termination by construction: every block that is the target of a backward edge (in layout order; a cycle always
# contains one) first decrements a fuel register and leaves the function when it is used up.
# Every module m<name> exports   f<name>: func i64, i64:n   (C type long f (long)); values depend on n only.

INT_OPS = ['add', 'sub', 'mul', 'xor', 'and', 'or', 'adds', 'subs', 'muls', 'xors']
SHIFTS = ['lsh', 'rsh', 'ursh', 'lshs', 'urshs']
CMP_BR = ['beq', 'bne', 'blt', 'ble', 'bgt', 'bge', 'ublt', 'ubge', 'beqs', 'bnes', 'blts', 'bges']
CMP_SET = ['eq', 'ne', 'lt', 'le', 'gt', 'ge', 'ult', 'uge']


def cfg_function(rng, fname, mod, nblocks=None, shape=None, callee=None, alloca=False):
    """-> lines of one function.  shape: None (random edges) | 'irreducible' (a natural loop plus a branch from
    before the loop into the middle of its body) | 'nested' (reducible nest)"""
    k = nblocks or rng.choice([2, 3, 4, 5, 6, 8, 10, 14])
    regs = ['a', 'b', 'c']
    L = ['%s: func i64, i64:n' % fname, '  local i64:fuel, i64:a, i64:b, i64:c, i64:t, i64:p, d:x, d:y',
         '  and fuel, n, 15', '  add fuel, fuel, %d' % rng.choice([6, 12, 25, 40]), '  mov a, n', '  mov b, %d' % rng.randrange(1, 50),
         '  xor c, n, %d' % rng.randrange(1, 1 << 20), '  dmov x, 0.5', '  dmov y, 1.0']
    # terminators first (they define the edges)
    term = []
    for i in range(k):
        r = rng.random()
        others = [j for j in range(k)]
        tgt = lambda: rng.choice(others)
        if shape == 'irreducible' and k >= 4:
            # B0: branch into the middle (B2) | B1: loop head | B2: body | B3: back edge to B1 ... rest random forward
            term.append({0: ('br', 2), 1: ('fall',), 2: ('fall',), 3: ('br', 1)}.get(i) or (('br', rng.randrange(i + 1, k + 1)) if i + 1 < k else ('ret',)))
            continue
        if shape == 'nested' and k >= 4:
            term.append(('br', rng.randrange(0, i + 1)) if i % 2 == 1 else ('fall',))
            continue
        if r < 0.22:
            term.append(('fall',))
        elif r < 0.37:
            term.append(('jmp', tgt()))
        elif r < 0.70:
            term.append(('br', tgt()))
        elif r < 0.80:
            term.append(('sw', [tgt() for _ in range(rng.choice([1, 2, 3, 4, 6]))]))
        elif r < 0.87:
            term.append(('jmpi', tgt()))
        elif r < 0.93:
            term.append(('br2', tgt(), tgt()))
        else:
            term.append(('ret',))
    edges = set()
    addr_taken = set()
    for i, t in enumerate(term):
        if t[0] in ('fall', 'br', 'br2'):
            edges.add((i, i + 1))
        if t[0] in ('jmp', 'br'):
            edges.add((i, t[1]))
        if t[0] == 'br2':
            edges.add((i, t[1])); edges.add((i, t[2]))
        if t[0] == 'sw':
            for j in t[1]:
                edges.add((i, j))
        if t[0] == 'jmpi':
            addr_taken.add(t[1])
    # an indirect jump may reach every address-taken label
    for i, t in enumerate(term):
        if t[0] == 'jmpi':
            for j in addr_taken:
                edges.add((i, j))
    needs_fuel = {j for (i, j) in edges if j <= i and j < k}
    for i in range(k):
        L.append('B%s_%d:' % (fname, i))
        if i in needs_fuel:
            L += ['  sub fuel, fuel, 1', '  ble X%s, fuel, 0' % fname]
        if alloca and rng.random() < 0.3:
            # an alloca after a label (never a top alloca): a function inlined with it is copied in place between
            # BSTART/BEND, its rets in the middle become jumps to the end of the copy
            s1 = rng.choice(regs)
            L += ['  alloca t, %d' % rng.choice([8, 16, 48]), '  mov i64:(t), %s' % s1, '  mov %s, i64:(t)' % rng.choice(regs)]
        for _ in range(rng.choice([0, 1, 1, 2, 3, 5])):
            q = rng.random()
            d, s1, s2 = rng.choice(regs), rng.choice(regs), rng.choice(regs + [str(rng.randrange(1, 1000)), str(rng.getrandbits(40))])
            if q < 0.45:
                L.append('  %s %s, %s, %s' % (rng.choice(INT_OPS), d, s1, s2))
            elif q < 0.55:
                L.append('  %s %s, %s, %d' % (rng.choice(SHIFTS), d, s1, rng.choice([1, 3, 7, 13, 31])))
            elif q < 0.62:
                L.append('  %s %s, %s, %s' % (rng.choice(CMP_SET), d, s1, s2))
            elif q < 0.70:
                L += ['  or t, %s, 1' % s1, '  %s %s, %s, t' % (rng.choice(['udiv', 'umod', 'udivs', 'umods']), d, rng.choice(regs))]
            elif q < 0.78:
                L += ['  mov t, bs%s' % mod, '  mov i64:%d(t), %s' % (8 * rng.randrange(8), s1), '  mov %s, i64:%d(t)' % (d, 8 * rng.randrange(8))]
            elif q < 0.84:
                L += ['  mov t, bs%s' % mod, '  mov u8:%d(t), %s' % (rng.randrange(64), s1), '  mov %s, i16:%d(t)' % (d, 2 * rng.randrange(32))]
            elif q < 0.90:
                L += ['  and t, %s, 255' % s1, '  i2d x, t', '  dadd y, y, x', '  dmul x, x, 0.25']
            elif q < 0.95:
                L.append('  call ph%s, host_add, %s, %s, %s' % (mod, d, s1, rng.choice(regs)))
            elif callee is not None:
                L += ['  and t, %s, 7' % s1, '  call pg%s, %s, %s, t' % (mod, callee, d)]
            else:
                L.append('  %s %s, %s' % (rng.choice(['ext8', 'ext16', 'ext32', 'uext8', 'uext16', 'uext32', 'neg']), d, s1))
        t = term[i]
        lab = lambda j: ('B%s_%d' % (fname, j)) if j < k else 'X' + fname
        if t[0] == 'jmp':
            L.append('  jmp ' + lab(t[1]))
        elif t[0] == 'br':
            L.append('  %s %s, %s, %s' % (rng.choice(CMP_BR), lab(t[1]), rng.choice(regs), rng.choice(regs + [str(rng.randrange(0, 64))])))
        elif t[0] == 'br2':
            L.append('  %s %s, %s' % (rng.choice(['bt', 'bf', 'bts', 'bfs']), lab(t[1]), rng.choice(regs)))
            L.append('  %s %s, %s, %s' % (rng.choice(CMP_BR), lab(t[2]), rng.choice(regs), rng.choice(regs)))
        elif t[0] == 'sw':
            L += ['  umod t, %s, %d' % (rng.choice(regs), len(t[1])), '  switch t, ' + ', '.join(lab(j) for j in t[1])]
        elif t[0] == 'jmpi':
            L += ['  laddr p, ' + lab(t[1]), '  jmpi p']
        elif t[0] == 'ret':
            L.append('  ret %s' % rng.choice(regs))
    L += ['X%s:' % fname, '  and t, a, 1023', '  i2d x, t', '  dadd y, y, x', '  d2i t, y', '  add a, a, t', '  xor a, a, b', '  add a, a, c', '  ret a',
          '  endfunc']
    return L


def cfg_module(rng, name, shape=None):
    """MIR text of module m<name> with f<name> and (sometimes) helper functions with CFGs of their own, called or
    inlined from f<name>"""
    L = ['m%s: module' % name, '  export f%s' % name, '  import host_add', 'ph%s: proto i64, i64:a, i64:b' % name,
         'pg%s: proto i64, i64:x' % name, 'bs%s: bss 72' % name]
    helpers = []
    for h in range(rng.choice([0, 0, 1, 2])):
        hn = 'h%s_%d' % (name, h)
        # helpers (they are called and inlined) have allocas in their blocks in half of the modules
        L += cfg_function(rng, hn, name, shape=shape if h == 0 else None, alloca=rng.random() < 0.5)
        helpers.append(hn)
    callee = rng.choice(helpers) if helpers else None
    body = cfg_function(rng, 'f' + name, name, shape=shape, callee=callee)
    if helpers and rng.random() < 0.5:
        # inline one helper at the start of f (its whole CFG is copied into f)
        i = next(j for j, l in enumerate(body) if l.startswith('B'))
        body[i:i] = ['  and t, n, 7', '  inline pg%s, %s, c, t' % (name, rng.choice(helpers))]
    L += body
    L += ['  endmodule', '']
    return '\n'.join(L)


if __name__ == '__main__':
    import random, sys
    print(cfg_module(random.Random(int(sys.argv[1]) if len(sys.argv) > 1 else 1), 'q', sys.argv[2] if len(sys.argv) > 2 else None))

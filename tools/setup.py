import sys, os, glob
sys.path.insert(0, os.path.dirname(os.path.abspath(__file__)))
import vlib
vlib.coq_setup()
rc, out, err = vlib.sh(['timeout', '7200', 'make', '-k', '-j%d' % vlib.NCPU], cwd=vlib.COQDIR)
print(out[-3000:])
print(err[-3000:])
bad = vlib.coq_gate()
if bad:
    print('GATE:', bad)
try:
    vlib.build_repo('plain', ('mir', 'mir-gen', 'c2mir', 'mir2c'))
except vlib.BuildError as e:
    print(e)
print('setup done; coq make rc=%d' % rc)
sys.exit(0)

import sys, os, glob
sys.path.insert(0, os.path.dirname(os.path.abspath(__file__)))
import vlib
targets = [f[:-2] + '.vo' for f in vlib.coq_files()]
res = vlib.coq_make(targets, timeout=3000)
nbad = 0
for t, (ok, log) in sorted(res.items()):
    if not ok:
        nbad += 1
        print('FAILED', t)
        print(log[-1500:])
bad = vlib.coq_gate()
if bad:
    print('GATE:', bad)
try:
    vlib.build_repo('plain', ('mir', 'mir-gen', 'c2mir', 'mir2c'))
except vlib.BuildError as e:
    print(e)
print('setup done; %d coq files, %d failed' % (len(targets), nbad))
sys.exit(0)

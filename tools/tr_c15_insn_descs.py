#!/usr/bin/env python3
# C15 translator: regenerates coq/gen/InsnDescs.v from the CURRENT tree (mir.c after `gcc -E -P`):
#   * every row of the insn_descs[] initialiser (enumerator, name string, op_modes initialisers
#     with their OUT_FLAG bit) -- a row or mode it cannot parse becomes `Unknown`/None so that the
#     theorem insn_descs_wellformed fails instead of the row being skipped;
#   * the enumerator names of MIR_error_type_t, MIR_op_mode_t, MIR_type_t (so the hand-written
#     inductives of coq/C15/Defs.v are checked against the header on every run);
#   * the x86-64 hard register name table and the fixed-register set (mir-x86_64.h).
# Usage: tr_c15_insn_descs.py [--stdout]
import sys, os, re
sys.path.insert(0, os.path.dirname(os.path.abspath(__file__)))
import vlib
import tr_opcodes


def preprocess(repo):
    rc, out, err = vlib.sh(['gcc', '-E', '-P', '-DNDEBUG', '-I' + repo, os.path.join(repo, 'mir.c')], check=True)
    return out


def matching(text, start):
    """index just after the brace matching text[start] == '{' (strings skipped)"""
    depth = 0
    i = start
    instr = False
    while i < len(text):
        c = text[i]
        if instr:
            if c == '\\':
                i += 1
            elif c == '"':
                instr = False
        elif c == '"':
            instr = True
        elif c == '{':
            depth += 1
        elif c == '}':
            depth -= 1
            if depth == 0:
                return i + 1
        i += 1
    return -1


def split_top(text):
    """split on commas at brace depth 0 (strings skipped)"""
    parts, depth, cur, instr = [], 0, [], False
    i = 0
    while i < len(text):
        c = text[i]
        if instr:
            cur.append(c)
            if c == '\\':
                i += 1
                cur.append(text[i])
            elif c == '"':
                instr = False
        elif c == '"':
            instr = True
            cur.append(c)
        elif c in '{(':
            depth += 1
            cur.append(c)
        elif c in '})':
            depth -= 1
            cur.append(c)
        elif c == ',' and depth == 0:
            parts.append(''.join(cur).strip())
            cur = []
        else:
            cur.append(c)
        i += 1
    last = ''.join(cur).strip()
    if last:
        parts.append(last)
    return parts


def coq_name(s):
    return '[' + '; '.join(str(b) for b in s.encode('utf-8', 'replace')) + ']%N'


def enum_names(pp, typedef_name):
    m = re.search(r'typedef enum(?:\s+\w+)?\s*\{([^{}]*)\}\s*' + re.escape(typedef_name) + r'\s*;', pp)
    if not m:
        return None
    return [x.strip() for x in m.group(1).split(',') if x.strip()]


def parse_mode(txt, out_flag_txt):
    """'MIR_OP_INT | (1 << 7)' -> ('OP_INT', True); None if not understood"""
    t = re.sub(r'\s+', ' ', txt.strip())
    out = False
    m = re.match(r'^(MIR_OP_\w+)(?: \| (.+))?$', t)
    if not m:
        return None
    if m.group(2) is not None:
        if re.sub(r'\s+', '', m.group(2)) != re.sub(r'\s+', '', out_flag_txt):
            return None
        out = True
    return (m.group(1)[4:], out)


LAST_ROWS = []


def translate(repo):
    global LAST_ROWS
    pp = preprocess(repo)
    ops = tr_opcodes.opcodes(repo)
    # OUT_FLAG as the preprocessor expands it
    src = open(os.path.join(repo, 'mir.c')).read()
    m = re.search(r'#define\s+OUT_FLAG\s+(.+)', src)
    out_flag_txt = m.group(1).strip() if m else '(1 << 7)'
    out_flag_ok = re.sub(r'\s+', '', out_flag_txt) == '(1<<7)'
    modes = enum_names(pp, 'MIR_op_mode_t') or []
    mode_set = set(x[4:] for x in modes)
    rows = []
    m = re.search(r'static const struct insn_desc insn_descs\s*\[\s*\]\s*=\s*\{', pp)
    if not m:
        rows.append(('unknown', 'insn_descs initialiser not found'))
        cells = None
    else:
        start = m.end() - 1
        end = matching(pp, start)
        body = pp[start + 1:end - 1]
        for r in split_top(body):
            rm = re.match(r'^\{\s*(\w+)\s*,\s*"((?:[^"\\]|\\.)*)"\s*,\s*\{(.*)\}\s*,?\s*\}$', r, re.S)
            if not rm:
                rows.append(('unknown', re.sub(r'\s+', ' ', r)[:60]))
                continue
            code, nm, modes_txt = rm.group(1), rm.group(2), rm.group(3)
            code_c = code[4:] if code.startswith('MIR_') and code[4:] in ops else None
            ml = []
            bad = False
            for mt in split_top(modes_txt):
                pm = parse_mode(mt, out_flag_txt)
                if pm is None or pm[0] not in mode_set:
                    bad = True
                    break
                ml.append(pm)
            if bad or '\\' in nm:
                rows.append(('unknown', re.sub(r'\s+', ' ', r)[:60]))
            else:
                rows.append(('row', code_c, nm, ml))
        # declared size of op_modes[]
        cm = re.search(r'struct insn_desc\s*\{[^}]*unsigned char op_modes\s*\[\s*(\d+)\s*\]', pp)
        cells = int(cm.group(1)) if cm else None

    LAST_ROWS = rows
    errs = enum_names(pp, 'MIR_error_type_t') or []
    types = enum_names(pp, 'MIR_type_t') or []
    s = '(* GENERATED on every run by tools/tr_c15_insn_descs.py from %s (mir.c after gcc -E -P). Not committed. *)\n' % 'the current tree'
    s += 'From Coq Require Import List NArith.\nFrom MirV Require Import Mir.Opcode C15.Defs.\nImport ListNotations.\n\n'
    s += 'Definition insn_descs : list desc_row :=\n  [\n'
    lines = []
    for r in rows:
        if r[0] == 'unknown':
            lines.append('    Unknown %s' % coq_name(r[1]))
        else:
            _, code_c, nm, ml = r
            lines.append('    Row %s %s [%s]' % ('(Some %s)' % code_c if code_c else 'None', coq_name(nm),
                                                '; '.join('(%s, %s)' % (a, 'true' if b else 'false') for a, b in ml)))
    s += ';\n'.join(lines) + '\n  ].\n\n'
    s += 'Definition op_modes_cells : option nat := %s.\n' % ('Some %d' % cells if cells is not None else 'None')
    s += 'Definition out_flag_is_bit7 : bool := %s.\n\n' % ('true' if out_flag_ok else 'false')

    def names_def(nm, lst, strip_pre, strip_suf=''):
        out = []
        for x in lst:
            x = x.split('=')[0].strip()
            if x.startswith(strip_pre):
                x = x[len(strip_pre):]
            if strip_suf and x.endswith(strip_suf):
                x = x[:-len(strip_suf)]
            out.append(x)
        return 'Definition %s : list name :=\n  [%s].\n\n' % (nm, ';\n   '.join(coq_name(x) for x in out))
    s += names_def('error_names', errs, 'MIR_', '_error')
    s += names_def('op_mode_names', modes, 'MIR_OP_')
    s += names_def('type_names', types, 'MIR_T_')
    # the one enumerator of MIR_type_t with an explicit value: RBLK = BLK + MIR_BLK_NUM
    rb = [x for x in types if '=' in x]
    rb_txt = re.sub(r'\s+', '', rb[0]) if len(rb) == 1 else 'unparsed:%d' % len(rb)
    s += 'Definition type_explicit_values : name := %s.\n\n' % coq_name(rb_txt)

    # hard registers (x86-64 host): names in table order and the fixed (reserved) ones
    hm = re.search(r'static const char \*const target_hard_reg_names\s*\[\s*\]\s*=\s*\{([^}]*)\}', pp)
    hnames = re.findall(r'"([^"]*)"', hm.group(1)) if hm else []
    henum = []
    em = re.search(r'enum\s*\{([^{}]*AX_HARD_REG[^{}]*)\}', pp)
    if em:
        henum = [x.strip() for x in em.group(1).split(',') if x.strip()]
    consts = dict(re.findall(r'static const MIR_reg_t (\w+)\s*=\s*(\w+)', pp))
    # several declarators per line: "A = X, B = Y;"
    for mm in re.finditer(r'static const MIR_reg_t ([^;]*);', pp):
        for d in mm.group(1).split(','):
            if '=' in d:
                a, b = d.split('=')
                consts[a.strip()] = b.strip()
    fixed = None
    fm = re.search(r'static inline int target_fixed_hard_reg_p \(MIR_reg_t hard_reg\) \{(.*?)\n\}', pp, re.S)
    if fm:
        body = fm.group(1)
        rm_ = re.search(r'return\s*\((.*)\)\s*;', body, re.S)
        fixed = []
        if rm_:
            for t in rm_.group(1).split('||'):
                tm = re.match(r'^\s*hard_reg\s*==\s*(\w+)\s*$', t)
                if not tm:
                    fixed = None
                    break
                v = consts.get(tm.group(1), tm.group(1))
                if v in henum:
                    fixed.append(henum.index(v))
                elif v in ('MIR_NON_VAR', '(4294967295U)'):
                    pass
                else:
                    fixed = None
                    break
        else:
            fixed = None
    s += 'Definition hard_reg_names : list name :=\n  [%s].\n\n' % ';\n   '.join(coq_name(x) for x in hnames)
    s += 'Definition hard_reg_enum_len : nat := %d.\n' % len(henum)
    s += 'Definition first_xmm_hard_reg : option N := %s.\n' % (
        'Some %d%%N' % henum.index('XMM0_HARD_REG') if 'XMM0_HARD_REG' in henum else 'None')
    s += 'Definition fixed_hard_regs : option (list N) := %s.\n' % (
        'Some [%s]%%N' % '; '.join(str(x) for x in sorted(set(fixed))) if fixed is not None else 'None')
    return s


def generate():
    """rewrite coq/gen/InsnDescs.v (only when its text changes); returns (path, parsed rows)"""
    txt = translate(vlib.REPO)
    d = os.path.join(vlib.COQDIR, 'gen')
    os.makedirs(d, exist_ok=True)
    p = os.path.join(d, 'InsnDescs.v')
    old = open(p).read() if os.path.exists(p) else None
    if old != txt:
        with open(p + '.tmp%d' % os.getpid(), 'w') as f:
            f.write(txt)
        os.rename(p + '.tmp%d' % os.getpid(), p)
    return p, LAST_ROWS


if __name__ == '__main__':
    if '--stdout' in sys.argv:
        sys.stdout.write(translate(vlib.REPO))
    else:
        print(generate())

# Seeded generators of DECLARATION HISTORIES for the C17 / C18 API histories (used by tools/gen_c17_scen.py):
#
#  * decl_module (rng, n): one MIR module in which every name has a history of declarations -- export / forward before
#    and after the definition, repeated, in every order; imports repeated; references to a name made while only a
#    forward / an export of it exists; ref data naming items defined earlier or later; anonymous data after named.
#    The module is a declaration LIST that is rendered either as MIR text (MIR_scan_string) or as the argument of the
#    harness command `apim` (the same calls through the construction API: MIR_new_export / MIR_new_forward /
#    MIR_new_import / MIR_new_func ... in that order), so both front doors of mir.c's add_item are driven through the
#    same histories.  Legal by construction (add_item's error cases are avoided: no import of a local name, no second
#    definition, every exported / forwarded name is defined in the module).
#  * c_redecl_unit (rng): one C translation unit in which file-scope identifiers are declared several times --
#    incomplete then complete array types (by size or by initialiser), tentative definitions, extern then definition then
#    extern, static then extern, functions declared (prototype / old style / through a typedef) then defined then
#    declared again, struct / union tags declared, used in incomplete objects / pointers / function results, then
#    completed, typedef repeats (C11), block-scope extern redeclarations -- i.e. every branch of c2mir's def_symbol
#    (first declaration, compatible redeclaration, redeclaration while the recorded type is still incomplete).
# Every module / unit defines  long f<N> (long n)  whose value depends on n only.


# ------------------------------------------------------------------------------------------------ MIR modules
IMPORTS = [('host_add', 2), ('host_neg', 1), ('labs', 1)]


def _decls(rng, maxn):
    """a random run of export / forward declarations (possibly empty, possibly repeating one kind)"""
    k = rng.choice([0, 0, 1, 1, 2, 3][:maxn + 3])
    return [rng.choice('XXW') for _ in range(k)]


def decl_module(rng, n, shape=None):
    """-> (ops, [callable function names]).  ops: list of tuples as understood by to_text / to_api.
    shape: None | 'export-after' (some exported definition is exported again afterwards) | 'forward-first'"""
    n = str(n)
    nfun = rng.choice([1, 2, 3, 4])
    funcs = ['g%s_%d' % (n, i) for i in range(nfun)] + ['f' + n]        # rank = position: a function calls lower ranks only
    datas = ['d%s_%d' % (n, i) for i in range(rng.choice([0, 1, 2]))]
    bsss = ['b%s_%d' % (n, i) for i in range(rng.choice([0, 1, 1]))]
    strs = ['s%s_%d' % (n, i) for i in range(rng.choice([0, 0, 1]))]
    refs = ['r%s_%d' % (n, i) for i in range(rng.choice([0, 1, 1, 2]))]
    imps = rng.sample(IMPORTS, rng.choice([0, 1, 2, 3]))
    p1, p2 = 'p1_' + n, 'p2_' + n
    seqs = []
    definable = funcs + datas + bsss + strs + refs
    forced = rng.choice(definable) if shape else None
    for nm in definable:
        pre, post = _decls(rng, 3), _decls(rng, 3)
        if nm == 'f' + n and 'X' not in pre + post and rng.random() < 0.8:
            (pre if rng.random() < 0.5 else post).append('X')
        if nm == forced and shape == 'export-after':
            pre = rng.choice([['X'], [], ['W', 'X'], ['X', 'X']])
            post = rng.choice([['X'], ['X', 'X'], ['W', 'X'], ['X', 'W', 'X']])
        if nm == forced and shape == 'forward-first':
            pre = rng.choice([['W'], ['W', 'W'], ['W', 'X'], ['W', 'X', 'W']])
        seqs.append([(k, nm) for k in pre] + [('DEF', nm)] + [(k, nm) for k in post])
    for nm, na in imps:
        seqs.append([('I', nm)] * rng.choice([1, 1, 2, 3]))
    # random interleaving that keeps each name's own order
    order = []
    live = [s for s in seqs if s]
    while live:
        s = rng.choice(live)
        order.append(s.pop(0))
        if not s:
            live.remove(s)
    # protos: somewhere before the first function definition
    firstf = min(i for i, (k, nm) in enumerate(order) if k == 'DEF' and nm in funcs)
    for p, na in ((p1, 1), (p2, 2)):
        order.insert(rng.randrange(firstf + 1), ('P', p, na))
        firstf += 1
    ops, declared = [], set()
    imp_args = dict(imps)
    for ev in order:
        k, nm = ev[0], ev[1]
        if k in 'XWI':
            ops.append((k, nm))
        elif k == 'P':
            ops.append(('P', nm, ev[2]))
        elif nm in funcs:
            rank = funcs.index(nm)
            want = []
            for g in funcs[:rank]:
                if rng.random() < (0.8 if nm == 'f' + n else 0.5):
                    want.append(('c', g))
            for inm, na in imps:
                if inm in declared and rng.random() < 0.6:
                    want.append(('h' if na == 2 else 'c', inm))
            for d in datas:
                if rng.random() < 0.6:
                    want.append(('d', d))
            for b in bsss:
                if rng.random() < 0.6:
                    want.append(('b', b))
            for x in strs + refs + funcs[:rank]:
                if rng.random() < 0.3:
                    want.append(('a', x))
            rng.shuffle(want)
            body = []
            for kind, x in want:
                if x not in declared:
                    if x in imp_args:
                        continue
                    # used before its definition: a forward (or an export) declaration is what makes that legal
                    ops.append((rng.choice('WWX'), x))
                    declared.add(x)
                body.append((kind, x))
            ops.append(('F', nm, p1, p2, body))
        elif nm in datas:
            ops.append(('D', nm, [rng.randrange(-50, 1000) for _ in range(rng.choice([2, 3, 5]))]))
            for _ in range(rng.choice([0, 0, 1, 2])):
                ops.append(('D', '-', [rng.randrange(100) for _ in range(rng.choice([1, 2]))]))
        elif nm in bsss:
            ops.append(('B', nm, rng.choice([8, 16, 40])))
        elif nm in strs:
            ops.append(('S', nm, rng.choice(['text', 'a', 'declaration_history'])))
        else:
            cand = [x for x in datas + bsss + funcs + strs if x in declared]
            if cand:
                ops.append(('R', nm, rng.choice(cand), rng.choice([0, 0, 8])))
            else:
                ops.append(('D', nm, [7, 8]))
        declared.add(nm)
    return ops, ['f' + n] + funcs[:-1]


def to_api(ops):
    """the declaration list as the argument of the harness command  apim <k> <list>"""
    out = []
    for o in ops:
        if o[0] in 'XWI':
            out.append('%s:%s' % o)
        elif o[0] == 'P':
            out.append('P:%s:%d' % (o[1], o[2]))
        elif o[0] == 'D':
            out.append('D:%s:%s' % (o[1], '.'.join(map(str, o[2]))))
        elif o[0] == 'B':
            out.append('B:%s:%d' % (o[1], o[2]))
        elif o[0] == 'S':
            out.append('S:%s:%s' % (o[1], o[2]))
        elif o[0] == 'R':
            out.append('R:%s:%s:%d' % (o[1], o[2], o[3]))
        else:
            out.append('F:%s:%s:%s:%s' % (o[1], o[2], o[3], '.'.join('%s=%s' % b for b in o[4]) or '-'))
    return ','.join(out)


def to_text(ops, n, rng=None):
    """the declaration list as MIR text; with rng, neighbouring exports / imports / forwards are sometimes written as
    one statement with a name list"""
    L = ['m%s: module' % n]
    word = dict(X='export', I='import', W='forward')
    prev = None
    for o in ops:
        if o[0] in 'XWI':
            if prev == o[0] and rng is not None and rng.random() < 0.5:
                L[-1] += ', ' + o[1]
            else:
                L.append('  %s %s' % (word[o[0]], o[1]))
            prev = o[0]
            continue
        prev = None
        if o[0] == 'P':
            L.append('%s: proto i64, %s' % (o[1], ', '.join('i64:%s' % 'abcd'[i] for i in range(o[2]))))
        elif o[0] == 'D':
            L.append('%s i64 %s' % (o[1] + ':' if o[1] != '-' else ' ', ', '.join(map(str, o[2]))))
        elif o[0] == 'B':
            L.append('%s: bss %d' % (o[1], o[2]))
        elif o[0] == 'S':
            L.append('%s: string "%s"' % (o[1], o[2]))
        elif o[0] == 'R':
            L.append('%s: ref %s, %d' % (o[1], o[2], o[3]))
        else:
            _, nm, p1, p2, body = o
            L += ['%s: func i64, i64:n' % nm, '  local i64:acc, i64:t, i64:ad', '  mov acc, n']
            for kind, x in body:
                if kind == 'c':
                    L.append('  call %s, %s, t, acc' % (p1, x))
                elif kind == 'h':
                    L.append('  call %s, %s, t, acc, n' % (p2, x))
                elif kind == 'd':
                    L += ['  mov ad, %s' % x, '  mov t, i64:8(ad)']
                elif kind == 'b':
                    L += ['  mov ad, %s' % x, '  mov i64:(ad), acc', '  mov t, i64:(ad)']
                else:
                    L += ['  mov ad, %s' % x, '  and t, ad, 0']
                L.append('  add acc, acc, t')
            L += ['  ret acc', '  endfunc']
    L += ['  endmodule', '']
    return '\n'.join(L)


# ------------------------------------------------------------------------------------------------ C units
def _merge(rng, seqs):
    out, live = [], [list(s) for s in seqs if s]
    while live:
        s = rng.choice(live)
        out.append(s.pop(0))
        if not s:
            live.remove(s)
    return out


class _Unit:
    def __init__(self, rng):
        self.rng = rng
        self.seqs = []        # per entity: list of file-scope declarations (strings), order fixed
        self.calls = []       # expressions of type long usable in f (depend on n only)
        self.block = []       # block-scope declarations for f's body
        self.k = 0

    def nm(self, stem):
        self.k += 1
        return '%s@N@_%d' % (stem, self.k)

    def accessor(self, expr_of_k):
        a = self.nm('acc')
        self.calls.append('%s (n)' % a)
        return 'static long %s (long k) { return %s; }' % (a, expr_of_k)

    # ---- arrays: incomplete / complete / tentative / defined, external or internal linkage
    def array(self):
        r = self.rng
        a, T, K = self.nm('ta'), r.choice(['int', 'long', 'char', 'unsigned short', 'long long']), r.choice([2, 3, 5])
        vals = [r.randrange(1, 90) for _ in range(K)]
        init = '{%s}' % ', '.join(map(str, vals))
        static = r.random() < 0.25
        s = []
        if static:
            # internal linkage: the first declaration says static (a complete type: a tentative definition with internal
            # linkage shall not have an incomplete type); later ones may say static or extern
            forms = ['static %s %s[%d];' % (T, a, K), 'extern %s %s[];' % (T, a), 'extern %s %s[%d];' % (T, a, K)]
            s.append(forms[0])
            for _ in range(r.choice([0, 1, 2])):
                s.append(r.choice(forms))
                if r.random() < 0.5:
                    s.append(self.accessor('%s[(unsigned long) k %% %d]' % (a, K)))
            if r.random() < 0.7:
                s.append('static %s %s[%d] = %s;' % (T, a, K, init))
            else:
                vals = [0] * K
            for _ in range(r.choice([0, 1])):
                s.append(r.choice(forms))
        else:
            inc = ['extern %s %s[];' % (T, a)]
            comp = ['extern %s %s[%d];' % (T, a, K), '%s %s[%d];' % (T, a, K)]
            # the boundary: declarations while the recorded type is still incomplete (one, two, three of them), the
            # completing one (by size or by initialiser, extern / tentative / definition), declarations after it
            for _ in range(r.choice([0, 1, 1, 2, 3])):
                s.append(r.choice(inc))
                if r.random() < 0.6:
                    s.append(self.accessor('%s[(unsigned long) k %% %d]' % (a, K)))
            how = r.random()
            defined = False
            for _ in range(r.choice([0, 1, 2])):
                s.append(r.choice(comp + inc))
            if how < 0.75:
                s.append(r.choice(['%s %s[%d] = %s;' % (T, a, K, init), '%s %s[] = %s;' % (T, a, init)]))
                defined = True
            else:
                s.append('%s %s[%d];' % (T, a, K))        # tentative definition only: zero-initialised
                vals = [0] * K
            s.append(self.accessor('%s[(unsigned long) k %% %d] + (long) (sizeof %s / sizeof %s[0])' % (a, K, a, a)))
            for _ in range(r.choice([0, 1, 2])):
                s.append(r.choice(comp + inc if defined else ['extern %s %s[%d];' % (T, a, K)] + inc))
            if r.random() < 0.4:
                self.block.append('extern %s %s[];' % (T, a))
        self.calls.append('%s[%d]' % (a, r.randrange(K)))
        self.seqs.append(s)

    # ---- scalars: extern / tentative (repeated) / definition / extern again; static
    def scalar(self):
        r = self.rng
        g, T = self.nm('gv'), r.choice(['int', 'long', 'unsigned char', 'double', 'const char *'])
        init = {'double': '2.5', 'const char *': '"redecl"'}.get(T, str(r.randrange(1, 100)))
        static = r.random() < 0.3
        if static:
            forms = ['static %s %s;' % (T, g), 'extern %s %s;' % (T, g)]
            s = [forms[0]] + [r.choice(forms) for _ in range(r.choice([0, 1, 2]))]
            if r.random() < 0.6:
                s.append('static %s %s = %s;' % (T, g, init))
            s += [r.choice(forms) for _ in range(r.choice([0, 1]))]
        else:
            forms = ['extern %s %s;' % (T, g), '%s %s;' % (T, g)]
            s = [r.choice(forms) for _ in range(r.choice([0, 1, 2, 3]))]
            s.append(r.choice(['%s %s = %s;' % (T, g, init), '%s %s;' % (T, g)]))
            s += [r.choice(forms) for _ in range(r.choice([0, 1, 2]))]
            if r.random() < 0.4:
                self.block.append('extern %s %s;' % (T, g))
        self.calls.append('(long) %s' % g if T != 'const char *' else '(%s != 0)' % g)
        self.seqs.append(s)

    # ---- functions: prototype / named prototype / old style / through a typedef, definition, again
    def function(self):
        r = self.rng
        h = self.nm('hf')
        static = r.random() < 0.3
        q = 'static ' if static else ''
        forms = [q + 'long %s (long);' % h, q + 'long %s (long x);' % h, q + 'long %s ();' % h]
        if not static:
            forms.append('extern long %s (long);' % h)
        else:
            forms.append(q + 'inline long %s (long);' % h)
        s = []
        if r.random() < 0.3:
            ft = self.nm('ft')
            s += ['typedef long %s (long);' % ft] * r.choice([1, 2])
            forms.append(q + '%s %s;' % (ft, h))
        if static:
            s.append(forms[0])
            later = forms + ['long %s (long);' % h, 'extern long %s (long);' % h]
        else:
            later = forms
        s += [r.choice(later) for _ in range(r.choice([0, 1, 2, 3]))]
        if s and r.random() < 0.5:
            s.append(self.accessor('%s (k & 15)' % h))
        s.append(q + 'long %s (long x) { return x * %d + %d; }' % (h, r.randrange(1, 9), r.randrange(50)))
        s += [r.choice(later) for _ in range(r.choice([0, 1, 2]))]
        if r.random() < 0.4:
            self.block.append('extern long %s (long);' % h if not static else 'long %s (long);' % h)
        self.calls.append('%s (n & 31)' % h)
        self.seqs.append(s)

    # ---- struct / union tags: declared, used while incomplete (objects, arrays, pointers, function results), completed
    def tagged(self):
        r = self.rng
        kw = r.choice(['struct', 'struct', 'union'])
        S, v, arr, p, mk = self.nm('tg'), self.nm('sv'), self.nm('sa'), self.nm('sp'), self.nm('mk')
        T = '%s %s' % (kw, S)
        # (an array of an incomplete element type is a constraint violation: the array comes after the completion)
        pre = ['%s;' % T, 'extern %s %s;' % (T, v), '%s *%s;' % (T, p), 'extern %s *%s;' % (T, p),
               '%s %s (long);' % (T, mk), 'typedef %s %s_t;' % (T, S)]
        s = [r.choice(pre) for _ in range(r.choice([1, 2, 3, 5]))]
        if r.random() < 0.5:
            s.append(self.accessor('(%s != 0) + k %% 3' % p))
            s.insert(0, '%s *%s;' % (T, p))
        s.append('%s { long a; int b; };' % T)
        one = '{%d}' % r.randrange(1, 50) if kw == 'union' else '{%d, %d}' % (r.randrange(1, 50), r.randrange(1, 50))
        post = ['%s;' % T, 'extern %s %s;' % (T, v), 'extern %s %s[];' % (T, arr), 'extern %s %s[2];' % (T, arr), '%s %s (long);' % (T, mk),
                'typedef %s %s_t;' % (T, S), '%s %s;' % (T, v)]
        s += [r.choice(post) for _ in range(r.choice([0, 1, 2]))]
        s.append(r.choice(['%s %s = %s;' % (T, v, one), '%s %s;' % (T, v)]))
        s.append(r.choice(['%s %s[2] = {%s, %s};' % (T, arr, one, one), '%s %s[] = {%s, %s};' % (T, arr, one, one), '%s %s[2];' % (T, arr)]))
        s.append('%s *%s;' % (T, p))
        s.append('%s %s (long x) { %s t; t.a = x + 1; return t; }' % (T, mk, T))
        s.append(self.accessor('%s.a + %s[k & 1].a + %s (k & 7).a + (long) sizeof (%s)' % (v, arr, mk, T)))
        s += [r.choice(post[:-1]) for _ in range(r.choice([0, 1, 2]))]
        self.seqs.append(s)

    # ---- typedef repeats (C11 6.7p3), also of incomplete array and incomplete struct types
    def typedefs(self):
        r = self.rng
        t = self.nm('td')
        k = r.random()
        if k < 0.35:
            T = r.choice(['long', 'unsigned char', 'const char *', 'long (*%s) (long)'])
            d = 'typedef %s;' % (T % t if '%s' in T else '%s %s' % (T, t))
            s = [d] * r.choice([2, 2, 3])
            x = self.nm('tv')
            s.append('static %s %s;' % (t, x))
            self.calls.append('(%s == 0)' % x)
            self.block.append(d)
        elif k < 0.7:
            # typedef of an array of unknown size: each object declared with it gets its own size, and an extern object
            # of that type is completed later  (the typedef itself is not repeated: c2mir diagnoses a repeated typedef
            # of an unsized array type as "repeated declaration", which C11 6.7p3 allows -- not C17's subject)
            d = 'typedef long %s[];' % t
            s = [d]
            x, y = self.nm('tv'), self.nm('tv')
            if r.random() < 0.6:
                s += ['extern %s %s;' % (t, x)] * r.choice([1, 2])
            s.append('%s %s = {1, 2, %d};' % (t, x, r.randrange(9)))
            if r.random() < 0.5:
                s.append('extern %s %s;' % (t, x))
            s.append('static %s %s = {4, %d};' % (t, y, r.randrange(9)))
            self.calls.append('%s[2] + %s[1] + (long) (sizeof %s + sizeof %s)' % (x, y, x, y))
        else:
            S = self.nm('ts')
            d = 'typedef struct %s %s;' % (S, t)
            s = [d] * r.choice([1, 2])
            s.append('static %s *%s;' % (t, self.nm('tp')))
            s.append('struct %s { %s *next; long v; };' % (S, t))
            s += [d] * r.choice([0, 1, 2])
            x = self.nm('tv')
            s.append('static %s %s = {0, %d};' % (t, x, r.randrange(1, 60)))
            self.calls.append('%s.v + (%s.next == 0)' % (x, x))
        self.seqs.append(s)


def c_redecl_unit(rng, size=None):
    """-> (tag, source with @N@ placeholders, needed options)"""
    u = _Unit(rng)
    kinds = [u.array, u.array, u.scalar, u.function, u.tagged, u.typedefs]
    u.array()                                   # every unit has at least one array history (the incomplete-type boundary)
    for _ in range(size or rng.choice([2, 4, 6, 9])):
        rng.choice(kinds)()
    decls = _merge(rng, u.seqs)
    rng.shuffle(u.calls)
    body = ['long r = n;']
    if u.block:
        body.append('{ ' + ' '.join(rng.sample(u.block, min(len(u.block), 4))) + ' r += 1; }')
    for c in u.calls:
        body.append('r += %s;' % c)
    src = '\n'.join(decls) + '\nlong f@N@ (long n) {\n  ' + '\n  '.join(body) + '\n  return r;\n}\n'
    return 'redecl', src, ''


# ------------------------------------------------------------------------------------------------ exhaustive small histories
def exhaustive_decl_modules(n):
    """EVERY history  <0..2 exports/forwards> definition <0..2 exports/forwards>  (49 per kind of definition: function,
    data, bss) -- the whole neighbourhood of add_item's case split, independent of any seed.
    -> list of (ops, main function name), one module per kind"""
    import itertools
    runs = [list(t) for k in range(3) for t in itertools.product('XW', repeat=k)]
    out = []
    for kind in 'FDB':
        x = '%s%s' % (n, kind.lower())
        p1, p2 = 'p1_' + x, 'p2_' + x
        ops = [('P', p1, 1), ('P', p2, 2), ('I', 'host_neg'), ('I', 'host_neg')]
        names = []
        for i, (pre, post) in enumerate(itertools.product(runs, runs)):
            nm = 'e%s_%d' % (x, i)
            names.append(nm)
            ops += [(k, nm) for k in pre]
            ops.append(('F', nm, p1, p2, []) if kind == 'F' else ('D', nm, [i, i + 1]) if kind == 'D' else ('B', nm, 8))
            ops += [(k, nm) for k in post]
        body = [('c' if kind == 'F' else 'd' if kind == 'D' else 'b', nm) for nm in names[::6]] + [('c', 'host_neg')]
        ops += [('X', 'f' + x), ('F', 'f' + x, p1, p2, body), ('X', 'f' + x)]
        out.append((ops, 'f' + x))
    return out


def exhaustive_c_redecl_unit():
    """EVERY sequence of 1..3 file-scope declarations of an array out of  extern T a[]; / extern T a[K]; / T a[K]; /
    T a[K] = {..}; / T a[] = {..};  that defines the object at most once and at least tentatively -- all orders of
    incomplete and complete declarations around the definition; likewise for a scalar and a function"""
    import itertools
    L, calls, k = [], [], 0
    forms = {'I': 'extern long %s[];', 'C': 'extern long %s[2];', 'T': 'long %s[2];', 'D': 'long %s[2] = {%d, 1};', 'E': 'long %s[] = {%d, 1};'}
    for ln in (1, 2, 3):
        for seq in itertools.product('ICTDE', repeat=ln):
            if sum(c in 'DE' for c in seq) > 1 or not any(c in 'TDE' for c in seq):
                continue
            k += 1
            a = 'xa@N@_%d' % k
            for c in seq:
                L.append(forms[c] % ((a, k % 50) if c in 'DE' else a))
            calls.append('%s[0]' % a)
    sforms = {'X': 'extern int %s;', 'T': 'int %s;', 'D': 'int %s = %d;'}
    for ln in (1, 2, 3):
        for seq in itertools.product('XTD', repeat=ln):
            if sum(c == 'D' for c in seq) > 1 or not any(c in 'TD' for c in seq):
                continue
            k += 1
            g = 'xg@N@_%d' % k
            for c in seq:
                L.append(sforms[c] % ((g, k % 50) if c == 'D' else g))
            calls.append(g)
    fforms = {'P': 'long %s (long);', 'O': 'long %s ();', 'X': 'extern long %s (long x);', 'D': 'long %s (long x) { return x + 1; }'}
    for ln in (1, 2, 3):
        for seq in itertools.product('POXD', repeat=ln):
            if sum(c == 'D' for c in seq) != 1:
                continue
            k += 1
            h = 'xh@N@_%d' % k
            for c in seq:
                L.append(fforms[c] % h)
            calls.append('%s (n & 3)' % h)
    body = ['long r = n;'] + ['r += %s;' % ' + '.join(calls[i:i + 8]) for i in range(0, len(calls), 8)]
    return 'redecl-all', '\n'.join(L) + '\nlong f@N@ (long n) {\n  ' + '\n  '.join(body) + '\n  return r;\n}\n', ''


if __name__ == '__main__':
    import random, sys
    rng = random.Random(int(sys.argv[2]) if len(sys.argv) > 2 else 1)
    if sys.argv[1] == 'c':
        print(c_redecl_unit(rng)[1].replace('@N@', '7'))
    else:
        ops, fs = decl_module(rng, 7, sys.argv[3] if len(sys.argv) > 3 else None)
        print(to_text(ops, '7', rng) if sys.argv[1] == 'mir' else to_api(ops))

# C12 case generators: inputs for the encoder, and streams (valid, mutated, crafted) for the decoder.
# Everything random comes from the rng passed in (derived from VERIF_SEED by the check).
# Contains a small independent Python implementation of the stream format (serialiser, parser,
# mir_hash_strict) that is used ONLY to build interesting decoder inputs (valid non-canonical streams,
# structure-aware mutants); verdicts always come from the Coq model and the C code, never from here.
import itertools

M64 = (1 << 64) - 1


def key_part(bs):
    t = 0
    for b in bs:
        t = (t >> 8) | (b << 56)
    return t


def mum(v, c):
    v1, v2, c1, c2 = v >> 32, v & 0xffffffff, c >> 32, c & 0xffffffff
    rm = (v2 * c1 + v1 * c2) & M64
    return (v1 * c1 + (rm >> 32) + v2 * c2 + ((rm << 32) & M64)) & M64


def hash_strict(data, seed, P):
    p1, p2 = P['HASH_P1'], P['HASH_P2']
    n = len(data)
    r = (seed + n) & M64
    i = 0
    while n - i >= 16:
        r ^= mum(key_part(data[i:i + 8]), p1)
        r ^= mum(key_part(data[i + 8:i + 16]), p2)
        r ^= mum(r, p1)
        i += 16
    if n - i >= 8:
        r ^= mum(key_part(data[i:i + 8]), p1)
        i += 8
    if n - i != 0:
        r ^= mum(key_part(data[i:]), p2)
    r ^= mum(r, p1)
    return r ^ mum(r, p2)


def chain_hash(data, P):
    h = P['CHECK_HASH_SEED']
    B = P['BUF_LEN']
    for i in range(0, len(data), B):
        h = hash_strict(data[i:i + B], h, P)
    return h


def uint_bytes(u, force_n=None):
    """_reduce_uint_write; force_n in 1..4 gives a non-canonical (longer) form, 5 the malformed one"""
    n = 1
    while n <= 4 and u >= (1 << 7 * n):
        n += 1
    if force_n is not None and force_n >= n:
        n = force_n
    if n == 5:
        return bytes([(u >> 32) & 7]) + (u & 0xffffffff).to_bytes(4, 'big')
    out = [(1 << (8 - n)) | ((u >> (n - 1) * 8) & 0xff)]
    for i in range(2, n + 1):
        out.append((u >> (n - i) * 8) & 0xff)
    return bytes(out)


def uint_parse(s, i):
    u = s[i]
    n = 1
    while n <= 4 and (u >> (8 - n)) != 1:
        n += 1
    v = u & (0xff >> n)
    for k in range(1, n):
        v = (v * 256 + s[i + k]) & 0xffffffff
    return v, i + n, n


# an element is a dict(sym=bytes, sym_long=bool/None, ref=None or (ref_len_field, ref_ind), ref_long=..., forms)
def ser_elem(e, P):
    SL, RL, RLEN = P['SYMB_TAG_LONG'], P['REF_TAG_LONG'], P['REF_TAG_LEN']
    sym = e.get('sym', b'')
    sym_len = e.get('sym_len', len(sym))           # the length *claimed* in the stream
    ref = e.get('ref')
    s_long = e.get('sym_long', sym_len >= SL)
    s_field = SL if s_long else sym_len
    out = bytearray()
    if ref is None:
        r_field, r_long = 0, False
    else:
        rl = ref[0]                                  # encoded value (ref_len - (START_LEN - 1))
        r_long = e.get('ref_long', rl >= RL or rl == 0)
        r_field = RL if r_long else rl
    out.append(((s_field << RLEN) | r_field) & 0xff)
    if s_long:
        out += uint_bytes(sym_len, e.get('sym_n'))
    out += sym
    if ref is not None:
        if r_long:
            out += uint_bytes(ref[0], e.get('len_n'))
        out += uint_bytes(ref[1], e.get('ind_n'))
    return bytes(out)


def ser_stream(elems, data_for_hash, P, prefix=None, hashval=None):
    out = bytearray(bytes(P['PREFIX']) if prefix is None else prefix)
    for e in elems:
        out += ser_elem(e, P)
    h = chain_hash(data_for_hash, P) if hashval is None else hashval
    out.append(0)
    out += h.to_bytes(8, 'little')
    return bytes(out)


def parse_stream(s, P):
    """parse an encoder output into elements (single-buffer streams only); returns (elems, data) or None"""
    SL, RL, RLEN, START = P['SYMB_TAG_LONG'], P['REF_TAG_LONG'], P['REF_TAG_LEN'], P['START_LEN']
    i = len(P['PREFIX'])
    elems = []
    data = bytearray()
    ind2pos = []
    try:
        while True:
            tag = s[i]; i += 1
            if tag == 0:
                break
            e = {}
            sl = tag >> RLEN
            if sl:
                if sl == SL:
                    sl, i, _ = uint_parse(s, i)
                e['sym'] = bytes(s[i:i + sl]); i += sl
                for k in range(sl):
                    ind2pos.append(len(data)); data.append(e['sym'][k])
            rl = tag & RL
            if rl:
                if rl == RL:
                    rl, i, _ = uint_parse(s, i)
                ri, i, _ = uint_parse(s, i)
                e['ref'] = (rl, ri)
                sp = ind2pos[len(ind2pos) - ri]
                ln = rl + START - 1
                ind2pos.append(len(data))
                data += data[sp:sp + ln]
            elems.append(e)
    except IndexError:
        return None
    return elems, bytes(data)


# ------------------------------------------------------------------ encoder inputs

def exhaustive(alphabet, maxlen):
    for n in range(0, maxlen + 1):
        for t in itertools.product(alphabet, repeat=n):
            yield bytes(t)


def lz_like(rng, n, alpha):
    """data built by copying earlier substrings: many matches of varied length and distance"""
    out = bytearray()
    while len(out) < n:
        if len(out) >= 4 and rng.random() < 0.6:
            ln = rng.choice([4, 4, 5, 6, 7, 8, 12, 30, 33, 34, 35, 36, 60, 200])
            st = rng.randrange(0, len(out))
            for k in range(ln):
                out.append(out[st + k] if st + k < len(out) else rng.choice(alpha))
        else:
            for k in range(rng.choice([1, 1, 2, 3, 6, 7, 8, 9])):
                out.append(rng.choice(alpha))
    return bytes(out[:n])


def periodic(rng, n, period, noise):
    base = bytes(rng.randrange(256) for _ in range(period))
    out = bytearray(base * (n // period + 1))[:n]
    for _ in range(noise):
        out[rng.randrange(n)] = rng.randrange(256)
    return bytes(out)


def rand_bytes(rng, n, alpha=None):
    if alpha is None:
        return bytes(rng.randrange(256) for _ in range(n))
    return bytes(rng.choice(alpha) for _ in range(n))


# ------------------------------------------------------------------ round 3: what lies behind buf_bound, pool exhaustion

def low_entropy(rng, n, k):
    """n bytes over k distinct values: very many short matches (about one dictionary entry per 3-4 bytes)"""
    alpha = rng.sample(range(256), k)
    return bytes(rng.choice(alpha) for _ in range(n))


def tail_fill(rng, fill, m, sep=None):
    """single-buffer input whose LAST match reaches the end of the data while its source is followed by m
    bytes equal to <fill>: an encoder that compares behind buf_bound (into the never written part of
    buf, = the allocator's fill) extends the match past the end of the input"""
    u = rand_bytes(rng, rng.choice([4, 4, 5, 8, 30, 34]), bytes(b for b in range(256) if b != fill))
    pre = rand_bytes(rng, rng.choice([0, 1, 7, 100]))
    mid = rand_bytes(rng, rng.choice([1, 2, len(u) + m, 60]), bytes(b for b in range(256) if b != fill))
    if sep is not None:
        mid = mid + sep
    return pre + u + bytes([fill]) * m + mid + u


def tail_lengths(rng, B, n):
    """lengths of a partial last buffer: tiny, around the first possible match, random, nearly full"""
    ks = [1, 3, 4, 5, 8, 9, 37, 900, B // 2, B - 5, B - 1]
    ks += [rng.randrange(10, 3000) for _ in range(n)] + [rng.randrange(3000, B) for _ in range(n)]
    return ks


def stale_tail_inputs(rng, B, n):
    """multi-buffer inputs whose last buffer is PARTIAL and ends inside data that goes on matching the
    stale bytes the previous (full) buffer left behind buf_bound.  (kind, bytes) pairs."""
    out = []
    # constant data and data whose period divides BUF_LEN: the stale bytes continue every match
    for k in tail_lengths(rng, B, n):
        c = rng.randrange(256)
        out.append(('const', bytes([c]) * (B * rng.choice([1, 1, 2]) + k)))
    for k in tail_lengths(rng, B, n):
        per = rng.choice([2, 4, 16, 64, 1024, 4096, 65536])
        blk = rand_bytes(rng, per)
        out.append(('period|B', (blk * ((3 * B) // per + 1))[:B * rng.choice([1, 1, 2]) + k]))
    # the last buffer repeats the head of the previous one: X ++ X[:k] (any compressible X)
    for k in tail_lengths(rng, B, n):
        style = rng.randrange(3)
        if style == 0:
            X = periodic(rng, B, rng.choice([97, 251, 997, 4099]), rng.choice([0, 50, 400]))
        elif style == 1:
            X = (lz_like(rng, 3000, b'abcdefgh') * (B // 3000 + 1))[:B]
        else:
            X = low_entropy(rng, B, rng.choice([2, 4, 24]))
        out.append(('X+X[:k]', (rand_bytes(rng, B, b'pq') if rng.random() < 0.3 else b'') + X + X[:k]))
    # spliced: the tail ends with a copy of an earlier piece of the tail whose continuation there equals
    # the stale bytes (no global periodicity)
    for k in tail_lengths(rng, B, n):
        if k < 40:
            continue
        X = periodic(rng, B, 4099, 3000)
        T = bytearray(rand_bytes(rng, k))
        ln = rng.choice([4, 5, 8, 33, 34, 35, 200])
        m = rng.choice([1, 2, 5, 40])
        ln = min(ln, (k - m) // 2 - 1)
        if ln < 4:
            continue
        q = rng.randrange(0, k - 2 * ln - m)
        T[k - ln:k] = X[k - ln:k]
        T[q:q + ln + m] = X[k - ln:k + m]
        out.append(('splice', X + bytes(T)))
    return out


def pool_dry_inputs(rng, P, n):
    """more than TABLE_SIZE dictionary entries in one buffer, THEN re-occurrences (twice and more, with
    equal and with different continuations) of sequences first seen before the pool ran dry: every
    back-reference found through a recycled element is exercised"""
    out = []
    T = P['TABLE_SIZE']
    for i in range(n):
        rnd = rand_bytes(rng, T + rng.choice([1, 7, 300, 1500]))
        out.append(('dry+lowtail', rnd + pieces_tail(rng, rnd, 12, 1500)))
    for k, ln in ((24, 150000), (3, 250000), (8, 2 * P['BUF_LEN'] + 777), (16, P['BUF_LEN'] - 1))[:max(1, n)]:
        out.append(('low%d' % k, low_entropy(rng, ln, k)))
    return out


def pieces_tail(rng, rnd, npieces, count):
    ps = [rnd[o:o + rng.choice([4, 5, 6, 9, 40])] for o in [rng.randrange(len(rnd) - 50) for _ in range(npieces)]]
    return b''.join(rng.choice(ps) for _ in range(count))


# ------------------------------------------------------------------ wave 5: the trailer (0 tag + 8 stored hash bytes)

TRAILER_PATTERNS = (
    # name, quota, predicate on the 64-bit check hash (stored little-endian: the LAST byte of the stream is h >> 56)
    ('lastFF', 4, lambda h: h >> 56 == 0xff),
    ('last00', 3, lambda h: h >> 56 == 0x00),
    ('last01', 1, lambda h: h >> 56 == 0x01),
    ('lastFE', 1, lambda h: h >> 56 == 0xfe),
    ('lastFFFF', 1, lambda h: h >> 48 == 0xffff),
    ('last0000', 1, lambda h: h >> 48 == 0x0000),
    ('first00', 2, lambda h: h & 0xff == 0x00),      # the byte after the 0 tag is a second 0: tag look-alike
    ('firstFF', 2, lambda h: h & 0xff == 0xff),
    ('midFF', 1, lambda h: any((h >> 8 * i) & 0xffff == 0xffff for i in range(1, 6))),
)


def special_trailer_inputs(rng, P, max_tries=260000):
    """encoder inputs (short; single buffer) whose stored check hash has special bytes at its ends: a decoder that
    mistakes a MISSING byte for 0xff / 0x00 (EOF read as a byte), or a present byte for the end, is wrong only on
    such streams (about 1 input in 256, 1 in 65536 for two bytes).  The search uses the Python copy of the hash and is
    derived from rng alone (it replays); what the stream really ends in is read off the encoder's output by the
    check.  -> list of (pattern name, bytes)"""
    need = {n: q for n, q, _ in TRAILER_PATTERNS}
    out = []
    seen = set()
    alphas = [None, b'ab', b'abc', bytes(range(97, 123)), b'\x00\xff']
    tries = 0
    while any(need.values()) and tries < max_tries:
        tries += 1
        # once only the two-byte patterns are missing, candidates are as short as possible (cheap hash)
        short = tries > 4000
        d = rand_bytes(rng, rng.randrange(1, 9) if short else rng.choice([0, 1, 2, 3, 5, 8, 9, 12, 17, 30, 66]),
                       None if short else rng.choice(alphas))
        if len(d) == 0 or d in seen:       # (the empty input, hash = the seed, is always swept by the check)
            continue
        seen.add(d)
        h = chain_hash(d, P)
        for n, _, pred in TRAILER_PATTERNS:
            if need[n] and pred(h):
                need[n] -= 1
                out.append((n, d))
                break
    return out


def trailer_mutants(s):
    """the whole trailer family of one encoder output: EVERY proper prefix, each of the 9 trailer bytes (0 tag, 8 hash
    bytes) replaced by 0x00 / 0xff / +1 / -1, one or two (adjacent) trailer bytes dropped from the middle, the last
    body byte dropped, extensions by 0xff / 0x00 / the last byte / a second trailer"""
    n = len(s)
    for k in range(n):
        yield ('trunc', s[:k])
    for i in range(max(0, n - 9), n):
        for v in sorted(set([0x00, 0xff, (s[i] + 1) & 255, (s[i] - 1) & 255])):
            if v != s[i]:
                yield ('sub', s[:i] + bytes([v]) + s[i + 1:])
        yield ('del', s[:i] + s[i + 1:])
        if i + 1 < n:
            yield ('del', s[:i] + s[i + 2:])
    if n > 10:
        yield ('del', s[:n - 10] + s[n - 9:])
    for t in (b'\xff', b'\x00', s[-1:], b'\xff\xff', b'\xff' * 8, s[-9:]):
        yield ('ext', s + t)


# ------------------------------------------------------------------ decoder streams

def byte_mutants(s, rng=None, max_sub_per_pos=None):
    """all single-byte substitutions, deletions, truncations and one-byte extensions of s"""
    n = len(s)
    for i in range(n):
        vals = range(256)
        if max_sub_per_pos is not None:
            vals = sorted(set([0, 1, 0x0f, 0x10, 0x1f, 0x20, 0x7f, 0x80, 0xff, s[i] ^ 1, s[i] ^ 0x80, (s[i] + 1) & 255,
                               (s[i] - 1) & 255] + [rng.randrange(256) for _ in range(max_sub_per_pos)]))
        for v in vals:
            if v != s[i]:
                yield ('sub', s[:i] + bytes([v]) + s[i + 1:])
    for i in range(n):
        yield ('del', s[:i] + s[i + 1:])
    for i in range(n):
        yield ('trunc', s[:i])
    for v in (0, 1, 0x80, 0xff, s[-1] if s else 0):
        yield ('ext', s + bytes([v]))


def struct_mutants(s, P, rng):
    """rewrites of one field of one element of a (single-buffer) encoder output, found by parsing it"""
    pr = parse_stream(s, P)
    if pr is None:
        return
    elems, data = pr
    B = P['BUF_LEN']
    START = P['START_LEN']
    lens = [1, 2, 5, 27, 28, 29, 30, 31, 32, 100, B - START, B - START + 1, B - 1, B, B + 1, (1 << 28) - 1]
    inds = [0, 1, 2, 3, 127, 128, 16383, 16384, B - 1, B, B + 1]
    syms = [0, 1, 6, 7, 8, 2046, 2047, 2048, B, B + 1]
    idxs = list(range(len(elems)))
    rng.shuffle(idxs)
    for k in idxs[:6]:
        e = elems[k]
        def variant(**kw):
            e2 = dict(e); e2.update(kw)
            return elems[:k] + [e2] + elems[k + 1:]
        if 'ref' in e:
            rl, ri = e['ref']
            for v in lens:
                yield ('ref_len', ser_stream(variant(ref=(v, ri)), data, P))
            for v in inds:
                yield ('ref_ind', ser_stream(variant(ref=(rl, v)), data, P))
            # same fields, the malformed 5-byte uint form (first byte < 16): values up to 2^32-1
            for v in (0, 1, rl, 0xffffffff, 0xfffffffd, 0xfffffffc, 0xfffffffe, B, 1 << 31):
                yield ('ref_len5', ser_stream(variant(ref=(v, ri), ref_long=True, len_n=5), data, P))
            for v in (0, 1, ri, 0xffffffff, 1 << 31):
                yield ('ref_ind5', ser_stream(variant(ind_n=5, ref=(rl, v)), data, P))
            # valid non-canonical forms: must be accepted with the same data
            yield ('noncanon', ser_stream(variant(ref_long=True, len_n=rng.choice([1, 2, 3, 4])), data, P))
            yield ('noncanon', ser_stream(variant(ind_n=rng.choice([2, 3, 4])), data, P))
        if e.get('sym'):
            for v in syms:
                yield ('sym_len', ser_stream(variant(sym_len=v, sym_long=(v >= P['SYMB_TAG_LONG']) or v == 0), data, P))
            yield ('noncanon', ser_stream(variant(sym_long=True, sym_n=rng.choice([1, 2, 3, 4])), data, P))
            yield ('sym_len5', ser_stream(variant(sym_long=True, sym_n=5), data, P))
            if len(e['sym']) >= 2:
                # split one symbol run in two elements (valid)
                a = dict(sym=e['sym'][:1]); b = dict(e); b['sym'] = e['sym'][1:]
                yield ('noncanon', ser_stream(elems[:k] + [a, b] + elems[k + 1:], data, P))
    # wrong prefix, wrong hash
    yield ('prefix', ser_stream(elems, data, P, prefix=b'MIS'))
    yield ('prefix', ser_stream(elems, data, P, prefix=b'MI'))
    yield ('hash', ser_stream(elems, data, P, hashval=(chain_hash(data, P) + 1) & M64))


def crafted(P):
    """streams aimed at the decoder's bounds checks (the defects of DESIGN section 6 #1 and relatives)"""
    B, START, MAXS = P['BUF_LEN'], P['START_LEN'], P['MAX_SYMB_LEN']
    pre = bytes(P['PREFIX'])
    out = []
    # (a) reference with ref_ind = 0: reads ind2pos[curr_ind], a slot never written
    out.append(('ref_ind0', pre + bytes([0x01, 0x80])))
    out.append(('ref_ind0', ser_stream([dict(sym=b'abcd', ref=(1, 0))], b'abcd', P)))
    # (b) doubling: 2047 symbols then references of growing length until pos + ref_len > BUF_LEN
    elems = [dict(sym=bytes([65 + i % 7 for i in range(MAXS)]))]
    data = bytearray(elems[0]['sym'])
    pos = MAXS
    while pos * 2 <= B:
        elems.append(dict(ref=(pos - (START - 1), len(elems) - 1 + MAXS)))   # copy [0,pos) to pos
        data += data[:pos]
        pos *= 2
    good = ser_stream(elems, bytes(data), P)
    out.append(('doubling_ok', good))
    # one more reference from position 0 whose copy ends exactly at / one past the end of buf
    for extra in (B - pos, B - pos + 1, B - pos + 7, B):
        e2 = elems + [dict(ref=(extra - (START - 1), len(elems) - 1 + MAXS))]
        d2 = bytes(data) + bytes(data[:extra])
        out.append(('past_end' if pos + extra > B else 'to_end', ser_stream(e2, d2[:B], P)))
    # (c) overlapping copy (source runs into the destination)
    out.append(('overlap', ser_stream([dict(sym=b'abcdefgh', ref=(5, 4))], b'abcdefgh' + b'efghefgh', P)))
    out.append(('overlap', ser_stream([dict(sym=b'abcd', ref=(1, 1))], b'abcd' + b'dddd', P)))
    # (d) uint with no length marker: ref_len = 0xfffffffd + 3 wraps to 0; curr_ind runs away from pos
    e = dict(sym=b'abcd', ref=(0xfffffffd, 1), ref_long=True, len_n=5)
    out.append(('len_wrap', ser_stream([e], b'abcd', P)))
    n = B + 8
    body = ser_elem(dict(sym=b'abcd', ref=(0xfffffffd, 1), ref_long=True, len_n=5), P) \
        + ser_elem(dict(ref=(0xfffffffd, 1), ref_long=True, len_n=5), P) * n
    out.append(('ind_runaway', pre + body + b'\0' + bytes(8)))
    # (e) symbols up to the end of the buffer and beyond
    full = [dict(sym=bytes([i % 251 for i in range(MAXS)])) for _ in range(B // MAXS)]
    rest = B - MAXS * (B // MAXS)
    d = b''.join(x['sym'] for x in full)
    out.append(('sym_fill', ser_stream(full + [dict(sym=bytes(rest))], d + bytes(rest), P)))
    out.append(('sym_past', ser_stream(full + [dict(sym=bytes(rest + 1))], d + bytes(rest + 1), P)))
    return out

# C07 part B: seeded generator of UB-free, deterministic, strict-aliasing-clean C11 programs.
# Every arithmetic node is written in a form that cannot overflow or trap whatever the operand values are:
#   * + - * on operands cast to an unsigned type of rank >= int (the other operand may have any type of
#     rank <= that type, so the usual arithmetic conversions are exercised),
#   * signed + - * only on operands narrowed first ((int)(short)x * (int)(short)y ...),
#   * / % through guarded helper functions, shift counts reduced modulo the width, << only on unsigned or
#     on small non-negative values, >> on anything (arithmetic for negatives on both compilers),
#   * comparisons, logical and bitwise operators, ?:, casts (incl. to _Bool) and assignments on any types.
# Expressions have no side effects (only calls of pure leaf functions); all objects are initialised; loops
# have constant trip counts; pointers are only taken to objects of their own type.  The program prints a
# running checksum and a few values via printf and exits with a status derived from the checksum.
# Functions named ext_* live in harness/c07_ext.c: gcc builds them into a shared library that the c2m run
# loads (-L/-l), so calls and callbacks cross the compiler boundary in both directions.

T = {  # name: (C spelling, width, signed)
    'bool': ('_Bool', 1, False), 'char': ('char', 8, True), 'schar': ('signed char', 8, True),
    'uchar': ('unsigned char', 8, False), 'short': ('short', 16, True), 'ushort': ('unsigned short', 16, False),
    'int': ('int', 32, True), 'uint': ('unsigned int', 32, False), 'long': ('long', 64, True),
    'ulong': ('unsigned long', 64, False), 'llong': ('long long', 64, True), 'ullong': ('unsigned long long', 64, False)}
NAMES = list(T)
RANK = {'bool': 0, 'char': 1, 'schar': 1, 'uchar': 1, 'short': 2, 'ushort': 2, 'int': 3, 'uint': 3, 'long': 4, 'ulong': 4,
        'llong': 5, 'ullong': 5}
UNS3 = ['uint', 'ulong', 'ullong']

PRELUDE = r'''#include <stdio.h>
typedef unsigned long long u64;
static u64 chk = 14695981039346656037ULL;
static void mix (u64 v) { chk = (chk ^ v) * 1099511628211ULL; }
static int sdiv32 (int a, int b) { return b == 0 || (a == (-2147483647 - 1) && b == -1) ? a : a / b; }
static int smod32 (int a, int b) { return b == 0 || (a == (-2147483647 - 1) && b == -1) ? b : a % b; }
static long long sdiv64 (long long a, long long b) { return b == 0 || (a == (-9223372036854775807LL - 1) && b == -1) ? a : a / b; }
static long long smod64 (long long a, long long b) { return b == 0 || (a == (-9223372036854775807LL - 1) && b == -1) ? b : a % b; }
static unsigned udiv32 (unsigned a, unsigned b) { return b == 0 ? a : a / b; }
static unsigned umod32 (unsigned a, unsigned b) { return b == 0 ? a : a % b; }
static u64 udiv64 (u64 a, u64 b) { return b == 0 ? a : a / b; }
static u64 umod64 (u64 a, u64 b) { return b == 0 ? a : a % b; }
'''

EXT_DECLS = r'''struct ext_p { int a; long b; };
struct ext_q { short s; unsigned char c; long long l; double d; };
struct ext_big { long v[5]; };
extern int ext_add3 (int a, long b, short c);
extern unsigned long long ext_mix8 (signed char a, unsigned short b, int c, unsigned d, long e, unsigned long f, long long g, unsigned char h);
extern struct ext_p ext_mkp (int a, long b);
extern long ext_sum_p (struct ext_p p);
extern struct ext_q ext_mkq (short s, unsigned char c, long long l);
extern long long ext_sum_q (struct ext_q q);
extern struct ext_big ext_mkbig (long a);
extern long ext_sum_big (struct ext_big b);
extern long ext_apply (long (*cb) (long, int), long x, int y);
extern long ext_apply_p (long (*cb) (struct ext_p), int a, long b);
extern _Bool ext_isodd (unsigned x);
extern unsigned char ext_lowbyte (long x);
struct ext_d2 { double d[2]; };
struct ext_f3 { float f[3]; };
struct ext_tf { int tag; float f[3]; };
struct ext_nf { struct { float x, y; } p; float z; char c; };
union ext_uf { float f[4]; int i; };
extern struct ext_d2 ext_mkd2 (int a, int b);
extern long ext_sum_d2 (struct ext_d2 v);
extern struct ext_f3 ext_mkf3 (short a, short b, short c);
extern long ext_sum_f3 (struct ext_f3 v, int k);
extern struct ext_tf ext_mktf (int tag, short a);
extern long ext_sum_tf (long pre, struct ext_tf v);
extern struct ext_nf ext_mknf (short a, signed char c);
extern long ext_sum_nf (struct ext_nf v);
extern union ext_uf ext_mkuf (short a);
extern long ext_sum_uf (union ext_uf v);
extern long ext_apply_f3 (struct ext_f3 (*cb) (struct ext_f3, int), short a);
'''


class Gen:
    def __init__(self, rng, use_ext=True, size=1.0, avoid=()):
        self.r = rng
        self.avoid = set(avoid)     # shapes not to generate (known findings of other components)
        self.use_ext = use_ext
        self.size = size
        self.structs = []      # list of (name, fields)
        self.globals = []      # (name, kind, type/struct idx, ...)
        self.pure = []         # (name, ret type, [param types])
        self.lines = []
        self.uid = 0
        self.features = set()

    def fresh(self, p):
        self.uid += 1
        return '%s%d' % (p, self.uid)

    # ------------------------------------------------------------ literals and atoms
    def literal(self):
        r = self.r
        v = r.choice([0, 1, 2, 3, 5, 7, 8, 15, 16, 31, 32, 63, 64, 100, 127, 128, 255, 256, 1000, 32767, 32768, 65535,
                      65536, 2147483647, 2147483648, 4294967295, 4294967296, 9223372036854775807, r.randint(0, 99),
                      r.randint(0, 2 ** 32), r.randint(0, 2 ** 63 - 1)])
        form = r.random()
        if form < 0.15 and v <= 255:
            return ("'\\x%x'" % v if v >= 128 or v < 32 else "'%s'" % chr(v) if chr(v) not in "'\\" else "'\\%s'" % chr(v)), 'int'
        sfx = r.choice(['', '', 'u', 'U', 'l', 'L', 'ul', 'LL', 'ull', 'ULL'])
        if 'u' not in sfx.lower() and v > 2 ** 63 - 1:
            sfx = 'u' + sfx
        body = ('0x%x' % v) if form < 0.45 else ('0%o' % v if form < 0.55 else '%d' % v)
        if form >= 0.55 and 'u' not in sfx.lower() and v > 2 ** 63 - 1:
            body = '0x%x' % v
        s = body + sfx
        if r.random() < 0.2:
            s = '(-%s)' % s if ('u' in sfx.lower() or v < 2 ** 31) else s   # negation of small or unsigned values
        return s, 'int'

    def atom(self, ctx):
        r = self.r
        if ctx['atoms'] and r.random() < 0.75:
            a, t = r.choice(ctx['atoms'])
            if T[t][1] == 64:
                # a bit-field wider than int is read through a cast to its declared type: gcc gives `unsigned long long f:40`
                # a 40-bit type of its own in ?: arms, unary ~ + and comparisons (`c ? -7 : p->f` is 2^40-7), clang and c2m the
                # declared type (DR 315: implementation-defined); the cast is the identity under either reading
                return self.cast(t, a), t
            return a, t
        return self.literal()

    def c(self, t):
        return T[t][0]

    def cast(self, t, e):
        return '((%s)%s)' % (self.c(t), e)

    # ------------------------------------------------------------ expressions (pure, UB-free)
    def expr(self, ctx, depth):
        r = self.r
        if depth <= 0 or r.random() < 0.12:
            return self.atom(ctx)
        k = r.random()
        a, ta = self.expr(ctx, depth - 1)
        if k < 0.10:
            t = r.choice(NAMES)
            self.features.add('cast:' + t)
            return self.cast(t, a), t
        if k < 0.30:
            u = r.choice(UNS3)
            b, tb = self.expr(ctx, depth - 1)
            op = r.choice(['+', '-', '*', '&', '|', '^'])
            t2 = r.choice([t for t in NAMES if RANK[t] <= RANK[u]] + (['llong'] if u == 'ulong' else []))
            x, y = self.cast(u, a), (self.cast(t2, b) if r.random() < 0.6 else self.cast(u, b))
            if r.random() < 0.5:
                x, y = y, x
            self.features.add('uarith')
            return '(%s %s %s)' % (x, op, y), u
        if k < 0.40:
            b, tb = self.expr(ctx, depth - 1)
            op = r.choice(['+', '-', '*'])
            lvl = r.random()
            self.features.add('narrow-signed')
            if lvl < 0.45:
                return '(%s %s %s)' % (self.cast('int', self.cast('short', a)), op, self.cast('int', self.cast('short', b))), 'int'
            if lvl < 0.75:
                return '(%s %s %s)' % (self.cast('long', self.cast('int', a)), op, self.cast('llong', self.cast('int', b))), 'llong'
            n1, n2 = r.choice(['schar', 'uchar', 'char', 'bool']), r.choice(['schar', 'uchar', 'short', 'char'])
            return '(%s %s %s)' % (self.cast(n1, a), op, self.cast(n2, b)), 'int'
        if k < 0.47:
            b, tb = self.expr(ctx, depth - 1)
            f = r.choice(['sdiv32', 'smod32', 'sdiv64', 'smod64', 'udiv32', 'umod32', 'udiv64', 'umod64'])
            rt = {'sdiv32': 'int', 'smod32': 'int', 'sdiv64': 'llong', 'smod64': 'llong', 'udiv32': 'uint', 'umod32': 'uint',
                  'udiv64': 'ullong', 'umod64': 'ullong'}[f]
            self.features.add('div')
            return '%s (%s, %s)' % (f, a, b), rt
        if k < 0.57:
            b, tb = self.expr(ctx, depth - 1)
            form = r.random()
            self.features.add('shift')
            if form < 0.35:
                u = r.choice(UNS3)
                return '(%s << (%s %% %d))' % (self.cast(u, a), self.cast('uint', b), T[u][1]), u
            if form < 0.5:
                return '(%s << (%s %% 16))' % (self.cast('int', self.cast('uchar', a)), self.cast('uint', b)), 'int'
            s = r.choice(['int', 'uint', 'long', 'ulong', 'llong', 'ullong', 'short', 'schar', 'ushort', 'char'])
            w = max(T[s][1], 32)
            res = s if RANK[s] >= 3 else 'int'
            cnt = r.choice([self.cast('uint', b), self.cast('ulong', b), self.cast('uchar', b)])
            return '(%s >> (%s %% %d))' % (self.cast(s, a), cnt, w), res
        if k < 0.69:
            b, tb = self.expr(ctx, depth - 1)
            op = r.choice(['<', '<=', '>', '>=', '==', '!='])
            self.features.add('cmp')
            if r.random() < 0.6:
                t1, t2 = r.choice(NAMES), r.choice(NAMES)
                return '(%s %s %s)' % (self.cast(t1, a), op, self.cast(t2, b)), 'int'
            return '(%s %s %s)' % (a, op, b), 'int'
        if k < 0.76:
            b, tb = self.expr(ctx, depth - 1)
            op = r.choice(['&&', '||'])
            self.features.add('logic')
            return '(%s %s %s)' % (a, op, b), 'int'
        if k < 0.80:
            self.features.add('unary')
            op = r.choice(['!', '~', '-', '+'])
            if op == '-':
                if r.random() < 0.5:
                    u = r.choice(UNS3)
                    return '(- %s)' % self.cast(u, a), u
                return '(- %s)' % self.cast('int', self.cast(r.choice(['short', 'schar', 'uchar', 'ushort', 'bool']), a)), 'int'
            return '(%s %s)' % (op, a), ('int' if op == '!' else ta)
        if k < 0.88:
            b, tb = self.expr(ctx, depth - 1)
            c, tc = self.expr(ctx, depth - 1)
            self.features.add('cond')
            return '(%s ? %s : %s)' % (c, a, b), ta
        if k < 0.905:
            # floating point in shapes whose results are exact or at least deterministic IEEE operations and
            # whose conversions back to integers are in range
            b, tb = self.expr(ctx, depth - 1)
            self.features.add('floating')
            f = r.randrange(7)
            c = self.cast
            if f == 0:
                return '((long)(((double)%s) %s ((double)%s)))' % (c('int', a), r.choice('+-*'), c('short', b)), 'long'
            if f == 1:
                return '((long)(((float)%s) * ((float)%s)))' % (c('short', a), c('schar', b)), 'long'
            if f == 2:
                return '((int)(((double)%s) / ((double)(%s | 1))))' % (c('short', a), c('short', b)), 'int'
            if f == 3:
                return '(((double)%s) %s ((float)%s))' % (c('long', a), r.choice(['<', '<=', '==', '>']), c('short', b)), 'int'
            if f == 4:
                return '((long)(((long double)%s) * ((long double)%s)))' % (c('int', a), c('int', b)), 'long'
            if f == 5:
                return '((unsigned int)(((double)%s) * 0.5))' % c('uint', a), 'uint'
            return '((unsigned long)((double)(%s >> 1)))' % c('ulong', a), 'ulong'
        if k < 0.93:
            b, tb = self.expr(ctx, depth - 1)
            self.features.add('bitop-any')
            return '(%s %s %s)' % (a, r.choice(['&', '|', '^']), b), ta
        if self.pure and ctx.get('calls', True):
            name, rt, pts = r.choice(self.pure)
            args = [a] + [self.expr(ctx, depth - 1)[0] for _ in pts[1:]]
            self.features.add('call')
            return '%s (%s)' % (name, ', '.join(args[:len(pts)])), rt
        return self.cast(r.choice(NAMES), a), 'int'

    # ------------------------------------------------------------ types and objects
    def make_struct(self):
        r = self.r
        name = 'S%d' % len(self.structs)
        fields = []
        n = r.randint(2, 6)
        for i in range(n):
            k = r.random()
            fn = 'f%d' % i
            if k < 0.40:
                fields.append(('scalar', fn, r.choice(NAMES)))
            elif k < 0.68:
                base = r.choice(['int', 'uint', 'uint', 'bool', 'long', 'ulong', 'ullong'])
                prev = [f for f in fields if f[0] in ('bf', 'bf0')]
                if 'mixed-unit-bitfields' in self.avoid and prev and T[prev[0][2]][1] != T[base][1]:
                    base = prev[0][2]     # all bit-fields of one struct in storage units of one size
                w = 1 if base == 'bool' else r.choice([1, 2, 3, 5, 7, 8, 9, 13, 16, 17, 24, 31, 32]
                                                      + ([33, 40, 48, 63, 64] if T[base][1] == 64 else []))
                fields.append(('bf', fn, base, w))
                if r.random() < 0.12:
                    fields.append(('bf0', '', base, 0))
            elif k < 0.76:
                fields.append(('arr', fn, 'char', r.randint(2, 7), 'str'))     # char array: string-literal initialisers
            elif k < 0.84:
                fields.append(('arr', fn, r.choice(NAMES), r.randint(2, 5)))
            elif self.structs and k < 0.95:
                fields.append(('struct', fn, r.randrange(len(self.structs))))
            else:
                fields.append(('scalar', fn, r.choice(NAMES)))
        self.structs.append((name, fields))
        s = ['struct %s {' % name]
        for f in fields:
            if f[0] == 'scalar':
                s.append('  %s %s;' % (self.c(f[2]), f[1]))
            elif f[0] == 'bf':
                s.append('  %s %s : %d;' % (self.c(f[2]), f[1], f[3]))
            elif f[0] == 'bf0':
                s.append('  %s : 0;' % self.c(f[2]))
            elif f[0] == 'arr':
                s.append('  %s %s[%d];' % (self.c(f[2]), f[1], f[3]))
            else:
                s.append('  struct %s %s;' % (self.structs[f[2]][0], f[1]))
        s.append('};')
        self.features.add('struct')
        return s

    def leaves(self, si, prefix):
        """scalar leaves of a struct object: (lvalue text, type, bit-field width or 0)"""
        out = []
        for f in self.structs[si][1]:
            if f[0] == 'scalar':
                out.append((prefix + f[1], f[2], 0))
            elif f[0] == 'bf':
                out.append((prefix + f[1], f[2], f[3]))
            elif f[0] == 'arr':
                for i in range(f[3]):
                    out.append(('%s%s[%d]' % (prefix, f[1], i), f[2], 0))
            elif f[0] == 'struct':
                out += self.leaves(f[2], prefix + f[1] + '.')
        return out

    def const_val(self, t):
        """a constant initialiser expression converted implicitly to t"""
        r = self.r
        k = r.random()
        if k < 0.5:
            return self.literal()[0]
        if k < 0.7:
            return '%s' % self.cast(r.choice(NAMES), self.literal()[0])
        u = r.choice(UNS3)
        return '(%s %s %s)' % (self.cast(u, self.literal()[0]), r.choice(['+', '-', '*', '^']), self.cast(u, self.literal()[0]))

    STRINGS = ['', 'a', 'xy', 'abc', 'Hel', 'q\\tz', 'w\\x41', 'hello', 'seven77']

    def string_for(self, n):
        """a string literal that fits char[n] (possibly without room for the terminating NUL, 6.7.9p14)"""
        def clen(t):
            return len(t.replace('\\t', 't').replace('\\x41', 'A'))
        fit = [t for t in self.STRINGS if clen(t) <= n]
        self.features.add('init-string-member')
        return '"%s"' % self.r.choice(fit)

    def elided_items(self, si, budget):
        """initialisers for the leaves of struct si in declaration order WITHOUT inner braces (brace elision,
        6.7.9p20); a char array may be given by one string literal.  Stops after [budget] items."""
        r = self.r
        items = []
        for f in self.structs[si][1]:
            if len(items) >= budget[0]:
                break
            if f[0] in ('scalar', 'bf'):
                items.append(self.const_val(f[2]))
            elif f[0] == 'arr':
                if len(f) > 4 and r.random() < 0.6:
                    items.append(self.string_for(f[3]))
                else:
                    for _ in range(f[3]):
                        if len(items) < budget[0]:
                            items.append(self.const_val(f[2]))
            elif f[0] == 'struct':
                sub = [budget[0] - len(items)]
                items += self.elided_items(f[2], sub)
        return items

    def struct_init(self, si, depth=0):
        """brace initialiser for struct si: positional, designated, partial, nested, brace-elided"""
        r = self.r
        fields = [f for f in self.structs[si][1] if f[0] != 'bf0']
        style = r.random()
        if style < 0.15:
            self.features.add('init-brace-elision')
            items = self.elided_items(si, [r.randint(1, 12)])
            return '{ %s }' % ', '.join(items) if items else '{ 0 }'
        style = r.random()
        items = []
        chosen = fields if style < 0.4 else [f for f in fields if r.random() < 0.7]
        designated = style >= 0.4
        if designated and r.random() < 0.3:
            r.shuffle(chosen)
        if not designated:
            chosen = fields[:r.randint(1, len(fields))]
        for f in chosen:
            if f[0] in ('scalar', 'bf'):
                v = self.const_val(f[2])
            elif f[0] == 'arr':
                if len(f) > 4 and r.random() < 0.6:
                    v = self.string_for(f[3]) if r.random() < 0.8 else '{ %s }' % self.string_for(f[3])
                elif designated and r.random() < 0.4:
                    idx = r.randrange(f[3])
                    v = '{ [%d] = %s }' % (idx, self.const_val(f[2]))
                    self.features.add('init-array-designator')
                    if r.random() < 0.35:
                        # C11 6.7.9p19: a later initialiser for the same element overrides the earlier one
                        idx2 = r.randrange(f[3])
                        v = '{ [%d] = %s, [%d] = %s, [%d] = %s }' % (idx, self.const_val(f[2]), idx2, self.const_val(f[2]),
                                                                   r.choice([idx, idx, idx2]), self.const_val(f[2]))
                        self.features.add('init-repeated-designator')
                else:
                    v = '{ %s }' % ', '.join(self.const_val(f[2]) for _ in range(r.randint(1, f[3])))
            else:
                v = self.struct_init(f[2], depth + 1)
            items.append(('.%s = %s' % (f[1], v)) if designated else v)
        if designated:
            self.features.add('init-designated')
            again = [f for f in chosen if f[0] == 'scalar']
            if again and r.random() < 0.3:
                # a member named twice: the last initialiser wins (static and automatic objects alike)
                for f in r.sample(again, min(len(again), r.choice([1, 1, 2]))):
                    items.insert(r.randint(0, len(items)) if r.random() < 0.3 else len(items), '.%s = %s' % (f[1], self.const_val(f[2])))
                self.features.add('init-repeated-designator')
        if not items:
            return '{ 0 }'
        return '{ %s }' % ', '.join(items)

    # ------------------------------------------------------------ statements
    def writable(self, ctx):
        return [w for w in ctx['writable']]

    def assign_stmt(self, ctx, depth):
        r = self.r
        lv, t, w = r.choice(ctx['writable'])
        e, te = self.expr(ctx, depth)
        k = r.random()
        if w:
            self.features.add('bitfield-write')
        if k < (0.45 if w else 0.10):
            # the VALUE of an assignment expression (6.5.16p3: the value of the left operand after the
            # assignment, i.e. converted / truncated to a bit-field's width)
            self.features.add('assignment-value')
            form = r.random()
            if form < 0.4:
                lv2, t2, w2 = r.choice(ctx['writable'])
                if lv2 != lv:
                    return ['%s = (%s = %s);' % (lv2, lv, e)]
            if form < 0.7:
                return ['mix ((u64)(%s = %s));' % (lv, e)]
            if form < 0.85:
                return ['if ((%s = %s)) mix (1); else mix (2);' % (lv, e)]
            return ['mix ((u64)(%s %s %s));' % (lv, r.choice(['^=', '|=', '&=']), e)]
        if k < 0.55:
            return ['%s = %s;' % (lv, e)]
        if k < 0.70:
            op = r.choice(['^=', '&=', '|='])
            self.features.add('compound')
            return ['%s %s %s;' % (lv, op, e)]
        if k < 0.80 and t in UNS3 and not w:
            op = r.choice(['+=', '-=', '*='])
            t2 = r.choice([x for x in NAMES if RANK[x] <= RANK[t]])
            self.features.add('compound')
            return ['%s %s %s;' % (lv, op, self.cast(t2, e))]
        if k < 0.86 and RANK[t] <= 2:
            self.features.add('compound')
            return ['%s %s %s;' % (lv, r.choice(['+=', '-=']), self.cast(r.choice(['schar', 'uchar', 'bool']), e))]
        if k < 0.93 and (t in UNS3 or RANK[t] <= 2) and not (w and (t == 'int' or 30 < w < 32)):
            self.features.add('incdec')
            form = r.choice(['%s++;', '++%s;', '%s--;', '--%s;', 'mix ((u64)(++%s));', 'mix ((u64)(%s--));', 'mix ((u64)(--%s));'])
            if t == 'bool' or (w and w < 2):
                form = r.choice(['%s++;', '++%s;', 'mix ((u64)(++%s));'])   # keep to ++ for _Bool
            return [form % lv]
        if not w and t in UNS3 + ['ushort', 'uchar']:
            self.features.add('compound')
            return ['%s %s (%s %% %d);' % (lv, r.choice(['<<=', '>>=']), self.cast('uint', e), 8 if RANK[t] < 3 else T[t][1])]
        return ['%s = %s;' % (lv, e)]

    def stmts(self, ctx, depth, n):
        out = []
        for _ in range(n):
            out += self.stmt(ctx, depth)
        return out

    def stmt(self, ctx, depth):
        r = self.r
        k = r.random()
        ed = r.choice([1, 2, 2, 3])
        if depth <= 0 or k < 0.42:
            if r.random() < 0.25:
                return ['mix ((u64)%s);' % self.expr(ctx, ed)[0]]
            return self.assign_stmt(ctx, ed)
        if k < 0.54:
            c = self.expr(ctx, ed)[0]
            self.features.add('if')
            body = ['if (%s) {' % c] + ind(self.stmts(ctx, depth - 1, r.randint(1, 3))) + ['}']
            if r.random() < 0.5:
                body += ['else {'] + ind(self.stmts(ctx, depth - 1, r.randint(1, 2))) + ['}']
            return body
        if k < 0.66 and ctx['loops'] < 2:
            v = self.fresh('i')
            n = r.randint(1, 5)
            self.features.add('for')
            sub = dict(ctx, loops=ctx['loops'] + 1, atoms=ctx['atoms'] + [(v, 'int')], in_loop=True)
            body = self.stmts(sub, depth - 1, r.randint(1, 3))
            if r.random() < 0.3:
                body.append('if (%s) %s;' % (self.expr(sub, 1)[0], r.choice(['break', 'continue'])))
                self.features.add('break/continue')
            return ['for (int %s = 0; %s < %d; %s++) {' % (v, v, n, v)] + ind(body) + ['}']
        if k < 0.73 and ctx['loops'] < 2:
            v = self.fresh('w')
            n = r.randint(1, 4)
            sub = dict(ctx, loops=ctx['loops'] + 1, atoms=ctx['atoms'] + [(v, 'uint')], in_loop=True)
            body = self.stmts(sub, depth - 1, r.randint(1, 2))
            if r.random() < 0.5:
                self.features.add('while')
                if 'nested-postdec-while' in self.avoid:
                    # no `while (w-- > 0)` at all: after inlining it could end up inside a caller's loop
                    return ['{ unsigned %s = %d;' % (v, n), '  while (%s > 0) {' % v] + ind(ind(body)) + ['    %s--;' % v, '  }', '}']
                return ['{ unsigned %s = %d;' % (v, n), '  while (%s-- > 0) {' % v] + ind(ind(body)) + ['  }', '}']
            self.features.add('do-while')
            return ['{ unsigned %s = 0;' % v, '  do {'] + ind(ind(body)) + ['  } while (++%s < %d);' % (v, n), '}']
        if k < 0.83:
            e = self.expr(ctx, ed)[0]
            m = r.randint(2, 5)
            self.features.add('switch')
            body = ['switch (%s %% %d) {' % (self.cast('uint', e), m + 1)]
            for cval in r.sample(range(m + 1), r.randint(1, m)):
                body.append('case %d:' % cval if r.random() < 0.8 else 'case %d + 0u:' % cval)
                body += ind(self.stmts(dict(ctx, in_loop=ctx.get('in_loop', False)), depth - 1, r.randint(1, 2)))
                if r.random() < 0.75:
                    body.append('  break;')
                else:
                    self.features.add('switch-fallthrough')
            if r.random() < 0.7:
                body.append('default:')
                body += ind(self.stmts(ctx, depth - 1, 1))
            body.append('}')
            return body
        if k < 0.89:
            lab = self.fresh('L')
            self.features.add('goto')
            return (['if (%s) goto %s;' % (self.expr(ctx, ed)[0], lab)] + self.stmts(ctx, depth - 1, r.randint(1, 2))
                    + ['%s: ;' % lab])
        if k < 0.90 and ctx.get('unions') and r.random() < 0.7:
            # straight-line type punning through union members (incl. members of nested structs):
            # a store through one member must be seen by the loads through the others
            u = r.choice(ctx['unions'])
            whole = [m for m in self.UL if '.' not in m[0] and '[' not in m[0]]
            nested = [m for m in self.UL if '.' in m[0]]
            (ma, ta_) = r.choice(whole) if r.random() < 0.5 else r.choice(self.UL)
            (mb, tb_) = r.choice(nested) if r.random() < 0.7 else r.choice(self.UL)
            (mc, tc_) = r.choice(self.UL)
            self.features.add('union-pun-sequence')
            return ['%s.%s = %s;' % (u, ma, self.expr(ctx, ed)[0]), '%s.%s = %s;' % (u, mb, self.expr(ctx, ed)[0]),
                    'mix ((u64)%s.%s);' % (u, ma), 'mix ((u64)%s.%s);' % (u, mc), 'mix ((u64)%s.%s);' % (u, mb)]
        if k < 0.93 and ctx['structvars']:
            return self.struct_stmt(ctx)
        if k < 0.96:
            # overflow-checking builtins (gcc and c2m): operands and result of one and the same type
            t = r.choice(['int', 'uint', 'long', 'ulong'])
            v = self.fresh('ov')
            f = r.choice(['add', 'sub', 'mul'])
            self.features.add('builtin-overflow')
            return ['{ %s %s = 0; mix ((u64)(__builtin_%s_overflow (%s, %s, &%s) + 1)); mix ((u64)%s); }'
                    % (self.c(t), v, f, self.cast(t, self.expr(ctx, ed)[0]), self.cast(t, self.expr(ctx, ed)[0]), v, v)]
        # block with a local
        t = r.choice(NAMES)
        v = self.fresh('t')
        self.features.add('block-local')
        sub = dict(ctx, atoms=ctx['atoms'] + [(v, t)], writable=ctx['writable'] + [(v, t, 0)])
        return ['{ %s %s = %s;' % (self.c(t), v, self.expr(ctx, ed)[0])] + ind(self.stmts(sub, depth - 1, r.randint(1, 3))) + ['}']

    def struct_stmt(self, ctx):
        r = self.r
        v, si = r.choice(ctx['structvars'])
        same = [x for x in ctx['structvars'] if x[1] == si and x[0] != v]
        k = r.random()
        if same and k < 0.5:
            self.features.add('struct-copy')
            return ['%s = %s;' % (v, r.choice(same)[0])]
        procs = [p for p in ctx.get('sfuncs', []) if p[1] == si]
        if procs and k < 0.8:
            p = r.choice(procs)
            self.features.add('struct-by-value-call')
            src = r.choice(same)[0] if same else v
            return ['%s = %s (%s, %s);' % (v, p[0], src, self.expr(ctx, 1)[0])]
        self.features.add('struct-compound-literal')
        return ['%s = (struct %s) %s;' % (v, self.structs[si][0], self.struct_init(si))]

    # ------------------------------------------------------------ whole program
    def program(self):
        r = self.r
        L = [PRELUDE]
        if self.use_ext:
            L.append(EXT_DECLS)
        for _ in range(r.randint(1, 3)):
            L += self.make_struct()
        # a union for type punning through its members (defined in C11 6.5.2.3, fn 95; all members are
        # integer types without padding bits, little endian on both compilers)
        L.append('union U0 { long long ll; struct { int lo; unsigned hi; } s; unsigned char b[8]; '
                 'struct { short h0; unsigned short h1; struct { signed char c0; unsigned char c1; short h2; } in; } t; unsigned long ul; '
                 'unsigned w[2]; short hw[4]; struct { unsigned short q[2]; int qi; } a; };')
        # a struct with an anonymous union (C11 6.7.2.1p13): its members are members of the struct
        L.append('struct AU { int tag; union { int ai; unsigned au; short ah[2]; unsigned char ab[4]; }; long tail; };')
        UL = [('ll', 'llong'), ('s.lo', 'int'), ('s.hi', 'uint'), ('t.h0', 'short'), ('t.h1', 'ushort'), ('t.in.c0', 'schar'),
              ('t.in.c1', 'uchar'), ('t.in.h2', 'short'), ('ul', 'ulong')] + [('b[%d]' % i, 'uchar') for i in range(8)] + \
             [('w[0]', 'uint'), ('w[1]', 'uint'), ('hw[0]', 'short'), ('hw[3]', 'short'), ('a.q[1]', 'ushort'), ('a.qi', 'int')]
        AUL = [('ai', 'int'), ('au', 'uint'), ('ah[0]', 'short'), ('ah[1]', 'short'), ('ab[0]', 'uchar'), ('ab[3]', 'uchar')]
        self.features.add('union-punning')
        self.UL = UL
        # globals
        gatoms, gwrit, gstruct = [], [], []
        L.append('union U0 gu0 = { %s };' % self.const_val('llong'))
        for mname, t in UL:
            gatoms.append(('gu0.' + mname, t))
            gwrit.append(('gu0.' + mname, t, 0))
        for i in range(r.randint(2, 6)):
            t = r.choice(NAMES)
            n = 'g%d' % i
            q = r.choice(['', '', 'static ', 'volatile '])
            L.append('%s%s %s = %s;' % (q, self.c(t), n, self.const_val(t)))
            gatoms.append((n, t))
            gwrit.append((n, t, 0))
        for i in range(r.randint(1, 4)):
            si = r.randrange(len(self.structs))
            n = 'gs%d' % i
            if r.random() < 0.8:
                L.append('%sstruct %s %s = %s;' % (r.choice(['', 'static ']), self.structs[si][0], n, self.struct_init(si)))
            else:
                L.append('struct %s %s;' % (self.structs[si][0], n))
            gstruct.append((n, si))
            for lv, t, w in self.leaves(si, n + '.'):
                gatoms.append((lv, t))
                gwrit.append((lv, t, w))
        an = r.randint(2, 6)
        at = r.choice(NAMES)
        L.append('%s ga[%d] = { %s };' % (self.c(at), an, ', '.join(self.const_val(at) for _ in range(r.randint(1, an)))))
        for i in range(an):
            gatoms.append(('ga[%d]' % i, at))
            gwrit.append(('ga[%d]' % i, at, 0))
        if r.random() < 0.5:
            # rows of a 2-D char array given by string literals / elided lists; the row count may come from the initialiser
            k = r.randint(3, 7)
            rows = r.randint(1, 4)
            vals = []
            for _ in range(rows):
                vals.append(self.string_for(k) if r.random() < 0.75 else '{ %s }' % ', '.join(self.const_val('char') for _ in range(r.randint(1, k))))
            tail = ''
            if r.random() < 0.3:
                tail = ", '%s'" % r.choice('xyz')          # brace elision: starts the next row
                rows += 1
            dim = '' if r.random() < 0.5 else str(rows + r.choice([0, 0, 1]))
            nrows = int(dim) if dim else rows
            L.append('%schar gn[%s][%d] = { %s%s };' % (r.choice(['', 'static ']), dim, k, ', '.join(vals), tail))
            L.append('static const int gn_rows = (int) (sizeof (gn) / sizeof (gn[0]));')
            gatoms.append(('gn_rows', 'int'))
            for i in range(nrows):
                for j2 in range(k):
                    gatoms.append(('gn[%d][%d]' % (i, j2), 'char'))
            self.features.add('init-string-rows')
        if r.random() < 0.5:
            L.append('char gstr[%d] = "%s";' % (8, r.choice(['abc', 'x\\ty', '', 'Hello!', '\\101\\x42'])))
            gatoms.append(('gstr[%d]' % r.randrange(8), 'char'))
            self.features.add('init-string')
        # pure leaf functions
        for i in range(r.randint(1, 4)):
            name = 'p%d' % i
            rt = r.choice(NAMES)
            pts = [r.choice(NAMES) for _ in range(r.randint(1, 4))]
            params = [('a%d' % j, t) for j, t in enumerate(pts)]
            ctx = dict(atoms=params + [(g, t) for g, t in gatoms if r.random() < 0.3], writable=[], loops=0,
                       structvars=[], calls=bool(self.pure))
            L.append('static %s %s (%s) {' % (self.c(rt), name, ', '.join('%s %s' % (self.c(t), n) for n, t in params)))
            if r.random() < 0.5:
                L.append('  if (%s) return %s;' % (self.expr(ctx, 2)[0], self.expr(ctx, 2)[0]))
            L.append('  return %s;' % self.expr(ctx, 3)[0])
            L.append('}')
            self.pure.append((name, rt, pts))
        # type punning through union members reached by different paths (6.5.2.3 fn 95): a store through one member must
        # be seen by the next load through another; whole members, members of a nested struct, of a doubly nested struct,
        # array elements; on a local union, the global one and through a pointer
        puns = []
        whole = [m for m in UL if '.' not in m[0] and '[' not in m[0]]
        part = [m for m in UL if '.' in m[0] or '[' in m[0]]
        for i in range(r.randint(2, 4)):
            name = 'pun%d' % i
            (wa, _), (wb, _) = r.choice(whole), r.choice(whole)
            (pa, _), (pb, _) = r.choice(part), r.choice(part)
            kind = r.randrange(7)
            self.features.add('union-pun-function')
            if kind >= 4:
                self.features.add(['union-member-vs-pointer-to-its-type', 'anonymous-union-pun', 'anonymous-union-pun'][kind - 4])
            if kind == 0:      # local: whole, patch a part, reload whole
                L.append('static u64 %s (u64 x, u64 y) { union U0 u; u.%s = x; u.%s = y; return (u64) u.%s ^ ((u64) u.%s << 1); }'
                         % (name, wa, pa, wb, pb))
            elif kind == 1:    # local: part, overwrite whole, reload the part
                L.append('static u64 %s (u64 x, u64 y) { union U0 u; u.ll = 0; u.%s = y; u.%s = x; return (u64) u.%s + (u64) u.%s; }'
                         % (name, pa, wa, pa, pb))
            elif kind == 2:    # the global union
                L.append('static u64 %s (u64 x, u64 y) { gu0.%s = x; gu0.%s = y; u64 t = (u64) gu0.%s; gu0.%s = (u64) gu0.%s + 1u; '
                         'return t ^ (u64) gu0.%s; }' % (name, wa, pa, wb, pb, pa, wa))
            elif kind == 4:    # a union member (or a part of one) and a pointer to that very object (C11 6.5p7: same type)
                (m, t) = r.choice(UL)
                L.append('static u64 %s_q (union U0 *p, %s *q, u64 y) { p->%s = y; *q = (%s) (y ^ 3u); u64 t = (u64) p->%s; p->%s = 7; '
                         'return t + (u64) *q; }' % (name, self.c(t), m, self.c(t), m, m))
                L.append('static u64 %s (u64 x, u64 y) { union U0 u; u.%s = x; return %s_q (&u, &u.%s, y) ^ (u64) u.%s; }' % (name, wa, name, m, wb))
            elif kind == 5:    # members of an anonymous union: local object
                (ma, _), (mb, _), (mc, _) = r.choice(AUL), r.choice(AUL), r.choice(AUL)
                L.append('static u64 %s (u64 x, u64 y) { struct AU a; a.tag = 1; a.tail = 2; a.au = 0; a.%s = x; a.%s = y; '
                         'return (u64) a.%s + (u64) a.%s * 3u + (u64) a.tag + (u64) a.tail; }' % (name, ma, mb, mc, ma))
            elif kind == 6:    # members of an anonymous union through a pointer
                (ma, _), (mb, _), (mc, _) = r.choice(AUL), r.choice(AUL), r.choice(AUL)
                L.append('static u64 %s_p (struct AU *p, u64 y) { u64 before = (u64) p->%s; p->%s = y; p->%s = (u64) p->%s ^ 5u; '
                         'return before ^ (u64) p->%s; }' % (name, ma, mb, mc, mc, ma))
                L.append('static u64 %s (u64 x, u64 y) { struct AU a; a.tag = 3; a.tail = 4; a.au = x; return %s_p (&a, y) + (u64) a.ai + (u64) a.tail; }'
                         % (name, name))
            else:              # through a pointer
                L.append('static u64 %s_p (union U0 *p, u64 y) { u64 before = (u64) p->%s; p->%s = y; p->%s = (u64) p->%s ^ 5u; '
                         'return before ^ (u64) p->%s; }' % (name, wa, pa, pb, pb, wb))
                L.append('static u64 %s (u64 x, u64 y) { union U0 u; u.%s = x; return %s_p (&u, y) + (u64) u.%s; }' % (name, wa, name, wb))
            puns.append(name)
        self.puns = puns
        # struct-by-value functions and pointer procedures
        sfuncs, pprocs = [], []
        for i in range(r.randint(1, 3)):
            si = r.randrange(len(self.structs))
            name = 'sf%d' % i
            sn = self.structs[si][0]
            lv = self.leaves(si, 's.')
            ctx = dict(atoms=[(a, t) for a, t, w in lv] + [('x', 'long')], writable=lv, loops=0, structvars=[])
            L.append('static struct %s %s (struct %s s, long x) {' % (sn, name, sn))
            L += ind(self.stmts(ctx, 1, r.randint(1, 4)))
            L.append('  return s;')
            L.append('}')
            sfuncs.append((name, si))
        for i in range(r.randint(1, 3)):
            si = r.randrange(len(self.structs))
            name = 'pp%d' % i
            sn = self.structs[si][0]
            lv = self.leaves(si, 'p->')
            ctx = dict(atoms=[(a, t) for a, t, w in lv] + [('k', 'uint')], writable=lv, loops=0, structvars=[])
            L.append('static void %s (struct %s *p, unsigned k) {' % (name, sn))
            L += ind(self.stmts(ctx, 2, r.randint(2, 5)))
            L.append('}')
            pprocs.append((name, si))
            self.features.add('pointer-to-struct')
        if self.use_ext:
            L.append('static long cb_long (long a, int b) { return (long)((unsigned long)a * 3u + (unsigned)b) ^ p0 (%s); }'
                     % ', '.join(['(%s)a' % self.c(self.pure[0][2][0])] + ['(%s)b' % self.c(t) for t in self.pure[0][2][1:]]))
            L.append('static long cb_p (struct ext_p p) { return (long)((unsigned long)p.a + (unsigned long)p.b * 5u); }')
            L.append('static struct ext_f3 cb_f3 (struct ext_f3 v, int k) { struct ext_f3 r; r.f[0] = v.f[2] + (float) k; r.f[1] = v.f[0] * 2.0f; '
                     'r.f[2] = v.f[1] - 1.0f; return r; }')
        # main
        L.append('int main (void) {')
        body = []
        locs = []
        for i in range(r.randint(2, 5)):
            t = r.choice(NAMES)
            n = 'l%d' % i
            body.append('%s %s = %s;' % (self.c(t), n, self.expr(dict(atoms=gatoms, writable=[], loops=0, structvars=[]), 2)[0]))
            locs.append((n, t))
        lstruct = []
        for i in range(r.randint(1, 3)):
            si = r.randrange(len(self.structs))
            n = 'ls%d' % i
            k = r.random()
            if k < 0.5:
                body.append('struct %s %s = %s;' % (self.structs[si][0], n, self.struct_init(si)))
            elif k < 0.8 and [g for g in gstruct if g[1] == si]:
                body.append('struct %s %s = %s;' % (self.structs[si][0], n, r.choice([g for g in gstruct if g[1] == si])[0]))
                self.features.add('struct-init-copy')
            else:
                body.append('struct %s %s = { 0 };' % (self.structs[si][0], n))
            lstruct.append((n, si))
        atoms = gatoms + locs
        writ = gwrit + [(n, t, 0) for n, t in locs]
        if r.random() < 0.6:
            body.append('union U0 lu0 = { .%s = %s };' % (r.choice(['ll', 'ul', 's.hi', 't.in.h2', 'b[3]', 'w[1]', 'a.qi', 'hw[2]']), self.const_val('llong')))
            for mname, t in UL:
                atoms.append(('lu0.' + mname, t))
                writ.append(('lu0.' + mname, t, 0))
            if r.random() < 0.5:
                body.append('gu0 = lu0;')
        for n, si in lstruct:
            for lv, t, w in self.leaves(si, n + '.'):
                atoms.append((lv, t))
                writ.append((lv, t, w))
        ctx = dict(atoms=atoms, writable=writ, loops=0, structvars=gstruct + lstruct, sfuncs=sfuncs,
                   unions=['gu0'] + (['lu0'] if any(a[0].startswith('lu0.') for a in atoms) else []))
        nst = max(3, int(r.randint(6, 14) * self.size))
        for i in range(nst):
            body += self.stmt(ctx, 3)
            if pprocs and r.random() < 0.25:
                p = r.choice(pprocs)
                tg = [v for v in gstruct + lstruct if v[1] == p[1]]
                if tg:
                    body.append('%s (&%s, %s);' % (p[0], r.choice(tg)[0], self.cast('uint', self.expr(ctx, 1)[0])))
            if self.use_ext and r.random() < 0.3:
                body += self.ext_stmt(ctx)
            if r.random() < 0.3:
                body.append('mix (%s ((u64)%s, (u64)%s));' % (r.choice(puns), self.expr(ctx, 1)[0], self.expr(ctx, 1)[0]))
        for pn in puns:
            body.append('mix (%s (0x1122334455667788ULL, 0x99aabbccddeeff01ULL));' % pn)
        # final checksum of every scalar object
        for lv, t in atoms:
            if lv.startswith('gstr'):
                continue
            body.append('mix ((u64)%s);' % lv)
        pr = r.sample(atoms, min(len(atoms), 4))
        fmt, args = [], []
        for lv, t in pr:
            f, a = r.choice([('%d', '(int)%s'), ('%u', '(unsigned)%s'), ('%lld', '(long long)%s'), ('%llu', '(unsigned long long)%s'),
                             ('%ld', '(long)%s'), ('%x', '(unsigned)%s'), ('%hhd', '(signed char)%s'), ('%c', "(char)('a' + (unsigned)%s %% 26)")])
            fmt.append(f)
            args.append(a % lv)
        body.append('printf ("%s\\n", %s);' % (' '.join(fmt), ', '.join(args)))
        body.append('printf ("%llx\\n", chk);')
        body.append('return (int)(chk & 0x3f);')
        L += ind(body)
        L.append('}')
        return '\n'.join(L) + '\n'

    def ext_stmt(self, ctx):
        r = self.r
        e = lambda: self.expr(ctx, 2)[0]
        self.features.add('ext-call')
        k = r.randrange(15)
        sh = lambda: self.cast('short', e())
        if k >= 9:
            self.features.add('ext-floating-array-aggregate')
        if k == 9:
            return ['{ struct ext_d2 q = ext_mkd2 ((int)%s, (int)%s); mix ((u64)(long)(q.d[0] * 2.0)); mix ((u64)(long)(q.d[1] * 4.0)); '
                    'q.d[1] = q.d[0] + 1.0; mix ((u64)ext_sum_d2 (q)); }' % (sh(), sh())]
        if k == 10:
            return ['{ struct ext_f3 q = ext_mkf3 (%s, %s, %s); mix ((u64)(long)(q.f[1] * 2.0f)); mix ((u64)(long)q.f[2]); q.f[0] = 3.5f; '
                    'mix ((u64)ext_sum_f3 (q, (int)%s)); }' % (sh(), sh(), self.cast('schar', e()), sh())]
        if k == 11:
            return ['{ struct ext_tf q = ext_mktf (%s, %s); mix ((u64)q.tag); mix ((u64)(long)(q.f[1] * 2.0f)); mix ((u64)(long)(q.f[2] * 4.0f)); '
                    'mix ((u64)ext_sum_tf (%s, q)); }' % (self.cast('int', e()), sh(), self.cast('long', e()))]
        if k == 12:
            return ['{ struct ext_nf q = ext_mknf (%s, %s); mix ((u64)(long)(q.p.x * 4.0f)); mix ((u64)(long)q.p.y); mix ((u64)(long)q.z); mix ((u64)q.c); '
                    'mix ((u64)ext_sum_nf (q)); }' % (sh(), self.cast('schar', e()))]
        if k == 13:
            return ['{ union ext_uf q = ext_mkuf (%s); mix ((u64)(long)q.f[3]); q.f[1] = 0.5f; mix ((u64)ext_sum_uf (q)); }' % sh()]
        if k == 14:
            self.features.add('ext-callback')
            return ['mix ((u64)ext_apply_f3 (cb_f3, %s));' % sh()]
        if k == 0:
            return ['mix ((u64)ext_add3 (%s, %s, %s));' % (self.cast('int', e()), self.cast('long', e()), self.cast('short', e()))]
        if k == 1:
            return ['mix (ext_mix8 (%s, %s, %s, %s, %s, %s, %s, %s));' % tuple(e() for _ in range(8))]
        if k == 2:
            return ['{ struct ext_p q = ext_mkp (%s, %s); mix ((u64)q.a); mix ((u64)q.b); mix ((u64)ext_sum_p (q)); }' % (e(), e())]
        if k == 3:
            return ['{ struct ext_q q = ext_mkq (%s, %s, %s); mix ((u64)q.s); mix ((u64)q.c); mix ((u64)q.l); mix ((u64)ext_sum_q (q)); }' % (e(), e(), e())]
        if k == 4:
            return ['{ struct ext_big q = ext_mkbig (%s); mix ((u64)q.v[0]); mix ((u64)q.v[4]); q.v[2] = %s; mix ((u64)ext_sum_big (q)); }' % (e(), e())]
        if k == 5:
            self.features.add('ext-callback')
            return ['mix ((u64)ext_apply (cb_long, %s, %s));' % (e(), self.cast('int', e()))]
        if k == 6:
            self.features.add('ext-callback')
            return ['mix ((u64)ext_apply_p (cb_p, %s, %s));' % (self.cast('int', e()), e())]
        if k == 7:
            return ['mix ((u64)ext_isodd (%s));' % e()]
        return ['mix ((u64)ext_lowbyte (%s));' % e()]


def ind(lines):
    return ['  ' + l for l in lines]


def generate(rng, use_ext=True, size=1.0, avoid=()):
    g = Gen(rng, use_ext, size, avoid)
    return g.program(), sorted(g.features)

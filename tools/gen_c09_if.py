# C09: generator / renderer for #if controlling expressions.
# A case is a string in the prefix language of ocaml/driver_c09.ml; render() gives its C spelling
# with minimal parentheses (so c2mir's precedence parser is exercised too).
import re

PREC = {'?:': 1, '||': 2, '&&': 3, '|': 4, '^': 5, '&': 6, '==': 7, '!=': 7, '<': 8, '<=': 8, '>': 8, '>=': 8,
        '<<': 9, '>>': 9, '+': 10, '-': 10, '*': 11, '/': 11, '%': 11}
BINOPS = ['+', '-', '*', '/', '%', '&', '|', '^', '<<', '>>', '==', '!=', '<', '<=', '>', '>=']
UNOPS = ['+', '-', '~', '!']
CHARS = {97: "'a'", 0: "'\\0'", -1: "'\\377'", 10: "'\\n'", 39: "'\\''", 127: "'\\x7f'", -128: "'\\200'",
         48: "'0'", 92: "'\\\\'"}
BOUND = [0, 1, 2, 3, 7, 31, 32, 33, 63, 64, 65, 255, 2 ** 31 - 1, 2 ** 31, 2 ** 32 - 1, 2 ** 32, 2 ** 63 - 1,
         2 ** 63, 2 ** 64 - 1, 2 ** 64 - 2, 2 ** 62]
SUFFIXES = ['-', '-', '-', 'u', 'U', 'l', 'L', 'ul', 'UL', 'lu', 'll', 'LL', 'ull', 'ULL', 'llu', 'uLL', 'Ul']


# ---------------------------------------------------------------- trees <-> prefix strings
def parse(s):
    ws = s.split()
    t, rest = _parse(ws, 0)
    if rest != len(ws):
        raise ValueError('trailing tokens in ' + s)
    return t


def _parse(ws, i):
    w = ws[i]
    if w == 'L':
        return ('L', ws[i + 1], ws[i + 2], int(ws[i + 3], 16)), i + 4
    if w == 'C':
        return ('C', int(ws[i + 1], 16)), i + 2
    if w == 'I':
        return ('I',), i + 1
    if w == 'P':
        a, j = _parse(ws, i + 1)
        return ('P', a), j
    if w == 'U':
        a, j = _parse(ws, i + 2)
        return ('U', ws[i + 1], a), j
    if w == 'B':
        a, j = _parse(ws, i + 2)
        b, k = _parse(ws, j)
        return ('B', ws[i + 1], a, b), k
    if w in ('A', 'O'):
        a, j = _parse(ws, i + 1)
        b, k = _parse(ws, j)
        return (w, a, b), k
    if w == 'Q':
        c, j = _parse(ws, i + 1)
        a, k = _parse(ws, j)
        b, l = _parse(ws, k)
        return ('Q', c, a, b), l
    raise ValueError('bad token ' + w)


def hexs(v):
    return ('-%x' % -v) if v < 0 else '%x' % v


def prefix(t):
    k = t[0]
    if k == 'L':
        return 'L %s %s %s' % (t[1], t[2], hexs(t[3]))
    if k == 'C':
        return 'C ' + hexs(t[1])
    if k == 'I':
        return 'I'
    if k == 'P':
        return 'P ' + prefix(t[1])
    if k == 'U':
        return 'U %s %s' % (t[1], prefix(t[2]))
    if k == 'B':
        return 'B %s %s %s' % (t[1], prefix(t[2]), prefix(t[3]))
    if k in ('A', 'O'):
        return '%s %s %s' % (k, prefix(t[1]), prefix(t[2]))
    return 'Q %s %s %s' % (prefix(t[1]), prefix(t[2]), prefix(t[3]))


def _prec(t):
    k = t[0]
    if k in ('L', 'C', 'I', 'P'):
        return 13
    if k == 'U':
        return 12
    if k == 'B':
        return PREC[t[1]]
    if k == 'A':
        return 3
    if k == 'O':
        return 2
    return 1


def lit_text(radix, sfx, v):
    body = {'d': '%d', 'x': '0x%x', 'o': '0%o'}[radix] % v
    if radix == 'o' and v == 0:
        body = '00'
    return body + ('' if sfx == '-' else sfx)


def render(t):
    k = t[0]
    if k == 'L':
        return lit_text(t[1], t[2], t[3])
    if k == 'C':
        return CHARS[t[1]]
    if k == 'I':
        return 'undefined_ident'
    if k == 'P':
        return '(' + render(t[1]) + ')'
    if k == 'U':
        a = render(t[2]) if _prec(t[2]) >= 12 else '(' + render(t[2]) + ')'
        return t[1] + (' ' if t[1] in '+-' else '') + a
    if k in ('B', 'A', 'O'):
        op, a, b = (t[1], t[2], t[3]) if k == 'B' else ('&&' if k == 'A' else '||', t[1], t[2])
        p = PREC[op]
        sa = render(a) if _prec(a) >= p else '(' + render(a) + ')'
        sb = render(b) if _prec(b) > p else '(' + render(b) + ')'
        return '%s %s %s' % (sa, op, sb)
    c, a, b = t[1], t[2], t[3]
    sc = render(c) if _prec(c) >= 2 else '(' + render(c) + ')'
    sa = render(a)
    sb = render(b) if _prec(b) >= 1 else '(' + render(b) + ')'
    return '%s ? %s : %s' % (sc, sa, sb)


def size(t):
    return 1 + sum(size(x) for x in t[1:] if isinstance(x, tuple))


def ops_of(t, acc=None):
    acc = acc if acc is not None else []
    k = t[0]
    if k == 'B':
        acc.append(t[1])
    elif k == 'U':
        acc.append('u' + t[1])
    elif k == 'A':
        acc.append('&&')
    elif k == 'O':
        acc.append('||')
    elif k == 'Q':
        acc.append('?:')
    elif k == 'L':
        acc.append('lit:' + ('u' if 'u' in t[2].lower() else 's'))
    elif k == 'C':
        acc.append('chr')
    elif k == 'I':
        acc.append('ident')
    for x in t[1:]:
        if isinstance(x, tuple):
            ops_of(x, acc)
    return acc


def subtrees(t):
    """proper subtrees (expressions) of t"""
    out = []
    for x in t[1:]:
        if isinstance(x, tuple):
            out.append(x)
            out += subtrees(x)
    return out


def replace_children(t):
    """variants of t with one child replaced by one of its own subtrees or by 0/1 constants"""
    out = []
    for i, x in enumerate(t):
        if i == 0 or not isinstance(x, tuple):
            continue
        cands = subtrees(x) + [('L', 'd', '-', 0), ('L', 'd', '-', 1)]
        for c in cands:
            if c != x:
                out.append(t[:i] + (c,) + t[i + 1:])
        for v in replace_children(x):
            out.append(t[:i] + (v,) + t[i + 1:])
    return out


# ---------------------------------------------------------------- random generation
def gen_lit(rng):
    r = rng.random()
    if r < 0.5:
        v = rng.choice(BOUND)
    elif r < 0.8:
        v = rng.randint(0, 9)
    else:
        v = rng.choice(BOUND) - rng.randint(0, 2)
        if v < 0:
            v = 1
    radix = rng.choice(['d', 'd', 'x', 'x', 'o'])
    sfx = rng.choice(SUFFIXES)
    return ('L', radix, sfx, v)


def gen_leaf(rng):
    r = rng.random()
    if r < 0.86:
        return gen_lit(rng)
    if r < 0.95:
        return ('C', rng.choice(sorted(CHARS)))
    return ('I',)


def gen_expr(rng, depth):
    if depth <= 0 or rng.random() < 0.18:
        return gen_leaf(rng)
    r = rng.random()
    if r < 0.14:
        return ('U', rng.choice(UNOPS), gen_expr(rng, depth - 1))
    if r < 0.70:
        op = rng.choice(BINOPS)
        a = gen_expr(rng, depth - 1)
        if op in ('<<', '>>') and rng.random() < 0.8:
            b = ('L', 'd', rng.choice(['-', 'u', '-', 'L']), rng.choice([0, 1, 2, 31, 32, 62, 63]))
        elif op in ('/', '%') and rng.random() < 0.7:
            b = ('L', rng.choice('dx'), rng.choice(SUFFIXES), rng.choice([1, 2, 3, 7, 2 ** 31, 2 ** 63 - 1, 2 ** 64 - 1]))
        else:
            b = gen_expr(rng, depth - 1)
        return ('B', op, a, b)
    if r < 0.78:
        return ('A', gen_expr(rng, depth - 1), gen_expr(rng, depth - 1))
    if r < 0.86:
        return ('O', gen_expr(rng, depth - 1), gen_expr(rng, depth - 1))
    if r < 0.97:
        return ('Q', gen_expr(rng, depth - 1), gen_expr(rng, depth - 1), gen_expr(rng, depth - 1))
    return ('P', gen_expr(rng, depth - 1))


def value_literal(uns, v):
    """C spelling of the value v of type intmax_t / uintmax_t, usable inside #if"""
    if uns:
        return '0x%xu' % v
    if v == -2 ** 63:
        return '(-9223372036854775807 - 1)'
    return '(-%d)' % -v if v < 0 else '%d' % v

#!/usr/bin/env python3
# Development aid for C01/C04 (not used by the registered checks):
#   gen_c01_dev.py stat <n> <seed0>        classify divergences over n generated programs (GENOPTS env = json opts)
#   gen_c01_dev.py shrink <seed>           shrink the diverging program of that generator seed -> /var/tmp/c01_last_<seed>.json
#   gen_c01_dev.py corpus                  run the corpus cases of c01 and c04
#   gen_c01_dev.py replay <json>...        run saved replay objects
#   gen_c01_dev.py dbg <json> <engine>     harness -d (generator debug dump) for one engine
# All honour VERIF_REPO.
import sys, os, json, random, time, subprocess
from collections import Counter
HERE = os.path.dirname(os.path.abspath(__file__))
sys.path.insert(0, HERE); sys.path.insert(0, os.path.dirname(HERE))
import vlib
from checks import c01

OPTS = json.loads(os.environ.get('GENOPTS', '{}'))


def stat(n, seed0):
    impl, model = c01.build()
    opnum = c01.opnum_table()
    progs = [c01.G.gen_program(random.Random(seed0 + i), OPTS) for i in range(n)]
    t = time.time()
    mo = c01.run_model_parallel(model, [p.model_line(opnum, c01.MODEL_FUEL) for p in progs])
    print('model %.1fs' % (time.time() - t))
    print(Counter(x.split()[0] + ' ' + (x.split()[1] if x.startswith('STUCK') else '') for x in mo))
    ok = [i for i, x in enumerate(mo) if x.startswith('OK')]
    t = time.time()
    eng = c01.run_impl_parallel(impl, [progs[i].harness_line(c01.ENGINES) for i in ok])
    print('engines %.1fs' % (time.time() - t))
    cats = Counter(); ex = {}
    for i, e in zip(ok, eng):
        cat = c01.classify(mo[i], e)
        if cat:
            key = ' '.join(sorted(set(c.split(':', 1)[1] for c in cat.split()))) + ' @' + ','.join(c.split(':')[0] for c in cat.split())
            cats[key] += 1; ex.setdefault(key, []).append(seed0 + i)
    for k, v in cats.most_common():
        print(v, k, ex.get(k, [])[:6])


def sweep(n, seed0, batch=2000):
    """big run: every diverging program is saved (unshrunk) under build/c01dev/sweep/"""
    impl, model = c01.build()
    opnum = c01.opnum_table()
    outd = os.path.join(vlib.VERIF, 'build', 'c01dev', 'sweep')
    os.makedirs(outd, exist_ok=True)
    cats = Counter()
    t0 = time.time()
    for b0 in range(seed0, seed0 + n, batch):
        progs = [c01.G.gen_program(random.Random(b0 + i), OPTS) for i in range(min(batch, seed0 + n - b0))]
        mo = c01.run_model_parallel(model, [p.model_line(opnum, c01.MODEL_FUEL) for p in progs])
        ok = [i for i, x in enumerate(mo) if x.startswith('OK')]
        eng = c01.run_impl_parallel(impl, [progs[i].harness_line(c01.ENGINES) for i in ok])
        for i, e in zip(ok, eng):
            cat = c01.classify(mo[i], e)
            if cat:
                cats[cat] += 1
                json.dump(dict(seed=b0 + i, cat=cat, features=sorted(progs[i].features),
                               **c01.replay_obj(progs[i], opnum, c01.ENGINES, mo[i], e)),
                          open(os.path.join(outd, '%d.json' % (b0 + i)), 'w'))
                print('HIT', b0 + i, cat, flush=True)
        print('done %d programs in %.0fs, hits so far %d' % (b0 + len(progs) - seed0, time.time() - t0, sum(cats.values())), flush=True)
    for k, v in cats.most_common():
        print(v, k)


def shrink(seed):
    impl, model = c01.build(); opnum = c01.opnum_table()
    p = c01.G.gen_program(random.Random(seed), OPTS)
    mo = c01.run_model(model, [p.model_line(opnum, c01.MODEL_FUEL)])[0]
    eng = c01.run_impl(impl, [p.harness_line(c01.ENGINES)])[0]
    cat = c01.classify(mo, eng); print('category:', cat)
    if cat:
        s = c01.strip_unused(c01.shrink_prog(p, impl, model, opnum, c01.ENGINES, cat))
        print(s.text())
        mo = c01.run_model(model, [s.model_line(opnum, c01.MODEL_FUEL)])[0]
        eng = c01.run_impl(impl, [s.harness_line(c01.ENGINES)])[0]
        print('model :', mo[:100])
        for k in sorted(eng): print('%-6s:' % k, eng[k][:100])
        open('/verif/build/c01dev/last_%d.json' % seed, 'w').write(json.dumps(c01.replay_obj(s, opnum, c01.ENGINES, mo, eng)))


def corpus():
    impl, model = c01.build()
    for d in ('c01', 'c04'):
        for fn, ml, hl in c01.corpus_cases(d):
            mo = c01.run_model(model, [ml])[0]; eng = c01.run_impl(impl, [hl])[0]
            print('%-4s %-50s %s' % (d, fn, c01.classify(mo, eng) or 'agree'))


def replay(files):
    impl, model = c01.build()
    for f in files:
        j = json.load(open(f)); j = j.get('replay', j)
        mo = c01.run_model(model, [j['model_line']])[0]; eng = c01.run_impl(impl, [j['harness_line']])[0]
        print(os.path.basename(f), c01.classify(mo, eng) or 'agree')


def dbg(f, engine):
    impl, model = c01.build()
    j = json.load(open(f)); j = j.get('replay', j)
    hl = j['harness_line']
    line = hl.replace(hl.split(' ', 1)[0], engine, 1) + '\n'
    p = subprocess.run([impl, '-d'], input=line.encode(), stdout=subprocess.PIPE, stderr=subprocess.STDOUT)
    sys.stdout.write(p.stdout.decode(errors='replace'))


if __name__ == '__main__':
    cmd = sys.argv[1]
    if cmd == 'stat': stat(int(sys.argv[2]), int(sys.argv[3]))
    elif cmd == 'shrink': shrink(int(sys.argv[2]))
    elif cmd == 'sweep': sweep(int(sys.argv[2]), int(sys.argv[3]))
    elif cmd == 'corpus': corpus()
    elif cmd == 'replay': replay(sys.argv[2:])
    elif cmd == 'dbg': dbg(sys.argv[2], sys.argv[3])

#!/usr/bin/env python3
# tr_c02_peval: a small symbolic executor for integer C functions (the helpers and conditions of the
# generator / simplifier that decide WHEN a rewrite applies: simplify_func's shortcut condition, gen_int_log2,
# the constants built in transform_mul_div).  Values are concrete typed integers or CExpr terms over a few
# symbolic inputs; control flow on symbolic conditions is merged with ?: (every assignment, return and break is
# guarded by the condition under which it executes), loops are unrolled and the claim "the loop has ended" after
# the last unrolling becomes an obligation for the SMT solver.  The result is a CExpr term, so that questions
# about it ("for which constants is the condition true", "is the result the log2 of its argument") are decided for
# ALL input values by tr_c02_smt.  Anything outside the subset raises Unsupported (the caller then reports the
# construct as not understood, as before).
import re
from tr_c02_clib import Unsupported, INT_TYPES, BINOPS, UNOPS, num_value, parse_stmts, find_function, split_params
import tr_c02_smt as SMT

UNROLL = 66
ONE, ZERO = ('EConst', 1, 'CI32'), ('EConst', 0, 'CI32')


def wrap(t, v):
    s, n = SMT.TY[t]
    v %= 1 << n
    return v - (1 << n) if s and v >= 1 << (n - 1) else v


class V:
    """a typed value: concrete (c is an int) or symbolic (e is a cexpr)"""

    def __init__(self, t, c=None, e=None):
        self.t, self.c, self.e = t, (wrap(t, c) if c is not None else None), e

    def expr(self):
        return ('EConst', self.c, self.t) if self.c is not None else self.e

    def __repr__(self):
        return 'V(%s,%r)' % (self.t, self.c if self.c is not None else self.e)


def conv(t, v):
    if v.t == t:
        return v
    if v.t == 'OPAQUE' or t == 'OPAQUE':
        raise Unsupported('conversion of an object pointer')
    if v.c is not None:
        return V(t, c=v.c)
    return V(t, e=('ECast', t, v.e))


def truthy(v):
    """python bool when concrete else a CI32 0/1 cexpr"""
    if v.c is not None:
        return v.c != 0
    return ('EBin', 'One', v.e, ('EConst', 0, v.t))


def g_not(a):
    if isinstance(a, bool):
        return not a
    return ('EUn', 'Ulnot', a)


def g_and(a, b):
    if a is False or b is False:
        return False
    if a is True:
        return b
    if b is True:
        return a
    return ('ECond', a, ('ECond', b, ONE, ZERO), ZERO)


def g_or(a, b):
    return g_not(g_and(g_not(a), g_not(b)))


def ite(g, x, y, t):
    """value x where g holds, else y, at type t"""
    if g is True:
        return conv(t, x)
    if g is False:
        return conv(t, y)
    x, y = conv(t, x), conv(t, y)
    if x.c is not None and y.c is not None and x.c == y.c:
        return x
    return V(t, e=('ECond', g, x.expr(), y.expr()))


def fold_bin(op, a, b):
    """C semantics of CExpr.binop on two values (concrete folding when possible)"""
    o = BINOPS[op]
    if o in ('Oshl', 'Oshr'):
        t = SMT.promote(a.t)
        if a.c is not None and b.c is not None:
            if not 0 <= b.c < SMT.TY[t][1]:
                raise Unsupported('shift count out of range')
            x = wrap(t, a.c)
            return V(t, c=(x << b.c) if o == 'Oshl' else (x >> b.c))
        return V(t, e=('EBin', o, a.expr(), b.expr()))
    t = SMT.arith_conv(SMT.promote(a.t), SMT.promote(b.t))
    cmp_ = o in ('Oeq', 'One', 'Olt', 'Ole', 'Ogt', 'Oge')
    if a.c is not None and b.c is not None:
        x, y = wrap(t, a.c), wrap(t, b.c)
        if o in ('Odiv', 'Omod'):
            if y == 0 or (SMT.TY[t][0] and x == -(1 << (SMT.TY[t][1] - 1)) and y == -1):
                raise Unsupported('division undefined')
            q = abs(x) // abs(y) * (1 if (x >= 0) == (y >= 0) else -1)
            return V(t, c=q if o == 'Odiv' else x - q * y)
        r = {'Oadd': lambda: x + y, 'Osub': lambda: x - y, 'Omul': lambda: x * y, 'Oand': lambda: x & y, 'Oor': lambda: x | y,
             'Oxor': lambda: x ^ y, 'Oeq': lambda: x == y, 'One': lambda: x != y, 'Olt': lambda: x < y, 'Ole': lambda: x <= y,
             'Ogt': lambda: x > y, 'Oge': lambda: x >= y}[o]()
        return V('CI32', c=int(r)) if cmp_ else V(t, c=r)
    return V('CI32' if cmp_ else t, e=('EBin', o, a.expr(), b.expr()))


class Frame:
    def __init__(self):
        self.vars = {}        # name -> V
        self.types = {}       # name -> ctype
        self.ret = False      # guard: the function has returned
        self.rv = None        # V
        self.rtype = None
        self.brk = False      # guard: the innermost loop / switch has been left
        self.cont = False


class PEval:
    def __init__(self, src, enums=None, typedefs=(), externals=None):
        self.src = src
        self.enums = enums or {}
        self.typedefs = set(typedefs)
        self.externals = externals or (lambda e, fr: None)   # hook for members of foreign objects (insn->code ...)
        self.funcs = {}
        self.rtypes = {}
        self.obligations = []   # cexpr guards that must be FALSE (a loop still running after the last unrolling)
        self.depth = 0

    def func(self, name):
        if name not in self.funcs:
            r = find_function(self.src, name)
            if r is None:
                raise Unsupported('unknown function ' + name)
            self.funcs[name] = (split_params(r[0]), parse_stmts(r[1], self.typedefs))
        return self.funcs[name]

    def ctype(self, base, nptr):
        if nptr or base not in INT_TYPES or INT_TYPES[base] not in SMT.TY:
            raise Unsupported('type %s%s' % (base, '*' * nptr))
        return INT_TYPES[base]

    # ------------------------------------------------------------------ expressions
    def eval(self, e, fr, g):
        k = e[0]
        if k == 'num':
            v, t = num_value(e[1])
            return V(t, c=v)
        if k == 'id':
            n = e[1]
            if n in fr.vars:
                if fr.vars[n] is None:
                    raise Unsupported('uninitialised ' + n)
                return fr.vars[n]
            if n in self.enums:
                return V('CI32', c=self.enums[n])
            x = self.externals(e, fr)
            if x is not None:
                return x
            raise Unsupported('unknown identifier ' + n)
        if k in ('member', 'arrow', 'index'):
            x = self.externals(self.resolve(e, fr), fr)
            if x is not None:
                return x
            raise Unsupported('unknown object %r' % (e,))
        if k == 'cast':
            (base, nptr), inner = e[1], e[2]
            return conv(self.ctype(base, nptr), self.eval(inner, fr, g))
        if k == 'un':
            a = self.eval(e[2], fr, g)
            if e[1] == '+':
                return conv(SMT.promote(a.t), a)
            if e[1] == '!':
                return V('CI32', c=int(a.c == 0)) if a.c is not None else V('CI32', e=('EUn', 'Ulnot', a.e))
            p = SMT.promote(a.t)
            if a.c is not None:
                x = wrap(p, a.c)
                return V(p, c=-x if e[1] == '-' else ~x)
            return V(p, e=('EUn', UNOPS[e[1]], a.e))
        if k == 'bin':
            if e[1] in ('&&', '||'):
                a = truthy(self.eval(e[2], fr, g))
                if a is (e[1] == '||'):
                    return V('CI32', c=int(a))
                b = truthy(self.eval(e[3], fr, g_and(g, a if e[1] == '&&' else g_not(a))))
                r = g_and(a, b) if e[1] == '&&' else g_or(a, b)
                return V('CI32', c=int(r)) if isinstance(r, bool) else V('CI32', e=r)
            return fold_bin(e[1], self.eval(e[2], fr, g), self.eval(e[3], fr, g))
        if k == 'cond':
            c = truthy(self.eval(e[1], fr, g))
            if isinstance(c, bool):
                return self.eval(e[2] if c else e[3], fr, g)
            a, b = self.eval(e[2], fr, g_and(g, c)), self.eval(e[3], fr, g_and(g, g_not(c)))
            t = a.t if a.t == b.t else SMT.arith_conv(SMT.promote(a.t), SMT.promote(b.t))
            return ite(c, a, b, t)
        if k == 'assign':
            v = self.eval(e[2], fr, g)
            return self.store(e[1], v, fr, g)
        if k == 'post':
            old = self.eval(e[2], fr, g)
            self.store(e[2], fold_bin('+' if e[1] == '++' else '-', old, V('CI32', c=1)), fr, g)
            return old
        if k == 'comma':
            self.eval(e[1], fr, g)
            return self.eval(e[2], fr, g)
        if k == 'call':
            if e[1][0] != 'id':
                raise Unsupported('indirect call')
            x = self.externals(e, fr)
            if x is not None:
                return x
            return self.call(e[1][1], [self.eval(a, fr, g) for a in e[2]], g)
        raise Unsupported('expression kind ' + k)

    def resolve(self, e, fr):
        """replace local names bound to foreign objects by the object's own name: p->code with p = insn is insn->code"""
        if e[0] == 'id':
            v = fr.vars.get(e[1])
            if v is not None and v.t == 'OPAQUE':
                return ('id', v.e)
            return e
        if e[0] in ('member', 'arrow'):
            return (e[0], self.resolve(e[1], fr), e[2])
        if e[0] == 'index':
            ix = e[2]
            try:
                iv = self.eval(ix, fr, True)
                if iv.c is not None:
                    ix = ('num', str(iv.c))
            except Unsupported:
                pass
            return ('index', self.resolve(e[1], fr), ix)
        return e

    def store(self, lhs, v, fr, g):
        if lhs[0] != 'id' or lhs[1] not in fr.types:
            raise Unsupported('assignment target %r' % (lhs,))
        n = lhs[1]
        t = fr.types[n]
        # (what a variable holds after the function has returned does not matter: no guard for fr.ret)
        eff = g_and(g, g_and(g_not(fr.brk), g_not(fr.cont)))
        old = fr.vars.get(n)
        if old is None:
            if eff is not True:
                old = V(t, c=0)         # never read before an unconditional assignment in well-formed code
            else:
                old = v
        fr.vars[n] = ite(eff, v, old, t)
        return conv(t, v)

    def call(self, name, args, g):
        params, body = self.func(name)
        if len(params) != len(args):
            raise Unsupported('arity of ' + name)
        if self.depth > 8:
            raise Unsupported('call depth')
        fr = Frame()
        for (pn, (base, nptr)), a in zip(params, args):
            if a.t == 'OPAQUE':           # a pointer to a foreign object (insn ...): only its members are asked for
                fr.types[pn] = 'OPAQUE'
                fr.vars[pn] = a
                continue
            t = self.ctype(base, nptr)
            fr.types[pn] = t
            fr.vars[pn] = conv(t, a)
        fr.rtype = self.rtypes.get(name)
        for m in ([] if fr.rtype else re.finditer(r'\b((?:unsigned\s+|signed\s+)?(?:int64_t|uint64_t|int32_t|uint32_t|int|long|unsigned|size_t))\s+%s\s*\(' % re.escape(name), self.src)):
            base = re.sub(r'\s+', ' ', m.group(1))
            base = {'size_t': 'unsigned long'}.get(base, base)
            if base in INT_TYPES:
                fr.rtype = INT_TYPES[base]
            break
        fr.rtype = fr.rtype or 'CI64'
        self.rtypes[name] = fr.rtype
        self.depth += 1
        try:
            self.block(body, fr, g)
        finally:
            self.depth -= 1
        if fr.rv is None:
            raise Unsupported('function %s returns nothing' % name)
        return fr.rv

    # ------------------------------------------------------------------ statements
    def live(self, fr, g):
        return g_and(g, g_and(g_not(fr.ret), g_and(g_not(fr.brk), g_not(fr.cont))))

    def block(self, stmts, fr, g):
        for s in stmts:
            if self.live(fr, g) is False:
                return
            self.stmt(s, fr, g)

    def stmt(self, s, fr, g):
        k = s[0]
        if k == 'block':
            return self.block(s[1], fr, g)
        if k == 'decl':
            for name, (base, nptr), init in s[1]:
                t = self.ctype(base, nptr)
                fr.types[name] = t
                fr.vars[name] = None
                if init is not None:
                    self.store(('id', name), self.eval(init, fr, g), fr, g)
            return
        if k == 'expr':
            self.eval(s[1], fr, g)
            return
        if k == 'return':
            if s[1] is None:
                raise Unsupported('return without a value')
            v = conv(fr.rtype, self.eval(s[1], fr, g))
            eff = self.live(fr, g)
            fr.rv = v if fr.rv is None else ite(eff, v, fr.rv, fr.rtype)
            fr.ret = g_or(fr.ret, eff)
            return
        if k == 'break':
            fr.brk = g_or(fr.brk, self.live(fr, g))
            return
        if k == 'continue':
            fr.cont = g_or(fr.cont, self.live(fr, g))
            return
        if k == 'if':
            c = truthy(self.eval(s[1], fr, g))
            if isinstance(c, bool):
                if c:
                    self.stmt(s[2], fr, g)
                elif s[3] is not None:
                    self.stmt(s[3], fr, g)
                return
            self.stmt(s[2], fr, g_and(g, c))
            if s[3] is not None:
                self.stmt(s[3], fr, g_and(g, g_not(c)))
            return
        if k == 'for':
            init, cond, step, body = s[1], s[2], s[3], s[4]
            if init is not None:
                self.stmt(init, fr, g)
            outer_brk, outer_cont = fr.brk, fr.cont
            fr.brk = False
            run = g
            for it in range(UNROLL + 1):
                fr.cont = False
                c = truthy(self.eval(cond, fr, run)) if cond is not None else True
                run = g_and(run, g_and(c, g_not(fr.brk)))
                if run is False or fr.ret is True:
                    break
                if it == UNROLL:
                    self.obligations.append(g_and(run, g_not(fr.ret)))   # must be unsatisfiable: the loop has ended by now
                    break
                self.stmt(body, fr, run)
                fr.cont = False
                if step is not None:
                    self.eval(step, fr, g_and(run, g_not(fr.brk)))
            fr.brk, fr.cont = outer_brk, outer_cont
            return
        if k == 'switch':
            sel = self.eval(s[1], fr, g)
            if sel.c is None:
                raise Unsupported('switch on a symbolic value')
            body = s[2]
            start = None
            for i, x in enumerate(body):
                if x[0] == 'case':
                    cv = self.eval(x[1], fr, g)
                    if cv.c is None:
                        raise Unsupported('symbolic case label')
                    if cv.c == sel.c and start is None:
                        start = i
            if start is None:
                for i, x in enumerate(body):
                    if x[0] == 'default' or x == ('label', 'default'):
                        start = i
            if start is None:
                return
            outer = fr.brk
            fr.brk = False
            for x in body[start:]:
                if x[0] in ('case', 'default') or x == ('label', 'default'):
                    continue
                if self.live(fr, g) is False:
                    break
                self.stmt(x, fr, g)
            fr.brk = outer
            return
        if k in ('case', 'default', 'label'):
            return
        raise Unsupported('statement kind ' + k)


def parse_enums(src):
    """enumerator name -> value of every enum of preprocessed C text (constant initialisers only)"""
    out = {}
    for m in re.finditer(r'\benum\b[^{;]*\{([^{}]*)\}', src):
        v = -1
        for item in m.group(1).split(','):
            item = item.strip()
            if not item:
                continue
            mm = re.match(r'^(\w+)\s*(?:=\s*(.+))?$', item, re.S)
            if not mm:
                break
            if mm.group(2) is not None:
                t = mm.group(2).strip()
                if re.match(r'^-?\d+$', t):
                    v = int(t)
                elif re.match(r'^0[xX][0-9a-fA-F]+$', t):
                    v = int(t, 16)
                elif t in out:
                    v = out[t]
                else:
                    break
            else:
                v += 1
            out[mm.group(1)] = v
    return out


def holds_for_all(pe, claim):
    """claim: a truthy cexpr; True iff it holds for all values of the symbolic inputs and every unrolled loop has ended
    (SMT); returns (bool, model-or-reason)"""
    try:
        for ob in pe.obligations:
            enc = SMT.Enc()
            t, term, d = enc.enc(ob)
            r, model = SMT.query(enc, enc.truth(t, term))
            if r != 'unsat':
                return False, 'a loop may run longer than %d iterations' % UNROLL
        enc = SMT.Enc()
        t, term, d = enc.enc(claim)
        r, model = SMT.query(enc, '(not (and %s %s))' % (d, enc.truth(t, term)))
        if r == 'unsat':
            return True, None
        return False, model if r == 'sat' else 'solver gave no answer'
    except SMT.NoSmt as e:
        return False, str(e)

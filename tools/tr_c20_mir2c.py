#!/usr/bin/env python3
# tr_c20_mir2c: regenerate coq/gen/Mir2cTable.v from mir2c/mir2c.c of the CURRENT tree.
# Source construct: the `switch (insn->code)` of out_insn and the out_*op* / out_b*cmp / out_jmp
# helpers (after gcc -E -P).  For every opcode the printing statements of its case are *executed
# symbolically* (operands print as $0 $1 $2, static conditions on insn->code are evaluated), giving the
# C text the translator emits for that instruction; that text is parsed back with the C-subset parser
# into MirV.Mir.CExpr statements.  Operand $k has the C type mir2c declares for a register of the
# operand's mode (int64_t / float / double / long double; modes from insn_descs[] of mir.c).
# Output: mir2c_table : list (opcode * list cstmt); an opcode whose case label is missing (the
# `default: mir_assert (FALSE)` path, a no-op under NDEBUG) gets NO row; text that cannot be parsed
# becomes SUnknown.  Control/ABI instructions (call, ret, switch, va_*, alloca, addr, label ...) are
# not tabulated: they are exercised by the compile-and-run correspondence.
import sys, os, re
sys.path.insert(0, os.path.dirname(os.path.abspath(__file__)))
import vlib
from tr_c02_clib import *
import tr_opcodes

MODE_CTY = {'MIR_OP_INT': 'CI64', 'MIR_OP_FLOAT': 'CF', 'MIR_OP_DOUBLE': 'CD', 'MIR_OP_LDOUBLE': 'CLD', 'MIR_OP_LABEL': None}
TYPEDEFS = {'MIR_context_t', 'MIR_op_t', 'MIR_insn_t', 'FILE', 'MIR_type_t', 'MIR_proto_t', 'size_t', 'MIR_reg_t',
            'MIR_item_t', 'MIR_func_t', 'MIR_var_t', 'MIR_module_t', 'int64_t', 'uint64_t'}


def preprocess(repo):
    rc, out, err = vlib.sh(['gcc', '-E', '-P', '-DMIR_VERIF', '-DNDEBUG', '-I' + repo, os.path.join(repo, 'mir2c', 'mir2c.c')],
                           check=True)
    return out


def insn_modes(repo):
    """opcode -> [operand modes] from insn_descs[] of mir.c"""
    src = open(os.path.join(repo, 'mir.c')).read()
    m = re.search(r'insn_descs\[\]\s*=\s*\{(.*?)\n\};', src, re.S)
    out = {}
    for mm in re.finditer(r'\{\s*MIR_(\w+)\s*,\s*"[^"]*"\s*,\s*\{([^}]*)\}\s*\}', m.group(1)):
        modes = [x.strip().replace('| OUT_FLAG', '').strip() for x in mm.group(2).split(',')]
        out[mm.group(1)] = [x for x in modes if x != 'MIR_OP_BOUND']
    return out


def unquote(s):
    body = s[1:-1]
    return bytes(body, 'utf-8').decode('unicode_escape')


class Printer:
    """symbolic execution of the printing code for one opcode"""

    def __init__(self, src, opcode):
        self.src, self.opcode = src, opcode
        self.out = []
        self.funcs = {}

    def func(self, name):
        if name not in self.funcs:
            r = find_function(self.src, name)
            if r is None:
                raise Unsupported('unknown function ' + name)
            self.funcs[name] = (split_params(r[0]), parse_stmts(merge_strings(r[1]), TYPEDEFS))
        return self.funcs[name]

    def static(self, e, env):
        k = e[0]
        if k == 'str':
            return unquote(e[1])
        if k == 'num':
            return num_value(e[1])[0]
        if k == 'id':
            if e[1] in env:
                return env[e[1]]
            if e[1] == 'NULL':
                return None
            if e[1] in ('TRUE', 'FALSE'):
                return e[1] == 'TRUE'
            if e[1].startswith('MIR_'):
                return ('code', e[1][4:])
            raise Unsupported('non-static identifier ' + e[1])
        if k == 'cast':
            return self.static(e[2], env)
        if k == 'arrow' and e[1] == ('id', 'insn') and e[2] == 'code':
            return ('code', self.opcode)
        if k == 'bin':
            op = e[1]
            if op == '||':
                return bool(self.static(e[2], env)) or bool(self.static(e[3], env))
            if op == '&&':
                return bool(self.static(e[2], env)) and bool(self.static(e[3], env))
            a, b = self.static(e[2], env), self.static(e[3], env)
            if op == '==':
                return a == b
            if op == '!=':
                return a != b
            raise Unsupported('static operator ' + op)
        if k == 'un' and e[1] == '!':
            return not self.static(e[2], env)
        if k == 'cond':
            return self.static(e[2], env) if self.static(e[1], env) else self.static(e[3], env)
        if k == 'index' and e[1] == ('id', 'ops'):
            return ('op', self.static(e[2], env))
        raise Unsupported('non-static expression %r' % (e,))

    def fmt(self, f, args):
        out = ''
        i = 0
        ai = 0
        while i < len(f):
            if f[i] == '%':
                if f[i + 1] == '%':
                    out += '%'
                    i += 2
                    continue
                m = re.match(r'%(s|d)', f[i:])
                if not m:
                    raise Unsupported('format ' + f[i:i + 6])
                out += str(args[ai])
                ai += 1
                i += len(m.group(0))
            else:
                out += f[i]
                i += 1
        return out

    def stmt(self, s, env):
        k = s[0]
        if k == 'block':
            for x in s[1]:
                self.stmt(x, env)
        elif k == 'if':
            if self.static(s[1], env):
                self.stmt(s[2], env)
            elif s[3] is not None:
                self.stmt(s[3], env)
        elif k == 'expr':
            self.expr(s[1], env)
        elif k == 'decl':
            for name, ty, init in s[1]:
                env[name] = self.static(init, env) if init is not None else None
        elif k == 'break':
            pass
        else:
            raise Unsupported('statement ' + k)

    def expr(self, e, env):
        if e[0] == 'cast':      # ((void) 0) from mir_assert
            return
        if e[0] != 'call' or e[1][0] != 'id':
            raise Unsupported('expression statement %r' % (e[0],))
        f, args = e[1][1], e[2]
        if f in ('mir_assert', 'assert'):   # no output
            return
        if f == 'fprintf':
            a = [self.static(x, env) for x in args[1:]]
            if a and a[0] is self.src:
                pass
            self.out.append(self.fmt(a[0], a[1:]))
            return
        if f == 'out_op':
            op = self.static(args[2], env)
            if not (isinstance(op, tuple) and op[0] == 'op'):
                raise Unsupported('out_op of a non-operand')
            self.out.append('$%d' % op[1])
            return
        params, body = self.func(f)
        nenv = {}
        for (pn, pt), a in zip(params, args):
            if pn in ('ctx', 'f'):
                continue
            if pn == 'ops':
                nenv['ops'] = 'ops'
                continue
            nenv[pn] = self.static(a, env)
        for st in body:
            self.stmt(st, nenv)


def merge_strings(text):
    """adjacent string literals are concatenated by the tokenizer"""
    return text


def switch_groups(src):
    """[(labels, statement text)] of the switch (insn->code) of out_insn"""
    r = find_function(src, 'out_insn')
    if r is None:
        raise Unsupported('out_insn not found')
    body = r[1]
    m = re.search(r'switch\s*\(\s*insn->code\s*\)\s*\{', body)
    if not m:
        raise Unsupported('switch (insn->code) not found')
    i = m.end()
    depth = 1
    j = i
    while depth and j < len(body):
        depth += {'{': 1, '}': -1}.get(body[j], 0)
        j += 1
    toks = tokenize(merge_strings(body[i:j - 1]))
    groups = []
    k = 0
    while k < len(toks):
        labels = []
        while k < len(toks) and toks[k] in (('id', 'case'), ('id', 'default')):
            if toks[k][1] == 'default':
                labels.append('default')
                k += 2
            else:
                labels.append(toks[k + 1][1])
                k += 3
        st = []
        depth = 0
        while k < len(toks):
            t = toks[k]
            if depth == 0 and t in (('id', 'case'), ('id', 'default')):
                break          # fall-through into the next group is not used by mir2c; treat as end
            if t == ('op', '{'):
                depth += 1
            if t == ('op', '}'):
                depth -= 1
            st.append(t)
            k += 1
            if depth == 0 and t == ('op', ';') and len(st) >= 2 and st[-2] == ('id', 'break'):
                break
        groups.append((labels, st))
    return groups


def expr_to_cexpr(e, vart):
    k = e[0]
    if k == 'id':
        n = e[1]
        if re.match(r'^\$\d+$', n):
            i = int(n[1:])
            if vart.get(i) is None:
                raise Unsupported('operand %d has no value type' % i)
            return ('EVar', i, vart[i])
        if n == '__overflow':
            return ('EVar', 8, 'CI32')
        if n == '__uoverflow':
            return ('EVar', 9, 'CI32')
        raise Unsupported('identifier ' + n)
    if k == 'num':
        v, t = num_value(e[1])
        return ('EConst', v, t)
    if k == 'cast':
        return ('ECast', ctype_of(*e[1]), expr_to_cexpr(e[2], vart))
    if k == 'un':
        if e[1] == '+':
            return expr_to_cexpr(e[2], vart)
        return ('EUn', UNOPS[e[1]], expr_to_cexpr(e[2], vart))
    if k == 'bin':
        if e[1] not in BINOPS:
            raise Unsupported('operator ' + e[1])
        return ('EBin', BINOPS[e[1]], expr_to_cexpr(e[2], vart), expr_to_cexpr(e[3], vart))
    if k == 'cond':
        return ('ECond',) + tuple(expr_to_cexpr(x, vart) for x in e[1:])
    raise Unsupported('expression ' + k)


OVF_RE = re.compile(r'^(__u?overflow) = __builtin_(add|sub|mul)_overflow\(\(([\w ]+)\)\s*\$1, \(([\w ]+)\)\s*\$2, (?:\(([\w ]+) \*\)\s*)?&\s*(\$0|__\w+)\);$')
# scratch objects declared in the function prologue printed by out_item (checked by scratch_types)
SCRATCH_EXPECT = {'__res': 'int64_t', '__res32': 'int32_t', '__ures': 'uint64_t', '__ures32': 'uint32_t'}


def scratch_types(src):
    """C types of the scratch variables the function prologue declares (text of the fprintf strings)"""
    out = {}
    for m in re.finditer(r'\b(u?int(?:32|64)_t) (__u?res(?:32)?)\b', src):
        out[m.group(2)] = ctype_of(m.group(1))
    return out


def text_to_stmts(text, vart, scratch={}):
    """the C text printed for one instruction -> list of cstmt tuples"""
    out = []
    writer = {}     # scratch variable -> index of the builtin statement that wrote it last
    for line in [l.strip() for l in text.split('\n') if l.strip()]:
        try:
            m = OVF_RE.match(line)
            if m:
                t1, t2 = (ctype_of(x) for x in m.group(3, 4))
                dst = m.group(6)
                if m.group(5):
                    t3 = ctype_of(m.group(5))
                elif dst in scratch:
                    t3 = scratch[dst]
                else:
                    raise Unsupported('result object of unknown type: ' + dst)
                if dst != '$0':
                    writer[dst] = len(out)
                out.append(['SOvfB', BINOPS[{'add': '+', 'sub': '-', 'mul': '*'}[m.group(2)]], t3,
                            ('ECast', t1, ('EVar', 1, vart[1])), ('ECast', t2, ('EVar', 2, vart[2])),
                            8 if m.group(1) == '__overflow' else 9, dst == '$0'])
                continue
            m = re.match(r'^\$0 = (__\w+);$', line)
            if m and m.group(1) in writer:
                # the scratch result of that builtin is copied to the result operand: the builtin
                # statement becomes the storing one (assignment converts to the operand's type)
                i = writer.pop(m.group(1))
                if i != len(out) - 1:
                    raise Unsupported('result copied from a builtin that is not the last statement')
                out[i][6] = True
                continue
            m = re.match(r'^\$0 = (.*);$', line)
            if m:
                if vart.get(0) is None:
                    raise Unsupported('operand 0 is not a value')
                out.append(('SAssign', vart[0], expr_to_cexpr(parse_expr_text(m.group(1)), vart)))
                continue
            m = re.match(r'^if \((.*)\) goto \$0;$', line)
            if m:
                out.append(('SBranch', expr_to_cexpr(parse_expr_text(m.group(1)), vart)))
                continue
            if line == 'goto $0;':
                out.append(('SBranch', ('EConst', 1, 'CI32')))
                continue
            raise Unsupported('unrecognised statement')
        except Unsupported as e:
            out.append(('SUnknown', '%s: %s' % (e, line)))
    return out


def coq_stmt2(s):
    if s[0] == 'SOvfB':
        return '(SOvfB %s %s %s %s %d %s)' % (s[1], s[2], coq_expr(s[3]), coq_expr(s[4]), s[5], 'true' if s[6] else 'false')
    return coq_stmt(s)


def probe_texts(names):
    """what mir2c of the checked tree PRINTS for each opcode applied to registers (harness mode `probe`: one function per
    opcode holding just that instruction), operands renamed to $0 $1 $2 as in the symbolic texts; {} if the harness
    cannot be built or run"""
    try:
        exe = vlib.build_harness('c20_insn', ['c02_insn.c'], units=('mir', 'mir-gen', 'mir2c'), defs=['-DC02_WITH_MIR2C'])
        rc, out, err = vlib.sh([exe, 'probe'], input=('\n'.join(names) + '\n').encode(), timeout=300)
    except Exception:
        return {}
    if rc != 0:
        return {}
    texts = {}
    for m in re.finditer(r'\bpr_(\w+) \(void\) \{\n(.*?)\n\}', out, re.S):
        lines = m.group(2).split('\n')
        body = []
        started = False
        for l in lines:
            t = l.strip()
            if not started:
                started = t.startswith('const int LITLE_ENDIAN =')
                continue
            if t == 'return 0;' or re.match(r'^l\d+:$', t) or 'qb0' in t or not t:
                continue
            t = re.sub(r'\bqa([0-2])\b', r'$\1', t)
            t = re.sub(r'\bgoto l\d+;', 'goto $0;', t)
            body.append(t)
        texts[m.group(1)] = '\n'.join(body)
    return texts


def same_text(a, b):
    return re.sub(r'\s+', '', a or '') == re.sub(r'\s+', '', b or '')


NOTES = []


def translate(repo):
    src = preprocess(repo)
    scratch = scratch_types(src)
    modes = insn_modes(repo)
    ops = tr_opcodes.opcodes(repo)
    lim = ops.index('LADDR')
    required = [o for o in ops[:lim] if not o.startswith('ADDR')]
    rows = []
    texts = {}
    for labels, toks in switch_groups(src):
        names = [l[4:] for l in labels if l.startswith('MIR_')]
        names = [n for n in names if n in required]
        if not names:
            continue
        text = ' '.join(t[1] for t in toks)
        for n in names:
            vart = {i: MODE_CTY.get(m) for i, m in enumerate(modes.get(n, []))}
            try:
                stmts = parse_stmts(text, TYPEDEFS)
                p = Printer(src, n)
                for st in stmts:
                    p.stmt(st, {'ops': 'ops'})
                printed = ''.join(p.out)
                if printed.startswith('  '):
                    printed = printed[2:]
                texts[n] = printed
                rows.append((n, text_to_stmts(printed, vart, scratch)))
            except Unsupported as e:
                rows.append((n, [('SUnknown', '%s: %s' % (e, text[:80]))]))
            except (KeyError, IndexError, ValueError, TypeError) as e:
                rows.append((n, [('SUnknown', 'translator error %r: %s' % (e, text[:80]))]))
    # the symbolic printer is checked against (and, where it could not read the printing code, replaced by) what the
    # translator really prints for the instruction on registers
    del NOTES[:]
    probed = probe_texts(required)
    if probed:
        byop = dict(rows)
        replaced = []
        for n in required:
            pt = probed.get(n)
            if pt is None:
                continue
            st = byop.get(n)
            bad = st is None or any(x[0] == 'SUnknown' for x in st)
            if (bad and pt) or (not bad and not same_text(texts.get(n), pt)):
                vart = {i: MODE_CTY.get(m) for i, m in enumerate(modes.get(n, []))}
                byop[n] = text_to_stmts(pt, vart, scratch)
                texts[n] = pt
                replaced.append(n)
        if replaced:
            NOTES.append('%d rows read from the C text mir2c prints for the instruction on registers (printing code not in a form the '
                         'symbolic printer executes): %s' % (len(replaced), ' '.join(replaced[:12]) + (' ...' if len(replaced) > 12 else '')))
        rows = list(byop.items())
    order = {o: i for i, o in enumerate(ops)}
    rows.sort(key=lambda r: order[r[0]])
    return rows, texts


PROBE_CONSTS = [0, 1, -1, 127, -128, 2147483647, -2147483648, 2147483648, 4294967295, 9223372036854775807, -9223372036854775808,
                12345678901234567, -98765432109876543]
PROBE_UCONSTS = [0, 1, 4294967296, 9223372036854775807, 9223372036854775808, 18446744073709551615, 10000000000000000000]


def const_formats(src):
    """how out_op prints MIR_OP_INT / MIR_OP_UINT operands -> ('FmtD64' | 'FmtU64' | 'FmtOther') x 2.
    Read from the code (`case MIR_OP_INT: fprintf (f, "%" PRId64, op.u.i)`, PRId64 = "ld" here); when the printing code is
    not in that form, from what the checked tree's mir2c prints for boundary constants (harness emitc): the text must be
    exactly the %ld resp. %lu text of each probe constant (then the format is accepted with a note)"""
    out = []
    body = ''
    r = find_function(src, 'out_op')
    if r is not None:
        body = re.sub(r'"\s+"', '', r[1])          # adjacent string literals ("%" PRId64 after the preprocessor)
    names = {'%ld': 'FmtD64', '%lu': 'FmtU64'}
    for mode in ('MIR_OP_INT', 'MIR_OP_UINT'):
        m = re.search(r'case\s+%s\s*:\s*fprintf\s*\(\s*f\s*,\s*"([^"]*)"\s*,\s*op\.u\.[iu]\s*\)\s*;\s*break\s*;' % mode, body)
        out.append(names.get(m.group(1)) if m else None)      # op.u.i and op.u.u are the same 64 bits
    if None in out:
        probed = probe_consts()
        for k, (vals, tag) in enumerate(((PROBE_CONSTS, 'i'), (PROBE_UCONSTS, 'u'))):
            if out[k] is None:
                out[k] = 'FmtOther'
                for name, conv in (('FmtD64', lambda v: v - (1 << 64) if (v & ((1 << 64) - 1)) >> 63 and v >= 0 else v),
                                   ('FmtU64', lambda v: v & ((1 << 64) - 1))):
                    if probed is not None and all(probed.get((tag, v)) == str(conv(v)) for v in vals):
                        out[k] = name
                        NOTES.append('%s operands: format %s read from the printed text of %d boundary constants' % (
                            'MIR_OP_INT' if tag == 'i' else 'MIR_OP_UINT', name, len(vals)))
                        break
    return out


def probe_consts():
    """{(kind, value): text printed by the checked tree's mir2c for `mov r, <constant>`}"""
    try:
        exe = vlib.build_harness('c20_insn', ['c02_insn.c'], units=('mir', 'mir-gen', 'mir2c'), defs=['-DC02_WITH_MIR2C'])
        lines, keys = [], []
        for tag, vals in (('i', PROBE_CONSTS), ('u', PROBE_UCONSTS)):
            for v in vals:
                keys.append((tag, v))
                lines.append('k%d MOV ii- r %s:%x -' % (len(keys), tag, v & ((1 << 64) - 1)))
        cfile = os.path.join(vlib.BUILD, 'c20-constprobe-%d.c' % os.getpid())
        rc, out, err = vlib.sh([exe, 'emitc', cfile], input=('\n'.join(lines) + '\n').encode(), timeout=120)
        text = open(cfile).read()
        os.remove(cfile)
    except Exception:
        return None
    if rc != 0:
        return None
    res = {}
    for i, key in enumerate(keys):
        m = re.search(r'\bc20_k%d \(int64_t p\) \{\n(.*?)\n\}' % (i + 1), text, re.S)
        if not m:
            return None
        mm = re.search(r'^\s*r\d+ = (\S+);$', m.group(1), re.M)
        if not mm:
            return None
        res[key] = mm.group(1)
    return res


def emit(rows, fmts=('FmtOther', 'FmtOther')):
    s = '(* GENERATED on every run by tools/tr_c20_mir2c.py from mir2c/mir2c.c of the checked tree. *)\n'
    s += 'From Coq Require Import ZArith List String.\nFrom MirV Require Import Mir.Opcode Mir.DocSpec Mir.CExpr C20.ConstPrint C20.AddrPrint.\n'
    s += 'Import ListNotations.\nLocal Open Scope Z_scope.\nLocal Open Scope string_scope.\n\n'
    s += 'Definition mir2c_table : list (opcode * list cstmt) :=\n  [ '
    s += '\n  ; '.join('(%s, [%s])' % (o, '; '.join(coq_stmt2(x) for x in st)) for o, st in rows) + ' ].\n\n'
    s += '(* the conversion specifications out_op uses for MIR_OP_INT / MIR_OP_UINT operands *)\n'
    s += 'Definition mir2c_int_fmt : cfmt := %s.\nDefinition mir2c_uint_fmt : cfmt := %s.\n' % tuple(fmts)
    return s


def main():
    rows, texts = translate(vlib.REPO)
    out = os.path.join(vlib.COQDIR, 'gen', 'Mir2cTable.v')
    os.makedirs(os.path.dirname(out), exist_ok=True)
    fmts = const_formats(preprocess(vlib.REPO))
    txt = emit(rows, fmts)
    import tr_c20_addr          # memory operands: address forms, displacement format, object types (out_op)
    txt += tr_c20_addr.main(NOTES)[0]
    old = open(out).read() if os.path.exists(out) else None
    if old != txt:
        open(out + '.tmp%d' % os.getpid(), 'w').write(txt)
        os.rename(out + '.tmp%d' % os.getpid(), out)
    unk = [o for o, st in rows if any(x[0] == 'SUnknown' for x in st)]
    print('Mir2cTable: %d opcode rows, %d unknown%s%s' % (len(rows), len(unk), (': ' + ' '.join(unk[:8])) if unk else '',
                                                         ('; ' + '; '.join(NOTES)) if NOTES else ''))
    return rows, texts


if __name__ == '__main__':
    rows, texts = main()
    if '-v' in sys.argv:
        for k, v in texts.items():
            print(k, '=>', repr(v))

#!/usr/bin/env python3
"""C18 tie (round 3, wave 6): which fields of the context structs does the init function establish?

For each (file, struct, init function) the translator lists the struct's fields and, for every field, whether the init
function -- or a function it calls, transitively within the file -- stores to it: `p->F = ...`, `F = ...` through the
file's `#define F p->F` alias, or F handed to a creator (VARR_CREATE / HTAB_CREATE / DLIST_INIT / `&F` as an argument).
Output: coq/gen/C18CtxInit.v with one record per struct; coq/Properties_C18_CtxInit.v proves from it that every field
that is not in the audited list `deferred_fields` of coq/C18/CtxInitFacts.v (fields written by a later API call before
any read; DEFERRED below only mirrors it for the report) is written, and instantiates the HeapInit theorems.  Regenerated on every run from $VERIF_REPO."""
import os, re, sys

sys.path.insert(0, os.path.dirname(os.path.abspath(__file__)))
import vlib

TARGETS = [
    # file, struct, init function
    ('mir.c', 'MIR_context', '_MIR_init'),
    ('mir-gen.c', 'gen_ctx', 'MIR_gen_init'),
    ('mir-interp.c', 'interp_ctx', 'interp_init'),
]
# fields not written by the init function on purpose, with the reason (audited by reading; the heap-fill runs of
# checks/c18.py are the dynamic counterpart)
DEFERRED = {
    ('MIR_context', 'gen_ctx'): 'written by MIR_gen_init before any read (gen_ctx_loc); API misuse otherwise',
    ('MIR_context', 'c2mir_ctx'): 'written by c2mir_init before any read',
    # per-function working state of the generator: set by MIR_gen / generate_func_code at the start of every generation
    ('gen_ctx', 'curr_func_item'): 'set at the start of every generation',
    ('gen_ctx', 'curr_cfg'): 'set at the start of every generation',
    ('gen_ctx', 'curr_bb_index'): 'set at the start of every generation',
    ('gen_ctx', 'curr_loop_node_index'): 'set at the start of every generation',
    ('gen_ctx', 'full_escape_p'): 'set at the start of every generation',
    ('gen_ctx', 'func_stack_slots_num'): 'set at the start of every generation',
    ('interp_ctx', 'dispatch_label_tab'): 'filled by eval (ctx, NULL, ...) called from interp_init (direct threaded dispatch)',
    ('interp_ctx', 'global_regs'): 'values of global hard-register variables: the program stores before it reads (reading an unset one is the program\'s own undefined value)',
    ('interp_ctx', 'jret_addr'): 'assigned by the JRET insn before the only read',
    ('interp_ctx', 'trace_insn_ident'): 'MIR_INTERP_TRACE configuration only',
}


def strip_comments(s):
    s = re.sub(r'/\*.*?\*/', lambda m: ' ' * len(m.group(0)) if '\n' not in m.group(0) else re.sub(r'[^\n]', ' ', m.group(0)), s, flags=re.S)
    return re.sub(r'//[^\n]*', '', s)


def brace_block(s, start):
    """text between the '{' at/after start and its matching '}'"""
    i = s.index('{', start)
    d = 0
    for j in range(i, len(s)):
        if s[j] == '{':
            d += 1
        elif s[j] == '}':
            d -= 1
            if d == 0:
                return s[i + 1:j], j
    raise ValueError('unbalanced')


def struct_fields(src, name):
    m = re.search(r'\bstruct\s+%s\s*\{' % re.escape(name), src)
    if not m:
        return None
    body, _ = brace_block(src, m.start())
    # drop nested struct/union bodies, keep their declarators
    while True:
        k = body.find('{')
        if k < 0:
            break
        inner, e = brace_block(body, k)
        body = body[:k] + ' ' + body[e + 1:]
    body = re.sub(r'#[^\n]*', '', body)
    fields = []
    for decl in body.split(';'):
        decl = decl.strip()
        if not decl:
            continue
        # split declarators at depth 0
        parts, d, cur = [], 0, ''
        for ch in decl:
            if ch in '([':
                d += 1
            elif ch in ')]':
                d -= 1
            if ch == ',' and d == 0:
                parts.append(cur)
                cur = ''
            else:
                cur += ch
        parts.append(cur)
        for p in parts:
            p = re.sub(r'\[[^\]]*\]', '', p).strip()
            fp = re.search(r'\(\s*\*\s*(\w+)\s*\)\s*\(', p)     # function pointer
            if fp:
                fields.append(fp.group(1))
                continue
            p = re.sub(r':\s*\d+$', '', p)                     # bit-field width
            ids = re.findall(r'[A-Za-z_]\w*', p)
            if ids:
                fields.append(ids[-1])
    return fields


def functions(src):
    """name -> body for function definitions at file level (heuristic: identifier, parameter list, '{' at depth 0)"""
    out = {}
    for m in re.finditer(r'^[A-Za-z_][\w \t\*]*?\b(\w+)\s*\(([^;{}]*?)\)\s*\{', src, flags=re.M):
        try:
            body, _ = brace_block(src, m.end() - 1)
        except ValueError:
            continue
        if len(body) > len(out.get(m.group(1), '')) or m.group(1) not in out:   # stubs of disabled configurations are shorter
            out[m.group(1)] = body
    return out


def aliases(src, field_set):
    """macro name -> field for `#define M <expr>->F`"""
    al = {}
    for m in re.finditer(r'^#define\s+(\w+)\s+[\w>\-\.\(\) ]*?(?:->|\.)(\w+)\s*$', src, flags=re.M):
        if m.group(2) in field_set:
            al.setdefault(m.group(2), set()).add(m.group(1))
    return al


def written_in(body, names):
    for n in names:
        n = re.escape(n)
        pats = [r'(?:->|\.)\s*%s\s*=[^=]' % n, r'(?<![\w>.])%s\s*=[^=]' % n,
                r'\b(?:VARR_CREATE|HTAB_CREATE\w*|DLIST_INIT)\s*\([^;]*?[,(]\s*(?:\w+\s*->\s*)?%s\s*[,)]' % n,
                r'&\s*(?:\w+\s*->\s*)?%s\b' % n, r'(?:->|\.)\s*%s\s*(?:\.|->|\[)[^;=]*=[^=]' % n,
                r'(?<![\w>.])%s\s*(?:\.|->|\[)[^;=]*=[^=]' % n]
        if any(re.search(p, body) for p in pats):
            return True
    return False


def analyse(repo=None):
    repo = repo or vlib.REPO
    res = []
    for fn, st, init in TARGETS:
        src = strip_comments(open(os.path.join(repo, fn), errors='replace').read())
        # textual includes of target files matter for mir-gen.c (gen_ctx users) but the struct and init are in the file
        fields = struct_fields(src, st)
        funcs = functions(src)
        if fields is None or init not in funcs:
            res.append(dict(file=fn, struct=st, init=init, fields=[], written=[], deferred=[], missing=['<struct or init function not found>']))
            continue
        al = aliases(src, set(fields))
        # closure of functions called from init (within the file)
        seen, todo = [], [init]
        while todo:
            f = todo.pop()
            if f in seen:
                continue
            seen.append(f)
            for c in re.findall(r'\b(\w+)\s*\(', funcs[f]):
                if c in funcs and c not in seen and (c.endswith('init') or c.startswith('init') or 'create' in c or 'setup' in c or 'prepare' in c):
                    todo.append(c)
        text = '\n'.join(funcs[f] for f in seen)
        written, missing, deferred = [], [], []
        for f in fields:
            if written_in(text, {f} | al.get(f, set())):
                written.append(f)
            elif (st, f) in DEFERRED:
                deferred.append(f)
            else:
                missing.append(f)
        res.append(dict(file=fn, struct=st, init=init, fields=fields, written=written, deferred=deferred, missing=missing,
                        init_closure=seen))
    return res


def coq_list(xs):
    return '[' + '; '.join('"%s"' % x for x in xs) + ']'


def generate(repo=None):
    res = analyse(repo)
    out = ['(* generated by tools/tr_c18_ctxinit.py from %s -- do not edit *)' % ', '.join(t[0] for t in TARGETS),
           'From Coq Require Import List String.', 'Import ListNotations.', 'Local Open Scope string_scope.', '',
           'Record ctx_struct := { cs_name : string; cs_init : string; cs_fields : list string; cs_written : list string }.', '', 'Definition ctx_structs : list ctx_struct := [']
    items = []
    for r in res:
        items.append('  {| cs_name := "%s"; cs_init := "%s";\n     cs_fields := %s;\n     cs_written := %s |}' % (
            r['struct'], r['init'], coq_list(r['fields'] + [m for m in r['missing'] if m.startswith('<')]), coq_list(r['written'])))
    out.append(';\n'.join(items))
    out.append('].')
    d = os.path.join(vlib.COQDIR, 'gen')
    os.makedirs(d, exist_ok=True)
    p = os.path.join(d, 'C18CtxInit.v')
    txt = '\n'.join(out) + '\n'
    if not os.path.exists(p) or open(p).read() != txt:
        open(p, 'w').write(txt)
    return res


if __name__ == '__main__':
    for r in analyse(sys.argv[1] if len(sys.argv) > 1 else None):
        print(r['struct'], 'fields', len(r['fields']), 'written', len(r['written']), 'deferred', r['deferred'], 'MISSING', r['missing'])
        print('   init closure:', r.get('init_closure'))

# Seeded generator of C translation units for the C17 / C18 API histories (used by tools/gen_c17_scen.py and by the
# read-only-statics pass of checks/c18.py): where tools/gen_c17_csrc.py is a hand-written list of units, this one walks
# a typed grammar so that EVERY expression kind of c2mir's checker / generator is reached with many operand type
# combinations:
#   * arithmetic of every basic type, all unary / binary / assignment operators, casts, comparisons, logical operators,
#     comma, sizeof / _Alignof, _Generic, compound literals, struct / union / bit-field members, array subscripts, calls
#     (direct, through function pointers, through a conditional of function pointers);
#   * pointer-valued expressions of every qualification (char *, const char *, volatile int *, const volatile char *,
#     restrict, struct pointers, void *, const void *), void pointers from alloca / __builtin_alloca / label addresses /
#     casts / null constants, and CONDITIONAL EXPRESSIONS over every pair of them (same type, differently qualified,
#     object pointer vs void pointer, pointer vs null constant) -- the cases of C11 6.5.15p6;
#   * statements: if / for / while / do / switch with fall through / break / continue / goto forward, backward and INTO
#     loop bodies (irreducible control flow), computed goto through static (lref data) and automatic label tables.
# Every unit defines   long f@N@ (long n),   compiles without errors (warnings are possible and wanted), terminates
# (every loop and backward goto burns fuel) and has no trap: divisors are forced non-zero and positive or unsigned.
# The value returned depends on n only (never on addresses: pointers are only compared with each other / null).

ARITH_VARS = [('c', 'char'), ('sc', 'signed char'), ('uc', 'unsigned char'), ('sh', 'short'), ('us', 'unsigned short'),
              ('i', 'int'), ('u', 'unsigned'), ('l', 'long'), ('ul', 'unsigned long'), ('ll', 'long long'), ('bo', '_Bool')]
FLOAT_VARS = [('fl', 'float'), ('d', 'double'), ('ld', 'long double')]
INT_TYPES = [t for _, t in ARITH_VARS if t != '_Bool']
def _addr_of_scalar_ok():
    """`&scalar-local` in a function with a computed goto needs both halves of the mir-gen.c repair (3497c9bc =
    fixes/C17-4.patch: rename_bb_insn; fixes/C17-5.patch: make_conventional_ssa): until the tree under test has the
    second one the construct is left out (a -O2 code-generation crash is not what C17 / C18 are about)"""
    import os
    try:
        src = open(os.path.join(os.environ.get('VERIF_REPO', '/repo'), 'mir-gen.c'), errors='replace').read()
    except OSError:
        return False
    i = src.find('static void make_conventional_ssa')
    return i >= 0 and 'addr_regs' in src[i:i + 2500]


ADDR_OF_SCALAR = _addr_of_scalar_ok()   # see CGen.ptr_of
# pointer variables: name -> (declared type, pointee may be read as an integer)
PTR_VARS = {
    'pc': ('char *', True), 'pcc': ('const char *', True), 'pv': ('void *', False), 'pcv': ('const void *', False),
    'pvi': ('volatile int *', True), 'pl': ('long *', True), 'pcl': ('const long *', True),
    'pcvc': ('const volatile char *', True), 'pr': ('char *restrict', True), 'ps': ('struct s@N@ *', False),
    'pcs': ('const struct s@N@ *', False), 'pvv': ('volatile void *', False),
}


class CGen:
    def __init__(self, rng, nlabels):
        self.rng = rng
        self.nlabels = nlabels
        self.loop_depth = 0

    # ---------------------------------------------------------------- arithmetic expressions
    def const(self):
        r = self.rng
        return r.choice(['0', '1', '2', '7', '-1', '255', '1000', '0x7fffffff', '3u', '5l', '9ul', "'a'", "'\\n'", '1.5', '0.25f', '2.0L',
                         'sizeof (long)', 'sizeof (struct s@N@)', '_Alignof (double)', 'E1@N@', str(r.randrange(100000)), 'n'])

    def ivar(self):
        return self.rng.choice([v for v, _ in ARITH_VARS])

    def arith(self, d):
        """an expression of arithmetic type (integer or floating)"""
        r = self.rng
        if d <= 0 or r.random() < 0.22:
            return r.choice([self.const(), self.ivar(), self.ivar(), r.choice(['fl', 'd', 'ld']), 'n'])
        k = r.random()
        if k < 0.26:
            op = r.choice(['+', '-', '*', '+', '-'])
            return '(%s %s %s)' % (self.arith(d - 1), op, self.arith(d - 1))
        if k < 0.34:
            return self.intexp(d)
        if k < 0.42:
            op = r.choice(['<', '>', '<=', '>=', '==', '!='])
            return '(%s %s %s)' % (self.arith(d - 1), op, self.arith(d - 1))
        if k < 0.48:
            return '(%s %s %s)' % (self.arith(d - 1), r.choice(['&&', '||']), self.arith(d - 1))
        if k < 0.53:
            return '(%s %s)' % (r.choice(['-', '!', '+']), self.arith(d - 1))
        if k < 0.61:
            return '((%s) %s)' % (r.choice(INT_TYPES + ['float', 'double', 'long double', '_Bool', 'enum e@N@']), self.small(d - 1))
        if k < 0.68:
            return '(%s ? %s : %s)' % (self.arith(d - 1), self.arith(d - 1), self.arith(d - 1))
        if k < 0.71:
            return '(%s, %s)' % (self.arith(d - 1), self.arith(d - 1))
        if k < 0.80:
            return self.from_ptr(d)
        if k < 0.86:
            return self.call(d)
        if k < 0.90:
            return r.choice(['st.a', 'ps->a', 'st.arr[%s & 1]' % self.ivar(), 'ps->v', 'un.w', 'un.b[%s & 3]' % self.ivar(), 'bf.x', 'bf.y',
                             'pcs->arr[2]', 'larr[%s & 7]' % self.ivar(), 'darr[%s & 3]' % self.ivar(), 'cbuf[%s & 15]' % self.ivar(),
                             'mat[%s & 1][%s & 2]' % (self.ivar(), self.ivar())])
        if k < 0.93:
            return '_Generic (%s, int: 1, long: 2, unsigned: 3, double: 4, char: 5, default: 6)' % self.arith(d - 1)
        if k < 0.96:
            return r.choice(['((struct s@N@){%s, dflt@N@, {1, 2}, 3}).a' % self.small(d - 1), '((int[]){1, 2, %s})[%s & 1]' % (self.small(d - 1), self.ivar()),
                             '((union u@N@){.w = %s}).b[0]' % self.small(d - 1)])
        return r.choice(['sizeof (%s + 0)' % self.arith(d - 1), 'sizeof (%s)' % self.ptr(d - 1)[0], '(long) sizeof cbuf', '_Alignof (struct s@N@)'])

    def small(self, d):
        """arithmetic expression whose conversion to any type is harmless"""
        return self.arith(d)

    def intexp(self, d):
        """integer-only operators, divisors non-zero (unsigned, or positive: no INT_MIN / -1), shift counts masked"""
        r = self.rng
        a, b = self.intval(d - 1), self.intval(d - 1)
        k = r.random()
        if k < 0.25:
            return '(%s %s %s)' % (a, r.choice(['&', '|', '^']), b)
        if k < 0.45:
            return '((unsigned long) %s %s ((unsigned long) %s | 1))' % (a, r.choice(['/', '%']), b)
        if k < 0.6:
            return '(%s %s ((%s & 0x7fff) | 1))' % (a, r.choice(['/', '%']), b)
        if k < 0.8:
            return '((%s) %s %s (%s & 7))' % (r.choice(['unsigned', 'unsigned long', 'int', 'long', 'unsigned char']), a, r.choice(['<<', '>>']), b)
        return '(~%s)' % a

    def intval(self, d):
        r = self.rng
        if d <= 0 or r.random() < 0.4:
            return r.choice([self.ivar(), self.ivar(), str(r.randrange(1000)), 'n', 'E2@N@', 'st.arr[1]', 'bf.x'])
        return '((%s) %s)' % (r.choice(INT_TYPES), self.arith(d - 1))

    def from_ptr(self, d):
        """arithmetic values made from pointers without depending on addresses"""
        r = self.rng
        k = r.random()
        if k < 0.2:
            (a, _), (b, _) = self.ptr(d - 1), self.ptr(d - 1)
            return '((const volatile void *) %s %s (const volatile void *) %s)' % (a, r.choice(['==', '!=']), b)
        if k < 0.3:
            # without casts: a void pointer (alloca, label address, variable) against any object pointer or another void
            # pointer, a pointer against a null constant, pointers of one base type (also relational)
            q = r.random()
            if q < 0.5:
                a, b = self.void_producer(d - 1), self.ptr_of(r.choice(list(PTR_VARS)), d - 1)
                if r.random() < 0.5:
                    a, b = b, a
                return '(%s %s %s)' % (a, r.choice(['==', '!=']), b)
            if q < 0.7:
                return '(%s %s %s)' % (self.ptr(d - 1)[0], r.choice(['==', '!=']), r.choice(['0', '(void *) 0']))
            grp = r.choice([['pc', 'pcc', 'pcvc', 'pr'], ['pl', 'pcl'], ['pv', 'pcv', 'pvv']])
            return '(%s %s %s)' % (r.choice(grp), r.choice(['==', '!=', '<', '>=']), r.choice(grp))
        if k < 0.45:
            return '(%s%s)' % (r.choice(['!', '!!']), self.ptr(d - 1)[0])
        if k < 0.55:
            return '(%s ? %s : %s)' % (self.ptr(d - 1)[0], self.arith(d - 1), self.arith(d - 1))
        if k < 0.75:
            v = r.choice([v for v, (t, rd) in PTR_VARS.items() if rd])
            return r.choice(['*%s' % v, '%s[0]' % v, '*(%s + 0)' % v])
        if k < 0.85:
            return r.choice(['(long) (&larr[%s & 7] - larr)' % self.ivar(), '(pc + (%s & 7) - cbuf)' % self.ivar(), '(&cbuf[3] > &cbuf[%s & 1])' % self.ivar()])
        # a conditional of two pointers to readable objects of the same base type, dereferenced
        return r.choice(['*(%s ? pc : pcc)' % self.arith(d - 1), '*(%s ? pl : pcl)' % self.arith(d - 1), '*(%s ? pcvc : pc)' % self.arith(d - 1),
                         '(%s ? ps : pcs)->a' % self.arith(d - 1), '*(%s ? pr : cbuf + 1)' % self.arith(d - 1)])

    def call(self, d):
        r = self.rng
        k = r.random()
        if k < 0.3:
            return 'host_add (%s, %s)' % (self.intval(d - 1), self.intval(d - 1))
        if k < 0.5:
            return 'h1@N@ (%s, %s, %s)' % (self.arith(d - 1), self.arith(d - 1), r.choice(['pcc', 'dflt@N@', '"lit"', 'cbuf', '(%s ? pcc : pc)' % self.arith(d - 1)]))
        if k < 0.65:
            return 'h2@N@ (%s, %s)' % (r.choice(['st', '*ps', '*pcs']), self.ptr(d - 1)[0])
        if k < 0.8:
            return 'fp (%s, %s)' % (self.intval(d - 1), self.intval(d - 1))
        if k < 0.9:
            return '(%s ? host_add : hadd@N@) (%s, %s)' % (self.arith(d - 1), self.intval(d - 1), self.intval(d - 1))
        return '(*%s) (%s, 2)' % (r.choice(['fp', '&hadd@N@', 'hadd@N@']), self.intval(d - 1))

    # ---------------------------------------------------------------- pointer expressions
    def void_producer(self, d):
        r = self.rng
        return r.choice(['pv', 'alloca ((%s & 7) + 1)' % self.ivar(), '__builtin_alloca ((%s & 15) | 1)' % self.ivar(),
                         '&&L%d' % r.randrange(self.nlabels), '(void *) pc', '(void *) larr', 'pv', 'lab', 'labs_auto[%s & 1]' % self.ivar()])

    def ptr_of(self, kind, d):
        """a pointer expression convertible to variable `kind` without a constraint violation"""
        r = self.rng
        t = PTR_VARS[kind][0]
        opts = [kind, kind, kind + '2']   # <kind>2: the assignable twin (never dereferenced; the originals stay valid)
        if d > 0:
            if kind in ('pv', 'pcv', 'pvv'):
                # what converts to a void pointer may have any base type: one operand must be a void pointer itself
                a, b = r.choice([kind, kind + '2', self.void_producer(d - 1), '(%s) %s' % (t, self.ptr(d - 1)[0])]), self.ptr_of(kind, d - 1)
                if r.random() < 0.5:
                    a, b = b, a
                opts.append('(%s ? %s : %s)' % (self.arith(d - 1), a, b))
            else:
                opts.append('(%s ? %s : %s)' % (self.arith(d - 1), self.ptr_of(kind, d - 1), self.ptr_of(kind, d - 1)))
            opts.append('(%s ? %s : 0)' % (self.arith(d - 1), self.ptr_of(kind, d - 1)))
            opts.append('(%s ? (void *) 0 : %s)' % (self.arith(d - 1), self.ptr_of(kind, d - 1)))
            opts.append('(%s) %s' % (t.replace('restrict', ''), self.ptr(d - 1)[0]))
            opts.append('(%s, %s)' % (self.arith(d - 1), self.ptr_of(kind, d - 1)))
        if kind in ('pc', 'pcc', 'pcvc', 'pr'):
            opts += ['cbuf', '&cbuf[%s & 7]' % self.ivar(), '(%s + (%s & 3))' % ('pc' if kind != 'pcc' else kind, self.ivar())]
        if kind in ('pcc', 'pcvc'):
            opts += ['dflt@N@', '"text"', 'pc', 'st.p', '&dflt@N@[1]']
        if kind in ('pl', 'pcl'):
            # `&l` (address of a plain scalar local): together with a computed goto it tripped an assertion of mir-gen.c's
            # transform_addr at -O2 (fixes/C17-4.patch = /repo 3497c9bc and fixes/C17-5.patch; witnesses
            # corpus/c17_observed_gen_addr_assert*.c); ADDR_OF_SCALAR = False leaves it out
            opts += ['larr', '&larr[%s & 7]' % self.ivar(), '&larr[1]'] + (['&l'] if ADDR_OF_SCALAR else [])
        if kind == 'pcl':
            opts += ['ctab@N@', 'pl', '&ctab@N@[2]']
        if kind == 'pvi':
            opts += ['&vol@N@', '&vi']
        if kind in ('ps', 'pcs'):
            opts += ['&st', 'ps']
        if kind == 'pcs':
            opts += ['&cst@N@']
        if kind in ('pv', 'pvv'):
            opts += [self.void_producer(d), self.void_producer(d), 'pc', 'pl', 'ps', 'larr']
        if kind == 'pcv':
            opts += [self.void_producer(d), 'pcc', 'pcl', 'pv', 'dflt@N@', 'ctab@N@', 'pcs']
        if kind == 'pvv':
            opts += ['pvi', 'pv']
        return r.choice(opts)

    def ptr(self, d):
        """-> (expression, kind of a variable it may be assigned to).  Conditionals over EVERY pair of pointer kinds
        whose combination C11 6.5.15 allows: the result is assigned to a `const volatile void *`, which every object
        pointer converts to"""
        r = self.rng
        kinds = list(PTR_VARS)
        if d <= 0 or r.random() < 0.3:
            k = r.choice(kinds)
            return self.ptr_of(k, 0), k
        q = r.random()
        if q < 0.35:
            # one operand a void pointer (alloca, label address, cast, variable), the other a pointer to a (qualified) object type
            v = self.void_producer(d - 1) if r.random() < 0.75 else r.choice(['pv', 'pcv', 'pvv'])
            k = r.choice([x for x in kinds if x not in ('pv', 'pcv', 'pvv')] + ['pcc', 'pcl', 'pvi', 'pcvc'])
            o = self.ptr_of(k, d - 1)
            a, b = (v, o) if r.random() < 0.5 else (o, v)
            return '(%s ? %s : %s)' % (self.arith(d - 1), a, b), 'cvv'
        if q < 0.55:
            # the same base type, differently qualified
            grp = r.choice([['pc', 'pcc', 'pcvc', 'pr'], ['pl', 'pcl'], ['ps', 'pcs']])
            a, b = r.choice(grp), r.choice(grp)
            return '(%s ? %s : %s)' % (self.arith(d - 1), self.ptr_of(a, d - 1), self.ptr_of(b, d - 1)), 'cvv'
        if q < 0.65:
            k = r.choice(kinds)
            z = r.choice(['0', '(void *) 0', '0L'])
            a, b = (self.ptr_of(k, d - 1), z) if r.random() < 0.5 else (z, self.ptr_of(k, d - 1))
            return '(%s ? %s : %s)' % (self.arith(d - 1), a, b), k
        k = r.choice(kinds)
        return self.ptr_of(k, d), k

    # ---------------------------------------------------------------- statements
    def stmt(self, d, top=False):
        r = self.rng
        k = r.random()
        D = r.choice([1, 2, 2, 3])
        if d <= 0 or k < 0.30:
            q = r.random()
            if q < 0.35:
                return ['r %s (long) %s;' % (r.choice(['+=', '^=', '-=']), self.arith(D))]
            if q < 0.55:
                v, t = r.choice(ARITH_VARS + FLOAT_VARS)
                op = r.choice(['=', '=', '+=', '-=', '*='] + (['&=', '|=', '^=', '<<=', '>>='] if t in INT_TYPES else []))
                rhs = self.arith(D) if op not in ('<<=', '>>=') else '(%s & 7)' % self.ivar()
                if op in ('&=', '|=', '^='):
                    rhs = self.intval(D)
                return ['%s %s %s;' % (v, op, rhs)]
            if q < 0.62:
                v = r.choice([x for x, _ in ARITH_VARS if x != 'bo']) if r.random() < 0.8 else r.choice(['fl', 'd'])
                return [r.choice(['%s++;', '++%s;', '%s--;', '--%s;', 'r += %s++;', 'r += --%s;']) % v]
            if q < 0.85:
                e, kind = self.ptr(D)
                if kind in PTR_VARS and r.random() < 0.5:
                    return ['%s2 = %s;' % (kind, self.ptr_of(kind, D)), 'r += %s2 != 0;' % kind]
                return ['sink = %s;' % e, 'r += sink != 0;']
            if q < 0.92:
                return [r.choice(['st.a = %s;' % self.arith(D), 'ps->arr[%s & 1] = (int) %s;' % (self.ivar(), self.intval(D)), 'un.w = %s;' % self.intval(D),
                                  'bf.x = %s;' % self.intval(D), 'bf.y = %s;' % self.intval(D), 'st2 = st; st2.a++; r += st2.a;', 'st = *pcs;',
                                  'larr[%s & 7] = %s;' % (self.ivar(), self.intval(D)), 'cbuf[%s & 7] = (char) %s;' % (self.ivar(), self.intval(D)),
                                  'darr[%s & 3] = %s;' % (self.ivar(), self.arith(D)), 'vi = %s;' % self.intval(D), '*pvi = *pvi + 1;'])]
            return ['(void) %s;' % self.arith(D)]
        if k < 0.42:
            out = ['if (%s) {' % self.arith(D)] + ind(self.block(d - 1)) + ['}']
            if r.random() < 0.5:
                out[-1] = '} else {'
                out += ind(self.block(d - 1)) + ['}']
            return out
        if k < 0.55:
            c = 'k%d' % self.loop_depth
            if self.loop_depth >= 3:
                return self.stmt(0)
            self.loop_depth += 1
            q = r.random()
            if q < 0.4:
                out = ['for (%s = 0; %s < (%s & 3) + 1 && --fuel > 0; %s++) {' % (c, c, self.ivar(), c)]
            elif q < 0.7:
                out = ['while (--fuel > 0 && %s) {' % self.arith(D)]
            else:
                out = ['do {']
            out += ind(self.block(d - 1, in_loop=True))
            out += ['} while (--fuel > 0 && %s);' % self.arith(D)] if q >= 0.7 else ['}']
            self.loop_depth -= 1
            return out
        if k < 0.65:
            out = ['switch (%s & 7) {' % self.intval(D)]
            for cv in sorted(r.sample(range(8), r.choice([1, 2, 3, 5]))):
                out.append('case %d:' % cv)
                out += ind(self.block(d - 1, n=r.choice([0, 1, 2])) or [';'])   # a label needs a statement (C11)
                if r.random() < 0.7:
                    out.append('  break;')
            if r.random() < 0.6:
                out += ['default:'] + ind(self.block(d - 1, n=1))
            out.append('}')
            return out
        if k < 0.80:
            t = r.randrange(self.nlabels)
            q = r.random()
            if q < 0.6:
                return ['if (--fuel > 0 && %s) goto L%d;' % (self.arith(D), t)]
            if q < 0.8:
                return ['if (--fuel > 0) goto *tab[%s & %d];' % (self.ivar(), 1 if self.nlabels < 4 else 3)]
            return ['if (--fuel > 0 && %s) goto *labs_auto[%s & 1];' % (self.arith(1), self.ivar())]
        if k < 0.86 and self.loop_depth > 0:
            return ['if (%s) %s;' % (self.arith(D), r.choice(['break', 'continue']))]
        if k < 0.92:
            return ['{'] + ind(['long r2 = %s;' % self.arith(D), 'const char *q = %s;' % self.ptr_of('pcc', D),
                                'void *w = %s;' % self.void_producer(D), 'r += r2 + (q != 0) + (w != 0);']) + ['}']
        return self.stmt(0)

    def block(self, d, n=None, in_loop=False):
        out = []
        for _ in range(n if n is not None else self.rng.choice([1, 2, 2, 3])):
            out += self.stmt(d)
            if self.pending_labels and self.rng.random() < 0.35:
                out.append('L%d: ;' % self.pending_labels.pop())
        return out


def ind(lines):
    return ['  ' + l for l in lines]


PROLOGUE = """extern void *alloca (unsigned long);
extern long host_add (long, long);
enum e@N@ { E0@N@, E1@N@ = 5, E2@N@ = -3 };
struct s@N@ { long a; const char *p; int arr[2]; volatile short v; };
union u@N@ { unsigned w; unsigned char b[4]; };
struct b@N@ { unsigned x : 5; int y : 7; };
static const char dflt@N@[] = "default";
static volatile int vol@N@ = 3;
static const long ctab@N@[4] = {1, 2, 3, 4};
static const struct s@N@ cst@N@ = {9, dflt@N@, {7, 8}, 1};
static long hadd@N@ (long a, long b) { return a * 3 + b; }
static int h1@N@ (char a, double b, const char *s) { return a + (b > 1.0) + s[0]; }
static long h2@N@ (struct s@N@ s, const volatile void *p) { return s.a + s.arr[1] + (p != 0); }
long f@N@ (long n) {
  long r = 0, fuel = 40 + (n & 7), k0 = 0, k1 = 0, k2 = 0;
  char c = (char) n; signed char sc = -3; unsigned char uc = 200; short sh = (short) (n * 7); unsigned short us = 65000;
  int i = (int) n + 1; unsigned u = 4000000000u; long l = n * 1000003; unsigned long ul = ~0ul - (unsigned long) n; long long ll = -n; _Bool bo = n & 1;
  float fl = 1.5f; double d = (double) n / 4; long double ld = 2.5L;
  char cbuf[16] = "abcdefghijklmno"; long larr[8] = {1, 2, 3, 4, 5, 6, 7, 8}; double darr[4] = {0.5, 1.5, 2.5, 3.5}; int mat[2][3] = {{1, 2, 3}, {4, 5, 6}};
  volatile int vi = 2;
  struct s@N@ st = {n, dflt@N@, {1, 2}, 4}, st2, *ps = &st; const struct s@N@ *pcs = &cst@N@;
  union u@N@ un; struct b@N@ bf = {3, -2};
  char *pc = cbuf; const char *pcc = dflt@N@; void *pv = larr; const void *pcv = ctab@N@; volatile int *pvi = &vol@N@; long *pl = larr;
  const long *pcl = ctab@N@; const volatile char *pcvc = cbuf; char *restrict pr = cbuf + 2; volatile void *pvv = &vi;
  const volatile void *sink = 0;
  char *pc2 = 0; const char *pcc2 = 0; void *pv2 = 0; const void *pcv2 = 0; volatile int *pvi2 = 0; long *pl2 = 0; const long *pcl2 = 0;
  const volatile char *pcvc2 = 0; char *restrict pr2 = 0; struct s@N@ *ps2 = 0; const struct s@N@ *pcs2 = 0; volatile void *pvv2 = 0;
  long (*fp) (long, long) = hadd@N@;
  static void *const tab[] = {@TAB@};
  void *lab = &&L0, *labs_auto[2] = {&&L@LA@, &&L@LB@};
  un.w = 0x01020304u; st2 = st;
"""


def c_unit(rng, size=None):
    """-> (tag, source with @N@ placeholders, needed options)"""
    nl = rng.choice([2, 4, 4, 6])
    g = CGen(rng, nl)
    g.pending_labels = list(range(nl))
    rng.shuffle(g.pending_labels)
    body = []
    nst = size or rng.choice([3, 5, 8, 12])
    for _ in range(nst):
        body += g.stmt(rng.choice([1, 2, 2, 3]))
        if g.pending_labels and rng.random() < 0.4:
            body.append('L%d: ;' % g.pending_labels.pop())
    for t in g.pending_labels:
        body.append('L%d: ;' % t)
    ntab = 2 if nl < 4 else 4
    src = PROLOGUE.replace('@TAB@', ', '.join('&&L%d' % rng.randrange(nl) for _ in range(ntab)))
    src = src.replace('@LA@', str(rng.randrange(nl))).replace('@LB@', str(rng.randrange(nl)))
    src += '\n'.join(ind(body)) + '\n  return r + i + (long) u + l + c + sc + uc + sh + us + (long) d + bo + st.a + un.b[1] + bf.x;\n}\n'
    return 'cgen', src, ''


if __name__ == '__main__':
    import random, sys
    print(c_unit(random.Random(int(sys.argv[1]) if len(sys.argv) > 1 else 1))[1].replace('@N@', '7'))

# Seeded generator of API scripts for harness/c17_alloc.c and harness/c18_threads.c
# (script language: harness/c17_api.h).  All randomness comes from the rng passed in.
import binascii, re

MIX_OPT_CLASSES = False

# C translation units; every one defines  long f@N@ (long n)  and uses no external header file
# (c2mir's built-in <stdint.h>/<stddef.h>/<limits.h>/<stdarg.h> are strings inside c2mir.c)
C_POOL = [
    # 0: loop + macro + #if
    """#define SQ(x) ((x) * (x))
#define LIM 1000
#if LIM > 10 && defined(SQ)
#define STEP 1
#else
#define STEP 2
#endif
long f@N@ (long n) { long s = 0; for (long i = 0; i < n; i += STEP) s += SQ (i) % LIM; return s; }
""",
    # 1: recursion + static data + switch
    """static const int tab@N@[5] = {3, 1, 4, 1, 5};
static long fib@N@ (long n) { return n < 2 ? n : fib@N@ (n - 1) + fib@N@ (n - 2); }
long f@N@ (long n) {
  long r = 0;
  switch (n % 3) { case 0: r = tab@N@[n % 5]; break; case 1: r = fib@N@ (n % 15); break; default: r = -n; }
  return r + fib@N@ (10);
}
""",
    # 2: structs, pointers, nested macros with arguments, stringification
    """#include <stddef.h>
#define CAT(a, b) a##b
#define STR(x) #x
#define FIELD(s, f) ((s).f)
struct CAT (pt, @N@) { long x, y; char tag[8]; };
static long len@N@ (const char *s) { long n = 0; while (s[n]) n++; return n; }
long f@N@ (long n) {
  struct CAT (pt, @N@) p = {n, 2 * n, "ab"};
  struct CAT (pt, @N@) *q = &p;
  return FIELD (p, x) + q->y + len@N@ (STR (hello world)) + (long) offsetof (struct CAT (pt, @N@), tag) + len@N@ (p.tag);
}
""",
    # 3: floating point, unsigned arithmetic, stdint
    """#include <stdint.h>
long f@N@ (long n) {
  double d = 0.5; uint32_t u = 0xffffffffu; int64_t acc = 0;
  for (int i = 0; i < (int) (n % 50); i++) { d = d * 1.5 + i; u = u * 3u + (uint32_t) i; acc += (int64_t) (u >> 28); }
  return (long) d + acc;
}
""",
    # 4: function pointers, arrays on the stack, ternaries, do/while, goto
    """typedef long (*op@N@_t) (long, long);
static long add@N@ (long a, long b) { return a + b; }
static long mul@N@ (long a, long b) { return a * b; }
long f@N@ (long n) {
  op@N@_t ops[2] = {add@N@, mul@N@};
  long a[16], i = 0, r = 1;
  do { a[i & 15] = i; i++; } while (i < 16);
  i = 0;
again:
  r = ops[i & 1](r, a[(i + n) & 15] + 1) % 1000003;
  if (++i < 12) goto again;
  return r;
}
""",
    # 5: host calls through imports, string literals, global mutable data
    """extern long host_add (long, long);
extern long host_neg (long);
static long counter@N@ = 7;
static const char *msg@N@ = "allocator";
long f@N@ (long n) { counter@N@ += n; return host_add (host_neg (n), counter@N@) + msg@N@[n % 9]; }
""",
    # 6: variadic function, unions, bit-fields, comma, sizeof, conditional compilation with #elif / #ifdef nesting
    """#include <stdarg.h>
#ifdef NOT_DEFINED
#error unreachable
#elif defined(__x86_64__) || 1
#define W 8
#else
#define W 4
#endif
union u@N@ { long l; unsigned char b[8]; };
struct bf@N@ { unsigned a : 3, b : 5; int c : 9; };
static long sum@N@ (int k, ...) { va_list ap; long s = 0; va_start (ap, k); while (k-- > 0) s += va_arg (ap, long); va_end (ap); return s; }
long f@N@ (long n) {
  union u@N@ u; struct bf@N@ b = {5, 17, -3};
  u.l = n;
  return sum@N@ (3, n, (long) u.b[0], (long) sizeof (b)) + b.a + b.b + b.c + W;
}
""",
    # 7: many small macros expanded repeatedly (macro-call stack churn), nested includes of built-ins
    """#include <limits.h>
#include <stdint.h>
#define A(x) B (x) + 1
#define B(x) C (x) * 2
#define C(x) D (x) - 3
#define D(x) (x)
#define REP4(e) e, e, e, e
long f@N@ (long n) { long v[] = {REP4 (A (n)), REP4 (B (n)), REP4 (C (1))}; long s = 0; for (unsigned i = 0; i < sizeof (v) / sizeof (v[0]); i++) s += v[i]; return s + (INT_MAX > 0) + (UINT8_MAX == 255); }
""",
]

# MIR text modules; @N@ as above
MIR_POOL = [
    """m@N@: module
  export f@N@
f@N@: func i64, i64:n
  local i64:s, i64:i
  mov s, 0
  mov i, 0
  bge done, i, n
loop:
  add s, s, i
  add i, i, 1
  blt loop, i, n
done:
  ret s
  endfunc
  endmodule
""",
    """m@N@: module
  export f@N@
  import host_add
p@N@: proto i64, i64:a, i64:b
d@N@: i64 10, 20, 30
s@N@: string "text"
b@N@: bss 32
f@N@: func i64, i64:n
  local i64:t, i64:a
  mov a, d@N@
  mov t, i64:8(a)
  call p@N@, host_add, t, t, n
  mul t, t, 3
  ret t
  endfunc
  endmodule
""",
    """m@N@: module
  export f@N@
g@N@: func i64, i64:x
  local i64:r
  mul r, x, x
  ret r
  endfunc
pg@N@: proto i64, i64:x
f@N@: func i64, i64:n
  local i64:r, d:dd, i64:t
  call pg@N@, g@N@, r, n
  i2d dd, r
  dadd dd, dd, 0.5
  d2i r, dd
  and t, n, 1
  switch t, l0, l1
l0:
  add r, r, 100
l1:
  ret r
  endfunc
  endmodule
""",
]

# VARR growth while the array is not full (VARR_EXPAND / VARR_PUSH_ARR paths): a call with 70 arguments
# (interpreter argument arrays, FFI descriptors), very long register names in an inlined callee (temp_string,
# reg_name), so that realloc's old size (capacity) differs from the number of elements in use
_ARGS70 = ', '.join('i64:a%d' % i for i in range(70))
MIR_POOL.append("""m@N@: module
  export f@N@
  import host_add
ph@N@: proto i64, i64:a, i64:b
pg@N@: proto i64, %s
g@N@: func i64, %s
  local i64:r
  add r, a0, a69
  add r, r, a35
  ret r
  endfunc
f@N@: func i64, i64:n
  local i64:r, i64:t
  call pg@N@, g@N@, r, %s
  call ph@N@, host_add, t, r, n
  ret t
  endfunc
  endmodule
""" % (_ARGS70, _ARGS70, ', '.join(['n'] * 70)))
_LONG = 'v' * 93
MIR_POOL.append("""m@N@: module
  export f@N@
pg@N@: proto i64, i64:x
g@N@: func i64, i64:x
  local i64:%(L)s_a, i64:%(L)s_b
  mul %(L)s_a, x, 3
  add %(L)s_b, %(L)s_a, 1
  ret %(L)s_b
  endfunc
f@N@: func i64, i64:n
  local i64:r, i64:%(L)s_c
  inline pg@N@, g@N@, r, n
  add %(L)s_c, r, n
  inline pg@N@, g@N@, r, %(L)s_c
  ret r
  endfunc
  endmodule
""" % dict(L=_LONG))
C_POOL.append("""static long g@N@ (long a0, long a1, long a2, long a3, long a4, long a5, long a6, long a7, long a8, long a9,
  long b0, long b1, long b2, long b3, long b4, long b5, long b6, long b7, long b8, long b9) { return a0 + a9 * 2 + b0 * 3 + b9 * 5; }
long f@N@ (long %(L)s_n) {
  long %(L)s_local_variable_one = %(L)s_n + 1, %(L)s_local_variable_two = %(L)s_n * 2;
  return g@N@ (%(L)s_n, 1, 2, 3, 4, 5, 6, 7, 8, %(L)s_local_variable_one, %(L)s_local_variable_two, 1, 2, 3, 4, 5, 6, 7, 8, 9);
}
""" % dict(L='identifier_' + 'x' * 80))

# predefined macros / number and string formatting paths of the preprocessor, wide and escaped literals
C_POOL.append("""#define XSTR(x) #x
#define STR(x) XSTR (x)
static const char *where@N@ = __FILE__ ":" STR (__LINE__);
long f@N@ (long n) {
  const char *d = "Jan  1 2000", *t = "00:00:00", *fn = __func__; /* not __DATE__/__TIME__: the scripts' observable results must not depend on the clock */
  long line = __LINE__, ver = __STDC_VERSION__;
  double x = 1.5e3 + 0x1p4 + 017 + 'a' + '\\n' + sizeof (L"wide") + n;
  return line + (ver > 0) + d[0] * 0 + t[0] * 0 + fn[0] + where@N@[0] * 0 + (long) x + __LINE__;
}
""")

def stress_module(rng, name, nfunc):
    """MIR text: nfunc small functions of varied length, each calling a host function through one of several
    prototypes of different arity / argument types (distinct FFI stubs, thunks, shims and machine-code blobs of many
    different sizes: fills code holders up to their last bytes), all called from f<name>"""
    types = ['i64', 'i64', 'i64', 'd', 'f', 'u32', 'i8']
    protos = []
    for j in range(rng.choice([3, 6, 10])):
        k = rng.randrange(0, 11)
        protos.append([rng.choice(types) for _ in range(k)])
    L = ['m%s: module' % name, '  export f%s' % name, '  import host_add', 'ph%s: proto i64, i64:x' % name]
    for j, ts in enumerate(protos):
        L.append('p%s_%d: proto i64, i64:a, i64:b%s' % (name, j, ''.join(', %s:e%d' % (t, i) for i, t in enumerate(ts))))
    for i in range(nfunc):
        j = rng.randrange(len(protos))
        L += ['h%s_%d: func i64, i64:x' % (name, i), '  local i64:r, d:dd, f:ff', '  mov r, x', '  i2d dd, x', '  i2f ff, x']
        for _ in range(rng.randrange(0, 14)):
            L.append(rng.choice(['  add r, r, %d' % rng.randrange(1, 1 << rng.choice([3, 20, 40])), '  mul r, r, 3',
                                 '  xor r, r, x', '  lsh r, r, 1', '  dadd dd, dd, dd', '  sub r, r, x']))
        extra = ''.join(', ' + {'d': 'dd', 'f': 'ff'}.get(t, 'r') for t in protos[j])
        L += ['  call p%s_%d, host_add, r, r, x%s' % (name, j, extra), '  ret r', '  endfunc']
    L += ['f%s: func i64, i64:n' % name, '  local i64:s, i64:t', '  mov s, 0']
    for i in range(nfunc):
        L += ['  call ph%s, h%s_%d, t, n' % (name, name, i), '  add s, s, t']
    L += ['  ret s', '  endfunc', '  endmodule', '']
    return '\n'.join(L)


def hexs(s):
    return binascii.hexlify(s.encode()).decode()


class Scen:
    """one context's script; self.lines = list of api lines (without the ctx prefix)"""

    def __init__(self, rng, serial, n_modules=None, allow_read=False):
        self.rng, self.serial = rng, serial
        self.lines, self.funcs, self.kinds = [], [], []
        self.func_line = {}
        self.allow_read = allow_read
        self.nmod = n_modules or rng.choice([1, 1, 2, 3, 4])
        # Levels 0-1 and 2-3 are not mixed inside one MIR_gen_init..MIR_gen_finish session: raising the level
        # from <2 to >=2 crashes the register allocator (mir-gen.c assign(): busy_used_locs shorter than
        # used_locs) -- a defect of another property (reported to the coordinator), not an allocator-contract matter.
        self.opt_levels = rng.choice([[0, 1], [2, 3]]) if not MIX_OPT_CLASSES else [0, 1, 2, 3]
        self.build()

    def name(self):
        self.serial[0] += 1
        return str(self.serial[0])

    def add_module(self):
        rng = self.rng
        k = rng.random()
        if k < 0.45:
            i = rng.randrange(len(C_POOL))
            n = self.name()
            if not self.c2m_on:
                self.lines.append('c2m_init')
                self.c2m_on = True
            self.lines.append('c2m u%s.c %s' % (n, hexs(C_POOL[i].replace('@N@', n))))
            self.funcs.append(('f' + n, 'c%d' % i)); self.func_line['f' + n] = len(self.lines) - 1
            self.kinds.append('c2m')
            if rng.random() < 0.25:
                self.lines.append('c2m_finish')
                self.c2m_on = False
        elif k < 0.53:
            n = self.name()
            self.lines.append('scan ' + hexs(stress_module(rng, n, rng.choice([20, 60, 150]))))
            self.funcs.append(('f' + n, 'stress')); self.func_line['f' + n] = len(self.lines) - 1
            self.kinds.append('stress')
        elif k < 0.75:
            i = rng.randrange(len(MIR_POOL))
            n = self.name()
            self.lines.append('scan ' + hexs(MIR_POOL[i].replace('@N@', n)))
            self.funcs.append(('f' + n, 'm%d' % i)); self.func_line['f' + n] = len(self.lines) - 1
            self.kinds.append('scan')
        else:
            n = self.name()
            v = rng.randrange(4)
            self.lines.append('api %s %d' % (n, v))
            self.funcs.append(('apif' + n, 'a%d' % v)); self.func_line['apif' + n] = len(self.lines) - 1
            self.kinds.append('api')

    def run_funcs(self, iface):
        rng = self.rng
        for f, kind in rng.sample(self.funcs, min(len(self.funcs), rng.choice([1, 2, 3]))):
            arg = rng.choice([0, 1, 2, 7, 12, 33])
            # no explicit MIR_gen under the lazy-BB interface: after a function has run BB-wise its IR is left transformed
            # (MIR_gen then fails with "undeclared reg" or builds a CFG from stale label data -- wild writes under ASan);
            # a defect of another property (C16: generation can be repeated), reported to the coordinator
            how = rng.choice(['call', 'call', 'interp'] if iface == 'interp' else
                             ['call', 'call', 'gen'] if iface != 'lazybb' else ['call'])
            if how == 'gen':
                self.lines.append('gen %s' % f)
            self.lines.append('%s %s %d' % ('interp' if how == 'interp' else 'call', f, arg))

    def build(self):
        rng = self.rng
        self.c2m_on = False
        self.lines.append('init')
        for _ in range(self.nmod):
            self.add_module()
        if rng.random() < 0.3:
            self.lines.append('output')
        if rng.random() < 0.35:
            self.lines.append(rng.choice(['write', 'fwrite']))
            self.kinds.append('write')
        if rng.random() < 0.08 and not self.allow_read:
            # build-only history: never loaded
            self.finish()
            return
        self.lines.append('load')
        iface = rng.choice(['interp', 'gen', 'lazy', 'lazybb'])
        self.iface = iface
        gen_on = False
        if iface != 'interp' or rng.random() < 0.3:
            self.lines.append('gen_init')
            gen_on = True
            self.lines.append('opt %d' % rng.choice(self.opt_levels))
            self.kinds.append('gen')
        self.lines.append('link ' + iface)
        self.kinds.append('link-' + iface)
        self.run_funcs(iface)
        if rng.random() < 0.4:
            # a second wave of modules after the first link
            for _ in range(rng.choice([1, 2])):
                self.add_module()
            if gen_on and rng.random() < 0.5:
                self.lines.append('opt %d' % rng.choice(self.opt_levels))
            self.lines.append('load')
            self.lines.append('link ' + iface)
            self.run_funcs(iface)
        if rng.random() < 0.25:
            self.lines.append('output')
        if rng.random() < 0.2:
            self.lines.append('write')
        self.gen_on = gen_on
        self.finish()

    def finish(self):
        rng = self.rng
        tail = []
        if getattr(self, 'gen_on', False):
            tail.append('gen_finish')
        if self.c2m_on:
            tail.append('c2m_finish')
        rng.shuffle(tail)
        self.lines += tail + ['finish']


def reader_scenario(rng):
    """context 0 builds modules and writes them (binary); context 1 reads them back and runs them while
    context 0 is still alive or already finished"""
    serial = [0]
    a = Scen(rng, serial)
    if 'load' not in a.lines:
        return None
    al = list(a.lines)
    k = al.index('load')
    al.insert(k, 'write')
    iface = rng.choice(['interp', 'gen', 'lazy', 'lazybb'])
    bl = ['init', 'take 0', 'read', 'load']
    fin = ['finish']
    if iface != 'interp':
        bl += ['gen_init', 'opt %d' % rng.randrange(4)]  # one level per session
        fin = ['gen_finish', 'finish']
    bl.append('link ' + iface)
    # only functions that existed when the image was written
    for f, _ in a.funcs:
        if a.func_line[f] < k and rng.random() < 0.7:
            bl.append('call %s %d' % (f, rng.choice([0, 3, 9])))
    bl += fin
    out, i, j = [], 0, 0
    while i < len(al) or j < len(bl):
        if i <= k or (i < len(al) and rng.random() < 0.5) or j >= len(bl):
            if i < len(al):
                out.append('0 ' + al[i]); i += 1
                continue
        out.append('1 ' + bl[j]); j += 1
    return out, dict(ctxs=2, kinds=a.kinds + ['read', 'link-' + iface])


def scenario(rng, two_ctx_prob=0.3):
    """returns (list of '<ctx> <line>' script lines, summary dict)"""
    if rng.random() < 0.12:
        r = reader_scenario(rng)
        if r is not None:
            return r
    serial = [0]
    a = Scen(rng, serial)
    if rng.random() >= two_ctx_prob:
        return ['0 ' + l for l in a.lines], dict(ctxs=1, kinds=a.kinds)
    b = Scen(rng, serial)
    # random interleaving keeping each context's order
    out, i, j = [], 0, 0
    while i < len(a.lines) or j < len(b.lines):
        if j >= len(b.lines) or (i < len(a.lines) and rng.random() < 0.5):
            out.append('0 ' + a.lines[i]); i += 1
        else:
            out.append('1 ' + b.lines[j]); j += 1
    return out, dict(ctxs=2, kinds=a.kinds + b.kinds)


def fixed_scenarios():
    """hand-written histories that every run starts with: each source kind, each interface"""
    out = []
    n = [0]

    def nm():
        n[0] += 1
        return 'k%d' % n[0]
    for iface in ('interp', 'gen', 'lazy', 'lazybb'):
        for lvl in ((0, 2) if iface != 'interp' else (1,)):
            L = ['init', 'c2m_init']
            fs = []
            for i in range(len(C_POOL)):
                x = nm()
                L.append('c2m u%s.c %s' % (x, hexs(C_POOL[i].replace('@N@', x))))
                fs.append('f' + x)
            for i in range(len(MIR_POOL)):
                x = nm()
                L.append('scan ' + hexs(MIR_POOL[i].replace('@N@', x)))
                fs.append('f' + x)
            import random as _r
            x = nm()
            L.append('scan ' + hexs(stress_module(_r.Random(len(out)), x, 200)))
            fs.append('f' + x)
            L += ['api 900 1', 'output', 'write', 'read' if False else 'fwrite', 'load', 'gen_init', 'opt %d' % lvl,
                  'link ' + iface]
            fs.append('apif900')
            for f in fs:
                L.append(('interp %s 7' if iface == 'interp' else 'call %s 7') % f)
            L += ['gen_finish', 'c2m_finish', 'finish']
            out.append((['0 ' + l for l in L], dict(ctxs=1, kinds=['fixed-' + iface])))
    # binary round trip into a second context
    x = nm()
    L = ['0 init', '0 scan ' + hexs(MIR_POOL[1].replace('@N@', x)), '0 api 901 2', '0 write', '1 init', '1 take 0',
         '1 read', '1 load', '1 link interp', '1 interp f%s 5' % x, '1 interp apif901 9', '0 finish', '1 finish']
    out.append((L, dict(ctxs=2, kinds=['fixed-readwrite'])))
    return out


def valid(lines):
    """is the script a legal, error-free-by-construction API history?  (used when shrinking a failing
    script: a shrunk script must still be a history the property quantifies over)"""
    st = {}
    for l in lines:
        m = re.match(r'^(\d) (\S+)(?: (\S+))?(?: (\S+))?', l)
        if not m:
            return False
        c, cmd, a1, a2 = m.group(1), m.group(2), m.group(3), m.group(4)
        s = st.setdefault(c, dict(init=False, fin=False, c2m=False, gen=False, defined={}, nmod=0, loaded=0, linked=0,
                                  iface=None, wrote=False, have=False, optclass=None))
        if cmd == 'init':
            if s['init']:
                return False
            s['init'] = True
            continue
        if not s['init'] or s['fin']:
            return False
        if cmd == 'c2m_init':
            if s['c2m']:
                return False
            s['c2m'] = True
        elif cmd == 'c2m_finish':
            if not s['c2m']:
                return False
            s['c2m'] = False
        elif cmd == 'c2m':
            if not s['c2m'] or a1 is None:
                return False
            s['nmod'] += 1
            s['defined']['f' + a1[1:-2]] = s['nmod']
        elif cmd == 'scan':
            try:
                txt = binascii.unhexlify(a1).decode()
            except Exception:
                return False
            s['nmod'] += 1
            for f in re.findall(r'^(\w+):\s+func', txt, re.M):
                s['defined'][f] = s['nmod']
        elif cmd == 'api':
            s['nmod'] += 1
            s['defined']['apif' + a1] = s['nmod']
        elif cmd in ('write', 'fwrite'):
            s['wrote'] = cmd == 'write' or s['wrote']
        elif cmd == 'take':
            if a1 not in st or not st[a1]['wrote']:
                return False
            s['have'] = True
            s['taken'] = dict(st[a1]['defined'])
        elif cmd == 'read':
            if not s['have']:
                return False
            s['nmod'] += 1
            for f in s['taken']:
                s['defined'][f] = s['nmod']
        elif cmd == 'output':
            pass
        elif cmd == 'load':
            s['loaded'] = s['nmod']
        elif cmd == 'gen_init':
            if s['gen']:
                return False
            s['gen'] = True
            s['optclass'] = None
        elif cmd == 'gen_finish':
            if not s['gen']:
                return False
            s['gen'] = False
        elif cmd == 'opt':
            if not s['gen']:
                return False
            k = int(a1) >= 2
            if s['optclass'] is not None and s['optclass'] != k and not MIX_OPT_CLASSES:
                return False
            s['optclass'] = k
        elif cmd == 'link':
            if a1 != 'interp' and not s['gen']:
                return False
            if s['iface'] is not None and s['iface'] != a1:
                return False
            s['iface'] = a1
            s['linked'] = s['loaded']
        elif cmd in ('call', 'interp', 'gen'):
            if s['defined'].get(a1, 10 ** 9) > s['linked']:
                return False
            if cmd == 'gen' and (not s['gen'] or s['iface'] == 'lazybb'):
                return False
            if cmd == 'interp' and s['iface'] != 'interp':
                return False
            if cmd == 'call' and s['iface'] != 'interp' and not s['gen']:
                return False
        elif cmd == 'finish':
            if s['gen'] or s['c2m']:
                return False
            s['fin'] = True
        else:
            return False
    return True


def ch_script(rng, nops):
    """ops for the code-holder correspondence (harness ch_* commands / driver CH lines)"""
    ops, blob_len = [], []
    pending_new = None
    for _ in range(nops):
        k = rng.random()
        usable = [i for i, l in enumerate(blob_len) if l > 0]
        if pending_new is not None and k < 0.7:
            if rng.random() < 0.8 and pending_new >= 1:
                # zero-length publications are never made by the library and store an 8-byte pointer (reloc_size 0
                # in _MIR_set_code) that may run past the holder: excluded here and by the theorem's precondition
                L = rng.randrange(1, pending_new + 1)
                ops.append('puba %d' % L)
                blob_len.append(L)
            else:
                ops.append('pubax %d' % rng.randrange(0, 64))
            pending_new = None
        elif k < 0.45 or not usable:
            L = rng.choice([1, 1, 5, 15, 16, 17, 37, 100, 255, 1000, 4000, 4081, 4095, 4096, 4097, 8192, 12000,
                            rng.randrange(1, 600), rng.randrange(1, 600), rng.randrange(1, 6000)])
            ops.append('pub %d' % L)
            blob_len.append(L)
            pending_new = None
        elif k < 0.58:
            S = rng.choice([0, 1, 16, 100, 3000, 4096, 5000, rng.randrange(1, 5000)])
            ops.append('new %d' % S)
            pending_new = S
        elif k < 0.85:
            K = rng.choice(usable)
            ln = max(1, min(blob_len[K], rng.choice([1, 4, 6, 8, 8, 13, 300])))
            off = rng.randrange(0, blob_len[K] - ln + 1)
            ops.append('chg %d %d %d' % (K, off, ln))
            pending_new = None
        else:
            big = [i for i in usable if blob_len[i] >= 8]
            if not big:
                continue
            K = rng.choice(big)
            offs = [rng.randrange(0, blob_len[K] - 7) for _ in range(rng.randrange(0, 5))]
            ops.append('upd %d %s' % (K, ' '.join(map(str, offs))))
            pending_new = None
    return ops

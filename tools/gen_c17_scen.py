# Seeded generator of API scripts for harness/c17_alloc.c and harness/c18_threads.c
# (script language: harness/c17_api.h).  All randomness comes from the rng passed in.
import binascii, re
import gen_c17_csrc as CS
import gen_c17_cfg as CFG
import gen_c17_cgen as CG
import gen_c17_decl as DCL
import gen_c17_cpp as CPP
import gen_c17_inl as INL

MIX_OPT_CLASSES = True
def debug_ok(src):
    """option d with wide / UTF-16 / UTF-32 string literals: fine since /repo 78890ed8 (print_chars16/32)"""
    return True


EXCLUDE_TAGS = set()   # tags of gen_c17_csrc units a caller wants left out (none at present)

# C translation units; every one defines  long f@N@ (long n)  and uses no external header file
# (c2mir's built-in <stdint.h>/<stddef.h>/<limits.h>/<stdarg.h> are strings inside c2mir.c)
C_POOL = [
    # 0: loop + macro + #if
    """#define SQ(x) ((x) * (x))
#define LIM 1000
#if LIM > 10 && defined(SQ)
#define STEP 1
#else
#define STEP 2
#endif
long f@N@ (long n) { long s = 0; for (long i = 0; i < n; i += STEP) s += SQ (i) % LIM; return s; }
""",
    # 1: recursion + static data + switch
    """static const int tab@N@[5] = {3, 1, 4, 1, 5};
static long fib@N@ (long n) { return n < 2 ? n : fib@N@ (n - 1) + fib@N@ (n - 2); }
long f@N@ (long n) {
  long r = 0;
  switch (n % 3) { case 0: r = tab@N@[n % 5]; break; case 1: r = fib@N@ (n % 15); break; default: r = -n; }
  return r + fib@N@ (10);
}
""",
    # 2: structs, pointers, nested macros with arguments, stringification
    """#include <stddef.h>
#define CAT(a, b) a##b
#define STR(x) #x
#define FIELD(s, f) ((s).f)
struct CAT (pt, @N@) { long x, y; char tag[8]; };
static long len@N@ (const char *s) { long n = 0; while (s[n]) n++; return n; }
long f@N@ (long n) {
  struct CAT (pt, @N@) p = {n, 2 * n, "ab"};
  struct CAT (pt, @N@) *q = &p;
  return FIELD (p, x) + q->y + len@N@ (STR (hello world)) + (long) offsetof (struct CAT (pt, @N@), tag) + len@N@ (p.tag);
}
""",
    # 3: floating point, unsigned arithmetic, stdint
    """#include <stdint.h>
long f@N@ (long n) {
  double d = 0.5; uint32_t u = 0xffffffffu; int64_t acc = 0;
  for (int i = 0; i < (int) (n % 50); i++) { d = d * 1.5 + i; u = u * 3u + (uint32_t) i; acc += (int64_t) (u >> 28); }
  return (long) d + acc;
}
""",
    # 4: function pointers, arrays on the stack, ternaries, do/while, goto
    """typedef long (*op@N@_t) (long, long);
static long add@N@ (long a, long b) { return a + b; }
static long mul@N@ (long a, long b) { return a * b; }
long f@N@ (long n) {
  op@N@_t ops[2] = {add@N@, mul@N@};
  long a[16], i = 0, r = 1;
  do { a[i & 15] = i; i++; } while (i < 16);
  i = 0;
again:
  r = ops[i & 1](r, a[(i + n) & 15] + 1) % 1000003;
  if (++i < 12) goto again;
  return r;
}
""",
    # 5: host calls through imports, string literals, global mutable data
    """extern long host_add (long, long);
extern long host_neg (long);
static long counter@N@ = 7;
static const char *msg@N@ = "allocator";
long f@N@ (long n) { counter@N@ += n; return host_add (host_neg (n), counter@N@) + msg@N@[n % 9]; }
""",
    # 6: variadic function, unions, bit-fields, comma, sizeof, conditional compilation with #elif / #ifdef nesting
    """#include <stdarg.h>
#ifdef NOT_DEFINED
#error unreachable
#elif defined(__x86_64__) || 1
#define W 8
#else
#define W 4
#endif
union u@N@ { long l; unsigned char b[8]; };
struct bf@N@ { unsigned a : 3, b : 5; int c : 9; };
static long sum@N@ (int k, ...) { va_list ap; long s = 0; va_start (ap, k); while (k-- > 0) s += va_arg (ap, long); va_end (ap); return s; }
long f@N@ (long n) {
  union u@N@ u; struct bf@N@ b = {5, 17, -3};
  u.l = n;
  return sum@N@ (3, n, (long) u.b[0], (long) sizeof (b)) + b.a + b.b + b.c + W;
}
""",
    # 7: many small macros expanded repeatedly (macro-call stack churn), nested includes of built-ins
    """#include <limits.h>
#include <stdint.h>
#define A(x) B (x) + 1
#define B(x) C (x) * 2
#define C(x) D (x) - 3
#define D(x) (x)
#define REP4(e) e, e, e, e
long f@N@ (long n) { long v[] = {REP4 (A (n)), REP4 (B (n)), REP4 (C (1))}; long s = 0; for (unsigned i = 0; i < sizeof (v) / sizeof (v[0]); i++) s += v[i]; return s + (INT_MAX > 0) + (UINT8_MAX == 255); }
""",
]

# MIR text modules; @N@ as above
MIR_POOL = [
    """m@N@: module
  export f@N@
f@N@: func i64, i64:n
  local i64:s, i64:i
  mov s, 0
  mov i, 0
  bge done, i, n
loop:
  add s, s, i
  add i, i, 1
  blt loop, i, n
done:
  ret s
  endfunc
  endmodule
""",
    """m@N@: module
  export f@N@
  import host_add
p@N@: proto i64, i64:a, i64:b
d@N@: i64 10, 20, 30
s@N@: string "text"
b@N@: bss 32
f@N@: func i64, i64:n
  local i64:t, i64:a
  mov a, d@N@
  mov t, i64:8(a)
  call p@N@, host_add, t, t, n
  mul t, t, 3
  ret t
  endfunc
  endmodule
""",
    """m@N@: module
  export f@N@
g@N@: func i64, i64:x
  local i64:r
  mul r, x, x
  ret r
  endfunc
pg@N@: proto i64, i64:x
f@N@: func i64, i64:n
  local i64:r, d:dd, i64:t
  call pg@N@, g@N@, r, n
  i2d dd, r
  dadd dd, dd, 0.5
  d2i r, dd
  and t, n, 1
  switch t, l0, l1
l0:
  add r, r, 100
l1:
  ret r
  endfunc
  endmodule
""",
]

# VARR growth while the array is not full (VARR_EXPAND / VARR_PUSH_ARR paths): a call with 70 arguments
# (interpreter argument arrays, FFI descriptors), very long register names in an inlined callee (temp_string,
# reg_name), so that realloc's old size (capacity) differs from the number of elements in use
_ARGS70 = ', '.join('i64:a%d' % i for i in range(70))
MIR_POOL.append("""m@N@: module
  export f@N@
  import host_add
ph@N@: proto i64, i64:a, i64:b
pg@N@: proto i64, %s
g@N@: func i64, %s
  local i64:r
  add r, a0, a69
  add r, r, a35
  ret r
  endfunc
f@N@: func i64, i64:n
  local i64:r, i64:t
  call pg@N@, g@N@, r, %s
  call ph@N@, host_add, t, r, n
  ret t
  endfunc
  endmodule
""" % (_ARGS70, _ARGS70, ', '.join(['n'] * 70)))
_LONG = 'v' * 93
MIR_POOL.append("""m@N@: module
  export f@N@
pg@N@: proto i64, i64:x
g@N@: func i64, i64:x
  local i64:%(L)s_a, i64:%(L)s_b
  mul %(L)s_a, x, 3
  add %(L)s_b, %(L)s_a, 1
  ret %(L)s_b
  endfunc
f@N@: func i64, i64:n
  local i64:r, i64:%(L)s_c
  inline pg@N@, g@N@, r, n
  add %(L)s_c, r, n
  inline pg@N@, g@N@, r, %(L)s_c
  ret r
  endfunc
  endmodule
""" % dict(L=_LONG))
C_POOL.append("""static long g@N@ (long a0, long a1, long a2, long a3, long a4, long a5, long a6, long a7, long a8, long a9,
  long b0, long b1, long b2, long b3, long b4, long b5, long b6, long b7, long b8, long b9) { return a0 + a9 * 2 + b0 * 3 + b9 * 5; }
long f@N@ (long %(L)s_n) {
  long %(L)s_local_variable_one = %(L)s_n + 1, %(L)s_local_variable_two = %(L)s_n * 2;
  return g@N@ (%(L)s_n, 1, 2, 3, 4, 5, 6, 7, 8, %(L)s_local_variable_one, %(L)s_local_variable_two, 1, 2, 3, 4, 5, 6, 7, 8, 9);
}
""" % dict(L='identifier_' + 'x' * 80))

# predefined macros / number and string formatting paths of the preprocessor, wide and escaped literals
C_POOL.append("""#define XSTR(x) #x
#define STR(x) XSTR (x)
static const char *where@N@ = __FILE__ ":" STR (__LINE__);
long f@N@ (long n) {
  const char *d = "Jan  1 2000", *t = "00:00:00", *fn = __func__; /* not __DATE__/__TIME__: the scripts' observable results must not depend on the clock */
  long line = __LINE__, ver = __STDC_VERSION__;
  double x = 1.5e3 + 0x1p4 + 017 + 'a' + '\\n' + sizeof (L"wide") + n;
  return line + (ver > 0) + d[0] * 0 + t[0] * 0 + fn[0] + where@N@[0] * 0 + (long) x + __LINE__;
}
""")

def stress_module(rng, name, nfunc):
    """MIR text: nfunc small functions of varied length, each calling a host function through one of several
    prototypes of different arity / argument types (distinct FFI stubs, thunks, shims and machine-code blobs of many
    different sizes: fills code holders up to their last bytes), all called from f<name>"""
    types = ['i64', 'i64', 'i64', 'd', 'f', 'u32', 'i8']
    protos = []
    for j in range(rng.choice([3, 6, 10])):
        k = rng.randrange(0, 11)
        protos.append([rng.choice(types) for _ in range(k)])
    L = ['m%s: module' % name, '  export f%s' % name, '  import host_add', 'ph%s: proto i64, i64:x' % name]
    for j, ts in enumerate(protos):
        L.append('p%s_%d: proto i64, i64:a, i64:b%s' % (name, j, ''.join(', %s:e%d' % (t, i) for i, t in enumerate(ts))))
    for i in range(nfunc):
        j = rng.randrange(len(protos))
        L += ['h%s_%d: func i64, i64:x' % (name, i), '  local i64:r, d:dd, f:ff', '  mov r, x', '  i2d dd, x', '  i2f ff, x']
        for _ in range(rng.randrange(0, 14)):
            L.append(rng.choice(['  add r, r, %d' % rng.randrange(1, 1 << rng.choice([3, 20, 40])), '  mul r, r, 3',
                                 '  xor r, r, x', '  lsh r, r, 1', '  dadd dd, dd, dd', '  sub r, r, x']))
        extra = ''.join(', ' + {'d': 'dd', 'f': 'ff'}.get(t, 'r') for t in protos[j])
        L += ['  call p%s_%d, host_add, r, r, x%s' % (name, j, extra), '  ret r', '  endfunc']
    L += ['f%s: func i64, i64:n' % name, '  local i64:s, i64:t', '  mov s, 0']
    for i in range(nfunc):
        L += ['  call ph%s, h%s_%d, t, n' % (name, name, i), '  add s, s, t']
    L += ['  ret s', '  endfunc', '  endmodule', '']
    return '\n'.join(L)


def hexs(s):
    return binascii.hexlify(s.encode()).decode()


class Scen:
    """one context's script; self.lines = list of api lines (without the ctx prefix).
    threads=True (C18): the script may continue, after MIR_finish, with a second context created by the same
    thread that reads back the binary image the first one wrote."""

    IFACES = ['interp', 'gen', 'lazy', 'lazybb']

    def __init__(self, rng, serial, n_modules=None, allow_read=False, threads=False):
        self.rng, self.serial = rng, serial
        self.lines, self.funcs, self.kinds = [], [], []
        self.func_line = {}
        self.allow_read = allow_read
        self.threads = threads
        self.nmod = n_modules or rng.choice([1, 1, 2, 3, 4])
        self.mods = []          # per module: list of callable function names ([] for a module without f)
        self.image = None       # (kind, [functions callable after reading it back]) of the last binary image written
        self.headers_done = False
        self.labval = False     # some C unit of the context takes label addresses into static data (lref items)
        # Optimisation levels are mixed freely inside one MIR_gen_init session (the defect that forbade raising the
        # level from <2 to >=2 was fixed in /repo, 32f1502a).
        self.opt_levels = [0, 1, 2, 3] if MIX_OPT_CLASSES else rng.choice([[0, 1], [2, 3]])
        self.build()

    def name(self):
        self.serial[0] += 1
        return str(self.serial[0])

    def _c2m_on(self):
        if not self.c2m_on:
            self.lines.append('c2m_init')
            self.c2m_on = True

    def _new_func(self, f, kind):
        self.funcs.append((f, kind))
        self.func_line[f] = len(self.lines) - 1
        self.mods.append([f])

    def add_c_module(self):
        rng = self.rng
        n = self.name()
        extra = []
        q = rng.random()
        if rng.random() < 0.16:
            # a generated preprocessor-heavy unit: function-like macros with 0 / 1 / n / variadic parameters called with
            # no, empty, white-space and nested arguments, #undef / redefinition, conditional groups, #include, # and ##
            # (the blocks c2mir's preprocessor owns per macro, per macro call and per argument; tools/gen_c17_cpp.py)
            tag, src, need = CPP.cpp_unit(rng)
            kind = 'c:cpp'
        elif q < 0.14:
            # a generated unit of declaration histories: identifiers declared again and again (incomplete then complete
            # array types, tentative definitions, extern / static / definition in every order, tags completed later,
            # typedef repeats, block-scope externs: every branch of c2mir's def_symbol; tools/gen_c17_decl.py)
            tag, src, need = DCL.c_redecl_unit(rng)
            kind = 'c:redecl'
        elif q < 0.3:
            # a generated unit: every expression kind x operand type combination (conditionals over void / qualified
            # pointers, alloca, label addresses ...), goto into loops, computed goto (tools/gen_c17_cgen.py)
            tag, src, need = CG.c_unit(rng)
            kind = 'c:cgen'
        elif q < 0.65:
            tag, src, need = rng.choice([u for u in CS.UNITS if u[0] not in EXCLUDE_TAGS])
            kind = 'c:' + tag
        else:
            i = rng.randrange(len(C_POOL))
            tag, src, need = 'c%d' % i, C_POOL[i], ''
            kind = 'c%d' % i
        if LABEL_VALUE.search(src):
            self.labval = True
        if 'I' in need.split(',') and not self.headers_done:
            for hn in sorted(CS.HEADERS):
                self.lines.append('file %s %s' % (hn, hexs(CS.HEADERS[hn])))
            self.headers_done = True
        self._c2m_on()
        if rng.random() < 0.12:
            # a compilation that produces no module: preprocess only / syntax check only
            self.lines.append('c2mo p%s.c %s %s' % (n, ','.join([x for x in [need.replace('@N@', n)] if x] + [rng.choice(['E', 'S'])]),
                                                   hexs(src.replace('@N@', n))))
            self.kinds.append('c2m-nomodule')
            n = self.name()
        if rng.random() < 0.35:
            extra = rng.sample(['v', 'd', 'w', 'asm', 'obj'], rng.choice([1, 1, 2]))
            if 'asm' in extra and 'obj' in extra:
                extra.remove('obj')
            if 'd' in extra and not debug_ok(src):
                extra.remove('d')
        opts = ','.join([x for x in [need.replace('@N@', n)] if x] + extra)
        if opts:
            self.lines.append('c2mo u%s.c %s %s' % (n, opts, hexs(src.replace('@N@', n))))
        else:
            self.lines.append('c2m u%s.c %s' % (n, hexs(src.replace('@N@', n))))
        self._new_func('f' + n, kind)
        self.kinds.append('c2m')
        self.kinds.append(kind)
        for x in extra:
            self.kinds.append('c2m-opt-' + x)
        if rng.random() < 0.25:
            self.lines.append('c2m_finish')
            self.c2m_on = False

    def add_module(self):
        rng = self.rng
        k = rng.random()
        if k < 0.5:
            self.add_c_module()
        elif k < 0.55:
            n = self.name()
            self.lines.append('scan ' + hexs(stress_module(rng, n, rng.choice([20, 60, 150]))))
            self._new_func('f' + n, 'stress')
            self.kinds.append('stress')
        elif k < 0.65:
            # a module of declaration histories: export / forward before and after the definitions, repeated, in every
            # order, imports repeated, names used while only declared -- as MIR text or through the construction API
            n = self.name()
            shape = rng.choice([None, None, 'export-after', 'forward-first'])
            ops, fs = DCL.decl_module(rng, n, shape)
            if rng.random() < 0.5:
                self.lines.append('scan ' + hexs(DCL.to_text(ops, n, rng)))
                self.kinds.append('decl-text')
            else:
                self.lines.append('apim %s %s' % (n, DCL.to_api(ops)))
                self.kinds.append('decl-api')
            self._new_func('f' + n, 'decl')
            self.kinds.append('decl-' + (shape or 'random'))
        elif k < 0.75:
            # callees that MIR_link inlines (`inline` insns and small callees of plain calls): alloca at the top / after a
            # label, branch or call / of non-constant size / none, ret last / in the middle / several rets, called several
            # times, nested, recursive -- every arm of process_inlines' insn bookkeeping (tools/gen_c17_inl.py)
            n = self.name()
            self.lines.append('scan ' + hexs(INL.inl_module(rng, n)))
            self._new_func('f' + n, 'inl')
            self.kinds.append('inline-shapes')
        elif k < 0.82:
            # generated functions with arbitrary control-flow graphs (irreducible / nested / overlapping loops, switch,
            # indirect jumps, unreachable blocks): the generator's CFG, loop-tree and SSA code at every level
            n = self.name()
            shape = rng.choice([None, None, 'irreducible', 'nested'])
            self.lines.append('scan ' + hexs(CFG.cfg_module(rng, n, shape)))
            self._new_func('f' + n, 'cfg')
            self.kinds.append('cfg-' + (shape or 'random'))
        elif k < 0.90:
            i = rng.randrange(len(MIR_POOL))
            n = self.name()
            self.lines.append('scan ' + hexs(MIR_POOL[i].replace('@N@', n)))
            self._new_func('f' + n, 'm%d' % i)
            self.kinds.append('scan')
        else:
            n = self.name()
            v = rng.randrange(4)
            self.lines.append('api %s %d' % (n, v))
            self._new_func('apif' + n, 'a%d' % v)
            self.kinds.append('api')

    def io_steps(self, readable):
        """text / binary output of what the context holds now; `readable`: the image may be read back later"""
        rng = self.rng
        # no text output of label-reference items once their functions were linked under the lazy-BB interface: BB-wise
        # generation replaces the label of an lref whose block was removed by NULL in the user's IR and never restores
        # it (MIR_output_item then dereferences it) -- one more face of the /repo limitation described below
        lref_lazybb = self.labval and 'lazybb' in self.func_iface.values()
        if rng.random() < 0.35 and not lref_lazybb:
            k = rng.choice(['output', 'output', 'outmod', 'outitems'])
            self.lines.append(k if k == 'output' else '%s %d' % (k, rng.randrange(len(self.mods) or 1)))
            self.kinds.append(k)
        # no binary write once functions have been linked under the lazy-BB interface: BB-wise generation leaves the IR
        # transformed (MIR_write then fails with "UNSPEC, USE, or PHI is not portable") -- the same /repo limitation
        # as for an explicit MIR_gen under that interface
        if rng.random() < 0.4 and self.mods and 'lazybb' not in self.func_iface.values():
            k = rng.choice(['write', 'fwrite', 'wmod', 'fwmod'])
            if k in ('write', 'fwrite'):
                self.lines.append(k)
                fs = [f for m in self.mods for f in m]
            else:
                i = rng.randrange(len(self.mods))
                self.lines.append('%s %d' % (k, i))
                fs = list(self.mods[i])
            self.kinds.append(k)
            self.image = (k, fs) if readable else None

    def run_funcs(self, iface, gen_on):
        rng = self.rng
        for f, kind in rng.sample(self.linked_funcs, min(len(self.linked_funcs), rng.choice([1, 2, 3]))):
            arg = rng.choice([0, 1, 2, 7, 12, 33])
            # no explicit MIR_gen under the lazy-BB interface: after a function has run BB-wise its IR is left transformed
            # (MIR_gen then fails with "undeclared reg" or builds a CFG from stale label data -- wild writes under ASan);
            # a limitation of /repo investigated under C16 (generation can be repeated)
            fi = self.func_iface[f]
            if f in self.gened:
                how = 'call'
            else:
                how = rng.choice((['call', 'call', 'interp', 'interpa'] + (['interp+gen'] if gen_on else [])) if fi == 'interp' else
                                 ['call', 'call', 'gen'] if fi != 'lazybb' and gen_on else ['call'])
            if fi in ('lazy', 'lazybb') and not gen_on:
                continue     # its thunk would enter a generator that is gone
            if how == 'interp+gen':
                # interpret, then generate the same function (legal and leak-free since /repo 6b4b01d0 / e40fd49f), then
                # call the generated code through the redirected thunk
                self.lines += ['interp %s %d' % (f, arg), 'gen %s' % f]
                self.gened.add(f)
                self.kinds.append('interp-then-gen')
                how = 'call'
            if how == 'gen':
                self.lines.append('gen %s' % f)
                how = 'call'
            self.lines.append('%s %s %d' % (how, f, arg))

    def wave(self, first):
        """load + link what was added since the last wave, then run some functions"""
        rng = self.rng
        iface = rng.choice(self.IFACES) if first or rng.random() < 0.3 else self.iface
        if not first and iface != self.iface:
            self.kinds.append('iface-change')
        self.iface = iface
        self.lines.append('load')
        if iface != 'interp' and not self.gen_on or (iface == 'interp' and not self.gen_on and rng.random() < 0.3):
            self.lines.append('gen_init')
            self.gen_on = True
            self.kinds.append('gen')
            self.dbg = 0
            # generator debug output, level 1 only and never while a lazy-BB function exists: from level 2 on (level 1 for
            # BB-wise generation) the generator dumps machine code by writing _mir_<pid>.c into the current directory and
            # running gcc/objdump through system()
            if rng.random() < 0.15 and iface != 'lazybb' and 'lazybb' not in self.func_iface.values():
                self.lines.append('gen_dbg 1')
                self.kinds.append('gen_dbg')
                self.dbg = 1
        if iface == 'lazybb' and self.gen_on and getattr(self, 'dbg', 0):
            self.lines.append('gen_dbg 0')
            self.dbg = 0
        if self.gen_on and (first or rng.random() < 0.6):
            self.lines.append('opt %d' % rng.choice(self.opt_levels))
        self.lines.append('link ' + iface)
        self.kinds.append('link-' + iface)
        for f, kind in self.funcs:
            if f not in self.func_iface:
                self.func_iface[f] = iface
        self.linked_funcs = list(self.funcs)
        self.run_funcs(iface, self.gen_on)

    def build(self):
        rng = self.rng
        self.c2m_on = False
        self.gen_on = False
        self.iface = None
        self.func_iface = {}
        self.gened = set()
        self.linked_funcs = []
        self.lines.append('init')
        for _ in range(self.nmod):
            self.add_module()
        self.io_steps(readable=True)
        if rng.random() < 0.08 and not self.allow_read:
            # build-only history: never loaded
            self.finish()
            return
        self.wave(True)
        nw = rng.choice([0, 0, 0, 1, 1, 2])
        for w in range(nw):
            if self.gen_on and rng.random() < 0.2 and all(i in ('interp', 'gen') for i in self.func_iface.values()):
                # end the generator session; code generated so far stays valid (no lazy thunk is outstanding)
                self.lines.append('gen_finish')
                self.gen_on = False
                self.kinds.append('gen-session-end')
            for _ in range(rng.choice([1, 2])):
                self.add_module()
            self.wave(False)
        self.io_steps(readable=False)
        self.finish()

    def finish(self):
        rng = self.rng
        tail = []
        if self.gen_on:
            tail.append('gen_finish')
        if self.c2m_on:
            tail.append('c2m_finish')
        rng.shuffle(tail)
        self.lines += tail + ['finish']
        self.gen_on = self.c2m_on = False
        if self.threads and self.image is not None and self.image[1] and rng.random() < 0.7:
            self.lines += reader_lines(rng, self.image)
            self.kinds += ['reread-' + self.image[0]]


def reader_lines(rng, image):
    """a fresh context that reads the binary image (kind, functions) held in the script's byte buffer and runs it"""
    kind, fs = image
    iface = rng.choice(Scen.IFACES)
    bl = ['init', rng.choice(['read', 'fread']), 'load']
    fin = ['finish']
    if iface != 'interp':
        bl += ['gen_init', 'opt %d' % rng.randrange(4)]
        fin = ['gen_finish', 'finish']
    bl.append('link ' + iface)
    for f in fs:
        if rng.random() < 0.7:
            bl.append('%s %s %d' % ('interp' if iface == 'interp' else 'call', f, rng.choice([0, 3, 9])))
    return bl + fin


def reader_scenario(rng):
    """context 0 builds modules and writes them (binary); context 1 reads them back and runs them while
    context 0 is still alive or already finished"""
    serial = [0]
    a = None
    for _ in range(20):
        a = Scen(rng, serial)
        if a.image is not None and a.image[1] and 'load' in a.lines:
            break
    else:
        return None
    al = list(a.lines)
    k = max(i for i, l in enumerate(al[:al.index('load')]) if l.split()[0] in ('write', 'fwrite', 'wmod', 'fwmod'))
    bl = reader_lines(rng, a.image)
    bl.insert(1, 'take 0')
    out, i, j = [], 0, 0
    while i < len(al) or j < len(bl):
        if i <= k or (i < len(al) and rng.random() < 0.5) or j >= len(bl):
            if i < len(al):
                out.append('0 ' + al[i]); i += 1
                continue
        out.append('1 ' + bl[j]); j += 1
    return out, dict(ctxs=2, kinds=a.kinds + ['read-' + a.image[0], 'reader-' + bl[2], 'reader-link-' + [l for l in bl if l.startswith('link')][0][5:]])


def scenario(rng, two_ctx_prob=0.3):
    """returns (list of '<ctx> <line>' script lines, summary dict)"""
    if rng.random() < 0.15:
        r = reader_scenario(rng)
        if r is not None:
            return r
    serial = [0]
    a = Scen(rng, serial)
    if rng.random() >= two_ctx_prob:
        return ['0 ' + l for l in a.lines], dict(ctxs=1, kinds=a.kinds)
    b = Scen(rng, serial)
    # random interleaving keeping each context's order
    out, i, j = [], 0, 0
    while i < len(a.lines) or j < len(b.lines):
        if j >= len(b.lines) or (i < len(a.lines) and rng.random() < 0.5):
            out.append('0 ' + a.lines[i]); i += 1
        else:
            out.append('1 ' + b.lines[j]); j += 1
    return out, dict(ctxs=2, kinds=a.kinds + b.kinds)


def fixed_scenarios():
    """hand-written histories that every run starts with: each source kind, each interface"""
    out = []
    n = [0]

    def nm():
        n[0] += 1
        return 'k%d' % n[0]
    for iface in ('interp', 'gen', 'lazy', 'lazybb'):
        for lvl in ((0, 2) if iface != 'interp' else (1,)):
            L = ['init'] + ['file %s %s' % (hn, hexs(CS.HEADERS[hn])) for hn in sorted(CS.HEADERS)] + ['c2m_init']
            fs = []
            for i in range(len(C_POOL)):
                x = nm()
                L.append('c2m u%s.c %s' % (x, hexs(C_POOL[i].replace('@N@', x))))
                fs.append('f' + x)
            for j, (tag, src, need) in enumerate(CS.UNITS):
                x = nm()
                extra = [['v'], ['asm'], ['obj', 'w'], ['d']][(j + len(out)) % 4] if j % 3 == 0 else []
                if 'd' in extra and not debug_ok(src):
                    extra = ['v']
                L.append('c2mo u%s.c %s %s' % (x, ','.join([o for o in [need.replace('@N@', x)] if o] + extra) or '-',
                                               hexs(src.replace('@N@', x))))
                fs.append('f' + x)
            for i in range(len(MIR_POOL)):
                x = nm()
                L.append('scan ' + hexs(MIR_POOL[i].replace('@N@', x)))
                fs.append('f' + x)
            import random as _r
            x = nm()
            L.append('scan ' + hexs(stress_module(_r.Random(len(out)), x, 200)))
            fs.append('f' + x)
            # generated control-flow graphs (one irreducible, one nested, two random) and generated C units
            for j, shape in enumerate(['irreducible', 'nested', None, None]):
                x = nm()
                L.append('scan ' + hexs(CFG.cfg_module(_r.Random(1000 + 10 * len(out) + j), x, shape)))
                fs.append('f' + x)
            # inlined callees: one with a non-top alloca and code after its ret (inlined in place between BSTART/BEND),
            # two random ones
            for j in range(3):
                x = nm()
                r_ = _r.Random(5000 + 10 * len(out) + j)
                force = (r_.choice(INL.NONTOP), r_.choice(INL.LAYOUT[1:]), ['inline', 'call'][len(out) % 2]) if j == 0 else None
                L.append('scan ' + hexs(INL.inl_module(r_, x, force=force, ncallees=1 if force else None)))
                fs.append('f' + x)
            for j in range(3):
                x = nm()
                L.append('c2m u%s.c %s' % (x, hexs(CG.c_unit(_r.Random(2000 + 10 * len(out) + j))[1].replace('@N@', x))))
                fs.append('f' + x)
            # declaration histories: two MIR modules (one as text, one through the API; an export repeated after the
            # exported definition, a forward before everything) and two C units of redeclarations
            for j, shape in enumerate(['export-after', 'forward-first']):
                x = nm()
                r_ = _r.Random(3000 + 10 * len(out) + j)
                ops, _fs = DCL.decl_module(r_, x, shape)
                L.append('scan ' + hexs(DCL.to_text(ops, x, r_)) if (j + len(out)) % 2 == 0 else 'apim %s %s' % (x, DCL.to_api(ops)))
                fs.append('f' + x)
            for j in range(2):
                x = nm()
                L.append('c2m u%s.c %s' % (x, hexs(DCL.c_redecl_unit(_r.Random(4000 + 10 * len(out) + j))[1].replace('@N@', x))))
                fs.append('f' + x)
            # preprocessor-heavy units (tools/gen_c17_cpp.py)
            for j in range(2):
                x = nm()
                tag, src, need = CPP.cpp_unit(_r.Random(6000 + 10 * len(out) + j))
                L.append('c2mo u%s.c %s %s' % (x, need or '-', hexs(src.replace('@N@', x))))
                fs.append('f' + x)
            L += ['api 900 1', 'output', 'write', 'read' if False else 'fwrite', 'load', 'gen_init', 'opt %d' % lvl,
                  'link ' + iface]
            fs.append('apif900')
            for f in fs:
                L.append(('interp %s 7' if iface == 'interp' else 'call %s 7') % f)
            L += ['gen_finish', 'c2m_finish', 'finish']
            out.append((['0 ' + l for l in L], dict(ctxs=1, kinds=['fixed-' + iface])))
    # EVERY small declaration history (tools/gen_c17_decl.py): <0..2 exports/forwards> definition <0..2 exports/forwards>
    # for functions, data and bss, once as MIR text and once through the construction API; every sequence of up to three
    # declarations of a C array / scalar / function around its definition
    L = ['init']
    fs = []
    for how in ('scan', 'apim'):
        x = nm()
        for ops, f in DCL.exhaustive_decl_modules(x):
            L.append('scan ' + hexs(DCL.to_text(ops, f[1:])) if how == 'scan' else 'apim %s %s' % (f[1:], DCL.to_api(ops)))
            fs.append(f)
    x = nm()
    L += ['c2m_init', 'c2m u%s.c %s' % (x, hexs(DCL.exhaustive_c_redecl_unit()[1].replace('@N@', x))), 'c2m_finish']
    fs.append('f' + x)
    L += ['output', 'load', 'gen_init', 'opt 1', 'link gen'] + ['call %s 7' % f for f in fs] + ['gen_finish', 'finish']
    out.append((['0 ' + l for l in L], dict(ctxs=1, kinds=['fixed-decl-exhaustive'])))
    # EVERY (alloca kind x ret layout x call kind) of an inlined callee as a module of its own (tools/gen_c17_inl.py),
    # interpreted and generated
    for tail in (['load', 'link interp'], ['load', 'gen_init', 'opt 2', 'link gen']):
        L = ['init']
        fs = []
        for txt, f in INL.exhaustive_inl_modules(nm()):
            L.append('scan ' + hexs(txt))
            fs.append(f)
        L += tail + [('interp %s %d' if 'link interp' in tail else 'call %s %d') % (f, a) for f in fs for a in (2, 7, 40)]
        L += (['gen_finish'] if 'gen_init' in tail else []) + ['finish']
        out.append((['0 ' + l for l in L], dict(ctxs=1, kinds=['fixed-inline-exhaustive'])))
    # the preprocessor grid: every call shape of a parameterless macro / of an empty single argument at file scope, in
    # functions, as macro arguments and in #if expressions, every family of tools/gen_c17_cpp.py twice; then 8 generated
    # units, one per family pair, each compiled in a c2mir session of its own (c2mir_init .. c2mir_finish)
    L = ['init'] + ['file %s %s' % (hn, hexs(CS.HEADERS[hn])) for hn in sorted(CS.HEADERS)] + ['c2m_init']
    fs = []
    x = nm()
    L.append('c2mo u%s.c I %s' % (x, hexs(CPP.exhaustive_cpp_unit()[1].replace('@N@', x))))
    fs.append('f' + x)
    L.append('c2m_finish')
    import random as _r
    for j, fam in enumerate(CPP.FAMILIES):
        x = nm()
        tag, src, need = CPP.cpp_unit(_r.Random(7000 + j), size=4, families=[fam, CPP.FAMILIES[(j + 1) % len(CPP.FAMILIES)], 'fn0'])
        L += ['c2m_init', 'c2mo u%s.c %s %s' % (x, need or '-', hexs(src.replace('@N@', x))), 'c2m_finish']
        fs.append('f' + x)
    L += ['load', 'link interp'] + ['interp %s 7' % f for f in fs] + ['finish']
    out.append((['0 ' + l for l in L], dict(ctxs=1, kinds=['fixed-cpp-exhaustive'])))
    # binary round trip into a second context
    x = nm()
    L = ['0 init', '0 scan ' + hexs(MIR_POOL[1].replace('@N@', x)), '0 api 901 2', '0 write', '1 init', '1 take 0',
         '1 read', '1 load', '1 link interp', '1 interp f%s 5' % x, '1 interp apif901 9', '0 finish', '1 finish']
    out.append((L, dict(ctxs=2, kinds=['fixed-readwrite'])))
    return out


LABEL_VALUE = re.compile(r'[=({,?:]\s*&&\s*[A-Za-z_]')   # the unary && of "labels as values", not the logical and


def _unhex(h):
    try:
        return binascii.unhexlify(h)
    except Exception:
        return b''


def module_funcs(line):
    """callable functions ( long f (long) ) of the module a script line creates"""
    w = line.split(' ')
    if w[1] in ('c2m', 'c2mo') and not (w[1] == 'c2mo' and set(w[3].split(',')) & {'E', 'S'}):
        return ['f' + w[2][1:-2]]
    if w[1] == 'scan':
        return [f for f in re.findall(r'^(\w+):\s+func', _unhex(w[2]).decode(errors='replace'), re.M) if f.startswith('f')]
    if w[1] == 'api':
        return ['apif' + w[2]]
    if w[1] == 'apim':
        return ['f' + w[2]]
    return []


def decls_closed_text(txt):
    """every name a MIR text exports or declares forward is defined in the same module (a shrunk module text must not
    become `export g` + `forward g` without g: MIR_link does not diagnose that ill-formed module, it never returns)"""
    for mod in re.split(r'^\s*endmodule\b', txt, flags=re.M):
        want = set()
        for m in re.finditer(r'^\s+(?:export|forward)\s+([^#\n]*)', mod, re.M):
            want |= {x.strip() for x in m.group(1).split(',') if x.strip()}
        defined = {m.group(1) for m in re.finditer(r'^(\w+):\s*(\w+)', mod, re.M)
                   if m.group(2) not in ('module', 'proto', 'import', 'export', 'forward')}
        if want - defined:
            return False
    return True


def decls_closed_api(lst):
    """the same for the declaration list of an `apim` command"""
    want, defined = set(), set()
    for e in lst.split(','):
        w = e.split(':')
        if len(w) < 2:
            continue
        if w[0] in ('X', 'W'):
            want.add(w[1])
        elif w[0] in ('D', 'B', 'S', 'R', 'F'):
            defined.add(w[1])
    return not (want - defined)


def valid(lines):
    """is the script a legal, error-free-by-construction API history?  (used when shrinking a failing
    script: a shrunk script must still be a history the property quantifies over)"""
    st = {}

    def fresh():
        return dict(init=True, fin=False, c2m=False, gen=False, mods=[], loaded=0, linked=0, fiface={}, dead=set(), gened=set(),
                    optclass=None)
    for l in lines:
        m = re.match(r'^(\d) (\S+)(?: (\S+))?(?: (\S+))?(?: (\S+))?', l)
        if not m:
            return False
        c, cmd, a1, a2, a3 = m.group(1), m.group(2), m.group(3), m.group(4), m.group(5)
        s = st.setdefault(c, dict(init=False, fin=False, image=None, files=set()))
        if cmd == 'init':
            if s['init'] and not s['fin']:
                return False
            keep = dict(image=s['image'], files=s['files'])
            s.clear()
            s.update(fresh())
            s.update(keep)
            continue
        if cmd == 'take':
            if a1 not in st or st[a1].get('image') is None:
                return False
            s['image'] = list(st[a1]['image'])
            continue
        if cmd == 'file':
            if a1 is None or a2 is None:
                return False
            s['files'].add(a1)
            continue
        if not s['init'] or s['fin']:
            return False
        defined = {f: i + 1 for i, fs in enumerate(s['mods']) for f in fs}
        if cmd == 'c2m_init':
            if s['c2m']:
                return False
            s['c2m'] = True
        elif cmd == 'c2m_finish':
            if not s['c2m']:
                return False
            s['c2m'] = False
        elif cmd == 'c2m':
            if not s['c2m'] or a1 is None or a2 is None:
                return False
            s['mods'].append(['f' + a1[1:-2]])
            if LABEL_VALUE.search(_unhex(a2).decode(errors='replace')):
                s['labval'] = True
        elif cmd in ('c2mx', 'c2mt'):
            if not s['c2m'] or a1 is None or a2 is None:
                return False
        elif cmd == 'c2mo':
            if not s['c2m'] or a1 is None or a2 is None or a3 is None:
                return False
            opts = a2.split(',')
            try:
                txt = binascii.unhexlify(a3).decode()
            except Exception:
                return False
            if 'I' in opts and not set(CS.HEADERS) <= s['files']:
                return False
            if 'I' not in opts and re.search(r'#include\s+"', txt):
                return False
            for d in re.findall(r'\b((?:LIMIT|MODE|NAME)\d+)\b', txt):
                if not any(o.startswith('D' + d) for o in opts):
                    return False
            if 'E' not in opts and 'S' not in opts:
                s['mods'].append(['f' + a1[1:-2]])
                if LABEL_VALUE.search(txt):
                    s['labval'] = True
        elif cmd == 'scan':
            try:
                txt = binascii.unhexlify(a1).decode()
            except Exception:
                return False
            if not decls_closed_text(txt):
                return False
            s['mods'].append(re.findall(r'^(\w+):\s+func', txt, re.M))
        elif cmd == 'api':
            s['mods'].append(['apif' + a1])
        elif cmd == 'apim':
            if a1 is None or a2 is None or not decls_closed_api(a2):
                return False
            s['mods'].append(['f' + a1] + re.findall(r'\bF:(g\w+):', a2))
        elif cmd in ('write', 'fwrite'):
            if 'lazybb' in s['fiface'].values():
                return False
            s['image'] = [f for fs in s['mods'] for f in fs]
        elif cmd in ('wmod', 'fwmod'):
            if not s['mods'] or a1 is None or 'lazybb' in s['fiface'].values():
                return False
            s['image'] = list(s['mods'][int(a1) % len(s['mods'])])
        elif cmd in ('read', 'fread'):
            if s['image'] is None:
                return False
            s['mods'].append(list(s['image']))
        elif cmd in ('output', 'outmod', 'outitems'):
            if cmd != 'output' and not s['mods']:
                return False
            if s.get('labval') and 'lazybb' in s['fiface'].values():
                return False
        elif cmd == 'load':
            s['loaded'] = len(s['mods'])
        elif cmd == 'gen_init':
            if s['gen']:
                return False
            s['gen'] = True
            s['dbg'] = 0
            s['optclass'] = None
        elif cmd == 'gen_finish':
            if not s['gen']:
                return False
            s['gen'] = False
            s['dead'] |= {f for f, i in s['fiface'].items() if i in ('lazy', 'lazybb')}
        elif cmd in ('opt', 'gen_dbg'):
            if not s['gen']:
                return False
            if cmd == 'gen_dbg':
                if a1 not in ('0', '1') or (a1 == '1' and 'lazybb' in s['fiface'].values()):
                    return False
                s['dbg'] = int(a1)
            if cmd == 'opt':
                k = int(a1) >= 2
                if s['optclass'] is not None and s['optclass'] != k and not MIX_OPT_CLASSES:
                    return False
                s['optclass'] = k
        elif cmd == 'link':
            if a1 != 'interp' and not s['gen']:
                return False
            if a1 == 'lazybb' and s.get('dbg'):
                return False
            for f, i in defined.items():
                if i <= s['loaded'] and f not in s['fiface']:
                    s['fiface'][f] = a1
            s['linked'] = s['loaded']
        elif cmd in ('call', 'interp', 'interpa', 'gen'):
            if defined.get(a1, 10 ** 9) > s['linked'] or a1 not in s['fiface'] or a1 in s['dead']:
                return False
            fi = s['fiface'][a1]
            if cmd == 'gen' and (not s['gen'] or fi not in ('gen', 'lazy', 'interp')):
                return False
            if cmd == 'gen' and fi == 'interp':
                s['gened'].add(a1)
            if cmd in ('interp', 'interpa') and (fi != 'interp' or a1 in s['gened']):
                return False
            if cmd == 'call' and fi in ('lazy', 'lazybb') and not s['gen']:
                return False
        elif cmd == 'fill':
            pass
        elif cmd == 'finish':
            if s['gen'] or s['c2m']:
                return False
            s['fin'] = True
        else:
            return False
    return True


def ch_script(rng, nops):
    """ops for the code-holder correspondence (harness ch_* commands / driver CH lines)"""
    ops, blob_len = [], []
    pending_new = None
    for _ in range(nops):
        k = rng.random()
        usable = [i for i, l in enumerate(blob_len) if l > 0]
        if pending_new is not None and k < 0.7:
            if rng.random() < 0.8 and pending_new >= 1:
                # zero-length publications are never made by the library and store an 8-byte pointer (reloc_size 0
                # in _MIR_set_code) that may run past the holder: excluded here and by the theorem's precondition
                L = rng.randrange(1, pending_new + 1)
                ops.append('puba %d' % L)
                blob_len.append(L)
            else:
                ops.append('pubax %d' % rng.randrange(0, 64))
            pending_new = None
        elif k < 0.45 or not usable:
            L = rng.choice([1, 1, 5, 15, 16, 17, 37, 100, 255, 1000, 4000, 4081, 4095, 4096, 4097, 8192, 12000,
                            rng.randrange(1, 600), rng.randrange(1, 600), rng.randrange(1, 6000)])
            ops.append('pub %d' % L)
            blob_len.append(L)
            pending_new = None
        elif k < 0.58:
            S = rng.choice([0, 1, 16, 100, 3000, 4096, 5000, rng.randrange(1, 5000)])
            ops.append('new %d' % S)
            pending_new = S
        elif k < 0.85:
            K = rng.choice(usable)
            ln = max(1, min(blob_len[K], rng.choice([1, 4, 6, 8, 8, 13, 300])))
            off = rng.randrange(0, blob_len[K] - ln + 1)
            ops.append('chg %d %d %d' % (K, off, ln))
            pending_new = None
        else:
            big = [i for i in usable if blob_len[i] >= 8]
            if not big:
                continue
            K = rng.choice(big)
            offs = [rng.randrange(0, blob_len[K] - 7) for _ in range(rng.randrange(0, 5))]
            ops.append('upd %d %s' % (K, ' '.join(map(str, offs))))
            pending_new = None
    return ops

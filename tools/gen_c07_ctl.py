# C07 part K (round 3, wave 6): control flow of the statement generator of c2mir (gen(): N_FOR / N_WHILE / N_DO / N_SWITCH /
# N_BREAK / N_CONTINUE / N_GOTO / labels).  A program is a list of probe functions; a probe is a random statement tree over
#   * every loop kind (for with declaration / expression / empty clauses, while, do-while, loops built from goto), nested up to 3 deep,
#   * controlling expressions and increments WITH side effects (trace calls, ++ of a second counter, comma expressions,
#     accumulator updates) as well as constant ones (`while (1)`, `do .. while (0)`, `for (;;)`),
#   * `break` / `continue` / `goto` at any place of a body (first, middle, last statement; in an if / else / nested block /
#     inside a switch that is inside the loop) under data-dependent conditions, among them "last iteration only",
#     "first iteration only", "every other", "never", "always",
#   * switch inside loops (continue belongs to the loop, break to the switch), loops inside switch cases, fall through,
#   * forward gotos out of several loops, a label at the end of a loop body (hand-written continue), backward gotos.
# Every evaluation of a condition / increment / body part calls tr (k) with a unique k, so the printed value is a hash of the
# exact path; a step counter ends a run-away execution (`runaway`, exit 3) so that a wrong jump cannot hang the check.
# All arithmetic is unsigned, every loop has its own counter changed only by its own control part: programs are UB free and
# terminate by construction.

PRELUDE = '''#include <stdio.h>
#include <stdlib.h>
typedef unsigned long long u64;
static u64 T;
static unsigned steps;
static unsigned tr (unsigned k) {
  T = T * 1000003ull + k + 1;
  if (++steps > 60000) { printf ("runaway\\n"); exit (3); }
  return k;
}
'''


class Gen:
    def __init__(self, rng):
        self.r = rng
        self.k = 0
        self.nv = 0
        self.nl = 0
        self.feats = set()

    def tk(self):
        self.k += 1
        return 'tr (%d)' % self.k

    def var(self, p):
        self.nv += 1
        return '%s%d' % (p, self.nv)

    def label(self):
        self.nl += 1
        return 'L%d' % self.nl

    # ---- data-dependent conditions over the counters in scope
    def cond(self, ctx):
        r = self.r
        cs = ctx['counters']
        w = r.random()
        if not cs or w < 0.12:
            return r.choice(['(s & 1)', '(s % 3 == 0)', '(s % 5 < 2)', '((s >> 2) & 1)'])
        v, n = r.choice(cs)
        if w < 0.3:
            return '(%s %% 2)' % v
        if w < 0.42:
            return '(%s == %d)' % (v, n)                      # last iteration (counters run 1..n or 0..n-1: both boundaries below)
        if w < 0.52:
            return '(%s == %d)' % (v, max(n - 1, 0))
        if w < 0.6:
            return '(%s <= 1)' % v                            # first iteration(s)
        if w < 0.68:
            return '(%s >= %d)' % (v, r.randint(0, n))
        if w < 0.76 and len(cs) > 1:
            v2, _ = r.choice(cs)
            return '((%s + %s) %% 3 == %d)' % (v, v2, r.randint(0, 2))
        if w < 0.84:
            return '((s + %s) %% %d == 0)' % (v, r.choice([2, 3, 4]))
        if w < 0.9:
            return r.choice(['1', '(%s, 1)' % self.tk()])    # always
        if w < 0.94:
            return r.choice(['0', '(%s, 0)' % self.tk()])    # never
        return '(%s, %s %% 2 == 0)' % (self.tk(), v)

    def simple(self, ctx):
        r = self.r
        cs = ctx['counters']
        v = r.choice(cs)[0] if cs else '1'
        return r.choice(['%s;' % self.tk(), 's = s * 7 + %s + %d;' % (v, r.randint(0, 9)), 's += %s;' % self.tk(),
                         's ^= %s << %d;' % (v, r.randint(0, 5)), '%s;' % self.tk()])

    # ---- jumps
    def jump(self, ctx):
        """a jump statement that is allowed here (None if there is none)"""
        r = self.r
        opts = []
        if ctx['loop']:
            opts += ['continue'] * 4 + ['break'] * 2
        elif ctx['switch']:
            opts += ['break']
        if ctx['switch'] and ctx['loop']:
            opts += ['break', 'continue', 'continue']
        if ctx['labels']:
            opts += ['goto'] * 2
        if not opts:
            return None
        j = r.choice(opts)
        if j == 'goto':
            lab = r.choice(ctx['labels'])
            self.feats.add('goto:' + lab[1])
            return 'goto %s;' % lab[0]
        if j == 'continue':
            self.feats.add('continue-in-%s%s' % (ctx['loop'], '-through-switch' if ctx['switch'] == 'inner' else ''))
        else:
            self.feats.add('break-of-%s' % ('switch' if ctx['switch'] == 'inner' else ctx['loop']))
        return j + ';'

    def jump_stmt(self, ctx):
        r = self.r
        j = self.jump(ctx)
        if j is None:
            return [self.simple(ctx)]
        w = r.random()
        c = self.cond(ctx)
        if w < 0.5:
            return ['if (%s) %s' % (c, j)]
        if w < 0.65:
            return ['if (%s) { %s %s }' % (c, self.simple(ctx), j)]
        if w < 0.8:
            j2 = self.jump(ctx) or j
            return ['if (%s) %s else if (%s) { %s %s }' % (c, j, self.cond(ctx), self.simple(ctx), j2)]
        if w < 0.9:
            return ['if (%s) %s else %s' % (c, self.simple(ctx), j)]
        return ['{ %s if (%s) { { %s } } }' % (self.simple(ctx), c, j)]

    # ---- statements
    def body(self, ctx, depth, n=None):
        r = self.r
        n = n if n is not None else r.randint(1, 3)
        sts = [self.stmt(ctx, depth) for _ in range(n)]
        # jumps at every position of the body (between whole statements)
        for _ in range(r.choice([0, 1, 1, 1, 2])):
            sts.insert(r.randint(0, len(sts)), self.jump_stmt(ctx))
        return [l for st in sts for l in st]

    def stmt(self, ctx, depth):
        r = self.r
        w = r.random()
        if depth <= 0 or w < 0.3:
            return [self.simple(ctx)]
        if w < 0.4:
            s = ['if (%s) {' % self.cond(ctx)] + ind(self.body(ctx, depth - 1, r.randint(1, 2))) + ['}']
            if r.random() < 0.5:
                s += ['else {'] + ind(self.body(ctx, depth - 1, r.randint(1, 2))) + ['}']
            return s
        if w < 0.52:
            return self.switch(ctx, depth)
        if w < 0.58 and not ctx['nolabel']:
            # forward goto over a few statements (possibly out of inner loops generated below)
            lab = self.label()
            sub = dict(ctx, labels=ctx['labels'] + [(lab, 'forward-over-statements')])
            inner = self.body(sub, depth - 1, r.randint(1, 3))
            return ['if (%s) goto %s;' % (self.cond(ctx), lab)] + inner + ['%s: %s' % (lab, self.simple(ctx))]
        if ctx['nest'] >= 3:
            return [self.simple(ctx)]
        return self.loop(ctx, depth)

    def switch(self, ctx, depth):
        r = self.r
        m = r.randint(2, 4)
        cs = ctx['counters']
        e = r.choice(['s'] + [v for v, _ in cs] * 2)
        if r.random() < 0.3:
            e = '(%s, %s)' % (self.tk(), e)
        self.feats.add('switch-in-loop' if ctx['loop'] else 'switch')
        out = ['switch ((%s) %% %d) {' % (e, m + 1)]
        sub = dict(ctx, switch='inner')
        vals = r.sample(range(m + 1), r.randint(1, m))
        dflt = r.randint(0, len(vals)) if r.random() < 0.7 else -1
        for i, cv in enumerate(vals + [None]):
            if i == dflt:
                out.append('default:')
                out += ind(self.body(sub, depth - 1, 1))
                if r.random() < 0.6:
                    out.append('  break;')
            if cv is None:
                break
            out.append('case %d:' % cv)
            out += ind(self.body(sub, depth - 1, r.randint(1, 2)))
            w = r.random()
            if w < 0.55:
                out.append('  break;')
            elif w < 0.75 and ctx['loop']:
                out.append('  continue;')
                self.feats.add('continue-in-%s-through-switch' % ctx['loop'])
            else:
                self.feats.add('switch-fallthrough')
        out.append('}')
        return out

    def loop(self, ctx, depth):
        r = self.r
        i = self.var('i')
        n = r.randint(1, 6)
        kind = r.choice(['for', 'for', 'while', 'while', 'do', 'do', 'do', 'goto'])
        if kind == 'goto' and ctx['nolabel']:
            kind = 'do'
        sub = dict(ctx, loop=kind, switch=None if ctx['switch'] is None else 'outer', nest=ctx['nest'] + 1,
                   counters=ctx['counters'] + [(i, n)])
        if ctx['switch']:
            self.feats.add('loop-in-switch')
        self.feats.add('%s-nest-%d' % (kind, sub['nest']))
        pre, post = [], []
        if r.random() < 0.2 and not ctx['nolabel']:
            # a label behind the loop that the body (any depth) may jump to
            lab = self.label()
            sub['labels'] = sub['labels'] + [(lab, 'forward-out-of-loops')]
            post = ['%s: %s' % (lab, self.simple(ctx))]
        if kind == 'for':
            form = r.randrange(7)
            self.feats.add('for-form-%d' % form)
            t1, t2, t3 = self.tk(), self.tk(), self.tk()
            if form == 0:
                head, top = 'for (unsigned %s = 0; %s < %d; %s++)' % (i, i, n, i), []
            elif form == 1:
                pre = ['unsigned %s;' % i]
                head, top = 'for (%s = 0, %s; (%s, %s < %d); %s, ++%s)' % (i, t1, t2, i, n, t3, i), []
            elif form == 2:
                # no increment clause: the counter moves in the condition
                head, top = 'for (unsigned %s = 0; %s++ < %d;)' % (i, i, n), []
            elif form == 3:
                # no condition: the body leaves by break
                head, top = 'for (unsigned %s = 0;; %s++, %s)' % (i, i, t1), ['if (%s >= %d) break;' % (i, n)]
            elif form == 4:
                pre = ['unsigned %s = 0;' % i]
                head, top = 'for (;;)', ['if (++%s > %d) break;' % (i, n)]
            elif form == 5:
                # the increment has a side effect on the accumulator
                head, top = 'for (unsigned %s = 0; %s < %d; s = s * 3 + 1, %s += 1)' % (i, i, n, i), []
            else:
                pre = ['unsigned %s = 0;' % i]
                head, top = 'for (%s; (s += %s, %s < %d); %s++)' % (t1, i, i, n, i), []
            b = top + [self.tk() + ';'] + self.body(sub, depth - 1)
            return ['{'] + ind(pre + [head + ' {'] + ind(b) + ['}'] + post) + ['}'] if pre or post else [head + ' {'] + ind(b) + ['}']
        if kind == 'while':
            form = r.randrange(5)
            self.feats.add('while-form-%d' % form)
            pre = ['unsigned %s = 0;' % i]
            if form == 0:
                head, top = 'while (%s++ < %d)' % (i, n), []
            elif form == 1:
                head, top = 'while ((%s, ++%s <= %d))' % (self.tk(), i, n), []
            elif form == 2:
                head, top = 'while (%s < %d)' % (i, n), ['%s++;' % i]
            elif form == 3:
                head, top = 'while (1)', ['if (%s++ >= %d) break;' % (i, n)]
            else:
                head, top = 'while ((s = s * 5 + 1, %s++ < %d))' % (i, n), []
            b = top + [self.tk() + ';'] + self.body(sub, depth - 1)
            return ['{'] + ind(pre + [head + ' {'] + ind(b) + ['}'] + post) + ['}']
        if kind == 'do':
            form = r.randrange(8)
            self.feats.add('do-form-%d' % form)
            pre = ['unsigned %s = 0;' % i]
            top = ['%s++;' % i]
            if form == 0:
                tail = 'while (%s < %d);' % (i, n)
            elif form == 1:
                tail = 'while ((%s, %s < %d));' % (self.tk(), i, n)
            elif form == 2:
                tail = 'while (0);'                                   # the early-exit idiom
            elif form == 3:
                tail = 'while ((%s, 0));' % self.tk()
            elif form == 4:
                # the condition moves the counter: skipping it is a different number of iterations
                top = []
                tail = 'while (++%s < %d);' % (i, n)
            elif form == 5:
                top = []
                tail = 'while ((s = s * 3 + 1, ++%s < %d));' % (i, n)
            elif form == 6:
                tail = 'while (%s < %d && %s);' % (i, n, self.cond(sub))
            else:
                j = self.var('j')
                pre.append('unsigned %s = 0;' % j)
                sub['counters'] = sub['counters'] + [(j, n)]
                tail = 'while (%s++ < %d && %s < %d);' % (j, r.randint(0, n), i, n)
            b = top + [self.tk() + ';'] + self.body(sub, depth - 1)
            return ['{'] + ind(pre + ['do {'] + ind(b) + ['} ' + tail] + post) + ['}']
        # a loop made of labels and gotos: head label, hand-written continue label at the end of the body, exit label
        lh, lc, lx = self.label(), self.label(), self.label()
        sub = dict(sub, loop=None, switch=None if ctx['switch'] is None else 'outer',
                   labels=sub['labels'] + [(lc, 'to-label-at-end-of-body'), (lc, 'to-label-at-end-of-body'), (lx, 'forward-exit-of-goto-loop')])
        if ctx['loop']:
            # (break / continue inside still belong to the enclosing real loop)
            sub['loop'] = ctx['loop']
        self.feats.add('goto-loop')
        pre = ['unsigned %s = 0;' % i]
        b = self.body(sub, depth - 1)
        return ['{'] + ind(pre + ['%s: %s' % (lh, self.tk() + ';')] + b +
                           ['%s: ;' % lc, 'if (%s, ++%s < %d) goto %s;' % (self.tk(), i, n, lh), '%s: %s' % (lx, self.simple(ctx))] + post) + ['}']

    def probe(self, pid):
        r = self.r
        self.k = 0
        ctx = dict(loop=None, switch=None, labels=[], counters=[], nest=0, nolabel=False)
        b = []
        # at least one loop per probe; loops are what the probe is about
        for _ in range(r.randint(1, 2)):
            b += self.loop(ctx, r.choice([2, 2, 3, 3, 4]))
            if r.random() < 0.3:
                b += self.stmt(ctx, 2)
        return (['static void k%d (void) {' % pid, '  unsigned s = %d;' % r.randint(0, 9), '  T = 0;', '  steps = 0;'] + ind(b) +
                ['  printf ("k%d %%llu %%u\\n", T, s);' % pid, '}'])


def ind(lines):
    return ['  ' + l for l in lines]


def generate(rng, nprobes=24):
    g = Gen(rng)
    out = [PRELUDE]
    for p in range(nprobes):
        out += g.probe(p) + ['']
    out += ['int main (void) {'] + ['  k%d ();' % p for p in range(nprobes)] + ['  return 0;', '}']
    return '\n'.join(out) + '\n', sorted(g.feats)


def focus(text, pid):
    """the program with probe k<pid> only"""
    keep, skip = [], False
    import re
    for l in text.split('\n'):
        m = re.match(r'static void k(\d+) \(void\) \{', l)
        if m and int(m.group(1)) != pid:
            skip = True
        c = re.match(r'  k(\d+) \(\);', l)
        if c and int(c.group(1)) != pid:
            continue
        if skip:
            if l == '}':
                skip = False
            continue
        keep.append(l)
    return '\n'.join(keep)


if __name__ == '__main__':
    import random
    import sys
    t, f = generate(random.Random(int(sys.argv[1]) if len(sys.argv) > 1 else 1))
    sys.stdout.write(t)

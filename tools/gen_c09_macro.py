# C09 part 2: seeded generator of macro definition sets + invocation texts, and of nested conditional
# directive structures; plus a pp-token tokenizer for comparing `c2m -E` with `gcc -E -P` / `clang -E -P`.
# Only constructs with behaviour defined by C11 6.10 are produced:
#   * `#` only before a parameter of a function-like macro; `##` never first/last in a replacement list and
#     its operands are identifiers, numbers or parameters whose arguments are a single identifier/number or
#     empty (every paste result is a valid pp-token); `#` and `##` operands never adjacent to each other;
#   * calls have the right number of arguments, balanced parentheses, no directives inside arguments;
#   * self reference and mutual recursion are allowed (blue paint); the cases where the standard leaves the
#     nesting unspecified are filtered by the check: a case counts only if gcc and clang agree on it.
import re

IDS = ['p', 'q', 'r', 'zz', 'k9']
NUMS = ['1', '22', '0x3', '4u', '5.5']
PUNCT = ['+', '-', '*', '/', '<', '>', '=', ';', '&&', '|', '!', '?', ':', '<<', '->', '.', '++', '==']
PUNCT_PASTES = [('<', '<'), ('>', '>'), ('-', '>'), ('+', '+'), ('-', '-'), ('<', '='), ('>', '='), ('=', '='), ('!', '='),
                ('&', '&'), ('|', '|'), ('<<', '='), ('>>', '='), ('+', '='), ('*', '='), ('.', '5'), ('1', '.5'), ('0x', '3'),
                ('p', '1'), ('1e', '3')]
STRS = ['"s"', '"a b"', '"x\\n"', '"q\\"r"', "'c'", "'\\\\'", '"\\\\"']


class MacroGen:
    def __init__(self, rng, prefix):
        self.r = rng
        self.px = prefix
        self.macros = []    # dict(name, params (None=object-like), variadic, body tokens, paste_params, kinds)
        self.feats = set()

    def name(self, i):
        return '%sM%d' % (self.px, i)

    def plain_tok(self):
        r = self.r
        k = r.random()
        if k < 0.35:
            return r.choice(IDS)
        if k < 0.55:
            return r.choice(NUMS)
        if k < 0.9:
            return r.choice(PUNCT)
        return r.choice(STRS)

    def gen_macros(self, n):
        r = self.r
        names = [self.name(i) for i in range(n)]
        for i in range(n):
            fl = r.random() < 0.6
            params = None
            variadic = False
            if fl:
                params = ['x', 'y', 'z'][:r.choice([0, 1, 1, 2, 2, 3])]
                if r.random() < 0.25:
                    variadic = True
                    self.feats.add('variadic')
            pnames = list(params or []) + (['__VA_ARGS__'] if variadic else [])
            body = []
            paste_params = set()
            strfy_params = set()
            m = r.randint(0, 7)
            if m == 0:
                self.feats.add('empty-replacement')
            j = 0
            while j < m:
                k = r.random()
                if k < 0.30 and pnames:
                    body.append(('param', r.choice(pnames)))
                elif k < 0.42 and params is not None and pnames:
                    p = r.choice(pnames)
                    if body and body[-1][0] == 'paste':
                        body.append(('param', p))
                    else:
                        body.append(('strfy', p))
                        strfy_params.add(p)
                        self.feats.add('stringify')
                elif k < 0.60:
                    # other macro name, own name (self reference) or a later one (mutual recursion possible)
                    t = r.choice(names)
                    if t == names[i]:
                        self.feats.add('self-reference')
                    body.append(('tok', t))
                elif k < 0.72 and body and j < m - 1 and body[-1][0] in ('tok', 'param') and \
                        (body[-1][0] == 'param' or re.match(r'^\w+$', body[-1][1])):
                    # a ## b with b an identifier, number or parameter
                    left = body[-1]
                    if left[0] == 'param':
                        if left[1] == '__VA_ARGS__':
                            body.append(('tok', r.choice(IDS)))
                            j += 1
                            continue
                        paste_params.add(left[1])
                    body.append(('paste', '##'))
                    if pnames and r.random() < 0.6:
                        p = r.choice([q for q in pnames if q != '__VA_ARGS__'] or [None])
                        if p is None:
                            body.append(('tok', r.choice(IDS + ['1', '22'])))
                        else:
                            body.append(('param', p))
                            paste_params.add(p)
                    else:
                        body.append(('tok', r.choice(IDS + ['1', '22'] + names[:2])))
                    self.feats.add('paste')
                    if len(body) >= 5 and body[-4][0] == 'paste':
                        self.feats.add('paste-chain')
                    j += 1
                elif k < 0.745 and j < m - 1:
                    a, b = r.choice(PUNCT_PASTES)
                    body += [('tok', a), ('paste', '##'), ('tok', b)]
                    self.feats.add('paste-punctuators')
                    j += 1
                elif k < 0.80:
                    body += [('tok', '('), ('tok', self.plain_tok() if r.random() < 0.5 else r.choice(names)), ('tok', ')')]
                else:
                    body.append(('tok', self.plain_tok()))
                j += 1
            # a parameter used with # must not also be a ## operand next to it; keep them apart entirely
            for p in list(strfy_params):
                if p in paste_params:
                    body = [(('param', b[1]) if b == ('strfy', p) else b) for b in body]
            # a strfy directly followed/preceded by paste is order-unspecified: break such adjacency
            out = []
            for b in body:
                if b[0] == 'paste' and out and out[-1][0] == 'strfy':
                    out.append(('tok', r.choice(IDS)))
                out.append(b)
            body = out
            if body and body[-1][0] == 'paste':
                body.append(('tok', r.choice(IDS)))
            if params is None:
                body = [b for b in body if b[0] != 'strfy']
            self.macros.append(dict(name=names[i], params=params, variadic=variadic, body=body,
                                    paste_params=paste_params))
        return self.macros

    def define_text(self, m):
        toks = []
        for b in m['body']:
            if b[0] == 'strfy':
                toks.append('#' + (' ' if self.r.random() < 0.3 else '') + b[1])
            else:
                toks.append(b[1])
        head = m['name']
        if m['params'] is not None:
            ps = list(m['params']) + (['...'] if m['variadic'] else [])
            head += '(' + (', ' if self.r.random() < 0.5 else ',').join(ps) + ')'
        return '#define %s %s' % (head, ' '.join(toks))

    def arg(self, depth, single):
        """an argument: single=True -> one identifier/number or empty (for ## operands)"""
        r = self.r
        if single:
            k = r.random()
            if k < 0.25:
                self.feats.add('empty-arg')
                return ''
            if k < 0.5:
                return r.choice(NUMS[:3])
            if k < 0.8:
                return r.choice(IDS)
            return r.choice([m['name'] for m in self.macros])
        n = r.choice([0, 1, 1, 2, 3])
        if n == 0:
            self.feats.add('empty-arg')
        toks = []
        for _ in range(n):
            k = r.random()
            if k < 0.35 and depth > 0:
                toks.append(self.call(depth - 1))
                self.feats.add('nested-call')
            elif k < 0.5:
                toks.append('(' + self.plain_tok() + ' , ' + self.plain_tok() + ')')
                self.feats.add('comma-in-parens')
            else:
                toks.append(self.plain_tok())
        out = ''
        for t in toks:
            # a literal directly followed by the next token (no white space): lexically safe
            if out and out[-1] in '"\'' and t[0] not in '"\'' and r.random() < 0.5:
                out += t
                self.feats.add('literal-adjacent-token')
            else:
                out += (' ' if out else '') + t
        return out

    def by_name(self, n):
        for m in self.macros:
            if m['name'] == n:
                return m
        return None

    def tail_function(self, m, fuel=4):
        """the function-like macro whose name the expansion of m ends with (through object-like aliases)"""
        if fuel == 0 or not m['body'] or m['body'][-1][0] != 'tok':
            return None
        t = self.by_name(m['body'][-1][1])
        if t is None or t is m:
            return None
        if t['params'] is not None:
            return t
        return self.tail_function(t, fuel - 1)

    def arglist(self, m, depth):
        args = [self.arg(depth, p in m['paste_params']) for p in m['params']]
        if m['variadic']:
            nv = self.r.choice([0, 1, 2])
            if nv == 0:
                if m['params']:
                    args.append('')
            else:
                args += [self.arg(depth, False) for _ in range(nv)]
        return '(%s)' % self.r.choice([', ', ',', ' , ']).join(args)

    def call(self, depth):
        r = self.r
        m = r.choice(self.macros)
        s = self.call1(m, depth)
        tf = self.tail_function(m)
        if tf is not None and r.random() < 0.7:
            # the expansion ends with the name of a function-like macro: its arguments follow the call
            self.feats.add('args-after-end-of-replacement')
            s += r.choice(['', ' ']) + self.arglist(tf, depth)
        return s

    def call1(self, m, depth):
        r = self.r
        if m['params'] is None:
            return m['name']
        if r.random() < 0.08:
            self.feats.add('function-like-name-without-call')
            return m['name'] + ' ' + r.choice(IDS + [';'])
        args = [self.arg(depth, p in m['paste_params']) for p in m['params']]
        if m['variadic']:
            nv = r.choice([0, 1, 2, 3])
            if nv == 0:
                # C11 6.10.3p4: at least one (possibly empty) argument for the ellipsis
                if m['params']:
                    args.append('')
            else:
                args += [self.arg(depth, False) for _ in range(nv)]
        sp = r.choice(['', '', ' ', '\n'])
        if sp == '\n':
            self.feats.add('call-across-lines')
        if not args:
            inner = r.choice(['', '', ' ', '\n', ' \n ', '/* c */'])
            if '\n' in inner:
                self.feats.add('newline-in-empty-call')
            return '%s%s(%s)' % (m['name'], sp, inner)
        return '%s%s(%s)' % (m['name'], sp, r.choice([', ', ',', ' , ']).join(args))

    def use_text(self, nlines):
        r = self.r
        lines = []
        for _ in range(nlines):
            toks = []
            for _ in range(r.randint(1, 4)):
                if r.random() < 0.7:
                    toks.append(self.call(2))
                else:
                    toks.append(self.plain_tok())
            lines.append(' '.join(toks) + ' ;')
        return '\n'.join(lines)


# the XS(x) -> S(x) -> #x form shows the white space c2mir keeps between the tokens of an expanded argument; it is
# switched on with fixes/C09-8.patch in /repo (before it, `a ## <empty> b` lost its white space)
STRINGIFY_EXPANDED = True
MODEL_QUIRKS = '000'      # the quirk word of ocaml/driver_c09fn.ml that describes /repo as it is


def gen_macro_case(rng, idx):
    g = MacroGen(rng, 'c%d_' % idx)
    g.gen_macros(rng.randint(1, 5))
    extra_defs, extra_use = [], []
    cands = [m for m in g.macros if m['params'] and not m['paste_params']]
    if cands and rng.random() < 0.3:
        # C11 6.10.3.5 EXAMPLE 3 (`#define h g(~`, `h 5)`): the call is opened inside a replacement list, possibly
        # nested through aliases, and closed by the text after it
        f = rng.choice(cands)
        depth = rng.choice([0, 1, 1, 2, 3])
        px = g.px + 'Op'
        first = g.plain_tok() if rng.random() < 0.7 else ''
        extra_defs.append('#define %s0 %s%s(%s' % (px, f['name'], rng.choice(['', ' ']), first))
        for k in range(depth):
            extra_defs.append('#define %s%d %s%d%s' % (px, k + 1, px, k, rng.choice(['', ' ' + rng.choice(IDS)]) if k == 0 and False else ''))
        rest = [g.arg(1, False)] + [g.arg(1, False) for _ in f['params'][1:]]
        if f['variadic']:
            rest.append(g.arg(1, False))
        extra_use.append('%s%d %s ) ;' % (px, depth, ' , '.join(rest)))
        g.feats.add('call-opened-in-replacement-depth-%d' % depth)
    if STRINGIFY_EXPANDED and rng.random() < 0.35:
        # the spelling of a macro-EXPANDED argument (white space included) made visible: XS(x) -> S(x) -> #x
        px = g.px + 'St'
        extra_defs.append('#define %sS(x) #x' % px)
        extra_defs.append('#define %sXS(x) %sS(x)' % (px, px))
        extra_defs.append('#define %sVS(...) %sS(__VA_ARGS__)' % (px, px))
        for _ in range(rng.randint(1, 2)):
            if rng.random() < 0.7:
                extra_use.append('%sXS(%s) ;' % (px, g.arg(2, False)))
            else:
                extra_use.append('%sVS(%s) ;' % (px, rng.choice([', ', ',', ' , ']).join(g.arg(2, False) for _ in range(rng.randint(1, 3)))))
        g.feats.add('stringify-expanded-argument')
    text = '\n'.join([g.define_text(m) for m in g.macros] + extra_defs) + '\n' + \
           '\n'.join([g.use_text(rng.randint(1, 3))] + extra_use) + '\n'
    return text, sorted(g.feats)


# ------------------------------------------------------------------ pp-number lexing (round 3, wave 6)
# C11 6.4.8: pp-number = digit | . digit | pp-number digit | pp-number identifier-nondigit | pp-number e/E/p/P sign | pp-number .
# -- one rule for every base: `0xe+X` is ONE pp-number (X is not a macro use), `0xf+X` is three tokens.  A case puts random
# pp-numbers of every shape of the grammar directly next to macro names / parameter names / calls (with and without white
# space at every boundary) and shows where the lexer ended the number through plain expansion, # (spelling, also of the
# pre-expanded argument), ## (pieces pasted into a pp-number and a pp-number pasted with what follows), arguments,
# object-like and function-like replacement lists (a parameter name swallowed by a pp-number is not a parameter).
_PPN_START = ['0x', '0X', '0x', '0', '1', '9', '12', '.5', '.0', '0x1', '0X.8', '1.', '0x1.', '00', '0b1', '7']
_PPN_MID = list('0123456789') + list('abcdefABCDEF') + list('eEpP') * 3 + list('xXuUlLfF_gzGZ') + ['.', '.', '..'] + \
    ['e+', 'e-', 'E+', 'E-', 'p+', 'p-', 'P+', 'P-'] * 2
_PPN_LAST = list('eEpP') * 4 + list('eEpP') * 4 + list('fFdDaA19') + ['_', '.', 'u', 'x', 'X', 'e+', 'P-', 'e1', 'p2', 'ee', 'pE', 'Ep']


def gen_ppnumber(rng):
    s = rng.choice(_PPN_START)
    for _ in range(rng.choice([0, 0, 0, 1, 1, 2, 3, 5])):
        s += rng.choice(_PPN_MID)
    if rng.random() < 0.75:
        s += rng.choice(_PPN_LAST)
    return s


def gen_ppnum_case(rng, idx):
    feats = set()
    # macro names beginning with the letters the scanner looks at, so that a name directly after a number is tempting
    X = ['%s%d%s' % (c, idx, rng.choice(['', '_', 'e', 'p'])) for c in rng.sample(['X', 'e', 'E', 'p', 'P', 'x', 'f', '_', 'n'], 4)]
    F = 'F%d_' % idx
    S, XS, C, XC, ID = ['%s%d_' % (n, idx) for n in ('S', 'XS', 'C', 'XC', 'ID')]
    defs = ['#define %s %s' % (X[0], rng.choice(['1', '7', '3'])),
            '#define %s %s' % (X[1], rng.choice(['2', '0x1e', '1e', '0xE', '4p', '(8)'])),
            '#define %s %s' % (X[2], rng.choice(['+', '-', '+5', '- %s' % X[0], X[0]])),
            '#define %s(x) [x]' % F,
            '#define %s(x) #x' % S, '#define %s(x) %s(x)' % (XS, S),
            '#define %s(a,b) a##b' % C, '#define %s(a,b) %s(a,b)' % (XC, C), '#define %s(x) x' % ID]
    # (X[3] stays undefined: an ordinary identifier)

    def ends_exp(n):
        return n[-1] in 'eEpP'

    def tail(n):
        """what follows the number directly, and the name of the feature"""
        w = rng.random()
        nm = rng.choice(X)
        sg = rng.choice('+-')
        if w < 0.34:
            t, f = sg + nm, 'sign-name'
        elif w < 0.42:
            t, f = nm, 'name-directly'
        elif w < 0.48:
            t, f = '.' + nm, 'dot-name'
        elif w < 0.55:
            t, f = sg + rng.choice('+-') + nm, 'sign-sign-name'
        elif w < 0.62:
            t, f = ' ' + sg + nm, 'space-sign-name'
        elif w < 0.69:
            t, f = sg + ' ' + nm, 'sign-space-name'
        elif w < 0.77:
            t, f = sg + '%s(%s)' % (F, rng.choice([nm, '2', gen_ppnumber(rng) + sg + nm])), 'sign-call'
        elif w < 0.83:
            t, f = sg + '(' + nm + ')', 'sign-paren-name'
        elif w < 0.9:
            t, f = sg + gen_ppnumber(rng) + rng.choice(['', sg]) + nm, 'sign-number-name'
        elif w < 0.95:
            t, f = sg + nm + sg + gen_ppnumber(rng) + sg + nm, 'sign-name-sign-number-sign-name'
        else:
            t, f = '', 'nothing'
        return t, f

    def unit():
        n = gen_ppnumber(rng)
        t, f = tail(n)
        feats.add('ppnum-tail:' + f)
        feats.add('ppnum:%s-%s' % ('hex' if n[:2] in ('0x', '0X') else 'dot' if n[0] == '.' else 'dec',
                                   'ends-in-' + n[-1] if ends_exp(n) else 'exp-sign-inside' if re.search(r'[eEpP][+-]', n) else 'plain'))
        if ends_exp(n) and t[:1] in ('+', '-') :
            feats.add('ppnum-sign-continues-the-number:' + ('hex-' if n[:2] in ('0x', '0X') else 'dec-') + n[-1].lower())
        return n, t

    uses = []
    for _ in range(rng.randint(3, 6)):
        n, t = unit()
        w = rng.random()
        if w < 0.25:
            uses.append('%s%s' % (n, t))
            feats.add('ppnum-context:plain')
        elif w < 0.37:
            uses.append('%s(%s%s%s)' % (S, rng.choice(['', ' ']), n + t, rng.choice(['', ' '])))
            feats.add('ppnum-context:stringify')
        elif w < 0.55:
            uses.append('%s(%s%s%s)' % (XS, rng.choice(['', ' ']), n + t, rng.choice(['', ' '])))
            feats.add('ppnum-context:stringify-expanded')
        elif w < 0.63:
            uses.append('%s(%s%s)' % (rng.choice([F, ID]), n, t))
            feats.add('ppnum-context:argument')
        elif w < 0.75:
            # number ## what follows (the right operand is a number / a name; the result is one pp-number again)
            r = rng.choice([X[0], X[3], '0', gen_ppnumber(rng), rng.choice(X) + '9'])      # (expands to a number or not at all)
            # (a tail is kept only where it is part of the number, so that every paste gives a valid pp-token)
            absorbed = re.match(r'^\.?[A-Za-z_]\w*$', t) or (ends_exp(n) and re.match(r'^[+-][A-Za-z_]\w*$', t))
            uses.append('%s(%s%s,%s)' % (rng.choice([C, XC]), n, t if absorbed else '', r))
            feats.add('ppnum-context:paste-after')
        elif w < 0.83:
            # pieces pasted into a number: `0xe ## +` is the pp-number `0xe+`; then a name follows it directly
            if ends_exp(n) or n[-1] == '.':
                pc = rng.choice('+-') if ends_exp(n) else rng.choice(['5', '.', 'e'])
            else:
                pc = rng.choice(['e', 'E', 'p', 'P', '.', '1', '_'])
            uses.append('%s(%s,%s)%s' % (rng.choice([C, XC]), n, pc, rng.choice([rng.choice(X), rng.choice('+-') + rng.choice(X), ' ' + rng.choice(X)])))
            feats.add('ppnum-context:paste-pieces')
        elif w < 0.92:
            nm = 'R%d_%d' % (idx, len(defs))
            defs.append('#define %s %s%s' % (nm, n, t))
            uses.append(rng.choice([nm, '%s(%s)' % (XS, nm), '%s+%s' % (nm, rng.choice(X))]))
            feats.add('ppnum-context:object-like-replacement-list')
        else:
            nm = 'G%d_%d' % (idx, len(defs))
            par = rng.choice(['x', 'e', 'p', 'E1', 'P_'])
            sg = rng.choice('+-')
            defs.append('#define %s(%s) %s%s%s %s %s%s%s' % (nm, par, n, rng.choice([sg, sg, '', '.']), par, rng.choice(';,'), par, sg, n + t))
            uses.append('%s(%s)' % (nm, rng.choice(['3', rng.choice(X), gen_ppnumber(rng)])))
            feats.add('ppnum-context:function-like-replacement-list-next-to-parameter')
    text = '\n'.join(defs) + '\n' + ''.join('%s %s\n' % (u, rng.choice([';', ';', ','])) for u in uses)
    return text, sorted(feats)


# ------------------------------------------------------------------ line structure (round 3, wave z)
# Text lines and directives INTERLEAVED: what the preprocessor must remember across a new-line is only "this is the start of a
# line" (C11 6.10p2: a directive begins with a # that is the first token of a line), whatever token sequence the previous line
# ended with and whatever the expansion machinery did with the new-line while looking at it (skipping it in the search for the
# `(` of a function-like macro, collecting it into an argument, passing an end-of-replacement marker, ...).  A case is a random
# tree of if-sections whose groups hold text lines ending in every kind of token sequence, each followed by directives whose
# effect is observable (#define / #undef / redefinition of the very macro named at the end of the line, conditionals with marker
# tokens in every group, #include, the null directive); the macro state is printed at the end.
LINE_INC_NAME = 'c09tail.h'      # a header whose last token is the bare name of a function-like macro
LINE_INC_TEXT = '#define C09TAIL(x) < x >\nc09tail_body C09TAIL\n'


def gen_line_case(rng, idx, inc_name=None, comments=True):
    px = 'l%d_' % idx
    F, Z, V, AL, AL2, TAIL, ID, PAIR, EMPTY, RF, ST, OBJ = [px + n for n in
        ('F', 'Z', 'V', 'AL', 'AL2', 'TAIL', 'ID', 'PAIR', 'EMPTY', 'RF', 'ST', 'OBJ')]
    feats = set()
    fnames = [F, Z, V]
    al_target = rng.choice(fnames)
    defs = ['#define %s(x) (( x ) + ( x ))' % F, '#define %s() [ z ]' % Z, '#define %s(...) < __VA_ARGS__ >' % V,
            '#define %s %s' % (AL, al_target), '#define %s %s %s' % (AL2, rng.choice(['', 'q', '+']), AL),
            '#define %s(x) x %s' % (TAIL, rng.choice(fnames)), '#define %s(x) x' % ID, '#define %s(x, y) x y' % PAIR,
            '#define %s' % EMPTY, '#define %s(x) x %s' % (RF, RF), '#define %s 0' % ST, '#define %s ( 7 )' % OBJ]
    rng.shuffle(defs)
    cnt = [0]

    def bare():
        return rng.choice(fnames)

    def ending():
        """(text, feature): the token sequence a line ends with"""
        k = rng.random()
        if k < 0.34:
            f = bare()
            pre = rng.choice(['', '', '= & ', '{ %s , ' % bare(), 'p ', '1 + ', EMPTY + ' '])
            return pre + f, 'bare-function-like-name'
        if k < 0.42:
            return rng.choice([AL, AL2, '& ' + AL]), 'object-like-alias-of-function-like-name'
        if k < 0.50:
            return rng.choice(['%s(1)' % TAIL, '%s( %s )' % (TAIL, bare()), '%s(%s(2))' % (ID, TAIL), '%s(1)' % RF]), \
                'call-whose-expansion-ends-with-function-like-name'
        if k < 0.60:
            f = bare()
            return rng.choice(['%s(%s)' % (ID, f), '%s( %s )' % (ID, f), '%s(%s\n)' % (ID, f), '%s(\n%s)' % (ID, f),
                               '%s(%s , %s)' % (PAIR, f, bare()), '%s(%s)' % (V, f), '%s(%s(%s ))' % (ID, ID, f),
                               '%s(%s, %s)' % (PAIR, AL, f), '%s(%s)' % (ID, AL)]), 'function-like-name-inside-arguments'
        if k < 0.72:
            f = bare()
            nxt = rng.choice([AL, EMPTY, ST, OBJ + ' x', '%s(2)' % ID, '%s(1)' % F, '%s()' % Z, bare(), '%s %s' % (EMPTY, EMPTY),
                              '%s %s' % (EMPTY, bare()), '%s(%s)' % (ID, EMPTY)])
            return f + rng.choice([' ', ' ', '\n', ' /* c */ ' if comments else '  ']) + nxt, 'function-like-name-before-another-macro'
        if k < 0.80:
            return rng.choice(['%s\n(3)' % F, '%s (3)' % F, '%s\n\n( )' % Z, '%s\n(1,\n2)' % V, '%s\n%s' % (AL, '( )' if al_target == Z else '(4)'),
                               '%s(5\n)' % F]), 'call-across-lines'
        if k < 0.85:
            return rng.choice([EMPTY, '%s %s' % (EMPTY, EMPTY), '%s(%s)' % (ID, EMPTY), '%s()' % ID]), 'empty-expansion'
        if comments and rng.random() < 0.15:
            # predefined macros take their own path through the main loop (no replacement list)
            return rng.choice(['__LINE__', '__STDC__', '__STDC_VERSION__', '__STDC_HOSTED__', '%s __LINE__' % bare()]), 'predefined-macro'
        return rng.choice(['p', '22', '+', '"s"', "'c'", ')', ';', ST, '%s(1)' % F, '%s()' % Z, OBJ, '#', 'p #', '%s #' % bare()]), 'ordinary-token'

    def tail_ws():
        k = rng.random()
        if k < 0.5:
            return ''
        if k < 0.62:
            feats.add('white-space-before-newline')
            return rng.choice([' ', '\t', '  '])
        if k < 0.74 and comments:
            feats.add('comment-before-newline')
            return rng.choice([' /* c */', '/**/', ' // c', ' /* a\n b */', ' /* a\n#undef x\n*/ '])
        feats.add('blank-lines-before-directive')
        return rng.choice(['\n', '\n\n', ' \n \n', '\n/* c */' if comments else '\n\t'])

    def text_line():
        cnt[0] += 1
        e, f = ending()
        feats.add('end-of-line:' + f)
        mid = ' '.join(rng.choice(['p', '1', '+', ST, '%s(2)' % F, AL, bare() + ' ;', OBJ, EMPTY]) for _ in range(rng.choice([0, 0, 1, 2])))
        head = '%sk%d' % (px, cnt[0])
        if rng.random() < 0.3 and (mid or e).lstrip()[:1] not in ('(', '#'):
            head = ''            # the line starts with the interesting tokens themselves (never with a parenthesis)
        return ' '.join(x for x in (head, mid, e) if x) + tail_ws()

    def cond():
        k = rng.random()
        if k < 0.3:
            return rng.choice(['0', '1', '2 > 1', '1 - 1'])
        if k < 0.55:
            return rng.choice(['defined(%s)', '!defined(%s)', 'defined %s']) % rng.choice([ST, F, AL, px + 'NO'])
        if k < 0.8:
            return '%s %s %d' % (ST, rng.choice(['==', '!=', '<']), rng.randint(0, 2))
        return '(%s + 1) * 2 > %d' % (ST, rng.randint(1, 7))

    def directive(lines, depth):
        k = rng.random()
        if k < 0.22:
            lines.append('#undef %s' % ST)
            if rng.random() < 0.65:
                lines.append('#define %s %d' % (ST, rng.randint(1, 3)))
            feats.add('directive:define/undef')
        elif k < 0.36:
            # the macro named at the end of the line itself goes away / changes
            f = rng.choice([F, AL, EMPTY, ID])
            lines.append('#undef %s' % f)
            if rng.random() < 0.7:
                lines.append({F: '#define %s(x) { x }' % F, AL: '#define %s %s' % (AL, rng.choice(fnames + ['al'])),
                              EMPTY: '#define %s' % EMPTY, ID: '#define %s(x) x' % ID}[f])
            feats.add('directive:redefine-macro-in-use')
        elif k < 0.44:
            lines.append(rng.choice(['#', '# ', '#  /* null */' if comments else '#\t']))
            feats.add('directive:null')
        elif k < 0.52 and inc_name:
            lines.append('#include "%s"' % inc_name)
            lines.append(rng.choice(['#undef C09TAIL', '%sk%d C09TAIL(1) ;' % (px, 900 + cnt[0])]))
            feats.add('directive:include-of-header-ending-with-function-like-name')
        elif depth > 0:
            form = rng.random()
            lines.append('#if ' + cond() if form < 0.5 else ('#ifdef ' if form < 0.75 else '#ifndef ') + rng.choice([ST, F, px + 'NO']))
            block(lines, depth - 1)
            for _ in range(rng.choice([0, 0, 1, 2])):
                lines.append('#elif ' + cond())
                block(lines, depth - 1)
            if rng.random() < 0.6:
                lines.append('#else')
                block(lines, depth - 1)
            lines.append('#endif')
            feats.add('directive:conditional')
        else:
            lines += ['#undef %s' % ST, '#define %s %d' % (ST, rng.randint(1, 3))]

    def block(lines, depth):
        for _ in range(rng.randint(1, 3)):
            if rng.random() < 0.75:
                lines.append(text_line())
            directive(lines, depth)
            if rng.random() < 0.3:
                directive(lines, depth)

    lines = []
    block(lines, 2)
    lines.append('%s %s(9) %s %s ;' % (ST, F, AL, EMPTY))           # the macro state at the end
    if rng.random() < 0.5:
        feats.add('bare-function-like-name-ends-the-case')
        lines.append('%sk0 %s' % (px, bare()))
    names = [F, Z, V, AL, AL2, TAIL, ID, PAIR, EMPTY, RF, ST, OBJ]
    return '\n'.join(defs + lines) + '\n', sorted(feats), names


# ------------------------------------------------------------------ conditional structures
# A structure is generated as a tree (the C11 view: if-sections with their groups), rendered as text for the
# preprocessors and in prefix form for the PpCond model (ocaml/driver_c09fn.ml, query `K`).
#   elem = ('T', k) | ('D', n, v) | ('U', n) | ('S', head, elems, tail)
#   head = ('I', cond) | ('F', n) | ('N', n)        tail = ('E',) | ('L', cond, elems, tail) | ('O', elems)
#   cond = (text, [model words])
_CONSTS = [('0', 'c0'), ('1', 'c1'), ('2 > 1', 'c1'), ('1 - 1', 'c0'), ('-1 < 0u', 'c0'), ('(1 ? 0 : 1)', 'c0'),
           ('0x10 >> 4', 'c1'), ('!1', 'c0')]


def gen_cond_tree(rng, idx):
    px = 'd%d_' % idx
    names = [px + 'A', px + 'B', px + 'C']
    feats = set()
    cnt = [0]

    def cond():
        k = rng.random()
        n = rng.randrange(3)
        if k < 0.22:
            t, w = rng.choice(_CONSTS)
            return (t, [w])
        if k < 0.245:
            feats.add('division-by-zero-condition')
            return (rng.choice(['1 / 0', '1 % 0 == 0']), ['x'])
        if k < 0.5:
            return ('defined(%s)' % names[n], ['d', str(n)])
        if k < 0.65:
            return ('!defined %s' % names[n], ['!', 'd', str(n)])
        if k < 0.8:
            m = rng.randrange(3)
            return ('defined(%s) && !defined(%s)' % (names[n], names[m]), ['&', 'd', str(n), '!', 'd', str(m)])
        if k < 0.9:
            return ('%s + 0' % names[n], ['z', str(n)])
        v = rng.randint(0, 2)
        return ('%s == %d' % (names[n], v), ['=', str(n), str(v)])

    def elems(depth):
        out = []
        for _ in range(rng.randint(1, 3)):
            k = rng.random()
            if k < 0.30 or (depth == 0 and k >= 0.42):
                cnt[0] += 1
                out.append(('T', cnt[0]))
            elif k < 0.42:
                n = rng.randrange(3)
                out.append(('D', n, rng.randint(0, 2)) if rng.random() < 0.7 else ('U', n))
                feats.add('define/undef-in-group')
            else:
                form = rng.random()
                head = ('I', cond()) if form < 0.5 else (('F', rng.randrange(3)) if form < 0.75 else ('N', rng.randrange(3)))
                body = elems(depth - 1)
                groups = []
                for _ in range(rng.choice([0, 0, 1, 1, 2, 3])):
                    feats.add('elif')
                    groups.append((cond(), elems(depth - 1)))
                tail = ('E',)
                if rng.random() < 0.6:
                    feats.add('else')
                    tail = ('O', elems(depth - 1))
                for c, b in reversed(groups):
                    tail = ('L', c, b, tail)
                out.append(('S', head, body, tail))
                if depth < 3:
                    feats.add('nested-depth-%d' % (4 - depth))
        return out
    return elems(3), names, px, feats


def cond_text(tree, names, px):
    lines = []

    def r_elems(es):
        for e in es:
            if e[0] == 'T':
                lines.append('%sk%d ;' % (px, e[1]))
            elif e[0] == 'D':
                lines.append('#define %s %d' % (names[e[1]], e[2]))
            elif e[0] == 'U':
                lines.append('#undef %s' % names[e[1]])
            else:
                h = e[1]
                lines.append('#if ' + h[1][0] if h[0] == 'I' else ('#ifdef ' if h[0] == 'F' else '#ifndef ') + names[h[1]])
                r_elems(e[2])
                t = e[3]
                while t[0] == 'L':
                    lines.append('#elif ' + t[1][0])
                    r_elems(t[2])
                    t = t[3]
                if t[0] == 'O':
                    lines.append('#else')
                    r_elems(t[1])
                lines.append('#endif')
    r_elems(tree)
    lines.append(' '.join(names) + ' ;')          # shows the macro state at the end
    return '\n'.join(lines) + '\n'


def cond_query(tree):
    w = []

    def q_elems(es):
        w.append('[')
        for e in es:
            if e[0] == 'T':
                w.extend(['T', str(e[1])])
            elif e[0] == 'D':
                w.extend(['D', str(e[1]), str(e[2])])
            elif e[0] == 'U':
                w.extend(['U', str(e[1])])
            else:
                w.append('S')
                h = e[1]
                if h[0] == 'I':
                    w.append('I')
                    w.extend(h[1][1])
                else:
                    w.extend([h[0], str(h[1])])
                q_elems(e[2])
                q_tail(e[3])
        w.append(']')

    def q_tail(t):
        if t[0] == 'E':
            w.append('E')
        elif t[0] == 'L':
            w.append('L')
            w.extend(t[1][1])
            q_elems(t[2])
            q_tail(t[3])
        else:
            w.append('O')
            q_elems(t[1])
    q_elems(tree)
    return 'K ' + ' '.join(w)


def cond_expected(answer, names, px):
    """token list the model predicts for the text of cond_text; None when the model reports an error;
    raises ValueError when the C11 reading of the tree disagrees with the machine (a broken theorem)"""
    if 'SPEC-DIFFERS' in answer or answer.startswith('driver-error'):
        raise ValueError(answer)
    if not answer.startswith('ok'):
        return None
    parts = answer[2:].split('|')
    toks = []
    for k in parts[0].split():
        toks += ['%sk%s' % (px, k), ';']
    env = dict(p.split('=') for p in parts[1].split())
    for i, n in enumerate(names):
        toks.append(env.get(str(i), n))
    toks.append(';')
    return toks


def gen_cond_case(rng, idx):
    """nested #if/#ifdef/#ifndef/#elif/#else/#endif with marker tokens in every group"""
    tree, names, px, feats = gen_cond_tree(rng, idx)
    return cond_text(tree, names, px), sorted(feats)


# ------------------------------------------------------------------ tokenizer
_PUNCT = ['%:%:', '...', '<<=', '>>=', '->', '++', '--', '<<', '>>', '<=', '>=', '==', '!=', '&&', '||', '*=', '/=', '%=',
          '+=', '-=', '&=', '^=', '|=', '##', '<:', ':>', '<%', '%>', '%:']
_TOK = re.compile(r'''
    (?P<str>(?:u8|u|U|L)?"(?:[^"\\\n]|\\.)*")
  | (?P<chr>(?:u|U|L)?'(?:[^'\\\n]|\\.)*')
  | (?P<num>\.?[0-9](?:[eEpP][+-]|[A-Za-z0-9_.])*)
  | (?P<id>[A-Za-z_$][A-Za-z0-9_$]*)
  | (?P<punct>%s|[^\sA-Za-z0-9_])
''' % '|'.join(re.escape(p) for p in _PUNCT), re.X)


def tokenize(text):
    return [m.group(0) for m in _TOK.finditer(text)]


def strip_line_markers(out):
    return '\n'.join(l for l in out.split('\n') if not re.match(r'^\s*#\s*(line\b|\d)', l))


def split_cases(tokens, start='C09_START'):
    """{case index: token list}; None if the marker structure is damaged"""
    if start not in tokens:
        return None
    toks = tokens[tokens.index(start) + 1:]
    cases, cur, order = {}, None, []
    for t in toks:
        m = re.match(r'^C09_CASE_(\d+)$', t)
        if m:
            cur = int(m.group(1))
            if cur in cases:
                return None
            cases[cur] = []
            order.append(cur)
        elif cur is not None:
            cases[cur].append(t)
    return cases


def squash(tokens):
    """comparison that ignores token boundaries outside literals (c2m -E prints adjacent tokens unspaced)"""
    return ''.join(tokens)


# ------------------------------------------------------------------ encoding for the PpExpandFn model
# c2mir's token stream of a text: pp-tokens plus one ' ' or '\n' token per run of white space.
_LEX = re.compile(r'(?P<ws>(?:\s|/\*[^\n]*?\*/)+)|' + _TOK.pattern, re.X)   # a comment is white space


def lex_c2m(text):
    """[(kind, spelling)] with kind in i n p s c _ / ; None if some character is not lexed"""
    out, pos = [], 0
    for m in _LEX.finditer(text):
        if m.start() != pos:
            return None
        pos = m.end()
        if m.group('ws') is not None:
            out.append(('/' if '\n' in m.group('ws') else '_', ''))
        elif m.group('str') is not None:
            out.append(('s', m.group(0)))
        elif m.group('chr') is not None:
            out.append(('c', m.group(0)))
        elif m.group('num') is not None:
            out.append(('n', m.group(0)))
        elif m.group('id') is not None:
            out.append(('i', m.group(0)))
        else:
            out.append(('p', m.group(0)))
    return out if pos == len(text) else None


def _hex(s):
    return s.encode('latin-1').hex()


def _word(t):
    k, s = t
    return k if k in '_/R' else k + _hex(s)


_DEFINE = re.compile(r'^#define ([A-Za-z_]\w*)(\(([^)]*)\))?(.*)$')
_RESERVED = re.compile(r'^(__\w+__|defined|_Pragma)$')


def model_query(text, quirks=None):
    """the query line for ocaml/driver_c09fn.ml, or None when the text is outside the shape the model covers:
    `#define` lines (each name once) followed by text lines without directives"""
    quirks = quirks or MODEL_QUIRKS
    lines = text.split('\n')
    k = 0
    secs, names = [], set()
    while k < len(lines) and lines[k].startswith('#define '):
        m = _DEFINE.match(lines[k])
        if not m:
            return None
        name, par, plist, body = m.group(1), m.group(2), m.group(3), m.group(4)
        if name in names or _RESERVED.match(name):
            return None
        names.add(name)
        toks = lex_c2m(body)
        if toks is None:
            return None
        while toks and toks[0][0] in '_/':
            toks = toks[1:]
        while toks and toks[-1][0] in '_/':
            toks = toks[:-1]
        toks = [('R', '') if t == ('p', '##') else t for t in toks]
        if toks and (toks[0][0] == 'R' or toks[-1][0] == 'R'):
            return None
        if par is None:
            secs.append('D %s O %s' % (_hex(name), ' '.join(_word(t) for t in toks)))
        else:
            ps = [p.strip() for p in plist.split(',')] if plist.strip() else []
            if any(not re.match(r'^([A-Za-z_]\w*|\.\.\.)$', p) for p in ps) or '...' in ps[:-1]:
                return None
            secs.append('D %s F %s | %s' % (_hex(name), ' '.join(_hex(p) for p in ps), ' '.join(_word(t) for t in toks)))
        k += 1
    use = '\n'.join(lines[k:])
    if re.search(r'^\s*#', use, re.M):
        return None
    toks = lex_c2m(use)
    if toks is None or any(k == 'i' and _RESERVED.match(s) for k, s in toks):
        return None
    secs.append('U ' + ' '.join(_word(t) for t in toks))
    return 'F q%s %s' % (quirks, ' ; '.join(secs))


def model_tokens(answer):
    """spellings of the non-white-space tokens of a driver answer `out ...`; None for err/fuel"""
    w = answer.split()
    if not w or w[0] != 'out':
        return None
    res = []
    for t in w[1:]:
        if t in '_/':
            continue
        if t in ('R', 'PLM', 'BOA', 'EOA', 'EOR'):
            res.append('<%s>' % t)
        else:
            res.append(bytes.fromhex(t[1:]).decode('latin-1'))
    return res

#!/usr/bin/env python3
# validates MANIFEST.json and evidence/*.json against the schemas (uses the tooling venv's jsonschema)
import json, sys, glob, os
import jsonschema
H = os.path.dirname(os.path.dirname(os.path.abspath(__file__)))
ok = True
def v(path, schema):
    global ok
    try:
        jsonschema.validate(json.load(open(path)), json.load(open(schema)))
        print('ok  ', path)
    except Exception as e:
        ok = False
        print('FAIL', path, str(e)[:300])
v(H + '/MANIFEST.json', '/root/.vp/MANIFEST.schema.json')
for f in sorted(glob.glob(H + '/evidence/*.json')):
    v(f, '/root/.vp/EVIDENCE.schema.json')
sys.exit(0 if ok else 1)
